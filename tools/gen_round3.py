#!/usr/bin/env python3
# Regenerates DESIGN.md §9.2 (third round: behaviour-preserving refactors) from seeded/refactor-r3-*/meta.json
# and records in each meta that the refactor is silent now (measured by tools/sweep.sh; run that first).
import json,glob,re,sys,subprocess
rows=[]
for m in sorted(glob.glob('/verif/seeded/refactor-r3-*/meta.json')):
    d=json.load(open(m)); n=m.split('/')[-2]
    what=d.get('what','').replace('|','/').replace('\n',' ')
    what=re.sub(r'\*\*','',what)[:150]
    rows.append((n,d.get('alarms_when_collected',[]),what))
    d['alarms_now']=[]
    d['status']='silent under all 20 checks (tools/sweep.sh)'
    json.dump(d,open(m,'w'),indent=1)
out=['### 9.2 Third round (80 behaviour-preserving refactors, four per property)\n',
'Each sub-agent saw one property text and a scratch worktree and was asked for restructurings a maintainer might make',
'— extract/inline helpers, early returns vs single return, loops vs standard-library calls, literals vs field assignments,',
'private renames, equivalent APIs — that keep behaviour, with an equivalence test that passes before and after (and fails on',
'the earlier seeded defects). `tools/collect_refactor.sh` re-confirmed each (build, vet, existing suite, the equivalence test)',
'and ran all 20 checks on it. "Alarms when collected" lists the properties whose check raised an alarm then — all false',
'alarms, all corrected in the rules (§7, §4.0); today every row is silent under every check.\n',
'| Refactor | What it restructures | Alarms when collected |','|---|---|---|']
for n,a,w in rows:
    out.append('| %s | %s | %s |'%(n.replace('refactor-r3-',''), w, ' '.join(a) if a else '—'))
text='\n'.join(out)+'\n'
p='/verif/DESIGN.md'
s=open(p).read()
if '### 9.2 Third round' in s:
    i=s.index('### 9.2 Third round')
    s=s[:i]+text
else:
    s=s.rstrip('\n')+'\n\n'+text
open(p,'w').write(s)
print(len(rows),'rows')
