#!/usr/bin/env python3
"""Writes /verif/seeded/<id>/meta.json for the changes produced by sub-agents (each confirmed with tools/collect_seeded.sh)."""
import json, os
V = os.path.dirname(os.path.dirname(os.path.abspath(__file__)))
T = {
 "C01-a": ("C01", ["C01"], "appendJsonAttr reports 'wrote' from the shape of the group (len(Key)>0 || len(attrs)>0) instead of what was emitted", "a non-empty inline group whose members are all LogValuers resolving to empty groups, in a position with no pending separator (right after WithGroup), followed by another member"),
 "C01-b": ("C01", ["C03"], "JsonHandler.clone drops slices.Clip on the pre-rendered bytes", "two derivations from one non-root parent whose buffer has spare capacity; the first child logs after the second was derived"),
 "C02-a": ("C02", ["C02"], "JsonHandler.clone re-uses the constructor, which allocates a new mutex", "two goroutines logging through differently derived JSON loggers at the same time, destination observing overlap"),
 "C02-b": ("C02", ["C02"], "freeBuffer puts oversized buffers back capped to 16 KiB but with length 16384 instead of 0", "one line larger than 16 KiB, then another log call that receives that buffer"),
 "C03-a": ("C03", ["C03"], "JsonHandler.clone becomes a shallow struct copy (drops slices.Clip)", "non-root parent with spare capacity, two children, earlier child logs after the later one was derived"),
 "C03-b": ("C03", ["C03"], "TextHandler.WithAttrs takes the key-prefix scratch buffer from the pool once for all attributes", "one With call with >= 2 attributes under an open group or after a named group attribute"),
 "C04-a": ("C04", ["C04"], "findRoute drops the empty-path normalisation and widens the root fast path to length <= 1", "empty URL.Path (CONNECT / absolute-form) and no '/' route usable for the method"),
 "C04-b": ("C04", ["C05"], "ServeHTTP resets Params.K/V only when K != nil", "a failed walk that captured a :param value, then a matching request on the same pooled Store"),
 "C05-a": ("C05", ["C05"], "ServeHTTP resets Params.K/V only when K != nil", "404 whose path passes a :param node, then a matched request with params on the same Store"),
 "C05-b": ("C05", ["C05"], "Store is returned to the pool by a deferred Put", "a handler that panics, then any request on the same Store"),
 "C06-a": ("C06", ["C06"], "PushTask returns ctx.Err() after the select for every arm", "cancel landing between the successful enqueue and the final Err() read"),
 "C06-b": ("C06", ["C06"], "worker's blocking select: the ctx.Done arm no longer returns", "a worker that ran a task, went idle, then the context is cancelled: it starts the previous task again"),
 "C07-a": ("C07", ["C07"], "PushTask rewritten with a timer; the blocking select lost its ctx.Done arm", "producer parked on a full lane when the context is cancelled"),
 "C07-b": ("C07", ["C07", "C08", "C06"], "worker respawns itself after a recovered panic without wg.Add", "earlier task panic, then a task running while the context is cancelled, then Wait"),
 "C08-a": ("C08", ["C08", "C06", "C07"], "deferred recover respawns a replacement worker when Start did not return normally (also after a recovered panic)", "one panicking task, then more than laneSize long tasks"),
 "C08-b": ("C08", ["C08"], "queue goroutine offers on the shared channel only once (non-blocking), then blocks on its own worker only", "all workers busy when a task reaches the head of a lane, then another lane's worker becomes idle"),
 "C09-a": ("C09", ["C09"], "envParse uses os.Getenv(...) != \"\" instead of os.LookupEnv", "a CFG_* variable set to the empty string for a field with a non-zero JSON/default value"),
 "C09-b": ("C09", ["C09"], "bare boolean flag is applied at once in argParse and ArgValue stays nil", "bare -flag plus a lower-priority source (env or JSON) setting it to false"),
 "C10-a": ("C10", ["C10"], "flag guard simplified to !strings.HasPrefix(name, \"-\")", "a lone '-' token in flag position: index out of range"),
 "C10-b": ("C10", ["C10"], "integer Values share a ParseInt-based helper; unsigned types convert afterwards", "unsigned flag with a negative value or a value above MaxInt64"),
 "C11-a": ("C11", ["C11"], "list-mode Remove compacts by swapping in the last entry and advancing", "the same range added twice with a duplicate in the tail slot at removal time"),
 "C11-b": ("C11", ["C11"], "the /0 fast path is moved ahead of the validity check in Add/Remove", "::/0 or an IPNet with an empty / non-contiguous mask"),
 "C12-a": ("C12", ["C12"], "Add releases the write lock while building the maps from the list", "a Remove by another goroutine between the snapshot and the swap"),
 "C12-b": ("C12", ["C12"], "matchAll becomes a plain bool written under the lock but read before RLock", "0.0.0.0/0 toggled concurrently with lookups (race detector)"),
 "C13-a": ("C13", ["C13"], "appendTextSource appends file:line without the quoting function", "addSource on and a caller whose path contains a space, '=', quote or control character"),
 "C13-b": ("C13", ["C03"], "TextHandler.clone becomes a shallow struct copy (drops slices.Clip)", "two WithAttrs on one non-empty parent with spare capacity; older child logs after the newer exists"),
 "C14-a": ("C14", ["C14"], "last-panic slot becomes atomic.Value", "two task panics with values of different dynamic types"),
 "C14-b": ("C14", ["C14"], "deferred cleanup in startQueue decrements the pending counter when the stale task variable is non-nil", "queue forwarded a task, went idle, context cancelled, Status read"),
 "C15-a": ("C15", ["C15"], "recover path calls store.Error500 unconditionally", "handler writes a status/body and then panics"),
 "C15-b": ("C15", ["C05"], "all pooled Stores share one ID backing array (prefix made with cap 32, no per-store copy)", ">= 2 requests in flight; another request starts between a request's REQ_BEG and REQ_END"),
 "C16-a": ("C16", ["C16"], "ShellEscape uses a Replacer that also rewrites newline as '$'\\n''", "input containing a newline, shell without $'…' (dash)"),
 "C16-b": ("C16", ["C16"], "ShellEscapeExceptTilde leaves everything up to the first '/' unquoted for any leading '~'", "input starting with '~' but not '~/', with special bytes or a user name before the first '/'"),
 "C17-a": ("C17", ["C17"], "path.Clean on the un-rooted path, then TrimPrefix(\"..\")", "URL path without leading slash and >= 2 leading '..' after cleaning"),
 "C17-b": ("C17", ["C17"], "helper replaces backslashes by slashes after path.Clean", "a '..' adjacent to a backslash in the URL path"),
 "C18-a": ("C18", ["C18"], "CopyFile's same-file guard stats the destination with os.Lstat", "destination is a symbolic link to the source"),
 "C18-b": ("C18", ["C18"], "MoveFile fallback: copy to dest+'.moving', remove source, then rename", "rename fails with EXDEV and the destination is an existing directory"),
 "C19-a": ("C19", ["C19"], "Write/WriteString return early on error before sum(n)", "wrapped writer fails with n > 0"),
 "C19-b": ("C19", ["C19"], "Close sends the final total only if the last offer 'was sent' (recorded before the non-blocking send)", "consumer not parked in <-Status() at the last write"),
 "C20-a": ("C20", ["C20"], "launch: wait logic extracted into a helper called after Start; signal.Notify moves with it", "launcher delayed between cmd.Start and the wait; daemon calls Done at once"),
 "C20-b": ("C20", ["C20"], "launch's select gains a 5 s timeout arm that kills the daemon", "a daemon that needs more than 5 s to reach Done"),
}
for name, (prop, det, what, needs) in T.items():
    d = os.path.join(V, "seeded", name)
    if not os.path.isdir(d):
        print("missing", name); continue
    pk = open(os.path.join(d, ".pkgdirs")).read().split() if os.path.exists(os.path.join(d, ".pkgdirs")) else []
    demos = sorted(f for f in os.listdir(d) if f.endswith("_test.go"))
    meta = {
        "property": prop, "kind": "mutant", "detected_by": det,
        "what": what, "needs": needs,
        "origin": "written by a fresh sub-agent that saw only the property text and its own scratch worktree of /repo (HEAD 5caa7e8)",
        "demonstration": demos, "demo_packages": pk,
        "ran": "tools/collect_seeded.sh %s %s: demo passes on the clean worktree; with patch.diff applied `go build ./... && go vet ./...` is clean, `go test -count=1 ./...` passes (pre-existing suite, demo set aside), and `go test -count=1 -run Demo %s` fails; then tools/trymutant.sh <property> patch.diff reports the rule(s) under detected_by" % (name.split('-')[0], name.split('-')[1], " ".join(pk)),
    }
    json.dump(meta, open(os.path.join(d, "meta.json"), "w"), indent=1)
print("ok", len(T))
