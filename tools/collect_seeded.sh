#!/bin/bash
# usage: collect_seeded.sh <Cxx> <a|b>
# Confirms a sub-agent's change in its scratch worktree (/tmp/wt/<Cxx>): demo passes on the clean tree,
# with the change the tree builds, the pre-existing suite passes and the demo fails. Then stores it under /verif/seeded/<Cxx>-<x>/.
set -u
export GOFLAGS=-mod=mod GOPROXY=off GOSUMDB=off GOTOOLCHAIN=local
id=$1; x=$2; od=${3:-_out}
wt=/tmp/wt/$id; src=$wt/$od/$x
[ -f $src/patch.diff ] || { echo "no patch in $src"; exit 2; }
cd $wt || exit 2
git checkout -q -- . ; find . -name 'zz_demo_*' -not -path './_out*' -delete
demos=$(ls $src/*_test.go 2>/dev/null)
[ -n "$demos" ] || { echo "no demo test file"; exit 2; }
pkgdirs=""
place() { for d in $demos; do
    pk=$(grep -m1 '^package ' $d | awk '{print $2}' | sed 's/_test$//')
    dir=$(grep -rl --include='*.go' -m1 "^package $pk\$" . 2>/dev/null | grep -v "_out" | head -1 | xargs dirname)
    cp $d $dir/; pkgdirs="$pkgdirs $dir"
  done; }
unplace() { find . -name 'zz_demo_*' -not -path './_out*' -delete; }
place
pk=$(echo $pkgdirs | tr ' ' '\n' | sort -u | tr '\n' ' ')
echo "== demo on clean tree ($pk)"
if ! go test -count=1 -run 'Demo' $pk >/tmp/collect.$$.1 2>&1; then echo "FAIL: demo does not pass on the clean tree"; tail -20 /tmp/collect.$$.1; unplace; exit 1; fi
unplace
git apply --whitespace=nowarn $src/patch.diff || { echo "FAIL: patch does not apply"; exit 1; }
echo "== build + existing suite with the change"
if ! (go build ./... && go vet ./... ) >/tmp/collect.$$.2 2>&1; then echo "FAIL: does not build/vet"; tail /tmp/collect.$$.2; git checkout -q -- .; exit 1; fi
go test -count=1 ./... >/tmp/collect.$$.3 2>&1
if grep -v 'TestWaitForInterrupt' /tmp/collect.$$.3 | grep -q '^--- FAIL\|^FAIL'; then
   # the daemon tests use a fixed TCP port: while another worktree's daemon test is running they fail for reasons
   # unrelated to the change (ignored unless the change is about the daemon package)
   flt="TestWaitForInterrupt"; [ "$id" != "C20" ] && flt="TestWaitForInterrupt\|TestLaunch\|TestRun\|TestRegister"
   if grep '^--- FAIL' /tmp/collect.$$.3 | grep -qv "$flt"; then echo "FAIL: existing tests fail with the change"; grep -A5 '^--- FAIL' /tmp/collect.$$.3 | head -30; git checkout -q -- .; exit 1; fi
fi
place
echo "== demo with the change (must fail)"
if go test -count=1 -run 'Demo' $pk >/tmp/collect.$$.4 2>&1; then echo "FAIL: demo passes with the change"; unplace; git checkout -q -- .; exit 1; fi
grep -m3 -- '--- FAIL\|panic:' /tmp/collect.$$.4
unplace; git checkout -q -- .
dst=/verif/seeded/$id-$x; mkdir -p $dst
cp $src/patch.diff $dst/; cp $demos $dst/; cp $src/notes.md $dst/notes.md 2>/dev/null
echo "$pk" > $dst/.pkgdirs
rm -f /tmp/collect.$$.*
echo "OK stored $dst"
