#!/bin/bash
# usage: sweep.sh [-b <glbcheck binary>] <Cxx>...   — run every seeded change that concerns the given properties
# against those properties (scratch copies) and print only the surprises: MISSED mutants and ALARMs on refactors
# (alarms recorded in a refactor's meta as outside_fragment — documented limits, DESIGN §9.3 — are not repeated).
export GLBCHECK=/verif/bin/glbcheck
if [ "$1" = "-b" ]; then export GLBCHECK=$2; shift 2; fi
props="$*"
python3 - $props <<'PY' > /tmp/sweep.$$.list
import json,glob,os,sys
props=sys.argv[1:]
pkg={'C01':'logger','C02':'logger','C03':'logger','C13':'logger','C15':'logger httpd','C04':'httpd','C05':'httpd','C06':'tasklane','C07':'tasklane','C08':'tasklane','C14':'tasklane','C09':'config','C10':'config','C11':'util/netutil','C12':'util/netutil','C16':'util/strutil','C17':'util/fsutil','C18':'util/osutil','C19':'util/ioutil','C20':'daemon'}
for m in sorted(glob.glob('/verif/seeded/*/meta.json')):
    d=os.path.dirname(m); meta=json.load(open(m)); kind=meta.get('kind','mutant')
    patch=open(d+'/patch.diff').read()
    touched=[l[6:] for l in patch.split('\n') if l.startswith('+++ b/')]
    for c in props:
        if kind=='refactor':
            if any(t.startswith(k+'/') for t in touched for k in pkg[c].split()):
                print(c,d,'residual' if c in meta.get('outside_fragment',[]) else 'refactor')
        else:
            det=meta.get('detected_by') or [meta.get('property')]
            if c in det: print(c,d,'mutant')
PY
cat /tmp/sweep.$$.list | xargs -P 12 -L 1 bash -c 'out=$(/verif/tools/trymutant.sh $0 $1/patch.diff 2>&1); n=$(echo "$out" | grep -c "violated\|undecided"); if echo "$out" | grep -q "PATCH DOES NOT APPLY"; then echo "NOAPPLY $0 $(basename $1)"; elif ! echo "$out" | grep -q SCRATCH-DONE; then echo "CRASH $0 $(basename $1): $(echo "$out" | head -3 | cut -c1-300)"; elif [ $2 = mutant ] && [ $n = 0 ]; then echo "MISSED $0 $(basename $1)"; elif [ $2 = residual ] && [ $n = 0 ]; then echo "NOW-SILENT $0 $(basename $1) (listed as outside the fragment: run tools/gen_round4.py)"; elif [ $2 = refactor ] && [ $n != 0 ]; then echo "ALARM $0 $(basename $1): $(echo "$out" | grep "violated\|undecided" | cut -f2,3,5 | cut -c1-260 | head -2 | tr "\n" "|")"; fi' | sort
echo "swept $(wc -l < /tmp/sweep.$$.list) (change, property) pairs"
rm -f /tmp/sweep.$$.list
