#!/bin/bash
# usage: trymutant.sh <prop> <patch.diff>  — apply a change to a scratch copy of /repo and run one property's rules on it
set -u
prop=$1; patch=$2
d=$(mktemp -d /tmp/glbverif-try-XXXXXX)
rsync -a --exclude .git /repo/ $d/
( cd $d && git apply --whitespace=nowarn "$patch" ) || { echo "PATCH DOES NOT APPLY"; rm -rf $d; exit 3; }
${GLBCHECK:-/verif/bin/glbcheck} -prop $prop -scratch -repo $d -verif /verif 2>&1 | sed "s#$d/##g"
rm -rf $d
