#!/usr/bin/env python3
"""Regenerates /verif/MANIFEST.json from the table below.
A property is claimed only when its rule set is registered in checker/props (IMPLEMENTED)."""
import json, os, re, sys

VERIF = os.path.dirname(os.path.dirname(os.path.abspath(__file__)))

# id -> (design_ref, technique, level text, level note)
P = {
 "C01": ("DESIGN.md §4 C01", "emission-typestate abstract interpretation of the JSON emitters (token grammar, summaries as least fixpoint) + sanitizer who-may-append rule + escape-table evaluation over the finite byte domain + read-only rule on attribute memory handed in",
         "Structural proof of well-formedness: every path of every emitter keeps the JSON-members grammar (separators, balanced braces, one trailing newline), non-constant data reaches the line only through the escaping function or closed-alphabet formatters, and the escape table covers every byte that needs escaping; the caller's attributes are never written through. Decides the 'is one valid JSON line' clause for all attribute trees and derivation chains; does not decide round-trip equality of values.",
         "Go type checker and go/ssa; contracts of strconv.Append*, Time.AppendFormat(RFC3339Nano), encoding/json Encoder output being one JSON value + newline; slog.Value.Resolve never returns a LogValuer"),
 "C02": ("DESIGN.md §4 C02", "path-count dataflow (exactly one Write per Handle path) + must-lockset + who-may-touch on the destination/mutex fields + pooled-buffer escape analysis",
         "Complete structural argument for atomic, serialised, unpolluted writes: one Write per record on every path, under a mutex that every derived handler provably shares, from a buffer that provably never escapes its Handle call and is truncated before re-entering the pool; every Handle call is behind the level gate. Holds for all schedules because it holds on all paths.",
         "sync.Mutex / sync.Pool semantics; the destination io.Writer does not retain the slice; go/ssa"),
 "C03": ("DESIGN.md §4 C03", "receiver-immutability dataflow over handler/Logger methods + clipped-inheritance flow rule on the pre-rendered bytes + immutable-after-construction on Options + sibling agreement With vs call-site emitter + no-use-after-Put over every pool of the package",
         "Shows that no derivation or log operation can write to memory reachable from another node of the derivation tree (no store through the receiver, inherited bytes always pass a clip/copy, nothing taken from a pool is used after it went back), for all trees, orders and schedules; byte-equality with an isolated replay is argued from this plus determinism, not computed.",
         "slices.Clip/Clone contracts (cap==len resp. fresh backing array); go/ssa"),
 "C04": ("DESIGN.md §4 C04", "zone (difference-bound) abstract interpretation for index/slice safety with first-iteration trace partitioning + CFG ordering rule for the precedence lookups + constant-table agreement + exactly-once path count for dispatch + no-mutation-before-error-return on the registration",
         "Proves absence of index/slice panics in the lookup for every path and method string, exactly one relay dispatch per request, the literal > :param > * and exact > '*' method lookup order, reader/writer agreement on the trie key namespaces, that the recorded route is the walk's result or the no-route entry, and that a rejected registration leaves the tree unchanged. Does not prove the selected route equals a reference matcher for every table.",
         "go/ssa; map lookups on nil maps do not panic; net/http hands ServeHTTP a non-nil *http.Request with non-nil URL"),
 "C05": ("DESIGN.md §4 C05", "definite-(re)initialisation dataflow over every field of the pooled Store between Get and Put + constructor≡reset agreement + panic-exit reachability of Put + capacity-independence (zones) + atomic-only counter",
         "Shows that every field a handler can observe is either assigned before the relay call or reset on every path into the pool, that a Store abandoned by a panic never re-enters the pool, that value capture does not depend on the capacity fixed at creation, and that the request counter is only touched atomically; holds for every request history.",
         "sync.Pool exclusivity; go/ssa"),
 "C06": ("DESIGN.md §4 C06", "channel-role who-may-touch analysis + per-iteration path counting over select arms (send/receive exactly once, SSA identity of the forwarded task)",
         "Jointly sufficient structural conditions for 'never started twice, never a rejected task started' on every interleaving and cancel point: fixed producer/consumer roles per channel, PushTask returns nil iff exactly one enqueue arm was taken, each goroutine iteration forwards/starts exactly the task it received. Liveness ('eventually started') is not decided.",
         "Go channel semantics (a value sent once is received once); go/ssa lowering of select"),
 "C07": ("DESIGN.md §4 C07", "select-arm analysis (every blocking point has a ctx.Done arm leading to return) + WaitGroup accounting (symbolic Add count vs go statements, Done deferred first) + push-after-cancel dominance rule",
         "Decides the safety clauses of shutdown for all cancel points: every blocking operation is cancellable, a push that begins after cancel cannot enqueue, Wait waits for exactly the goroutines that can call Start, and nothing can start after Wait. Wall-clock promptness is not decided.",
         "context.Context.Done is closed on cancel; sync.WaitGroup semantics; non-blocking select never takes default when an arm is ready"),
 "C08": ("DESIGN.md §4 C08", "who-may-call rule for Start + goroutine-creation site rule (one worker per lane, constructor only) + hand-over wiring rule (both arms on both sides, unbuffered channels)",
         "Complete structural argument for the laneSize concurrency bound; for head-of-line freedom the necessary wiring (shared unbuffered hand-over offered by every queue goroutine and listened to by every worker) whose removal tests cannot see. Timing ('as soon as') is not decided.",
         "Go channel semantics; go/ssa"),
 "C09": ("DESIGN.md §4 C09", "CFG ordering/dominance rules in Parse (JSON before per-flag Set, cli before env, silence writes nothing) + aliasing rule for Value construction + sibling agreement of the Value.Set implementations + presence-test rule for env",
         "Decides the override lattice structurally: the same code path serves all 2^4 source combinations and every field kind, so ordering/guard rules on that path hold for all of them. Textual mappings (env spelling, strconv acceptance) are not decided.",
         "encoding/json.Unmarshal leaves absent fields untouched; reflect Addr().Interface() aliases the field; go/ssa"),
 "C10": ("DESIGN.md §4 C10", "zone abstract interpretation for index/slice safety of the argument scanner + suffix-only store rule on FlagSet.args + error-discipline path rules + parser/type agreement of Value.Set",
         "Proves the scanner cannot panic for any token sequence, Args() is always a suffix of the input, no error from Set/lookup is dropped, and each numeric Value parses with the parser of its own signedness and width. That the accepted language equals the documented grammar is not decided.",
         "go/ssa; strconv parser contracts"),
 "C11": ("DESIGN.md §4 C11", "constant-table check of the 32 masks + canonical-key agreement rule at every store/lookup/delete + insert-exactly-once path count incl. migration + validation-before-mutation rule + IPv4 normalisation rule",
         "Decides the structural causes of disagreement with the set model: mask table, key discipline between writer/reader/remover, completeness of insertion and migration, argument validation before any state change, and that lookups normalise both IPv4 encodings. Full set-model equivalence over histories is not decided.",
         "net.IP.To4 canonicalises IPv4; net.IPMask.Size contract; go/ssa"),
 "C12": ("DESIGN.md §4 C12", "must-lockset analysis (GUARDED fields), atomic-only rule, lock-nesting rule",
         "Data-race freedom and per-operation atomicity for all interleavings: every access to the guarded fields holds the RWMutex in the right mode from before the first access to exit, the match-all flag is only touched atomically, no lock is taken while holding another.",
         "sync.RWMutex semantics; Go memory model; go/ssa"),
 "C13": ("DESIGN.md §4 C13", "sanitizer who-may-append rule on the text emitters + quoting-predicate evaluation over all ASCII bytes and rune classes + key/prefix join-before-quote rule + scratch-prefix typestate",
         "Shows that every non-constant datum reaches the line through the quoting function (or a formatter whose alphabet has no separator), that the quoting predicate quotes every string containing whitespace, '=', '\"', control, non-printing or invalid bytes, that group prefix and key are quoted as one string, and that the key is written without the group path only where the path is empty. Equality of unquoted tokens with inputs is delegated to strconv.",
         "strconv.AppendQuote output contains no raw whitespace/control and round-trips through Unquote; unicode tables; go/ssa"),
 "C14": ("DESIGN.md §4 C14", "recover-frame rule + race-freedom classification of every field Status reads or workers write (immutable / atomic-only / guarded) + per-iteration +1/-1 pairing on the pending counter",
         "Containment of task panics, race-freedom of Status for all schedules and panic value types, and the counter bounds. Exact pending count at rest is not decided.",
         "recover() only stops a panic when called directly by a deferred function; sync/atomic semantics; go/ssa"),
 "C15": ("DESIGN.md §4 C15", "defer-order and recover-frame rules in Relay + control-dependence of the 500 write + exactly-once path counts for BEG/END/Error records + attribute source agreement + status-recording rule on the response wrapper",
         "Decides containment, the 500-iff-panicked-before-status rule, one BEG/one END per request with the same method/URI/IP/ID sources, END logged after the 500 was recorded, for every handler behaviour; and that no log handler cuts the line it rendered (the ID and panic value Relay puts last reach the sink).",
         "Go defer LIFO order; net/http ignores a second WriteHeader; go/ssa"),
 "C16": ("DESIGN.md §4 C16", "shape rule (const · replace-all(s, const, const) · const) + POSIX sh lexer automaton run over the constants (symbolic string homomorphism)",
         "For the const·h(s)·const shape the universal claim reduces to a finite check of the constants through a POSIX quoting automaton; decides the quoting-model half of the property for all strings. Agreement of real shells with the model is not decided.",
         "POSIX sh quoting rules (XCU 2.2) as encoded in the automaton; strings.Replace(-1)/ReplaceAll replaces every occurrence"),
 "C17": ("DESIGN.md §4 C17", "sanitizer-dominance dataflow: every non-base argument of the final Join derives only from path.Clean of a provably rooted string",
         "Decides containment for all inputs on POSIX: the suffix joined to the base is a rooted, cleaned path (no '..' elements), so Join(base, suffix) stays at or below Clean(base).",
         "path.Clean contract for rooted paths; filepath.Join = Clean(concatenation); FromSlash is the identity on POSIX"),
 "C18": ("DESIGN.md §4 C18", "effect-ordering rules: truncating open guarded by a same-file test that follows links like the open does; source removal only on the copy-succeeded edge and as the last fallible step; copy error propagated",
         "Decides the ordering/guard clauses whose violation loses data (aliasing destination, remove-before-complete); does not decide bytes on disk after OS-level faults.",
         "os.SameFile compares device+inode; os.Stat and os.Create both follow symlinks; go/ssa"),
 "C19": ("DESIGN.md §4 C19", "must-pass-through and exactly-once path rules (forward → sum(n) on every path incl. error), non-blocking-send rule, close-protocol dominance rule, single-writer rule on size",
         "Decides the bookkeeping for short/failed writes, that Write can never block on the consumer, and last-value-then-close. Monotonicity relies on n >= 0 from the wrapped writer.",
         "io.Writer contract (0 <= n <= len(p)); Go channel semantics"),
 "C20": ("DESIGN.md §4 C20", "interprocedural happens-before rule (signal.Notify before cmd.Start on every path) + blocking-select wiring + pid/exit-path rules + env-flag reader/writer agreement",
         "Decides the ordering defect the property describes (Done() before the launcher listens) for all timings, and the protocol wiring; process-level facts (re-parenting, survival) are not decided.",
         "signal.Notify installs the handler synchronously; exec.Cmd.Start/Run/Wait contracts"),
}

def implemented():
    ids = set()
    d = os.path.join(VERIF, "checker", "props")
    for f in os.listdir(d):
        if f.endswith(".go"):
            for m in re.finditer(r'register\("(C\d+)"', open(os.path.join(d, f)).read()):
                ids.add(m.group(1))
    return ids

def main():
    impl = implemented()
    checks, na = [], []
    for pid in sorted(P):
        ref, tech, text, note = P[pid]
        if pid not in impl:
            na.append({"property_id": pid, "reason": "rule set not built yet (static analysis is applicable: see " + ref + ")"})
            continue
        checks.append({
            "property_id": pid,
            "quick_cmd": "./check %s quick" % pid,
            "thorough_cmd": "./check %s thorough" % pid,
            "evidence_file": "evidence/%s.json" % pid,
            "replay_cmd_template": "./check %s replay {path}" % pid,
            "engine": "glbcheck",
            "level_claimed": {"category": "other", "text": text, "design_ref": ref},
            "level_note": note,
            "technique": "static analysis: " + tech,
        })
    m = {
        "version": 1,
        "setup_cmd": "mkdir -p bin && cd checker && GOWORK=off GOFLAGS=-mod=mod GOPROXY=off GOSUMDB=off GOTOOLCHAIN=local CGO_ENABLED=0 go build -o ../bin/glbcheck ./cmd/glbcheck",
        "hooks": {
            "guard": "verif",
            "enable": "none needed: the checks analyse /repo's source as it is; nothing in /repo is instrumented",
            "baseline_off_cmd": "cd /repo && go test -vet=off -count=1 ./...",
            "source_commits": [],
            "add_only": True,
        },
        "engines": [{
            "name": "glbcheck", "path": "checker/",
            "serves_properties": sorted(impl & set(P)),
            "kind_free_text": "repository-specific static analyser over go/packages + go/ssa (golang.org/x/tools v0.29.0): path counting, must-locksets, who-may-touch field tables, ownership/escape, zone abstract interpretation, emission typestate, constant tables",
        }],
        "checks": checks,
        "not_applicable": na,
        "notes": "All claims are at level 'other': structural (all-paths) proofs of necessary - and where stated jointly sufficient - conditions of each property, decided from the source without executing glb code. Clauses not decided are listed in DESIGN.md §6 and in each evidence file under coverage.not_decided. Genuine defects of the pinned commit were repaired by 'fix:' commits in /repo and are recorded in known_findings.json.",
    }
    json.dump(m, open(os.path.join(VERIF, "MANIFEST.json"), "w"), indent=1)
    print("claimed:", len(checks), "not_applicable:", len(na))

main()
