#!/usr/bin/env python3
# Re-measures the tenth-round seeded changes (seeded/*-r10*): runs every property whose package a change touches on a
# scratch copy with the change applied, records in meta.json which checks report it now (mutants: detected_by;
# refactors: alarms_now / outside_fragment) and regenerates DESIGN.md §9.9.
import json,glob,os,re,subprocess,sys
from concurrent.futures import ThreadPoolExecutor
pkg={'C01':'logger','C02':'logger','C03':'logger','C13':'logger','C15':'logger httpd','C04':'httpd','C05':'httpd','C06':'tasklane','C07':'tasklane','C08':'tasklane','C14':'tasklane','C09':'config','C10':'config','C11':'util/netutil','C12':'util/netutil','C16':'util/strutil','C17':'util/fsutil','C18':'util/osutil','C19':'util/ioutil','C20':'daemon'}
metas=sorted(glob.glob('/verif/seeded/*-r10*/meta.json'))
jobs=[]
for m in metas:
    d=os.path.dirname(m); meta=json.load(open(m))
    touched=[l[6:] for l in open(d+'/patch.diff').read().split('\n') if l.startswith('+++ b/')]
    props=sorted({c for c in pkg if any(t.startswith(k+'/') for t in touched for k in pkg[c].split())}|{meta['property']})
    for c in props: jobs.append((m,c))
def run(j):
    m,c=j
    out=subprocess.run(['/verif/tools/trymutant.sh',c,os.path.dirname(m)+'/patch.diff'],capture_output=True,text=True).stdout
    if 'SCRATCH-DONE' not in out: return (m,c,None,out[:300])
    rules=sorted({l.split('\t')[1] for l in out.split('\n') if l.startswith('SCRATCH violated') or l.startswith('SCRATCH undecided')})
    return (m,c,rules,'')
with ThreadPoolExecutor(12) as ex: res=list(ex.map(run,jobs))
by={}
for m,c,rules,err in res:
    if rules is None: print('CRASH',m,c,err); sys.exit(1)
    by.setdefault(m,{})[c]=rules
mrows=[];rrows=[]
for m in metas:
    meta=json.load(open(m)); n=m.split('/')[-2]
    rep={c:r for c,r in by[m].items() if r}
    what=re.sub(r'\*\*','',meta.get('what','').replace('|','/').replace('\n',' '))[:140]
    if meta.get('kind')=='refactor':
        meta['alarms_now']=sorted(rep)
        meta['alarm_rules_now']={c:r for c,r in sorted(rep.items())}
        if rep:
            meta['status']='documented limit: the construct is outside the fragment of '+', '.join(sorted(rep))+' (DESIGN §9.9); silent under the other checks'
            meta['outside_fragment']=sorted(rep)
        else:
            meta['status']='silent under all checks of the packages it touches'
            meta.pop('outside_fragment',None)
        rrows.append((n,what,meta.get('alarms_when_collected',[]),sorted(rep)))
    else:
        meta['detected_by']=sorted(rep)
        meta['reporting_rules']={c:r for c,r in sorted(rep.items())}
        mrows.append((n,what,meta.get('reported_when_collected',[]),rep))
    json.dump(meta,open(m,'w'),indent=1)
out=['### 9.9 Tenth round (same brief, a longer list of known changes to avoid)\n',
'Prompts asked for what lands in a repository every week: two small ordinary-looking commits per property that break it',
'("small optimisation", "handle X too", "tidy error handling"), aimed at clauses and code sites the earlier rounds had not touched',
'(constructors, sibling implementations, rare branches, boundary values, two functions interacting, clean-up paths), and one small',
'single-kind behaviour-preserving edit. `tools/collect_round10.sh` confirmed each; `tools/gen_round10.py` re-measures this table.\n',
'**Breaking changes** — "when collected": checks that reported it before any rule was touched; "now": checks and rules that report it today.\n',
'| Change | What it breaks | When collected | Now (rules) |','|---|---|---|---|']
for n,w,a,rep in mrows:
    now='; '.join('%s (%s)'%(c,' '.join(r)) for c,r in sorted(rep.items())) or '**missed**'
    out.append('| %s | %s | %s | %s |'%(n,w,' '.join(a) if a else '—',now))
out+=['','**Refactors** — "when collected": false alarms raised before the rules were generalised; "now": alarms that remain. A remaining',
'alarm is a documented limit (the construct is outside what the rule can decide; listed under "Residual false alarms" below), not a finding about /repo.\n',
'| Refactor | What it restructures | Alarms when collected | Alarms now |','|---|---|---|---|']
for n,w,a,now in rrows:
    out.append('| %s | %s | %s | %s |'%(n.replace('refactor-r10-',''),w,' '.join(a) if a else '—',' '.join(now) if now else '—'))
text='\n'.join(out)+'\n'
p='/verif/DESIGN.md'; s=open(p).read()
if '### 9.9 Tenth round' in s:
    i=s.index('### 9.9 Tenth round')
    j=s.find('\n### 9.10',i)
    s=s[:i]+text+(s[j+1:] if j>=0 else '')
else:
    s=s.rstrip('\n')+'\n\n'+text
open(p,'w').write(s)
print(len(mrows),'mutants',len(rrows),'refactors; missed:',[n for n,_,_,rep in mrows if not rep],'; alarming refactors:',[(n,now) for n,_,_,now in rrows if now])
