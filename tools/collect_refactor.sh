#!/bin/bash
# usage: collect_refactor.sh <Cxx> <p|q|r|s>
# Confirms a sub-agent's behaviour-preserving refactor (builds, existing tests pass, its own equivalence test passes
# before and after), stores it under /verif/seeded/refactor-r3-<Cxx>-<x>/ and runs ALL 20 checks on it.
set -u
export GOFLAGS=-mod=mod GOPROXY=off GOSUMDB=off GOTOOLCHAIN=local
id=$1; x=$2
wt=/tmp/wt/$id; src=$wt/_out3/$x
[ -f $src/patch.diff ] || { echo "no patch in $src"; exit 2; }
cd $wt || exit 2
git checkout -q -- . ; find . -name 'zz_*' -not -path './_out*' -delete
git apply --whitespace=nowarn $src/patch.diff || { echo "FAIL: patch does not apply"; exit 1; }
if ! (go build ./... && go vet ./...) >/tmp/cr.$$.1 2>&1; then echo "FAIL: build/vet"; tail -5 /tmp/cr.$$.1; git checkout -q -- .; exit 1; fi
go test -count=1 ./... >/tmp/cr.$$.2 2>&1
flt="TestWaitForInterrupt"; [ "$id" != "C20" ] && flt="TestWaitForInterrupt\|TestLaunch\|TestRun\|TestRegister"
if grep '^--- FAIL' /tmp/cr.$$.2 | grep -qv "$flt"; then echo "FAIL: existing tests fail"; grep -A4 '^--- FAIL' /tmp/cr.$$.2 | head -20; git checkout -q -- .; exit 1; fi
# equivalence test with the refactor applied
eq=$(ls $src/zz_equiv*_test.go 2>/dev/null)
if [ -n "$eq" ]; then
  for d in $eq; do
    pk=$(grep -m1 '^package ' $d | awk '{print $2}' | sed 's/_test$//')
    dir=$(grep -rl --include='*.go' -m1 "^package $pk\$" . 2>/dev/null | grep -v "_out" | head -1 | xargs dirname)
    cp $d $dir/
    if ! go test -count=1 -run 'Equiv|equiv|ZZ|Zz' $dir >/tmp/cr.$$.3 2>&1; then echo "FAIL: equivalence test fails with the refactor"; tail -8 /tmp/cr.$$.3; find . -name 'zz_*' -not -path './_out*' -delete; git checkout -q -- .; exit 1; fi
  done
fi
find . -name 'zz_*' -not -path './_out*' -delete
git checkout -q -- .
dst=/verif/seeded/refactor-r3-$id-$x; mkdir -p $dst
cp $src/patch.diff $dst/; cp $src/notes.md $dst/ 2>/dev/null; [ -n "$eq" ] && cp $eq $dst/
alarms=""
for i in 01 02 03 04 05 06 07 08 09 10 11 12 13 14 15 16 17 18 19 20; do
  out=$(/verif/tools/trymutant.sh C$i $dst/patch.diff | grep 'violated\|undecided')
  if [ -n "$out" ]; then alarms="$alarms C$i"; echo "ALARM C$i: $(echo "$out" | cut -f2,3,5 | cut -c1-300 | head -3)"; fi
done
python3 - "$dst" "$id" "$alarms" <<'PY'
import json,sys,os
d,prop,alarms=sys.argv[1:4]
what=""
n=os.path.join(d,"notes.md")
if os.path.exists(n):
    for l in open(n):
        l=l.strip()
        if l and not l.startswith('#'):
            what=l[:300]; break
json.dump({"property":prop,"kind":"refactor","detected_by":[],"what":what,"needs":"behaviour-preserving: every check must stay silent","origin":"third round: written by a fresh sub-agent that saw only the property text and its scratch worktree; asked for behaviour-preserving restructurings","demonstration":sorted(f for f in os.listdir(d) if f.endswith('_test.go')),"alarms_when_collected":alarms.split(),"ran":"tools/collect_refactor.sh: build+vet clean, existing suite passes, the agent's equivalence test passes with the refactor; all 20 checks run on it"},open(os.path.join(d,"meta.json"),"w"),indent=1)
PY
rm -f /tmp/cr.$$.*
echo "stored $dst alarms:[$alarms ]"
