#!/bin/bash
# usage: verify_mutant.sh <seeded dir> — demo passes on clean tree, fails with patch; suite (package) passes with patch
set -u
export GOFLAGS=-mod=mod GOPROXY=off GOSUMDB=off GOTOOLCHAIN=local
d=$1; n=$(basename $d)
s=$(mktemp -d /tmp/glbverif-vm-XXXXXX); rsync -a --exclude .git /repo/ $s/; cd $s
tests=$(ls $d/*_test.go 2>/dev/null); [ -n "$tests" ] || { echo "$n: NO TEST"; rm -rf $s; exit 0; }
pk=""; for t in $tests; do p=$(grep -m1 '^package ' $t | awk '{print $2}' | sed 's/_test$//'); dir=$(grep -rl --include='*.go' -m1 "^package $p\$" . | head -1 | xargs dirname); cp $t $dir/; pk="$pk $dir"; done
pk=$(echo $pk | tr ' ' '\n' | sort -u | tr '\n' ' ')
if ! go test -count=1 -run 'Demo|demo|ZZ|Zz' $pk > $s/.log1 2>&1; then echo "$n: DEMO FAILS ON CLEAN TREE: $(grep -m2 -- '--- FAIL\|panic' $s/.log1 | tr '\n' ' ')"; rm -rf $s; exit 0; fi
git init -q . 2>/dev/null; git apply --whitespace=nowarn $d/patch.diff || { echo "$n: PATCH DOES NOT APPLY"; rm -rf $s; exit 0; }
if ! go build ./... > $s/.log2 2>&1; then echo "$n: BUILD FAILS"; rm -rf $s; exit 0; fi
if go test -count=1 -run 'Demo|demo|ZZ|Zz' $pk > $s/.log3 2>&1; then echo "$n: DEMO PASSES WITH THE MUTANT"; rm -rf $s; exit 0; fi
echo "$n: ok"
rm -rf $s
