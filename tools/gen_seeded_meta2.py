#!/usr/bin/env python3
"""meta.json for the second round of sub-agent changes (c/d/e[/f]); detected_by is measured with tools/trymutant.sh."""
import json, os, subprocess, sys
V = os.path.dirname(os.path.dirname(os.path.abspath(__file__)))
T = {
 "C01-c": ("appendJsonString gains short escapes \\b \\f and the illegal \\v", "a string containing byte 0x0b"),
 "C01-d": ("floats bypass the encoder: strconv.AppendFloat without a NaN/Inf check", "a float64 attribute that is NaN or ±Inf"),
 "C01-e": ("Logger.Panic/Panicf go through Logger.Error/Errorf (one extra frame above runtime.Callers)", "addSource on and a record produced through Panic or Panicf"),
 "C02-c": ("NanoHandler.clone drops slices.Clip", "non-root parent with spare capacity, two children, record through the earlier child"),
 "C02-d": ("Debug/Debugf return early unless IsDebug() (level == Debug) although the gate is level >= threshold", "threshold below LevelDebug and use of the Debug shortcuts"),
 "C02-e": ("TextHandler.Handle unlocks only on the success path", "destination returns an error for one record, then another record is logged: every logger of the family blocks"),
 "C03-c": ("JsonHandler.WithAttrs passes the parent's separator flag to the emitter instead of the clone's", "a handler whose last step was WithGroup plus one With call with >= 2 attributes"),
 "C03-d": ("TextHandler.WithGroup keeps the dotted prefix as an unsafe string view of a pooled scratch buffer", "group nested >= 2 levels, other text-handler activity between derivation and use"),
 "C03-e": ("NanoHandler.clone clips the parent's bytes in place and copies the struct", "shared non-root parent with spare capacity, concurrent derivation / logging (race detector)"),
 "C04-c": ("the wildcard child key becomes \"*\" (no leading slash)", "a request segment that is exactly '*' below a trailing-* route"),
 "C04-d": ("the method lookup returns nil early for request methods that are not in the tag table", "a '*'-method route and an unknown or empty request method"),
 "C04-e": ("captured values are stored by reslicing Params.V again", "a Store created before a route with more params was registered (or a rejected registration that left :param nodes)"),
 "C05-c": ("the ID buffer is made once outside the pool's New closure", "two Stores alive at once (overlapping or nested requests)"),
 "C05-d": ("pooled Stores are pre-armed with and reset to the current no-route entry", "request, then HandleNoRoute, then an unmatched request reusing the pooled Store"),
 "C05-e": ("parameter capture is skipped when len(V) == cap(V)", "a Store recycled after a deeper route was registered: silent no-route"),
 "C06-c": ("PushTask's timeout arm tries a last non-blocking send whose success arm forgets to return nil", "the timer firing while the lane has room: the task is enqueued and started but ErrTimeout is returned"),
 "C06-d": ("the worker takes its next task directly from its lane's buffered queue when len() > 0", "the queue goroutine takes the task between the len() check and the receive: the worker parks on the empty buffer (single lane: accepted task never started)"),
 "C06-e": ("the queue goroutine's first select moves into a helper that returns nil for 'context done'", "a nil Task pushed to a lane: the queue goroutine exits on a live context"),
 "C07-c": ("PushTask loses its non-blocking Done pre-check", "push after cancel into a queue that still has room"),
 "C07-d": ("wg.Add moves from New into the goroutine bodies", "Wait entered before the new goroutines are first scheduled"),
 "C07-e": ("wg.Done is called after the body returns instead of being deferred", "a task that ends its worker with runtime.Goexit, then cancel and Wait"),
 "C08-c": ("the shared channel is only created for laneSize > 2", "laneSize exactly 2, one worker pinned, another task in the same lane"),
 "C08-d": ("an idle worker listens on the shared queue only if the pending counter was non-zero when it parked", "workers went idle while nothing waited, then one lane is pinned and gets another task"),
 "C08-e": ("the queue goroutine runs its held task itself when the context is cancelled", "cancel while workers still run long tasks and queue goroutines hold tasks"),
 "C09-c": ("nested structs pass group+field.Name without the '_' separator", "a nested struct named like DB holding URL/ID/V6, set through its CFG_* variable"),
 "C09-d": ("Set is skipped when the cli/env text equals the cached default text", "JSON moved the field off its default and cli/env give exactly the default text"),
 "C09-e": ("the two JSON carriers are read one after the other (B64 overrides the file)", "both -config and CFG_CONFIG_B64 present with different content"),
 "C10-c": ("name=value split with strings.Split keeping only two parts", "a value containing '='"),
 "C10-d": ("the Set error check moves out of the per-flag loop", "an unparsable value plus a valid value for a flag defined later"),
 "C10-e": ("the next token is taken as the value only if it does not start with '-'", "-name value form with a value that looks like a flag"),
 "C11-c": ("Add skips storing while 0.0.0.0/0 is present", "Add(/0), Add(X), Remove(/0), probe inside X"),
 "C11-d": ("migration rewritten with range loops, losing the removed-slot guard", "a Remove among the first 256 ranges, then the overflowing Add: index out of range"),
 "C11-e": ("maps-mode scan runs from 31 down while i > 0 (skips the /1 map)", "a /1 range and more than 256 ranges"),
 "C12-c": ("Contains split into separately locked helpers; list index reset after migration", "a lookup in flight across the list-to-maps switch"),
 "C12-d": ("Add(0.0.0.0/0) resets the list and maps", "specific range, Add(/0), Remove(/0), lookup"),
 "C12-e": ("Remove invalidates list slots under the read lock", "list mode, Remove matching a stored range, overlapping lookup (race detector)"),
 "C13-c": ("non-ASCII quoting predicate becomes !strconv.IsGraphic(r) (accepts the Unicode space separators)", "a string containing U+00A0 / U+2000-200A / U+3000 and nothing else that forces quoting"),
 "C13-d": ("the '.' separator is appended whenever the prefix is non-empty, also for empty-key (inline) groups", "an inline group under a non-empty prefix: http..method"),
 "C13-e": ("TextHandler.WithAttrs takes the scratch prefix once per call", "one With call with >= 2 attributes and a non-empty prefix"),
 "C14-c": ("the recovered value is published through the address of a per-worker variable", "two panics on the same worker with Status polled concurrently"),
 "C14-d": ("the decrement becomes Load + CompareAndSwap without retry", "several lanes handing over at the same instant: decrements are lost"),
 "C14-e": ("the recover handler compares the new panic value with the stored one", "two successive panics of the same non-comparable type: the comparison panics inside the handler"),
 "C14-f": ("Status fills and returns a LaneStatus stored in the TaskLane", "concurrent Status callers / a retained snapshot"),
 "C15-c": ("ResponseWriter.WriteHeader records the code before forwarding it", "WriteHeader with a code outside 100..999: net/http panics, Status is non-zero, no 500"),
 "C15-d": ("the abort filter uses errors.Is(err, http.ErrAbortHandler)", "a panic value that wraps the sentinel"),
 "C15-e": ("ServeHTTP defers reset and Put in the wrong order (Put runs first)", "a Get landing between another request's Put and the end of its reset"),
 "C16-c": ("ShellEscape returns 'plain' words unquoted; the byte range for plain includes the backquote", "an input of plain characters and a backquote"),
 "C16-d": ("ShellEscape iterates runes and writes them back (invalid bytes become U+FFFD)", "a non-UTF-8 input"),
 "C16-e": ("ShellEscapeExceptTilde uses strings.TrimLeft(s, \"~/\") for the remainder", "an input starting with ~/ whose third byte is again ~ or /"),
 "C17-c": ("fast path: Join(base, raw) accepted if it has the base as a string prefix", "'..' to the parent followed by a sibling whose name starts with the base's name"),
 "C17-d": ("cleaned paths containing '..' anywhere are replaced by '/'", "a segment such as '...' or 'a..b' (functional clause, containment still holds)"),
 "C17-e": ("path.Clean runs only when the leading slash had to be added", "a rooted path with more '..' than preceding segments"),
 "C18-c": ("the destination is opened with O_WRONLY|O_CREATE (no O_TRUNC)", "an existing destination longer than the source"),
 "C18-d": ("MoveFile's fallback copies by ReadFile/WriteFile and bypasses CopyFile's same-file guard", "EXDEV and a destination that is a symlink to the source"),
 "C18-e": ("a deferred 'remove partial destination on error' is registered before the same-file guard", "CopyFile(p, q) with q another spelling of p: the refusal deletes the file"),
 "C19-c": ("WriteString's fallback calls pw.Write (which already counts) and then counts again", "a wrapped writer that is not an io.StringWriter"),
 "C19-d": ("buffered status channel with a blocking drain in the default branch", "the consumer takes the buffered value between the failed send and the drain"),
 "C20-c": ("Launch takes its stdout/stderr buffers from a sync.Pool without Reset", "a failed Launch followed by a successful one in the same process"),
 "C20-d": ("Run decides its role from os.Getenv(name) != \"\" instead of LookupEnv's presence result", "a handler registered under the empty name"),
 "C20-e": ("the launcher environment is cached in a package variable and appended to per call", "two overlapping Launch calls with different names"),
 "C19-e": ("Close sets the channel field to nil after closing it", "Status() called again after Close"),
}
def detect(name, prop):
    patch = os.path.join(V, "seeded", name, "patch.diff")
    def run(p):
        out = subprocess.run([os.path.join(V, "tools/trymutant.sh"), p, patch], capture_output=True, text=True).stdout
        return [l.split("\t")[1] for l in out.splitlines() if l.startswith("SCRATCH violated") or l.startswith("SCRATCH undecided")]
    hits = {}
    r = run(prop)
    if r: hits[prop] = r
    if not r:
        for i in range(1, 21):
            p = "C%02d" % i
            if p == prop: continue
            r2 = run(p)
            if r2: hits[p] = r2
    return hits
only = sys.argv[1:]
for name, (what, needs) in sorted(T.items()):
    if only and name not in only: continue
    d = os.path.join(V, "seeded", name)
    if not os.path.isdir(d):
        print("missing", name); continue
    prop = name.split("-")[0]
    hits = detect(name, prop)
    pk = open(os.path.join(d, ".pkgdirs")).read().split() if os.path.exists(os.path.join(d, ".pkgdirs")) else []
    demos = sorted(f for f in os.listdir(d) if f.endswith("_test.go"))
    meta = {"property": prop, "kind": "mutant", "detected_by": sorted(hits), "rules": {k: sorted(set(v)) for k, v in hits.items()},
            "what": what, "needs": needs,
            "origin": "second round: written by a fresh sub-agent that saw only the property text, its scratch worktree of /repo (HEAD 5caa7e8) and a one-line summary of the first-round changes to avoid",
            "demonstration": demos, "demo_packages": pk,
            "ran": "tools/collect_seeded.sh %s %s _out2 (demo passes on the clean tree; with the patch: build+vet clean, existing suite passes, demo fails); detected_by measured with tools/trymutant.sh" % (prop, name.split('-')[1])}
    if not hits:
        meta["not_detected"] = "no rule reports this change (see DESIGN.md §9: the clause it breaks is declared not decided)"
    json.dump(meta, open(os.path.join(d, "meta.json"), "w"), indent=1)
    print(name, sorted(hits) or "NOT DETECTED")
