#!/bin/bash
# usage: verify_refactor.sh <seeded dir>  — on a scratch copy of /repo: the stored equivalence test passes on the clean
# tree, and with the patch the tree builds, vets and the test still passes.
set -u
export GOFLAGS=-mod=mod GOPROXY=off GOSUMDB=off GOTOOLCHAIN=local
d=$1; n=$(basename $d)
s=$(mktemp -d /tmp/glbverif-vr-XXXXXX); rsync -a --exclude .git /repo/ $s/; cd $s
tests=$(ls $d/*_test.go 2>/dev/null); [ -n "$tests" ] || { echo "$n: NO TEST"; rm -rf $s; exit 0; }
pk=""; for t in $tests; do p=$(grep -m1 '^package ' $t | awk '{print $2}' | sed 's/_test$//'); dir=$(grep -rl --include='*.go' -m1 "^package $p\$" . | head -1 | xargs dirname); cp $t $dir/; pk="$pk $dir"; done
pk=$(echo $pk | tr ' ' '\n' | sort -u | tr '\n' ' ')
if ! go test -count=1 -run 'Equiv|equiv|ZZ|Zz' $pk > $s/.log1 2>&1; then echo "$n: FAILS ON CLEAN TREE: $(grep -m2 -- '--- FAIL\|panic' $s/.log1 | tr '\n' ' ')"; rm -rf $s; exit 0; fi
if grep -q "no tests to run" $s/.log1; then echo "$n: NO TESTS MATCHED"; fi
git init -q . 2>/dev/null; git apply --whitespace=nowarn $d/patch.diff || { echo "$n: PATCH DOES NOT APPLY"; rm -rf $s; exit 0; }
if ! (go build ./... && go vet $pk) > $s/.log2 2>&1; then echo "$n: BUILD/VET FAILS: $(tail -2 $s/.log2 | tr '\n' ' ')"; rm -rf $s; exit 0; fi
if ! go test -count=1 -run 'Equiv|equiv|ZZ|Zz' $pk > $s/.log3 2>&1; then echo "$n: EQUIVALENCE TEST FAILS WITH THE REFACTOR: $(grep -m3 -- '--- FAIL\|panic' $s/.log3 | tr '\n' ' ')"; rm -rf $s; exit 0; fi
echo "$n: ok"
rm -rf $s
