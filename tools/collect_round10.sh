#!/bin/bash
# usage: collect_round10.sh <Cxx> <a|b|e>
# Tenth round: h/i/j are small ordinary-looking breaking commits (confirmed like collect_seeded.sh and stored as
# seeded/<Cxx>-<x>, detected_by measured over all 20 checks); v/w are small single-kind behaviour-preserving edits
# (confirmed like collect_refactor.sh, stored as seeded/refactor-r10-<Cxx>-<x>, all 20 checks must stay silent).
set -u
export GOFLAGS=-mod=mod GOPROXY=off GOSUMDB=off GOTOOLCHAIN=local
id=$1; x=$2
wt=/tmp/wt/$id; src=$wt/_out10/$x
[ -f $src/patch.diff ] || { echo "no patch in $src"; exit 2; }
cd $wt || exit 2
clean() { git checkout -q -- . ; git clean -fdq --exclude='_out*' ; }
clean
tests=$(ls $src/*_test.go 2>/dev/null)
[ -n "$tests" ] || { echo "FAIL: no test file"; exit 2; }
pk=""
place() { pk=""; for d in $tests; do
    p=$(grep -m1 '^package ' $d | awk '{print $2}' | sed 's/_test$//')
    dir=$(grep -rl --include='*.go' -m1 "^package $p\$" . 2>/dev/null | grep -v "_out" | head -1 | xargs dirname)
    cp $d $dir/; pk="$pk $dir"; done; pk=$(echo $pk | tr ' ' '\n' | sort -u | tr '\n' ' '); }
race=""; case $id in C02|C03|C05|C06|C07|C08|C12|C14|C15) race="-race";; esac
place
if ! go test -count=1 $race -run 'Demo|demo|Equiv|equiv|ZZ|Zz' $pk >/tmp/c10.$$.1 2>&1; then echo "FAIL: test does not pass on the clean tree"; tail -12 /tmp/c10.$$.1; clean; exit 1; fi
clean
git apply --whitespace=nowarn $src/patch.diff || { echo "FAIL: patch does not apply"; exit 1; }
if ! (go build ./... && go vet ./...) >/tmp/c10.$$.2 2>&1; then echo "FAIL: build/vet"; tail -5 /tmp/c10.$$.2; clean; exit 1; fi
go test -count=1 ./... >/tmp/c10.$$.3 2>&1
flt="TestWaitForInterrupt\|TestWaitForStop"; [ "$id" != "C20" ] && flt="TestWaitForInterrupt\|TestWaitForStop\|TestLaunch\|TestRun\|TestRegister"
case $id in C06|C07|C08|C14) ;; *) flt="$flt\|TestTaskLane\|TestPushTask";; esac  # timing-sensitive under load, unrelated to other packages
if grep '^--- FAIL' /tmp/c10.$$.3 | grep -qv "$flt"; then echo "FAIL: existing tests fail with the change"; grep -A4 '^--- FAIL' /tmp/c10.$$.3 | head -20; clean; exit 1; fi
place
go test -count=1 $race -run 'Demo|demo|Equiv|equiv|ZZ|Zz' $pk >/tmp/c10.$$.4 2>&1; rc=$?
clean
case $x in
 a|b)
  if [ $rc = 0 ]; then echo "FAIL: demo passes with the change"; exit 1; fi
  dst=/verif/seeded/$id-r10$x; kind=mutant;;
 *)
  if [ $rc != 0 ]; then echo "FAIL: equivalence test fails with the change"; tail -8 /tmp/c10.$$.4; exit 1; fi
  dst=/verif/seeded/refactor-r10-$id-$x; kind=refactor;;
esac
mkdir -p $dst; cp $src/patch.diff $dst/; cp $tests $dst/; cp $src/notes.md $dst/ 2>/dev/null
reported=""
# only the checks whose package the change touches (as tools/gen_round10.py and sweep.sh do), plus the property's own
plist=$(python3 - "$dst/patch.diff" "$id" <<'PY2'
import sys
pkg={'C01':'logger','C02':'logger','C03':'logger','C13':'logger','C15':'logger httpd','C04':'httpd','C05':'httpd','C06':'tasklane','C07':'tasklane','C08':'tasklane','C14':'tasklane','C09':'config','C10':'config','C11':'util/netutil','C12':'util/netutil','C16':'util/strutil','C17':'util/fsutil','C18':'util/osutil','C19':'util/ioutil','C20':'daemon'}
touched=[l[6:] for l in open(sys.argv[1]).read().split('\n') if l.startswith('+++ b/')]
print(' '.join(sorted({c[1:] for c in pkg if any(t.startswith(k+'/') for t in touched for k in pkg[c].split())}|{sys.argv[2][1:]})))
PY2
)
for i in $plist; do
  out=$(/verif/tools/trymutant.sh C$i $dst/patch.diff | grep 'violated\|undecided')
  if [ -n "$out" ]; then reported="$reported C$i"; echo "REPORT C$i: $(echo "$out" | cut -f2,3,5 | cut -c1-260 | head -2)"; fi
done
python3 - "$dst" "$id" "$kind" "$reported" <<'PY'
import json,sys,os
d,prop,kind,rep=sys.argv[1:5]
what=""
n=os.path.join(d,"notes.md")
if os.path.exists(n):
    for l in open(n):
        l=l.strip()
        if l and not l.startswith('#'):
            what=l[:300]; break
meta={"property":prop,"kind":kind,"what":what,"origin":"tenth round: written by a fresh sub-agent that saw only the property text and its scratch worktree",
 "demonstration":sorted(f for f in os.listdir(d) if f.endswith('_test.go')),
 "ran":"tools/collect_round10.sh: test passes on the clean tree; with the change build+vet clean and the existing suite passes; "+("the demonstration fails" if kind=="mutant" else "the equivalence test passes")+"; the checks of every package it touches run on it"}
if kind=="mutant":
    meta["detected_by"]=rep.split(); meta["needs"]="see notes.md"; meta["reported_when_collected"]=rep.split()
else:
    meta["detected_by"]=[]; meta["needs"]="behaviour-preserving: every check must stay silent"; meta["alarms_when_collected"]=rep.split()
json.dump(meta,open(os.path.join(d,"meta.json"),"w"),indent=1)
PY
rm -f /tmp/c10.$$.*
echo "stored $dst kind=$kind reported:[$reported ]"
