// Package core loads /repo's current working tree (type-checked syntax + SSA)
// and provides the obligation/report machinery shared by all rules.
package core

import (
	"fmt"
	"go/ast"
	"go/token"
	"go/types"
	"os"
	"sort"
	"strings"

	"golang.org/x/tools/go/callgraph"
	"golang.org/x/tools/go/callgraph/cha"
	"golang.org/x/tools/go/callgraph/vta"
	"golang.org/x/tools/go/packages"
	"golang.org/x/tools/go/ssa"
	"golang.org/x/tools/go/ssa/ssautil"

	"glbverif/checker/sx"
)

const ModPath = "github.com/whoisnian/glb"

// Prog is the resolved program: every package of the module under analysis,
// type-checked, with SSA built for the whole dependency closure.
type Prog struct {
	Dir    string
	Config string // e.g. "linux/amd64"
	Fset   *token.FileSet
	Pkgs   map[string]*packages.Package // keyed by path relative to the module ("logger", "util/netutil", "" for root)
	SSA    *ssa.Program
	SPkgs  map[string]*ssa.Package

	modFuncs []*ssa.Function
	cg       *callgraph.Graph
	funcDecl map[*ssa.Function]*ast.FuncDecl
	inl      map[string]*ssa.Function
}

// Load type-checks the module rooted at dir for the given GOOS/GOARCH ("" = host).
// Test files are not part of the analysed program (see DESIGN §2.3).
func Load(dir, goos, goarch string) (*Prog, error) {
	env := []string{}
	for _, e := range os.Environ() {
		if strings.HasPrefix(e, "GOWORK=") || strings.HasPrefix(e, "GOFLAGS=") || strings.HasPrefix(e, "GOOS=") || strings.HasPrefix(e, "GOARCH=") {
			continue
		}
		env = append(env, e)
	}
	env = append(env, "GOWORK=off", "GOFLAGS=-mod=mod", "GOPROXY=off", "GOSUMDB=off", "GOTOOLCHAIN=local", "CGO_ENABLED=0")
	cfgName := "host"
	if goos != "" {
		env = append(env, "GOOS="+goos)
		cfgName = goos
	}
	if goarch != "" {
		env = append(env, "GOARCH="+goarch)
		cfgName += "/" + goarch
	}
	cfg := &packages.Config{Mode: packages.LoadAllSyntax, Dir: dir, Env: env, Tests: false}
	pkgs, err := packages.Load(cfg, "./...")
	if err != nil {
		return nil, fmt.Errorf("load %s: %v", dir, err)
	}
	if len(pkgs) == 0 {
		return nil, fmt.Errorf("load %s: zero packages", dir)
	}
	p := &Prog{Dir: dir, Config: cfgName, Pkgs: map[string]*packages.Package{}, SPkgs: map[string]*ssa.Package{}, funcDecl: map[*ssa.Function]*ast.FuncDecl{}}
	var errs []string
	packages.Visit(pkgs, nil, func(pk *packages.Package) {
		for _, e := range pk.Errors {
			errs = append(errs, e.Error())
		}
	})
	if len(errs) > 0 {
		return nil, fmt.Errorf("type errors in %s: %s", dir, strings.Join(errs, "; "))
	}
	for _, pk := range pkgs {
		if pk.PkgPath != ModPath && !strings.HasPrefix(pk.PkgPath, ModPath+"/") {
			return nil, fmt.Errorf("unexpected package %s (module path changed?)", pk.PkgPath)
		}
		rel := strings.TrimPrefix(strings.TrimPrefix(pk.PkgPath, ModPath), "/")
		p.Pkgs[rel] = pk
		p.Fset = pk.Fset
	}
	prog, _ := ssautil.AllPackages(pkgs, ssa.InstantiateGenerics)
	prog.Build()
	p.SSA = prog
	for rel, pk := range p.Pkgs {
		sp := prog.Package(pk.Types)
		if sp == nil {
			return nil, fmt.Errorf("no SSA for package %s", pk.PkgPath)
		}
		p.SPkgs[rel] = sp
	}
	// all source functions of the module (incl. methods and anonymous functions)
	for fn := range ssautil.AllFunctions(prog) {
		if fn.Pkg == nil || fn.Synthetic != "" && fn.Syntax() == nil {
			continue
		}
		if p.InModule(fn) && fn.Blocks != nil {
			p.modFuncs = append(p.modFuncs, fn)
		}
	}
	sort.Slice(p.modFuncs, func(i, j int) bool { return p.modFuncs[i].String() < p.modFuncs[j].String() })
	return p, nil
}

// InModule reports whether fn is source code of the module under analysis.
func (p *Prog) InModule(fn *ssa.Function) bool {
	if fn == nil {
		return false
	}
	pk := fn.Pkg
	if pk == nil && fn.Origin() != nil {
		pk = fn.Origin().Pkg
	}
	for pk == nil && fn.Parent() != nil {
		fn = fn.Parent()
		pk = fn.Pkg
	}
	if pk == nil || pk.Pkg == nil {
		return false
	}
	path := pk.Pkg.Path()
	return path == ModPath || strings.HasPrefix(path, ModPath+"/")
}

// ModuleFuncs returns every function with a body that belongs to the module.
func (p *Prog) ModuleFuncs() []*ssa.Function { return p.modFuncs }

// PkgFuncs returns the module functions (incl. closures) of one package.
func (p *Prog) PkgFuncs(rel string) []*ssa.Function {
	var out []*ssa.Function
	sp := p.SPkgs[rel]
	for _, fn := range p.modFuncs {
		f := fn
		for f.Parent() != nil {
			f = f.Parent()
		}
		if f.Pkg == sp {
			out = append(out, fn)
		}
	}
	return out
}

// Func finds a package-level function by name; Method finds a method by
// receiver type name and method name (pointer or value receiver).
func (p *Prog) Func(rel, name string) *ssa.Function {
	sp := p.SPkgs[rel]
	if sp == nil {
		return nil
	}
	return sp.Func(name)
}

func (p *Prog) Method(rel, typ, name string) *ssa.Function {
	sp := p.SPkgs[rel]
	if sp == nil {
		return nil
	}
	tm := sp.Type(typ)
	if tm == nil {
		return nil
	}
	T := tm.Type()
	for _, t := range []types.Type{types.NewPointer(T), T} {
		ms := p.SSA.MethodSets.MethodSet(t)
		for i := 0; i < ms.Len(); i++ {
			if ms.At(i).Obj().Name() == name {
				fn := p.SSA.MethodValue(ms.At(i))
				if fn != nil && fn.Synthetic == "" {
					return fn
				}
			}
		}
	}
	return nil
}

// Named returns the named type rel.name.
func (p *Prog) Named(rel, name string) *types.Named {
	pk := p.Pkgs[rel]
	if pk == nil {
		return nil
	}
	obj := pk.Types.Scope().Lookup(name)
	if obj == nil {
		return nil
	}
	n, _ := obj.Type().(*types.Named)
	return n
}

// Pos renders a position relative to the repository root.
func (p *Prog) Pos(pos token.Pos) string {
	if !pos.IsValid() {
		return "-"
	}
	ps := p.Fset.Position(pos)
	f := strings.TrimPrefix(ps.Filename, p.Dir+"/")
	return fmt.Sprintf("%s:%d", f, ps.Line)
}

// FuncPos is the position of a function's declaration.
func (p *Prog) FuncPos(fn *ssa.Function) string {
	if fn == nil {
		return "-"
	}
	return p.Pos(fn.Pos())
}

// CallGraph returns the VTA call graph (built on demand).
func (p *Prog) CallGraph() *callgraph.Graph {
	if p.cg == nil {
		p.cg = vta.CallGraph(ssautil.AllFunctions(p.SSA), cha.CallGraph(p.SSA))
	}
	return p.cg
}

// Callees returns the possible callees of a call instruction: the static
// callee when there is one, else the VTA resolution.
func (p *Prog) Callees(call ssa.CallInstruction) []*ssa.Function {
	if f := call.Common().StaticCallee(); f != nil {
		return []*ssa.Function{f}
	}
	if o, ok := sx.OrigInstr(call).(ssa.CallInstruction); ok {
		call = o // an instruction of an inlined copy: the call graph knows the source instruction
	}
	cg := p.CallGraph()
	n := cg.Nodes[call.Parent()]
	var out []*ssa.Function
	if n == nil {
		return nil
	}
	for _, e := range n.Out {
		if e.Site == call {
			out = append(out, e.Callee.Func)
		}
	}
	return out
}

// Decl returns the syntax of a named function, or nil.
func (p *Prog) Decl(fn *ssa.Function) *ast.FuncDecl {
	if fn == nil {
		return nil
	}
	d, _ := fn.Syntax().(*ast.FuncDecl)
	return d
}

// TypesInfo of the package that declares fn.
func (p *Prog) InfoFor(fn *ssa.Function) *types.Info {
	f := fn
	for f.Parent() != nil {
		f = f.Parent()
	}
	for rel, sp := range p.SPkgs {
		if sp == f.Pkg {
			return p.Pkgs[rel].TypesInfo
		}
	}
	return nil
}

// Stats for evidence.
func (p *Prog) Stats() (pkgs, funcs, blocks, instrs int) {
	pkgs = len(p.Pkgs)
	for _, fn := range p.modFuncs {
		funcs++
		for _, b := range fn.Blocks {
			blocks++
			instrs += len(b.Instrs)
		}
	}
	return
}

// Inl returns fn with the bodies of its same-package callees expanded (see
// sx.Inline): the view on which path rules are decided, so that moving part of
// a function into a helper of the same package does not change the verdict.
// Functions in keep stay calls (the rule speaks about the call itself).
func (p *Prog) Inl(fn *ssa.Function, keep ...*ssa.Function) *ssa.Function {
	if fn == nil || fn.Blocks == nil {
		return fn
	}
	key := fn.String()
	for _, k := range keep {
		if k != nil {
			key += "|" + k.String()
		}
	}
	if p.inl == nil {
		p.inl = map[string]*ssa.Function{}
	}
	if r, ok := p.inl[key]; ok {
		return r
	}
	kept := map[*ssa.Function]bool{}
	for _, k := range keep {
		kept[k] = true
	}
	rootPkg := func(f *ssa.Function) *ssa.Package {
		for f.Parent() != nil {
			f = f.Parent()
		}
		if f.Pkg == nil && f.Origin() != nil {
			return f.Origin().Pkg
		}
		return f.Pkg
	}
	policy := func(caller, callee *ssa.Function, depth int) bool {
		callee = sx.OrigFunc(callee)
		if depth > 4 || kept[callee] || !p.InModule(callee) || rootPkg(callee) != rootPkg(sx.OrigFunc(caller)) {
			return false
		}
		n := 0
		for _, b := range callee.Blocks {
			n += len(b.Instrs)
		}
		return n <= 600
	}
	res := sx.Inline(fn, policy)
	// a second and third round: once arguments are substituted, calls of function values that are constants of the program
	// (a parser passed to a generic helper, a closure built by an adapter) have become static calls and can be expanded too
	for round := 0; round < 2; round++ {
		total := 0
		for _, b := range res.Fn.Blocks {
			total += len(b.Instrs)
		}
		if total > 4000 {
			break
		}
		next := sx.Inline(res.Fn, policy)
		if len(next.Expanded) == 0 {
			break
		}
		next.Expanded = append(res.Expanded, next.Expanded...)
		for k, v := range res.FromDefer {
			_ = k
			_ = v
		}
		res = next
	}
	if why := sx.Verify(res.Fn); why != "" {
		if os.Getenv("GLB_INLINE_DUMP") != "" {
			res.Fn.WriteTo(os.Stderr)
		}
		panic("inlined copy of " + fn.String() + " is malformed: " + why)
	}
	p.inl[key] = res.Fn
	return res.Fn
}
