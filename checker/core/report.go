package core

import (
	"encoding/json"
	"fmt"
	"os"
	"path/filepath"
	"sort"
	"strings"
	"time"
)

// Status of one obligation.
const (
	Discharged = "discharged"
	Violated   = "violated"
	Undecided  = "undecided"
)

// Obligation is one rule instance. Identity is Rule + Construct (never a line number).
type Obligation struct {
	Rule      string `json:"rule"`
	Construct string `json:"construct"`
	Status    string `json:"status"`
	Pos       string `json:"pos,omitempty"`
	Detail    string `json:"detail,omitempty"`
	Config    string `json:"config,omitempty"`
}

func (o Obligation) Key() string { return o.Rule + " | " + o.Construct }

// Report collects the outcome of one property check.
type Report struct {
	Prop       string
	Tier       string
	Obls       []Obligation
	RuleText   map[string]string
	Anchors    map[string]string
	Notes      []string
	NotDecided []string
	Trusted    []string
	MinCount   map[string]int // rule -> minimum number of obligations confirmed by hand
	Extra      map[string]any
	cfg        string
}

func NewReport(prop, tier string) *Report {
	return &Report{Prop: prop, Tier: tier, RuleText: map[string]string{}, Anchors: map[string]string{}, MinCount: map[string]int{}, Extra: map[string]any{}}
}

func (r *Report) SetConfig(c string) { r.cfg = c }

// Rule registers the text of a rule and the minimum instance count expected.
func (r *Report) Rule(id, text string, min int) {
	r.RuleText[id] = text
	if min > r.MinCount[id] {
		r.MinCount[id] = min
	}
}

func (r *Report) add(rule, construct, status, pos, detail string) {
	r.Obls = append(r.Obls, Obligation{Rule: rule, Construct: construct, Status: status, Pos: pos, Detail: detail, Config: r.cfg})
}
func (r *Report) OK(rule, construct, pos, detail string) {
	r.add(rule, construct, Discharged, pos, detail)
}
func (r *Report) Fail(rule, construct, pos, detail string) {
	r.add(rule, construct, Violated, pos, detail)
}
func (r *Report) Unknown(rule, construct, pos, detail string) {
	r.add(rule, construct, Undecided, pos, detail)
}

// Check is a convenience: discharged if ok, else violated.
func (r *Report) Check(ok bool, rule, construct, pos, okDetail, failDetail string) bool {
	if ok {
		r.OK(rule, construct, pos, okDetail)
	} else {
		r.Fail(rule, construct, pos, failDetail)
	}
	return ok
}

func (r *Report) Anchor(name, val string) { r.Anchors[name] = val }
func (r *Report) Note(format string, a ...any) {
	r.Notes = append(r.Notes, fmt.Sprintf(format, a...))
}

// Finalize enforces minimum instance counts (a rule matching fewer sites than
// were confirmed by hand fails with anchor-shrunk).
func (r *Report) Finalize() {
	count := map[string]int{}
	for _, o := range r.Obls {
		if o.Config == r.cfg {
			count[o.Rule]++
		}
	}
	var ids []string
	for id := range r.MinCount {
		ids = append(ids, id)
	}
	sort.Strings(ids)
	for _, id := range ids {
		if count[id] < r.MinCount[id] {
			r.Fail(id, "anchor-shrunk", "-", fmt.Sprintf("rule matched %d instance(s), at least %d were confirmed by hand on the reference tree: the rule would pass vacuously", count[id], r.MinCount[id]))
		}
	}
}

// ---- known findings ----

type Finding struct {
	Status    string `json:"status"` // "open" | "fixed"
	Property  string `json:"property"`
	Rule      string `json:"rule"`
	Construct string `json:"construct"`
	Commit    string `json:"commit,omitempty"`
	What      string `json:"what"`
	Line      string `json:"line"`
}

type Findings struct {
	Entries []Finding `json:"entries"`
}

func LoadFindings(path string) (*Findings, error) {
	b, err := os.ReadFile(path)
	if err != nil {
		if os.IsNotExist(err) {
			return &Findings{}, nil
		}
		return nil, err
	}
	var f Findings
	if err := json.Unmarshal(b, &f); err != nil {
		return nil, err
	}
	return &f, nil
}

// ---- output ----

type Outcome struct {
	Violations []Obligation
	Known      []Obligation
	Undecided  []Obligation
}

// Emit writes evidence, prints KNOWN-FINDING / VIOLATION lines and returns the exit code.
func (r *Report) Emit(verifDir string, findings *Findings, started time.Time, stats map[string]any) int {
	open := map[string]Finding{}
	for _, f := range findings.Entries {
		if f.Status == "open" && f.Property == r.Prop {
			open[f.Rule+" | "+f.Construct] = f
		}
	}
	var out Outcome
	discharged := 0
	seenKnown := map[string]bool{}
	for _, o := range r.Obls {
		switch o.Status {
		case Discharged:
			discharged++
		case Violated:
			if f, ok := open[o.Key()]; ok {
				out.Known = append(out.Known, o)
				if !seenKnown[o.Key()] {
					seenKnown[o.Key()] = true
					fmt.Printf("KNOWN-FINDING: property=%s %s [%s at %s]\n", r.Prop, f.What, o.Key(), o.Pos)
				}
			} else {
				out.Violations = append(out.Violations, o)
			}
		case Undecided:
			out.Undecided = append(out.Undecided, o)
		}
	}
	bad := append(append([]Obligation{}, out.Violations...), out.Undecided...)

	// samples: a few discharged obligations + all non-discharged ones
	var samples []any
	perRule := map[string]int{}
	for _, o := range r.Obls {
		if o.Status != Discharged {
			samples = append(samples, o)
			continue
		}
		if perRule[o.Rule] < 3 {
			perRule[o.Rule]++
			samples = append(samples, o)
		}
	}
	ruleCount := map[string]int{}
	distinct := map[string]bool{}
	for _, o := range r.Obls {
		ruleCount[o.Rule]++
		distinct[o.Key()] = true
	}
	var rules []map[string]any
	var ids []string
	for id := range r.RuleText {
		ids = append(ids, id)
	}
	sort.Strings(ids)
	for _, id := range ids {
		rules = append(rules, map[string]any{"id": id, "text": r.RuleText[id], "instances": ruleCount[id], "min_instances": r.MinCount[id]})
	}
	cov := map[string]any{
		"explanation": fmt.Sprintf("Static analysis of /repo's current working tree (type-checked AST + go/ssa + call graph; no glb code is executed). "+
			"%d obligations (rule instances keyed by rule+construct) were generated by the rules listed under 'rules'; %d discharged, %d violated (%d of them listed as known findings), %d undecided. "+
			"Clauses of the property that are NOT decided by this check are listed under 'not_decided'.",
			len(r.Obls), discharged, len(out.Violations)+len(out.Known), len(out.Known), len(out.Undecided)),
		"obligations":         len(r.Obls),
		"discharged":          discharged,
		"evaluations":         len(r.Obls),
		"distinct_nontrivial": len(distinct),
		"rule":                "one evaluation = one rule instance (obligation) generated from the resolved program; distinct = distinct rule+construct keys; all are non-trivial in the sense that each names a concrete construct of /repo",
		"rules":               rules,
		"samples":             samples,
		"anchors":             r.Anchors,
		"not_decided":         r.NotDecided,
		"notes":               r.Notes,
		"checker_cmd":         strings.Join(os.Args, " "),
		"trusted_base":        r.Trusted,
		"exhaustive":          false,
	}
	for k, v := range stats {
		cov[k] = v
	}
	for k, v := range r.Extra {
		cov[k] = v
	}
	ev := map[string]any{
		"property_id": r.Prop,
		"tier":        r.Tier,
		"seed":        seedFromEnv(),
		"level":       "other",
		"coverage":    cov,
		"assumptions": r.Trusted,
		"wall_s":      time.Since(started).Seconds(),
		"violations":  len(bad),
	}
	os.MkdirAll(filepath.Join(verifDir, "evidence"), 0o755)
	b, _ := json.MarshalIndent(ev, "", " ")
	if err := os.WriteFile(filepath.Join(verifDir, "evidence", r.Prop+".json"), b, 0o644); err != nil {
		fmt.Fprintln(os.Stderr, "cannot write evidence:", err)
		return 2
	}
	fmt.Printf("%s %s: %d obligations, %d discharged, %d violated, %d known, %d undecided (%.1fs)\n", r.Prop, r.Tier, len(r.Obls), discharged, len(out.Violations), len(out.Known), len(out.Undecided), time.Since(started).Seconds())
	if len(bad) == 0 {
		return 0
	}
	os.MkdirAll(filepath.Join(verifDir, "replay"), 0o755)
	rp := filepath.Join(verifDir, "replay", r.Prop+"-"+r.Tier+".json")
	rb, _ := json.MarshalIndent(map[string]any{"property": r.Prop, "tier": r.Tier, "failed": bad}, "", " ")
	os.WriteFile(rp, rb, 0o644)
	for _, o := range bad {
		fmt.Printf("  %s %s [%s] at %s: %s\n", strings.ToUpper(o.Status), o.Rule, o.Construct, o.Pos, o.Detail)
	}
	fmt.Printf("VIOLATION property=%s replay=%s\n", r.Prop, rp)
	return 1
}

func seedFromEnv() int {
	var s int
	fmt.Sscanf(os.Getenv("VERIF_SEED"), "%d", &s)
	return s
}
