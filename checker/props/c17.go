package props

import (
	"fmt"
	"go/constant"
	"go/token"
	"strings"

	"golang.org/x/tools/go/ssa"

	"glbverif/checker/core"
	"glbverif/checker/sx"
)

func init() { register("C17", "util/fsutil", runC17) }

// identity-on-POSIX wrappers that may sit between path.Clean and Join
var c17Wrappers = map[string]bool{"path/filepath.FromSlash": true, "path/filepath.Clean": true, "path.Clean": true}

type c17ctx struct {
	p      *core.Prog
	r      *core.Report
	bind   map[*ssa.Parameter]ssa.Value
	cleans []*ssa.Call
	argOf  map[*ssa.Call]ssa.Value // the value whose rootedness makes the call's result rooted and dot-free
}

// sanitized: v derives (through allowed wrappers and module helpers) only from path.Clean results.
func (c *c17ctx) sanitized(v ssa.Value, depth int) (bool, string) {
	if depth > 10 {
		return false, "derivation too deep"
	}
	switch x := v.(type) {
	case *ssa.Call:
		name := sx.CalleeName(x)
		if name == "path.Clean" {
			c.cleans = append(c.cleans, x)
			c.argOf[x] = x.Call.Args[0]
			return true, ""
		}
		if name == "path.Join" {
			// path.Join(a, b, …) is Clean(a + "/" + b + …): rooted and dot-free when its first element is rooted
			if el := variadicElems(x.Call.Args[0]); len(el) >= 1 {
				c.cleans = append(c.cleans, x)
				c.argOf[x] = el[0]
				return true, ""
			}
		}
		if c17Wrappers[name] {
			return c.sanitized(x.Call.Args[0], depth+1)
		}
		if callee := sx.StaticCallee(x); callee != nil && c.p.InModule(callee) && callee.Blocks != nil {
			// look into the helper: every returned value must be sanitized with parameters bound to the arguments
			old := map[*ssa.Parameter]ssa.Value{}
			for i, prm := range callee.Params {
				if i < len(x.Call.Args) {
					old[prm] = c.bind[prm]
					c.bind[prm] = x.Call.Args[i]
				}
			}
			defer func() {
				for k, v := range old {
					c.bind[k] = v
				}
			}()
			for _, ret := range sx.Returns(callee) {
				if len(ret.Results) != 1 {
					return false, "helper " + fnName(callee) + " has several results"
				}
				if ok, why := c.sanitized(ret.Results[0], depth+1); !ok {
					return false, "in helper " + fnName(callee) + ": " + why
				}
			}
			return true, ""
		}
		return false, "passes through " + name + " at " + c.p.Pos(x.Pos()) + ", which is not an identity on cleaned POSIX paths"
	case *ssa.Phi:
		live := liveBlocks(x.Parent())
		for k, e := range x.Edges {
			if !live[x.Block().Preds[k]] {
				continue // behind a constant-false test (`if filepath.Separator != '/'` on this platform)
			}
			if ok, why := c.sanitized(e, depth+1); !ok {
				// the value arrives uncleaned, but over the edge on which it is known to contain no "/.": every segment of a
				// rooted path follows a slash, so it has no "." or ".." segment (rootedness of e is C17-R2's obligation)
				if cc := noDotSegmentEdge(x.Block().Preds[k], x.Block(), e); cc != nil {
					c.cleans = append(c.cleans, cc)
					c.argOf[cc] = e
					continue
				}
				return false, why
			}
		}
		return true, ""
	case *ssa.Parameter:
		if b, ok := c.bind[x]; ok && b != nil {
			return c.sanitized(b, depth+1)
		}
		return false, "the raw parameter " + x.Name() + " reaches the join without path.Clean"
	case *ssa.Const:
		return false, "the constant " + x.String() + " is joined instead of the cleaned URL path on some path (the result is no longer base joined with the path)"
	case *ssa.BinOp:
		return false, "string arithmetic after cleaning (" + sx.ValPath(v) + ")"
	}
	return false, "derives from " + sx.ValPath(v)
}

// isBaseItself: v is the base parameter (parameter 0) or filepath.Clean of it.
func isBaseItself(v ssa.Value, fn *ssa.Function) bool {
	if fromParam(v, fn, 0) {
		if _, isCall := v.(*ssa.Call); !isCall {
			return true
		}
	}
	if call, ok := v.(*ssa.Call); ok && sx.CalleeName(call) == "path/filepath.Clean" && fromParam(call.Call.Args[0], fn, 0) {
		return true
	}
	return false
}

// liveBlocks: the blocks of fn reachable from its entry when a test of a boolean constant takes only its own branch.
func liveBlocks(fn *ssa.Function) map[*ssa.BasicBlock]bool {
	live := map[*ssa.BasicBlock]bool{}
	var walk func(b *ssa.BasicBlock)
	walk = func(b *ssa.BasicBlock) {
		if live[b] {
			return
		}
		live[b] = true
		if len(b.Instrs) > 0 {
			if iff, ok := b.Instrs[len(b.Instrs)-1].(*ssa.If); ok {
				if c, ok := iff.Cond.(*ssa.Const); ok && c.Value != nil && c.Value.Kind() == constant.Bool {
					if constant.BoolVal(c.Value) {
						walk(b.Succs[0])
					} else {
						walk(b.Succs[1])
					}
					return
				}
			}
		}
		for _, s := range b.Succs {
			walk(s)
		}
	}
	if len(fn.Blocks) > 0 {
		walk(fn.Blocks[0])
	}
	return live
}

// noDotSegmentEdge: pred ends in `if strings.Contains(v, "/.")` and succ is its false successor only.
func noDotSegmentEdge(pred, succ *ssa.BasicBlock, v ssa.Value) *ssa.Call {
	if len(pred.Instrs) == 0 {
		return nil
	}
	iff, ok := pred.Instrs[len(pred.Instrs)-1].(*ssa.If)
	if !ok {
		return nil
	}
	want := 1
	cond := iff.Cond
	if u, isNot := cond.(*ssa.UnOp); isNot && u.Op == token.NOT {
		cond, want = u.X, 0
	}
	cc, ok := cond.(*ssa.Call)
	if !ok || sx.CalleeName(cc) != "strings.Contains" || cc.Call.Args[0] != v {
		return nil
	}
	if k, isC := sx.ConstString(cc.Call.Args[1]); !isC || k != "/." {
		return nil
	}
	if pred.Succs[want] != succ || pred.Succs[1-want] == succ {
		return nil
	}
	return cc
}

// leadingSlashEdges: the CFG edges on which v is known to start with '/': the true edge of `v[0] == '/'` (false edge
// of `!=`) and of strings.HasPrefix(v, "/").
func leadingSlashEdges(fn *ssa.Function, v ssa.Value) map[sx.Edge]bool {
	out := map[sx.Edge]bool{}
	sx.Instrs(fn, func(in ssa.Instruction) {
		switch x := in.(type) {
		case *ssa.BinOp:
			if x.Op != token.EQL && x.Op != token.NEQ {
				return
			}
			for _, pr := range [][2]ssa.Value{{x.X, x.Y}, {x.Y, x.X}} {
				var base, index ssa.Value
				switch l := pr[0].(type) {
				case *ssa.Lookup:
					base, index = l.X, l.Index
				case *ssa.Index:
					base, index = l.X, l.Index
				default:
					continue
				}
				if base != v {
					continue
				}
				if k, ok := sx.ConstInt(index); !ok || k != 0 {
					continue
				}
				if k, ok := sx.ConstInt(pr[1]); !ok || k != '/' {
					continue
				}
				for _, u := range *x.Referrers() {
					if iff, ok := u.(*ssa.If); ok {
						idx := 0
						if x.Op == token.NEQ {
							idx = 1
						}
						out[sx.Edge{From: iff.Block(), Idx: idx}] = true
					}
				}
			}
		case *ssa.Call:
			if sx.CalleeName(x) == "strings.HasPrefix" && x.Call.Args[0] == v {
				if s, ok := sx.ConstString(x.Call.Args[1]); ok && strings.HasPrefix(s, "/") {
					for _, u := range *x.Referrers() {
						if iff, ok := u.(*ssa.If); ok {
							out[sx.Edge{From: iff.Block(), Idx: 0}] = true
						}
					}
				}
			}
		}
	})
	return out
}

// rootedAt: v starts with '/' whenever `at` is reached: by its construction (rooted), or because every path to `at`
// passed a test that established it.
func rootedAt(p *core.Prog, v ssa.Value, at ssa.Instruction, depth int) (bool, string) {
	ok, why := rooted(p, v, depth)
	if ok {
		return true, ""
	}
	if at != nil {
		if e := leadingSlashEdges(at.Parent(), v); len(e) > 0 && sx.MustPass(at.Parent(), nil, at, sx.Cut{Edges: e}) {
			return true, ""
		}
	}
	return false, why
}

// rooted: v starts with '/' on every path reaching `at`.
func rooted(p *core.Prog, v ssa.Value, depth int) (bool, string) {
	if depth > 6 {
		return false, "derivation too deep"
	}
	switch x := v.(type) {
	case *ssa.Const:
		if s, ok := sx.ConstString(x); ok && strings.HasPrefix(s, "/") {
			return true, ""
		}
		return false, "constant " + x.String() + " does not start with '/'"
	case *ssa.BinOp:
		if x.Op == token.ADD {
			if s, ok := sx.ConstString(x.X); ok {
				if strings.HasPrefix(s, "/") {
					return true, ""
				}
				if s == "" {
					return rooted(p, x.Y, depth+1)
				}
				return false, "concatenation starts with constant " + fmt.Sprintf("%q", s)
			}
			return rooted(p, x.X, depth+1)
		}
	case *ssa.Phi:
		for k, e := range x.Edges {
			if ok, _ := rooted(p, e, depth+1); ok {
				continue
			}
			// the value arrives unchanged: accepted only over an edge on which e[0] == '/' is known
			pred := x.Block().Preds[k]
			known := edgeKnowsLeadingSlash(pred, x.Block(), e)
			if !known {
				// …or established earlier on every path into that predecessor
				if ed := leadingSlashEdges(pred.Parent(), e); len(ed) > 0 && sx.MustPass(pred.Parent(), nil, pred.Instrs[len(pred.Instrs)-1], sx.Cut{Edges: ed}) {
					known = true
				}
			}
			if !known {
				return false, "value " + sx.ValPath(e) + " reaches path.Clean over the edge from block " + fmt.Sprint(pred.Index) + " where a leading '/' is not established"
			}
		}
		return true, ""
	}
	return false, sx.ValPath(v) + " is not known to start with '/'"
}

// edgeKnowsLeadingSlash: pred ends in `if v[0] != '/'` (false edge to succ) or `if v[0] == '/'` (true edge to succ).
func edgeKnowsLeadingSlash(pred, succ *ssa.BasicBlock, v ssa.Value) bool {
	if len(pred.Instrs) == 0 {
		return false
	}
	iff, ok := pred.Instrs[len(pred.Instrs)-1].(*ssa.If)
	if !ok {
		return false
	}
	b, ok := iff.Cond.(*ssa.BinOp)
	if !ok || (b.Op != token.NEQ && b.Op != token.EQL) {
		return false
	}
	var idx ssa.Value
	var cst ssa.Value
	for _, pr := range [][2]ssa.Value{{b.X, b.Y}, {b.Y, b.X}} {
		switch pr[0].(type) {
		case *ssa.Lookup, *ssa.Index:
			idx, cst = pr[0], pr[1]
		}
	}
	if idx == nil {
		return false
	}
	var base, index ssa.Value
	switch l := idx.(type) {
	case *ssa.Lookup:
		base, index = l.X, l.Index
	case *ssa.Index:
		base, index = l.X, l.Index
	}
	if base != v {
		return false
	}
	if k, ok := sx.ConstInt(index); !ok || k != 0 {
		return false
	}
	if k, ok := sx.ConstInt(cst); !ok || k != '/' {
		return false
	}
	want := 0 // true edge
	if b.Op == token.NEQ {
		want = 1
	}
	return pred.Succs[want] == succ && pred.Succs[1-want] != succ
}

func runC17(p *core.Prog, r *core.Report) {
	r.Rule("C17-R1", "every non-base argument of the returned filepath.Join derives only from path.Clean (through identity-on-POSIX wrappers); the first argument is the base parameter; the raw URL path reaches Join by no other route", 2)
	r.Rule("C17-R2", "the argument of path.Clean starts with '/' on every path (constant prefix, or the parameter on an edge where p[0] == '/' is established); the index p[0] is guarded by a non-empty test", 1)
	r.NotDecided = append(r.NotDecided, "Windows volume/backslash semantics", "that the result for dot-free paths is the plain join is filepath.Join's contract", "that a fallback return of the base itself is taken only when the join escaped (a variant returning the base on more paths stays inside the base but breaks the plain-join clause)")
	r.Trusted = append(r.Trusted, "path.Clean: a rooted path stays rooted and loses every '..' element", "filepath.Join(base, rooted-clean-suffix) is Clean(base) or below", "filepath.FromSlash is the identity on POSIX", "a rooted slash path that does not contain \"/.\" has no '.' or '..' segment (every segment follows a slash); filepath.Join cleans repeated and trailing slashes")

	fn := p.Func("util/fsutil", "ResolveUrlPath")
	if fn == nil {
		r.Fail("C17-R1", "anchor ResolveUrlPath", "-", "function not found")
		return
	}
	fn = p.Inl(fn) // a private method or helper that holds the body is seen in place
	ctx := &c17ctx{p: p, r: r, bind: map[*ssa.Parameter]ssa.Value{}, argOf: map[*ssa.Call]ssa.Value{}}
	nJoin := 0
	for i, ret := range sx.Returns(fn) {
		c := fmt.Sprintf("ResolveUrlPath return #%d", i)
		var join *ssa.Call
		for _, lf := range leaves(ret.Results[0]) {
			if call, ok := lf.(*ssa.Call); ok && sx.CalleeName(call) == "path/filepath.Join" {
				join = call
			} else if call, ok := lf.(*ssa.Call); ok && sx.CalleeName(call) == "path/filepath.Clean" && len(call.Call.Args) == 1 && !isBaseItself(lf, fn) {
				// Join spelled out for two elements: Clean(base + "/" + cleaned), and Clean(cleaned) where the base is empty
				var parts []ssa.Value
				var flat func(v ssa.Value)
				flat = func(v ssa.Value) {
					if b, isB := v.(*ssa.BinOp); isB && b.Op == token.ADD {
						flat(b.X)
						flat(b.Y)
						return
					}
					parts = append(parts, v)
				}
				flat(call.Call.Args[0])
				okJ, why := true, ""
				if len(parts) == 1 {
					emptyBase := map[sx.Edge]bool{}
					sx.Instrs(fn, func(in ssa.Instruction) {
						b, isB := in.(*ssa.BinOp)
						if !isB || (b.Op != token.EQL && b.Op != token.NEQ) || b.Referrers() == nil || !fromParam(b.X, fn, 0) {
							return
						}
						if k, isC := sx.ConstString(b.Y); !isC || k != "" {
							return
						}
						for _, u := range *b.Referrers() {
							if iff, isIf := u.(*ssa.If); isIf {
								idx := 0
								if b.Op == token.NEQ {
									idx = 1
								}
								emptyBase[sx.Edge{From: iff.Block(), Idx: idx}] = true
							}
						}
					})
					if len(emptyBase) == 0 || !sx.MustPass(fn, nil, call, sx.Cut{Edges: emptyBase}) {
						okJ, why = false, "filepath.Clean of the path alone is returned on a path where the base is not known to be empty: the base is dropped"
					} else if ok2, w2 := ctx.sanitized(parts[0], 0); !ok2 {
						okJ, why = false, w2
					}
				} else {
					if !fromParam(parts[0], fn, 0) {
						okJ, why = false, "the text handed to filepath.Clean does not start with the base directory parameter ("+sx.ValPath(parts[0])+")"
					}
					if k, isC := sx.ConstString(parts[1]); okJ && (!isC || k != "/") {
						okJ, why = false, "base and path are not separated by exactly one separator"
					}
					for _, pt := range parts[2:] {
						if !okJ {
							break
						}
						if k, isC := sx.ConstString(pt); isC && k == "/" {
							continue
						}
						if ok2, w2 := ctx.sanitized(pt, 0); !ok2 {
							okJ, why = false, w2
						}
					}
				}
				r.Check(okJ, "C17-R1", c+": result is Join spelled out (Clean(base + separator + cleaned))", p.Pos(call.Pos()), "the base parameter, one separator, then only text that derives from path.Clean", why)
				if okJ {
					nJoin++
				}
			} else if isBaseItself(lf, fn) {
				// the base itself as a belt-and-braces fallback: inside the base, but the property also says that a dot-free
				// path resolves to the plain join — so the fallback must be decided by a containment test that is right for
				// every spelling of the base: filepath.Rel(base, joined) (Rel cleans both sides)
				relOK := false
				sx.Instrs(fn, func(in ssa.Instruction) {
					rc, ok := in.(*ssa.Call)
					if !ok || sx.CalleeName(rc) != "path/filepath.Rel" || len(rc.Call.Args) != 2 {
						return
					}
					if !isBaseItself(sx.Unspill(rc.Call.Args[0]), fn) {
						return
					}
					if jc, ok := sx.Unspill(rc.Call.Args[1]).(*ssa.Call); !ok || sx.CalleeName(jc) != "path/filepath.Join" {
						return
					}
					if sx.MustPass(fn, nil, ret, sx.Cut{Instrs: map[ssa.Instruction]bool{in: true}}) {
						relOK = true
					}
				})
				r.Check(relOK, "C17-R1", c+": fallback to the base itself is decided by filepath.Rel(base, joined)", p.Pos(ret.Pos()), "the fallback return lies behind filepath.Rel(base, joined)", "the base is returned instead of the joined path on a path that is not decided by filepath.Rel(base, joined): a textual comparison (prefix of the base as the caller spelled it) is wrong for bases that are not in clean form — ordinary dot-free paths then resolve to the bare base")
			} else {
				r.Fail("C17-R1", c+": result is a Join", p.Pos(ret.Pos()), "returned value "+sx.ValPath(lf)+" is not the result of filepath.Join(base, cleaned)")
			}
		}
		if join == nil {
			continue
		}
		nJoin++
		// variadic: elements stored into the backing array
		elems := variadicElems(join.Call.Args[0])
		if len(elems) < 2 {
			r.Fail("C17-R1", c+": Join arguments", p.Pos(join.Pos()), "cannot enumerate the arguments of filepath.Join")
			continue
		}
		r.Check(fromParam(elems[0], fn, 0), "C17-R1", c+": first Join argument is the base", p.Pos(join.Pos()), "base parameter", "first argument of Join is "+sx.ValPath(elems[0])+", not the base directory parameter")
		for k, e := range elems[1:] {
			ok, why := ctx.sanitized(e, 0)
			r.Check(ok, "C17-R1", fmt.Sprintf("%s: Join argument #%d is cleaned", c, k+1), p.Pos(join.Pos()), "derives only from path.Clean through identity wrappers", why)
		}
	}
	if nJoin == 0 {
		r.Fail("C17-R1", "ResolveUrlPath joins base and path", p.FuncPos(fn), "no filepath.Join result is returned")
	}
	seen := map[*ssa.Call]bool{}
	for _, cl := range ctx.cleans {
		if seen[cl] {
			continue
		}
		seen[cl] = true
		// what is cleaned is the URL path itself, at most with a slash put in front: nothing is cut out of it or replaced
		// before (names such as ".a" or "..b" are ordinary segments and must come through unchanged)
		if bs, isB := sx.Unspill(ctx.argOf[cl]).(*ssa.Call); isB && sx.CalleeName(bs) == "(*strings.Builder).String" && sx.CalleeName(cl) == "path.Clean" {
			// the path is assembled in a local strings.Builder: judged per path through the function — the builder holds
			// "/" + the parameter, or the parameter alone on a path where its leading '/' was established
			ok, why := builderRooted(fn, bs)
			r.Check(ok, "C17-R2", "argument of path.Clean in "+fnName(cl.Parent())+" is the URL path itself", p.Pos(cl.Pos()), "a local builder holding the parameter, or \"/\" + the parameter", why)
			r.Check(ok, "C17-R2", "argument of "+short(sx.CalleeName(cl))+" in "+fnName(cl.Parent())+" is rooted", p.Pos(cl.Pos()), "starts with '/' on every path", why+": path.Clean keeps leading '..' elements of a non-rooted path, the join would climb out of the base")
			continue
		}
		if sx.CalleeName(cl) == "path.Clean" {
			via := ""
			var walk func(v ssa.Value, d int)
			seenV := map[ssa.Value]bool{}
			walk = func(v ssa.Value, d int) {
				v = sx.Unspill(v)
				if v == nil || seenV[v] || d > 10 {
					return
				}
				seenV[v] = true
				switch x := v.(type) {
				case *ssa.Phi:
					for _, e := range x.Edges {
						walk(e, d+1)
					}
				case *ssa.BinOp:
					if x.Op == token.ADD {
						// "/" + strings.TrimLeft(p, "/") and "/" + strings.TrimPrefix(p, "/"): only leading slashes are
						// dropped and one is put back — path.Clean collapses a leading run of slashes to one anyway
						if k, isK := x.X.(*ssa.Const); isK && k.Value != nil && k.Value.Kind() == constant.String && constant.StringVal(k.Value) == "/" {
							if c, isC := sx.Unspill(x.Y).(*ssa.Call); isC && (sx.CalleeName(c) == "strings.TrimLeft" || sx.CalleeName(c) == "strings.TrimPrefix") && len(c.Call.Args) == 2 {
								if k2, isK2 := c.Call.Args[1].(*ssa.Const); isK2 && k2.Value != nil && k2.Value.Kind() == constant.String && constant.StringVal(k2.Value) == "/" {
									walk(c.Call.Args[0], d+1)
									return
								}
							}
						}
						walk(x.X, d+1)
						walk(x.Y, d+1)
					}
				case *ssa.Call:
					if _, isB := x.Call.Value.(*ssa.Builtin); !isB {
						via = short(sx.CalleeName(x)) + " at " + p.Pos(x.Pos())
					}
				case *ssa.Slice:
					via = "a slice of the path at " + p.Pos(x.Pos())
				}
			}
			walk(ctx.argOf[cl], 0)
			r.Check(via == "", "C17-R2", "argument of path.Clean in "+fnName(cl.Parent())+" is the URL path itself", p.Pos(cl.Pos()), "the parameter, or \"/\" + the parameter", "the path handed to path.Clean passes through "+via+" first: segments are altered before cleaning (a dot-free path no longer resolves to the plain join with the base)")
		}
		ok, why := rootedAt(p, ctx.argOf[cl], cl, 0)
		r.Check(ok, "C17-R2", "argument of "+short(sx.CalleeName(cl))+" in "+fnName(cl.Parent())+" is rooted", p.Pos(cl.Pos()), "starts with '/' on every path", why+": path.Clean keeps leading '..' elements of a non-rooted path, the join would climb out of the base")
	}
	// p[0] guarded by non-empty test
	sx.Instrs(fn, func(in ssa.Instruction) {
		var base, index ssa.Value
		switch l := in.(type) {
		case *ssa.Lookup:
			base, index = l.X, l.Index
		case *ssa.Index:
			base, index = l.X, l.Index
		default:
			return
		}
		if _, ok := base.(*ssa.Parameter); !ok {
			return
		}
		if k, ok := sx.ConstInt(index); !ok || k != 0 {
			return
		}
		// reachable only via `base != ""` edge
		cut := sx.Cut{Edges: map[sx.Edge]bool{}}
		sx.Instrs(fn, func(i2 ssa.Instruction) {
			b, ok := i2.(*ssa.BinOp)
			if !ok || (b.Op != token.EQL && b.Op != token.NEQ) || b.X != base {
				return
			}
			if s, ok := sx.ConstString(b.Y); !ok || s != "" {
				return
			}
			for _, u := range *b.Referrers() {
				if iff, ok := u.(*ssa.If); ok {
					idx := 1
					if b.Op == token.NEQ {
						idx = 0
					}
					cut.Edges[sx.Edge{From: iff.Block(), Idx: idx}] = true
				}
			}
		})
		r.Check(len(cut.Edges) > 0 && sx.MustPass(fn, nil, in, cut), "C17-R2", "index "+sx.ValPath(base)+"[0] is guarded by a non-empty test", p.Pos(in.Pos()), "reachable only when the string is non-empty", "p[0] is evaluated on a path where the string may be empty (index out of range)")
	})
}

// variadicElems returns the elements of a variadic argument slice literal in order.
func variadicElems(v ssa.Value) []ssa.Value {
	sl, ok := v.(*ssa.Slice)
	if !ok {
		return nil
	}
	a, ok := sl.X.(*ssa.Alloc)
	if !ok {
		return nil
	}
	m := map[int64]ssa.Value{}
	var maxI int64 = -1
	for _, u := range *a.Referrers() {
		if ia, ok := u.(*ssa.IndexAddr); ok {
			k, isC := sx.ConstInt(ia.Index)
			if !isC {
				return nil
			}
			for _, uu := range *ia.Referrers() {
				if st, ok := uu.(*ssa.Store); ok && st.Addr == ia {
					m[k] = st.Val
					if k > maxI {
						maxI = k
					}
				}
			}
		}
	}
	var out []ssa.Value
	for i := int64(0); i <= maxI; i++ {
		out = append(out, m[i])
	}
	return out
}

// builderRooted: str is `b.String()` of a local strings.Builder. On every acyclic path from the entry to it the builder
// received either "/" and then the URL-path parameter, or the parameter alone with its leading '/' established on
// that path; nothing else is written, the builder is used for nothing else.
func builderRooted(fn *ssa.Function, str *ssa.Call) (bool, string) {
	b := sx.Unspill(str.Call.Args[0])
	if _, isLocal := b.(*ssa.Alloc); !isLocal {
		return false, "the strings.Builder handed to path.Clean is not a local variable"
	}
	var raw *ssa.Parameter
	for _, prm := range fn.Params[1:] {
		if isStringT(prm.Type()) {
			raw = prm
		}
	}
	if raw == nil {
		return false, "no URL-path parameter"
	}
	type write struct {
		cst  string
		isC  bool
		isIn bool
	}
	writesAt := map[ssa.Instruction]write{}
	bad := ""
	for _, u := range *b.Referrers() {
		c, ok := u.(*ssa.Call)
		if !ok {
			if _, isDbg := u.(*ssa.DebugRef); !isDbg {
				bad = "the builder is used by " + u.String()
			}
			continue
		}
		switch sx.CalleeName(c) {
		case "(*strings.Builder).Grow", "(*strings.Builder).String", "(*strings.Builder).Len":
		case "(*strings.Builder).WriteByte", "(*strings.Builder).WriteRune":
			if k, isK := sx.ConstInt(c.Call.Args[1]); isK && k > 0 && k < 0x80 {
				writesAt[c] = write{cst: string(rune(k)), isC: true}
			} else {
				bad = "a computed byte is written to the builder"
			}
		case "(*strings.Builder).WriteString":
			if k, isK := sx.ConstString(c.Call.Args[1]); isK {
				writesAt[c] = write{cst: k, isC: true}
			} else if sx.Unspill(c.Call.Args[1]) == ssa.Value(raw) {
				writesAt[c] = write{isIn: true}
			} else {
				bad = "something other than the URL path is written to the builder (" + short(sx.ValPath(c.Call.Args[1])) + ")"
			}
		default:
			bad = "the builder is handed to " + short(sx.CalleeName(c))
		}
	}
	if bad != "" {
		return false, bad
	}
	slash := leadingSlashEdges(fn, raw)
	nPaths := 0
	why := ""
	onPath := map[*ssa.BasicBlock]bool{}
	var dfs func(blk *ssa.BasicBlock, seq []write, sawSlash bool)
	dfs = func(blk *ssa.BasicBlock, seq []write, sawSlash bool) {
		if onPath[blk] || nPaths > 256 || why != "" {
			if onPath[blk] {
				for _, in := range blk.Instrs {
					if _, w := writesAt[in]; w {
						why = "the builder is written inside a loop"
					}
				}
			}
			return
		}
		onPath[blk] = true
		defer func() { onPath[blk] = false }()
		for _, in := range blk.Instrs {
			if w, isW := writesAt[in]; isW {
				seq = append(seq[:len(seq):len(seq)], w)
			}
			if in == ssa.Instruction(str) {
				nPaths++
				text, nIn := "", 0
				lead := ""
				for _, w := range seq {
					if w.isIn {
						nIn++
						if nIn == 1 {
							lead = text
						}
					} else if nIn == 0 {
						text += w.cst
					} else {
						why = "text is appended after the URL path"
					}
				}
				switch {
				case nIn != 1:
					why = fmt.Sprintf("on some path the URL path is written %d times", nIn)
				case lead == "/":
				case lead == "" && sawSlash:
				case lead == "":
					why = "on some path the builder holds the URL path alone although its leading '/' was not established"
				default:
					why = fmt.Sprintf("on some path %q is put in front of the URL path", lead)
				}
				return
			}
		}
		for i, sc := range blk.Succs {
			dfs(sc, seq, sawSlash || slash[sx.Edge{From: blk, Idx: i}])
		}
	}
	dfs(fn.Blocks[0], nil, false)
	if why != "" {
		return false, why
	}
	if nPaths == 0 {
		return false, "the String() call is not reachable"
	}
	return true, ""
}
