package props

import (
	"fmt"
	"go/token"
	"go/types"
	"sort"
	"strings"

	"golang.org/x/tools/go/ssa"

	"glbverif/checker/core"
	"glbverif/checker/sx"
)

func init() { register("C03", "logger", runC03) }

// taint kinds
const (
	tPtr     = "pointer into the receiver's memory"
	tSlice   = "slice sharing the receiver's backing array"
	tClip    = "clipped slice (append reallocates, elements still shared)"
	tStruct  = "copy of the receiver's struct value"
	tCellPtr = "captured variable holding a pointer into the receiver's memory"
)

type mutFinding struct {
	pos, msg string
}

type mutAnalysis struct {
	p       *core.Prog
	memo    map[string][]mutFinding
	inprog  map[string]bool
	clipFns map[string]bool
	cloneFn map[string]bool
}

func newMutAnalysis(p *core.Prog) *mutAnalysis {
	return &mutAnalysis{p: p, memo: map[string][]mutFinding{}, inprog: map[string]bool{},
		clipFns: map[string]bool{"slices.Clip": true},
		cloneFn: map[string]bool{"slices.Clone": true, "bytes.Clone": true, "strings.Clone": true}}
}

func refType(t types.Type) bool {
	switch t.Underlying().(type) {
	case *types.Pointer, *types.Slice, *types.Map:
		return true
	}
	return false
}

// analyse returns the mutations of memory reachable from the given tainted values of fn.
func (m *mutAnalysis) analyse(fn *ssa.Function, seeds map[ssa.Value]string) []mutFinding {
	var ks []string
	for v, k := range seeds {
		ks = append(ks, v.Name()+":"+k)
	}
	sort.Strings(ks)
	key := fn.String() + "|" + strings.Join(ks, ",")
	if f, ok := m.memo[key]; ok {
		return f
	}
	if m.inprog[key] {
		return nil
	}
	m.inprog[key] = true
	defer delete(m.inprog, key)
	var out []mutFinding
	bad := func(in ssa.Instruction, format string, a ...any) {
		out = append(out, mutFinding{m.p.Pos(in.Pos()), fmt.Sprintf(format, a...) + " in " + fnName(fn)})
	}
	taint := map[ssa.Value]string{}
	var work []ssa.Value
	mark := func(v ssa.Value, k string) {
		if v == nil {
			return
		}
		if old, ok := taint[v]; ok && (old == k || old == tSlice) {
			return
		}
		taint[v] = k
		work = append(work, v)
	}
	for v, k := range seeds {
		mark(v, k)
	}
	for len(work) > 0 {
		v := work[len(work)-1]
		work = work[:len(work)-1]
		k := taint[v]
		refs := v.Referrers()
		if refs == nil {
			continue
		}
		for _, r := range *refs {
			switch x := r.(type) {
			case *ssa.FieldAddr:
				if x.X == v && k == tPtr {
					mark(x, tPtr)
				}
			case *ssa.IndexAddr:
				if x.X == v {
					mark(x, tPtr)
				}
			case *ssa.Field:
				if x.X == v && k == tStruct && refType(x.Type()) {
					if _, isSl := x.Type().Underlying().(*types.Slice); isSl {
						mark(x, tSlice)
					} else {
						mark(x, tPtr)
					}
				}
			case *ssa.UnOp:
				if x.Op == token.MUL && x.X == v && k == tCellPtr {
					mark(x, tPtr) // the captured variable's value
					continue
				}
				if x.Op != token.MUL || x.X != v || k != tPtr {
					continue
				}
				switch x.Type().Underlying().(type) {
				case *types.Slice:
					mark(x, tSlice)
				case *types.Pointer, *types.Map:
					// shared object reachable from the receiver (e.g. *Options); the mutex and atomic values are meant to be shared
					if isSyncType(x.Type()) {
						continue
					}
					mark(x, tPtr)
				case *types.Struct:
					mark(x, tStruct)
				}
			case *ssa.Slice:
				if x.X == v {
					if k == tPtr { // slicing an array through its address
						mark(x, tSlice)
					} else if x.Max != nil && x.High != nil && sx.ValPath(x.Max) == sx.ValPath(x.High) {
						mark(x, tClip)
					} else {
						mark(x, k)
					}
				}
			case *ssa.Phi:
				mark(x, k)
			case *ssa.ChangeType:
				mark(x, k)
			case *ssa.MakeClosure:
				cl := x.Fn.(*ssa.Function)
				sub := map[ssa.Value]string{}
				for i, b := range x.Bindings {
					if b == v {
						sub[cl.FreeVars[i]] = k
					}
				}
				out = append(out, m.analyse(cl, sub)...)
			case *ssa.Store:
				if x.Addr == v {
					if k == tPtr {
						bad(x, "store through %s (%s)", sx.AddrPath(x.Addr), k)
					}
					continue
				}
				// the tainted value itself is stored somewhere
				switch k {
				case tSlice:
					if _, isCell := x.Addr.(*ssa.Alloc); isCell && !x.Addr.(*ssa.Alloc).Heap {
						// local variable: follow loads
						for _, u := range *x.Addr.Referrers() {
							if ld, ok := u.(*ssa.UnOp); ok && ld.Op == token.MUL {
								mark(ld, tSlice)
							}
						}
						continue
					}
					bad(x, "the receiver's byte slice is stored into %s without slices.Clip/Clone: the new owner appends into spare capacity shared with every other handler derived from the same parent", sx.AddrPath(x.Addr))
				case tStruct:
					if a, ok := x.Addr.(*ssa.Alloc); ok {
						// whole-struct copy: every slice field must be re-assigned from a clipped/fresh value before the copy is returned
						if why := structCopyUnclipped(fn, a, x); why != "" {
							bad(x, "the receiver's struct is copied wholesale (%s): its pre-rendered byte slice keeps the parent's spare capacity, derived siblings overwrite each other", why)
						}
					}
				case tPtr:
					// storing a pointer into the receiver's memory elsewhere lets others mutate it later: only into locals
					if a, ok := x.Addr.(*ssa.Alloc); ok && !a.Heap {
						for _, u := range *a.Referrers() {
							if ld, ok := u.(*ssa.UnOp); ok && ld.Op == token.MUL {
								mark(ld, tPtr)
							}
						}
					} else if ok && capturedVar(a) {
						// a variable captured by closures of this function (`h` used inside `r.Attrs(func…)`): loads here and
						// in the closures see the pointer
						for _, u := range *a.Referrers() {
							switch y := u.(type) {
							case *ssa.UnOp:
								if y.Op == token.MUL {
									mark(y, tPtr)
								}
							case *ssa.MakeClosure:
								cl := y.Fn.(*ssa.Function)
								sub := map[ssa.Value]string{}
								for i, b := range y.Bindings {
									if b == ssa.Value(a) {
										sub[cl.FreeVars[i]] = tCellPtr
									}
								}
								out = append(out, m.analyse(cl, sub)...)
							}
						}
					}
				}
			case *ssa.MapUpdate:
				if x.Map == v {
					bad(x, "map owned by the receiver is updated")
				}
			case ssa.CallInstruction:
				m.call(fn, x, v, k, mark, bad, &out)
			}
		}
	}
	m.memo[key] = out
	return out
}

// capturedVar: a heap cell that is only assigned, read and captured by closures (a local variable or parameter that a
// function literal refers to).
func capturedVar(a *ssa.Alloc) bool {
	if a.Referrers() == nil {
		return false
	}
	for _, u := range *a.Referrers() {
		switch y := u.(type) {
		case *ssa.Store:
			if y.Addr != ssa.Value(a) {
				return false
			}
		case *ssa.UnOp:
			if y.Op != token.MUL {
				return false
			}
		case *ssa.MakeClosure, *ssa.DebugRef:
		default:
			return false
		}
	}
	return true
}

func isSyncType(t types.Type) bool {
	if p, ok := t.Underlying().(*types.Pointer); ok {
		t = p.Elem()
	}
	if n, ok := t.(*types.Named); ok && n.Obj().Pkg() != nil {
		pp := n.Obj().Pkg().Path()
		// synchronisation primitives are meant to be shared; sync.Map is a container — state, not synchronisation
		return (pp == "sync" && n.Obj().Name() != "Map") || pp == "sync/atomic"
	}
	return false
}

// structCopyUnclipped: after `*a = <struct copy>` every slice-typed field of a must be overwritten before any return.
func structCopyUnclipped(fn *ssa.Function, a *ssa.Alloc, copyStore *ssa.Store) string {
	st, ok := ptrTo(a.Type()).Underlying().(*types.Struct)
	if !ok {
		return ""
	}
	for i := 0; i < st.NumFields(); i++ {
		f := st.Field(i)
		if _, isSl := f.Type().Underlying().(*types.Slice); !isSl {
			continue
		}
		cut := sx.Cut{Instrs: map[ssa.Instruction]bool{}}
		for _, u := range *a.Referrers() {
			fa, ok := u.(*ssa.FieldAddr)
			if !ok || sx.FieldOf(fa) != f {
				continue
			}
			for _, uu := range *fa.Referrers() {
				if s2, ok := uu.(*ssa.Store); ok && s2.Addr == fa {
					if c, ok := s2.Val.(*ssa.Call); ok {
						n := sx.CalleeName(c)
						if n == "slices.Clip" || n == "slices.Clone" || n == "bytes.Clone" {
							cut.Instrs[s2] = true
						}
					}
					if sx.IsNilConst(s2.Val) {
						cut.Instrs[s2] = true
					}
					// full slice expression x[:n:n]: capacity == length, the next append reallocates (what slices.Clip does)
					if sl, ok := s2.Val.(*ssa.Slice); ok && sl.Max != nil && sl.High != nil && sx.ValPath(sl.Max) == sx.ValPath(sl.High) {
						cut.Instrs[s2] = true
					}
				}
			}
		}
		for _, ret := range sx.Returns(fn) {
			if len(cut.Instrs) == 0 || sx.ReachInstr(fn, copyStore, ret, cut) {
				return "field " + f.Name() + " is not re-assigned from a clipped or fresh slice"
			}
		}
	}
	return ""
}

func (m *mutAnalysis) call(fn *ssa.Function, c ssa.CallInstruction, v ssa.Value, k string, mark func(ssa.Value, string), bad func(ssa.Instruction, string, ...any), out *[]mutFinding) {
	name := sx.CalleeName(c)
	args := sx.Args(c)
	pos := -1
	for i, a := range args {
		if a == v {
			pos = i
		}
	}
	if pos < 0 {
		return // v is the function value or not an argument
	}
	in := c.(ssa.Instruction)
	switch {
	case name == "builtin.append":
		if pos == 0 {
			if k == tSlice {
				bad(in, "append to the receiver's own slice %s (writes into its spare capacity)", sx.ValPath(v))
			}
			if k == tClip {
				// append to a clipped slice reallocates: the result is fresh
			}
		}
		return
	case name == "builtin.copy":
		if pos == 0 {
			bad(in, "copy into memory shared with the receiver")
		}
		return
	case strings.HasPrefix(name, "builtin."):
		return
	case m.clipFns[name]:
		if call, ok := c.(*ssa.Call); ok {
			mark(call, tClip)
		}
		return
	case m.cloneFn[name]:
		return
	case (strings.HasPrefix(name, "(*sync.") && !strings.HasPrefix(name, "(*sync.Map).")) || strings.HasPrefix(name, "(*sync/atomic."):
		return
	case strings.HasPrefix(name, "(*sync.Map)."):
		switch strings.TrimPrefix(name, "(*sync.Map).") {
		case "Load", "Range":
			return
		}
		if pos == 0 {
			bad(in, "%s of a sync.Map reachable from the receiver: state shared with every object that holds the same map (a copy of the struct copies the pointer)", strings.TrimPrefix(name, "(*sync.Map)."))
		}
		return
	}
	if c.Common().IsInvoke() {
		if pos == 0 {
			return // method call on an interface value held by the receiver: the callee's own receiver discipline is checked separately
		}
		if k == tSlice || k == tClip {
			if name == "(io.Writer).Write" {
				return
			}
		}
		bad(in, "%s passed to %s", k, name)
		return
	}
	callee := sx.StaticCallee(c)
	if callee != nil && m.p.InModule(callee) && callee.Blocks != nil {
		if pos < len(callee.Params) {
			*out = append(*out, m.analyse(callee, map[ssa.Value]string{callee.Params[pos]: k})...)
		}
		return
	}
	if k == tPtr || k == tSlice {
		// append-style and read-only standard functions taking the slice as a *source*
		if appendStyle(name) && pos > 0 {
			return
		}
		switch name {
		case "bytes.Equal", "bytes.Compare", "unicode/utf8.Valid":
			return
		}
		if k == tSlice || k == tPtr {
			bad(in, "%s passed to %s", k, name)
		}
	}
}

func runC03(p *core.Prog, r *core.Report) {
	r.Rule("C03-R1", "receiver immutability: no handler or Logger method stores through its receiver, appends to a slice owned by the receiver, or hands such memory to code that does (followed through module callees and closures)", 14)
	r.Rule("C03-R2", "clipped inheritance: the receiver's pre-rendered bytes reach another handler only through slices.Clip / Clone (never a plain copy of the slice header or of the whole struct)", 3)
	r.Rule("C03-R3", "Options are immutable after construction (shared by pointer between all derived handlers)", 1)
	r.Rule("C03-R5", "no use after release: in every function of the package, no slice that shares storage with an object obtained from a sync.Pool is used once that object went back with Put (until it is obtained again)", 0)
	r.Rule("C03-R4", "With ≡ call site: WithAttrs renders attributes with the same emitter and the same state arguments (separator flag / group prefix / colour) as Handle does for the record's own attributes, and every attribute is rendered with a freshly obtained group-prefix scratch buffer", 5)
	r.NotDecided = append(r.NotDecided, "byte equality with an isolated replay as such (follows from non-aliasing + determinism of the emitters; argued, not computed)")
	r.Trusted = append(r.Trusted, "slices.Clip returns s[:len(s):len(s)] (append reallocates)", "slices.Clone / bytes.Clone return a fresh backing array", "go/ssa")

	hs := logHandlers(p)
	ma := newMutAnalysis(p)
	type target struct {
		name string
		fn   *ssa.Function
	}
	var targets []target
	for _, h := range hs {
		var names []string
		for n := range h.Methods {
			names = append(names, n)
		}
		sort.Strings(names)
		for _, n := range names {
			targets = append(targets, target{h.Name + "." + n, h.Methods[n]})
		}
	}
	if lg := p.Named("logger", "Logger"); lg != nil {
		ms := p.SSA.MethodSets.MethodSet(types.NewPointer(lg))
		for i := 0; i < ms.Len(); i++ {
			if fn := p.SSA.MethodValue(ms.At(i)); fn != nil && fn.Blocks != nil && fn.Synthetic == "" {
				targets = append(targets, target{"Logger." + ms.At(i).Obj().Name(), fn})
			}
		}
	}
	for _, tg := range targets {
		if len(tg.fn.Params) == 0 {
			continue
		}
		fs := ma.analyse(tg.fn, map[ssa.Value]string{tg.fn.Params[0]: tPtr})
		var r1, r2 []string
		for _, f := range fs {
			if strings.Contains(f.msg, "slices.Clip") || strings.Contains(f.msg, "copied wholesale") {
				r2 = append(r2, f.msg+" at "+f.pos)
			} else {
				r1 = append(r1, f.msg+" at "+f.pos)
			}
		}
		r.Check(len(r1) == 0, "C03-R1", tg.name+" leaves its receiver untouched", p.FuncPos(tg.fn), "no store, append or mutating call reaches memory owned by the receiver", strings.Join(uniq(r1), "; "))
		if len(r2) > 0 {
			r.Fail("C03-R2", tg.name+" hands the pre-rendered bytes on clipped", p.FuncPos(tg.fn), strings.Join(uniq(r2), "; "))
		}
	}
	// R2 positive instances: every store into a handler's pre-rendered field
	for _, h := range hs {
		if h.Pre == nil {
			continue
		}
		for _, ref := range sx.FieldRefs(p.ModuleFuncs(), h.Pre) {
			fa, ok := ref.Instr.(*ssa.FieldAddr)
			if !ok {
				continue
			}
			n := 0
			for _, a := range sx.Accesses(fa) {
				if a.Kind != "write" {
					continue
				}
				n++
				c := fmt.Sprintf("%s.%s assigned in %s #%d", h.Name, h.Pre.Name(), fnName(ref.Fn), n)
				ok, why := inheritedClipped(a.Val, h)
				r.Check(ok, "C03-R2", c, p.Pos(a.Instr.Pos()), why, why)
			}
		}
	}

	// ---- R3
	if opts := p.Named("logger", "Options"); opts != nil {
		var bad []string
		n := 0
		for _, f := range structFields(opts) {
			for _, ref := range sx.FieldRefs(p.ModuleFuncs(), f) {
				fa, ok := ref.Instr.(*ssa.FieldAddr)
				if !ok {
					continue
				}
				for _, a := range sx.Accesses(fa) {
					if a.Kind == "write" || a.Kind == "addr-escape" {
						n++
						if !sx.IsFreshObject(ref.Base) {
							bad = append(bad, "Options."+f.Name()+" written in "+fnName(ref.Fn)+" at "+p.Pos(a.Instr.Pos()))
						}
					}
				}
			}
		}
		r.Check(len(bad) == 0, "C03-R3", "Options fields are written only while unpublished", "-", fmt.Sprintf("%d writes, all in the constructor", n), strings.Join(bad, "; "))
	}

	// ---- R4
	getters, _ := poolFuncs(p, "logger")
	// a pooled scratch buffer is filled by append (which grows it): a copy() into it is cut off at whatever capacity the
	// pool happens to hand back, so what a derived logger renders would depend on what other loggers rendered before
	{
		var cp []string
		for _, fn := range p.PkgFuncs("logger") {
			sx.Instrs(fn, func(in ssa.Instruction) {
				c, ok := in.(*ssa.Call)
				if !ok || !isBuiltin(c, "copy") {
					return
				}
				if sx.Origins(c.Call.Args[0])["call:(*sync.Pool).Get"] {
					cp = append(cp, "copy() into a pooled buffer in "+fnName(fn)+" at "+p.Pos(in.Pos()))
				}
			})
		}
		r.Check(len(cp) == 0, "C03-R4", "pooled scratch buffers are filled by append, never by a capacity-bounded copy", "-", "no copy() whose destination is a buffer obtained from a pool", strings.Join(cp, "; ")+": a group path longer than the recycled buffer's capacity is silently truncated in the keys of With attributes")
	}
	for _, h := range hs {
		with, handle := h.Methods["WithAttrs"], h.Methods["Handle"]
		if with == nil || handle == nil {
			continue
		}
		// inlined views: wrappers (a per-attribute method, a loop helper, the prefix getter) are seen in place; the
		// attribute emitters themselves — free functions taking the output buffer first — stay calls
		var keep []*ssa.Function
		for _, f := range p.PkgFuncs("logger") {
			if f.Parent() == nil && f.Signature.Recv() == nil && len(f.Params) > 0 {
				if pt := ptrTo(f.Params[0].Type()); pt != nil && pt.String() == "[]byte" {
					for _, prm := range f.Params {
						if typeIs(prm.Type(), "log/slog", "Attr") || typeIs(prm.Type(), "log/slog", "Value") {
							keep = append(keep, f)
							break
						}
					}
				}
			}
		}
		with, handle = p.Inl(with, keep...), p.Inl(handle, keep...)
		emW := emitterCalls(p, with, keep...)
		emH := emitterCalls(p, handle, keep...)
		if len(emH) == 0 {
			r.Fail("C03-R4", h.Name+": attribute emitter in Handle", p.FuncPos(handle), "Handle does not call an attribute emitter")
			continue
		}
		if len(emW) == 0 {
			// a handler may ignore With attributes only if it ignores all attributes
			r.Fail("C03-R4", h.Name+": attribute emitter in WithAttrs", p.FuncPos(with), "WithAttrs does not render attributes although Handle does")
			continue
		}
		// every attribute given to With is rendered: the emitter call in the loop over the attributes is reached on every
		// iteration (a filter here and not at the call site makes With attributes differ from call-site attributes)
		{
			var skipped []string
			for _, e := range emW {
				if e.Parent() != with {
					continue
				}
				h0 := sx.InnermostLoop(with, e.Block())
				if h0 == nil || len(h0.Instrs) == 0 {
					continue
				}
				for be := range sx.BackEdgesTo(h0) {
					latch := be.From
					if latch == e.Block() || len(latch.Instrs) == 0 {
						continue
					}
					if sx.ReachInstr(with, h0.Instrs[0], latch.Instrs[len(latch.Instrs)-1], sx.Cut{Instrs: map[ssa.Instruction]bool{e: true}}) {
						skipped = append(skipped, "the emitter call at "+p.Pos(e.Pos())+" is skipped on some iterations")
					}
				}
			}
			r.Check(len(skipped) == 0, "C03-R4", h.Name+": WithAttrs renders every attribute it is given", p.FuncPos(with), "the emitter call is reached on every iteration of the attribute loop", strings.Join(uniq(skipped), "; ")+": an attribute dropped by With would still be printed when passed at the call site")
		}
		sigW, sigH := emitterSig(p, emW), emitterSig(p, emH)
		r.Check(sigW == sigH, "C03-R4", h.Name+": With attributes are rendered like call-site attributes", p.FuncPos(with), "same emitter and state arguments: "+short(sigH), "WithAttrs renders with "+short(sigW)+" but Handle renders the record's own attributes with "+short(sigH))
		// scratch buffers are re-obtained per attribute
		for _, fn := range []*ssa.Function{with, handle} {
			for _, f := range sx.WithClosures(fn) {
				sx.Instrs(f, func(in ssa.Instruction) {
					e, ok := in.(*ssa.Call)
					if !ok || !isEmitterCall(p, e) {
						return
					}
					for ai, a := range e.Call.Args {
						if ai == 0 {
							continue // the output buffer is meant to accumulate
						}
						// the scratch buffer: obtained from a pool getter of the module or from the pool itself
						var g *ssa.Call
						gname := ""
						switch gv := sx.Unspill(a).(type) {
						case *ssa.Call:
							if gc := sx.StaticCallee(gv); gc != nil && getters[sx.OrigFunc(gc)] {
								g, gname = gv, fnName(gc)
							}
						case *ssa.TypeAssert:
							if pc, ok := gv.X.(*ssa.Call); ok && sx.CalleeName(pc) == "(*sync.Pool).Get" {
								g, gname = pc, "sync.Pool.Get"
							}
						}
						if g == nil {
							continue
						}
						// refresh points: the buffer is obtained anew, or rewound (`*p = append((*p)[:0], …)`)
						cut := sx.Cut{Instrs: map[ssa.Instruction]bool{g: true}}
						ptr := sx.Unspill(a)
						sx.Instrs(f, func(i2 ssa.Instruction) {
							st, ok := i2.(*ssa.Store)
							if !ok || sx.Unspill(st.Addr) != ptr {
								return
							}
							ap, ok := st.Val.(*ssa.Call)
							if !ok || !isBuiltin(ap, "append") {
								return
							}
							if sl, ok := ap.Call.Args[0].(*ssa.Slice); ok && sl.Low == nil && sl.High != nil {
								if k, isC := sx.ConstInt(sl.High); isC && k == 0 {
									if ld, ok := sl.X.(*ssa.UnOp); ok && sx.Unspill(ld.X) == ptr {
										cut.Instrs[i2] = true
									}
								}
							}
						})
						// …or cut back to the length it had when it was obtained (`base := len(*p)` right after the getter,
						// `*p = (*p)[:base]` before each attribute; base may reach a closure as a captured variable)
						var isBaseLen func(v ssa.Value, d int) bool
						isBaseLen = func(v ssa.Value, d int) bool {
							if d > 4 || v == nil {
								return false
							}
							switch x := v.(type) {
							case *ssa.Call:
								if !isBuiltin(x, "len") {
									return false
								}
								ld, ok := x.Call.Args[0].(*ssa.UnOp)
								if !ok || ld.Op != token.MUL {
									return false
								}
								src := sx.Unspill(ld.X)
								if ta, isTA := src.(*ssa.TypeAssert); isTA {
									src = ta.X
								}
								if src != ssa.Value(g) {
									return false
								}
								// recorded before anything was written through the buffer: no emitter call reaches it
								return x.Parent() != g.Parent() || !sx.ReachInstr(g.Parent(), g, x, sx.Cut{Instrs: map[ssa.Instruction]bool{}}) || !emitterBetween(p, g, x)
							case *ssa.UnOp:
								if x.Op != token.MUL {
									return false
								}
								switch c := x.X.(type) {
								case *ssa.FreeVar:
									if b := sx.FreeVarBinding(c); b != nil {
										if al, isA := sx.Unspill(b).(*ssa.Alloc); isA {
											st, _ := sx.CellStores(al)
											return len(st) == 1 && isBaseLen(st[0], d+1)
										}
										return isBaseLen(b, d+1)
									}
								case *ssa.Alloc:
									st, _ := sx.CellStores(c)
									return len(st) == 1 && isBaseLen(st[0], d+1)
								}
							case *ssa.FreeVar:
								if b := sx.FreeVarBinding(x); b != nil {
									return isBaseLen(b, d+1)
								}
							}
							return false
						}
						sx.Instrs(f, func(i2 ssa.Instruction) {
							st, ok := i2.(*ssa.Store)
							if !ok || sx.Unspill(st.Addr) != ptr {
								return
							}
							sl, ok := st.Val.(*ssa.Slice)
							if !ok || sl.Low != nil || sl.High == nil {
								return
							}
							if ld, ok := sl.X.(*ssa.UnOp); !ok || sx.Unspill(ld.X) != ptr {
								return
							}
							if isBaseLen(sl.High, 0) {
								cut.Instrs[i2] = true
							}
						})
						fresh := g.Parent() == f && !sx.ReachInstr(f, e, e, cut)
						if g.Parent() != f {
							// the buffer belongs to the enclosing function and this closure runs once per attribute: it must rewind
							// the buffer itself before the emitter call
							rew := sx.Cut{Instrs: map[ssa.Instruction]bool{}}
							for i2 := range cut.Instrs {
								if i2 != ssa.Instruction(g) {
									rew.Instrs[i2] = true
								}
							}
							fresh = len(rew.Instrs) > 0 && sx.MustPass(f, nil, e, rew)
						}
						r.Check(fresh, "C03-R4", fmt.Sprintf("%s: scratch buffer from %s is fresh for every attribute in %s", h.Name, gname, fnName(f)), p.Pos(e.Pos()), "obtained anew (or rewound) before each emitter call", "the scratch buffer obtained once at "+p.Pos(g.Pos())+" is reused for several attributes: the emitter leaves the previous attribute's key in it, so the second and later With attributes nest under their predecessor")
					}
				})
			}
		}
	}
	// ---- R5: nothing taken from a pool is used after it was put back (every sync.Pool of the package, every function):
	// whatever still points into a pooled object after Put — the slice a derived logger's attributes were collected in —
	// is overwritten by the next caller that obtains the object
	{
		nPut := 0
		for _, v := range pkgViews(p, "logger") {
			for _, f := range sx.WithClosures(v.Fn) {
				sx.Instrs(f, func(in ssa.Instruction) {
					put, ok := in.(*ssa.Call)
					if !ok || sx.CalleeName(put) != "(*sync.Pool).Put" || len(put.Call.Args) < 2 {
						return
					}
					// the pooled object: the Get call the released pointer comes from
					var root *ssa.Call
					for _, lf := range leaves(stripIface(put.Call.Args[1])) {
						if ta, isTA := lf.(*ssa.TypeAssert); isTA {
							lf = ta.X
						}
						if g, isG := lf.(*ssa.Call); isG && sx.CalleeName(g) == "(*sync.Pool).Get" && g.Parent() == f {
							root = g
						}
					}
					if root == nil {
						return
					}
					nPut++
					derived := map[ssa.Value]bool{root: true}
					for changed := true; changed; {
						changed = false
						add := func(v ssa.Value) {
							if v != nil && !derived[v] {
								derived[v] = true
								changed = true
							}
						}
						sx.Instrs(f, func(i2 ssa.Instruction) {
							switch x := i2.(type) {
							case *ssa.TypeAssert:
								if derived[x.X] {
									add(x)
								}
							case *ssa.ChangeType:
								if derived[x.X] {
									add(x)
								}
							case *ssa.Extract:
								if derived[x.Tuple] {
									add(x)
								}
							case *ssa.UnOp:
								if x.Op == token.MUL && derived[x.X] {
									if _, isSlice := x.Type().Underlying().(*types.Slice); isSlice {
										add(x)
									}
									if _, isPtr := x.Type().Underlying().(*types.Pointer); isPtr {
										add(x)
									}
								}
							case *ssa.Slice:
								if derived[x.X] {
									add(x)
								}
							case *ssa.Phi:
								for _, e := range x.Edges {
									if derived[e] {
										add(x)
									}
								}
							case *ssa.Call:
								if isBuiltin(x, "append") && derived[x.Call.Args[0]] {
									add(x)
								}
							case *ssa.Store:
								if al, isCell := x.Addr.(*ssa.Alloc); isCell && derived[x.Val] {
									add(al)
								}
							}
						})
					}
					late := ""
					sx.WalkFrom(f, put, sx.Cut{Instrs: map[ssa.Instruction]bool{root: true}}, func(i2 ssa.Instruction) bool {
						if i2 == ssa.Instruction(put) {
							return true
						}
						if _, isDbg := i2.(*ssa.DebugRef); isDbg {
							return true
						}
						for _, op := range i2.Operands(nil) {
							if op == nil || *op == nil || !derived[*op] {
								continue
							}
							if _, isSlice := (*op).Type().Underlying().(*types.Slice); !isSlice {
								continue // the pointer itself may be compared or dropped; its storage is what must not be used
							}
							if late == "" {
								late = p.Pos(i2.Pos())
								if late == "-" || late == "" {
									late = "in " + fnName(f)
								}
							}
						}
						return true
					})
					r.Check(late == "", "C03-R5", "pooled object released in "+fnName(f)+" is not used afterwards", p.Pos(put.Pos()), "no slice of the pooled object is used after Pool.Put", "a slice that shares the pooled object's storage is still used after Pool.Put ("+late+"): the next caller that obtains the object overwrites it — attributes of one derived logger turn into another's")
				})
			}
		}
		_ = nPut
	}

}

// inheritedClipped: a value stored into a handler's pre-rendered field either does not derive from
// another handler's field, or passes through a clipping/copying operation first.
func inheritedClipped(v ssa.Value, h *handlerInfo) (bool, string) {
	seen := map[ssa.Value]bool{}
	var walk func(v ssa.Value) (bool, string)
	walk = func(v ssa.Value) (bool, string) {
		if v == nil || seen[v] {
			return true, ""
		}
		seen[v] = true
		switch x := v.(type) {
		case *ssa.Call:
			n := sx.CalleeName(x)
			switch {
			case n == "slices.Clip" || n == "slices.Clone" || n == "bytes.Clone":
				return true, "through " + n
			case n == "builtin.append":
				// append(dst, src...): the result shares dst's array only
				return walk(x.Call.Args[0])
			}
			return true, "result of " + n
		case *ssa.Slice:
			if x.Max != nil {
				return true, "full slice expression"
			}
			return walk(x.X)
		case *ssa.Phi:
			for _, e := range x.Edges {
				if ok, why := walk(e); !ok {
					return false, why
				}
			}
			return true, ""
		case *ssa.UnOp:
			if x.Op == token.MUL {
				if fa, ok := x.X.(*ssa.FieldAddr); ok && sx.FieldOf(fa) == h.Pre {
					if sx.IsFreshObject(fa.X) {
						return true, "the new handler's own bytes"
					}
					return false, "assigned the bytes of another handler (" + sx.ValPath(v) + ") without slices.Clip/Clone: both share spare capacity"
				}
			}
		}
		return true, "fresh or constant"
	}
	ok, why := walk(v)
	if ok && why == "" {
		why = "does not alias another handler's bytes"
	}
	return ok, why
}

// isEmitterCall: a static call to a module function that takes a slog.Attr or slog.Value.
func isEmitterCall(p *core.Prog, c *ssa.Call) bool {
	callee := sx.StaticCallee(c)
	if callee == nil || !p.InModule(callee) {
		return false
	}
	for _, prm := range callee.Params {
		if typeIs(prm.Type(), "log/slog", "Attr") || typeIs(prm.Type(), "log/slog", "Value") {
			return true
		}
	}
	return false
}

func emitterCalls(p *core.Prog, fn *ssa.Function, keep ...*ssa.Function) []*ssa.Call {
	var out []*ssa.Call
	fns := sx.WithClosures(fn)
	// a method value used as a callback (`r.Attrs(w.write)`): the method's body belongs to the function like a closure's
	for _, f := range fns {
		sx.Instrs(f, func(in ssa.Instruction) {
			mc, ok := in.(*ssa.MakeClosure)
			if !ok {
				return
			}
			w, _ := mc.Fn.(*ssa.Function)
			if w == nil || !strings.HasSuffix(w.Name(), "$bound") {
				return
			}
			sx.Instrs(w, func(i2 ssa.Instruction) {
				if c, ok := i2.(ssa.CallInstruction); ok {
					if m := sx.StaticCallee(c); m != nil && p.InModule(m) && m.Blocks != nil {
						fns = append(fns, sx.WithClosures(p.Inl(m, keep...))...)
					}
				}
			})
		})
	}
	for _, f := range fns {
		sx.Instrs(f, func(in ssa.Instruction) {
			if c, ok := in.(*ssa.Call); ok && isEmitterCall(p, c) {
				out = append(out, c)
			}
		})
	}
	return out
}

// holderFieldOrigins: an origin `field:T.f` where T is a small private struct of the logger package that only carries
// values into a callback (not a handler, not the options) stands for what is stored into that field.
func holderFieldOrigins(p *core.Prog, org map[string]bool, depth int) map[string]bool {
	out := map[string]bool{}
	for o := range org {
		out[o] = true
	}
	if depth > 2 {
		return out
	}
	for o := range org {
		if !strings.HasPrefix(o, "field:") {
			continue
		}
		tf := strings.SplitN(strings.TrimPrefix(o, "field:"), ".", 2)
		if len(tf) != 2 {
			continue
		}
		n := p.Named("logger", tf[0])
		if n == nil || n.Obj().Exported() {
			continue
		}
		isHandler := false
		for _, h := range logHandlers(p) {
			if h.Name == tf[0] {
				isHandler = true
			}
		}
		if isHandler {
			continue
		}
		f := fieldByName(n, tf[1])
		if f == nil {
			continue
		}
		delete(out, o)
		for _, ref := range sx.FieldRefs(p.PkgFuncs("logger"), f) {
			fa, ok := ref.Instr.(*ssa.FieldAddr)
			if !ok {
				continue
			}
			for _, a := range sx.Accesses(fa) {
				if a.Kind == "write" && a.Val != nil {
					for o2 := range holderFieldOrigins(p, sx.Origins(a.Val), depth+1) {
						out[o2] = true
					}
				}
			}
		}
	}
	return out
}

// emitterSig: callee + per-argument set of field/call origins (constants, locals and parameters are ignored).
func emitterSig(p *core.Prog, calls []*ssa.Call) string {
	sigs := map[string]bool{}
	for _, c := range calls {
		var parts []string
		for i, a := range c.Call.Args {
			if typeIs(a.Type(), "log/slog", "Attr") || typeIs(a.Type(), "log/slog", "Value") {
				parts = append(parts, "attr")
				continue
			}
			if _, isPtr := a.Type().Underlying().(*types.Pointer); isPtr && i == 0 {
				parts = append(parts, "out") // the output buffer: the line buffer in Handle, the pre-rendered bytes in WithAttrs
				continue
			}
			org := holderFieldOrigins(p, sx.Origins(a), 0)
			keep := map[string]bool{}
			for o := range org {
				if strings.HasPrefix(o, "field:") || strings.HasPrefix(o, "call:") {
					keep[o] = true
				}
			}
			parts = append(parts, "{"+keys(keep)+"}")
		}
		sigs[sx.FuncName(sx.StaticCallee(c))+"("+strings.Join(parts, ", ")+")"] = true
	}
	return keys(sigs)
}

// stripIface: the value inside a MakeInterface (what is handed to Pool.Put).
func stripIface(v ssa.Value) ssa.Value {
	if mi, ok := v.(*ssa.MakeInterface); ok {
		return mi.X
	}
	return v
}

// emitterBetween: an attribute emitter call lies on some path between the getter g and the instruction x (same function).
func emitterBetween(p *core.Prog, g *ssa.Call, x ssa.Instruction) bool {
	found := false
	sx.Instrs(g.Parent(), func(in ssa.Instruction) {
		c, ok := in.(*ssa.Call)
		if !ok || !isEmitterCall(p, c) {
			return
		}
		if sx.ReachInstr(g.Parent(), g, c, sx.Cut{}) && sx.ReachInstr(g.Parent(), c, x, sx.Cut{Instrs: map[ssa.Instruction]bool{g: true}}) {
			found = true
		}
	})
	return found
}
