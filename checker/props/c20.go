package props

import (
	"fmt"
	"go/token"
	"go/types"
	"strings"

	"golang.org/x/tools/go/ssa"

	"glbverif/checker/core"
	"glbverif/checker/sx"
)

func init() { register("C20", "daemon", runC20) }

// alwaysCalls: fn calls (on every path to a normal return) an instruction matched by pred.
func alwaysCalls(fn *ssa.Function, pred func(ssa.CallInstruction) bool) bool {
	if fn.Blocks == nil {
		return false
	}
	cut := sx.Cut{Instrs: map[ssa.Instruction]bool{}}
	sx.Instrs(fn, func(in ssa.Instruction) {
		if c, ok := in.(ssa.CallInstruction); ok && pred(c) {
			if _, isGo := c.(*ssa.Go); !isGo {
				cut.Instrs[in] = true
			}
		}
	})
	if len(cut.Instrs) == 0 {
		return false
	}
	for _, ret := range sx.Returns(fn) {
		if sx.ReachInstr(fn, nil, ret, cut) {
			return false
		}
	}
	return true
}

func runC20(p *core.Prog, r *core.Report) {
	r.Rule("C20-R1", "listen before spawn: in the launcher, signal.Notify for the hand-shake signal happens-before (*exec.Cmd).Start on every path; Done() sends the same signal", 2)
	r.Rule("C20-R2", "the launcher returns after a successful Start only through the blocking select whose arms are exactly {hand-shake signal channel, daemon-exit channel}; the exit channel is closed only after cmd.Wait returned", 3)
	r.Rule("C20-R3", "the pid written to stdout is the started command's Process.Pid, written only on the success edge of Start; Launch runs the launcher to completion (Run, not Start) and returns a nil error only when Run succeeded, stderr was empty and the pid was read", 3)
	r.Rule("C20-R4", "role flags agree: the flag value the launcher puts in the daemon's environment selects the handler in Run, the value Launch puts in the launcher's environment selects the launcher", 2)
	r.NotDecided = append(r.NotDecided, "process-level facts: that the daemon is re-parented and survives, pipe behaviour; no process is started by this check")
	r.Trusted = append(r.Trusted, "signal.Notify installs the handler before it returns", "exec.Cmd.Start/Run/Wait contracts (cmd.Process is non-nil after a successful Start)", "go/ssa")

	fns := p.PkgFuncs("daemon")
	isNotify := func(c ssa.CallInstruction) bool { return sx.CalleeName(c) == "os/signal.Notify" }
	isStart := func(c ssa.CallInstruction) bool { return sx.CalleeName(c) == "(*os/exec.Cmd).Start" }

	// signal identity: global loaded as the argument of Notify / Signal
	sigOf := func(v ssa.Value) string {
		org := sx.Origins(v)
		var gs []string
		for o := range org {
			if strings.HasPrefix(o, "global:") {
				gs = append(gs, o)
			}
		}
		if len(gs) == 1 {
			return gs[0]
		}
		return keys(org)
	}

	var launcher *ssa.Function
	var startCall *ssa.Call
	for _, fn := range fns {
		sx.Instrs(fn, func(in ssa.Instruction) {
			if c, ok := in.(*ssa.Call); ok && isStart(c) {
				launcher, startCall = fn, c
			}
		})
	}
	if launcher == nil {
		r.Fail("C20-R1", "anchor launcher", "-", "no function of package daemon calls (*exec.Cmd).Start")
		return
	}
	r.Anchor("launcher", fnName(launcher))
	// path rules run on the launcher's inlined view (helpers that subscribe to the signal, build the command, … are seen
	// in place); the other functions of the package are looked at as they are
	{
		src := rootFn(launcher)
		view := p.Inl(src)
		var nf []*ssa.Function
		for _, fn := range fns {
			if rootFn(fn) != src {
				nf = append(nf, fn)
			}
		}
		fns = append(nf, sx.WithClosures(view)...)
		launcher, startCall = nil, nil
		for _, fn := range sx.WithClosures(view) {
			sx.Instrs(fn, func(in ssa.Instruction) {
				if c, ok := in.(*ssa.Call); ok && isStart(c) {
					launcher, startCall = fn, c
				}
			})
		}
	}

	// ---- R1
	cut := sx.Cut{Instrs: map[ssa.Instruction]bool{}}
	var notifySig string
	var notifyChan ssa.Value
	extraSigs := ""
	for _, fn := range fns {
		sx.Instrs(fn, func(in ssa.Instruction) {
			if c, ok := in.(*ssa.Call); ok && isNotify(c) {
				// variadic: Args[1] is a slice built from the signals
				notifySig = sigOf(variadicElem(c.Call.Args[1]))
				if fn == launcher {
					notifyChan = c.Call.Args[0]
				}
				// the hand-shake channel hears the hand-shake signal only: any other signal delivered to it would be taken for Done()
				if el := variadicElems(c.Call.Args[1]); len(el) != 1 {
					var names []string
					for _, e := range el {
						names = append(names, sigOf(e))
					}
					extraSigs = fmt.Sprintf("signal.Notify at %s registers %d signals (%s) on the hand-shake channel: a signal other than Done()'s — a SIGTERM or SIGHUP sent to the launcher while the daemon is still starting — ends the wait, the launcher exits 0 and Launch returns nil and a pid before Done() was called", p.Pos(c.Pos()), len(el), strings.Join(names, ", "))
				}
			}
		})
	}
	sx.Instrs(launcher, func(in ssa.Instruction) {
		c, ok := in.(*ssa.Call)
		if !ok {
			return
		}
		if isNotify(c) {
			cut.Instrs[in] = true
			return
		}
		if callee := sx.StaticCallee(c); callee != nil && p.InModule(callee) && alwaysCalls(callee, isNotify) {
			cut.Instrs[in] = true
		}
	})
	okR1 := len(cut.Instrs) > 0 && sx.MustPass(launcher, nil, startCall, cut)
	r.Check(okR1, "C20-R1", fnName(launcher)+": signal.Notify before cmd.Start", p.Pos(startCall.Pos()),
		"every path to cmd.Start passes signal.Notify: the launcher listens before the daemon exists",
		"cmd.Start() is reachable without signal.Notify having been called: a daemon that calls Done() at once signals a launcher that still has the default SIGINT action — the launcher dies and Launch reports failure for a running daemon")
	r.Check(extraSigs == "", "C20-R1", "the hand-shake channel is registered for the hand-shake signal only", p.FuncPos(launcher), "signal.Notify(ch, one signal)", extraSigs)
	// Done sends the same signal
	doneFn := p.Func("daemon", "Done")
	okSig := false
	sent := ""
	if doneFn != nil {
		sx.Instrs(doneFn, func(in ssa.Instruction) {
			if c, ok := in.(*ssa.Call); ok && sx.CalleeName(c) == "(*os.Process).Signal" {
				sent = sigOf(c.Call.Args[1])
				if sent == notifySig && strings.HasPrefix(sent, "global:") {
					okSig = true
				}
			}
		})
	}
	if doneFn != nil {
		// every way out of Done has sent the signal, or could not find the parent process
		dv := p.Inl(doneFn)
		cutD := sx.Cut{Instrs: map[ssa.Instruction]bool{}, Edges: map[sx.Edge]bool{}}
		sx.Instrs(dv, func(in ssa.Instruction) {
			c, ok := in.(*ssa.Call)
			if !ok {
				return
			}
			switch sx.CalleeName(c) {
			case "(*os.Process).Signal":
				cutD.Instrs[in] = true
			case "os.FindProcess":
				_, nonNil := sx.NilEdges(c)
				for e := range nonNil {
					cutD.Edges[e] = true
				}
			}
		})
		okAlways := len(cutD.Instrs) > 0
		for _, ret := range sx.Returns(dv) {
			if !sx.MustPass(dv, nil, ret, cutD) {
				okAlways = false
			}
		}
		r.Check(okAlways, "C20-R1", "Done signals the launcher on every path", p.FuncPos(doneFn), "every return is behind p.Signal(…) or behind the error edge of os.FindProcess", "Done can return without having signalled its parent although the parent process was found (a guard on the environment, a flag, …): the launcher keeps waiting, Launch does not return until the daemon exits")
	}
	r.Check(okSig, "C20-R1", "Done sends the signal the launcher listens for", p.FuncPos(doneFn), "both are "+notifySig, "Done sends "+sent+" but the launcher listens for "+notifySig)

	// ---- R2
	// the blocking wait may live in the launcher or in a helper it calls synchronously
	var sel *ssa.Select
	selFn := launcher
	var waitPoint ssa.Instruction // the select itself, or the launcher's call of the helper that always passes it
	paramArg := map[ssa.Value]ssa.Value{}
	sx.Instrs(launcher, func(in ssa.Instruction) {
		if s, ok := in.(*ssa.Select); ok && s.Blocking {
			sel, waitPoint = s, in
		}
	})
	if sel == nil {
		sx.Instrs(launcher, func(in ssa.Instruction) {
			c, ok := in.(*ssa.Call)
			if !ok {
				return
			}
			callee := sx.StaticCallee(c)
			if callee == nil || !p.InModule(callee) || callee.Blocks == nil {
				return
			}
			var hs *ssa.Select
			sx.Instrs(callee, func(i2 ssa.Instruction) {
				if s, ok := i2.(*ssa.Select); ok && s.Blocking {
					hs = s
				}
			})
			if hs == nil {
				return
			}
			// every path of the helper passes the select
			all := true
			for _, ret := range sx.Returns(callee) {
				if sx.ReachInstr(callee, nil, ret, sx.Cut{Instrs: map[ssa.Instruction]bool{hs: true}}) {
					all = false
				}
			}
			if all {
				sel, selFn, waitPoint = hs, callee, in
				for i, a := range c.Call.Args {
					if i < len(callee.Params) {
						paramArg[callee.Params[i]] = a
					}
				}
			}
		})
	}
	if sel == nil {
		r.Fail("C20-R2", fnName(launcher)+": blocking wait", p.FuncPos(launcher), "no blocking select in the launcher (or in a helper it always runs through)")
	} else {
		var problems []string
		sawSig, sawExit := false, false
		for _, st := range sel.States {
			if st.Dir != types.RecvOnly {
				problems = append(problems, "select has a send arm")
				continue
			}
			ch := st.Chan
			if a, ok := paramArg[sx.Unspill(stripChanConv(ch))]; ok {
				ch = a
			}
			switch {
			case notifyChan != nil && sameChan(ch, notifyChan):
				sawSig = true
			case closedAfterWait(p, selFn, st.Chan):
				sawExit = true
			default:
				problems = append(problems, "extra arm receiving from "+sx.ValPath(st.Chan)+" ("+keys(sx.Origins(st.Chan))+"): the launcher can return although neither Done() was called nor the daemon exited")
			}
		}
		if !sawSig {
			problems = append(problems, "no arm receives from the channel registered with signal.Notify")
		}
		if !sawExit {
			problems = append(problems, "no arm receives from a channel that is closed after cmd.Wait returned")
		}
		// the hand-shake channel is read nowhere but in that wait: a receive (or a draining non-blocking select) elsewhere
		// can swallow a Done() that arrived early
		if notifyChan != nil {
			var extra []string
			for _, fn := range fns {
				sx.Instrs(fn, func(in ssa.Instruction) {
					switch x := in.(type) {
					case *ssa.UnOp:
						if x.Op == token.ARROW && sameChan(x.X, notifyChan) {
							extra = append(extra, "receive at "+p.Pos(in.Pos()))
						}
					case *ssa.Select:
						if x == sel {
							return
						}
						for _, st := range x.States {
							if st.Dir == types.RecvOnly && sameChan(st.Chan, notifyChan) {
								extra = append(extra, "select arm at "+p.Pos(in.Pos()))
							}
						}
					}
				})
			}
			r.Check(len(extra) == 0, "C20-R2", fnName(launcher)+": the hand-shake channel is received from only in the wait", p.Pos(sel.Pos()), "one receiver: the blocking select", "the channel registered with signal.Notify is also read elsewhere ("+strings.Join(extra, ", ")+"): a Done() that arrives before the wait is taken there and thrown away — the launcher then waits for the daemon to exit and Launch does not return for a running daemon")
		}
		r.Check(len(problems) == 0, "C20-R2", fnName(launcher)+": select arms are exactly {signal, daemon exit}", p.Pos(sel.Pos()), "2 receive arms: hand-shake signal, daemon-exit channel", strings.Join(problems, "; "))
		// every return after a successful Start passes the wait
		_, nonNil := sx.NilEdges(startCall)
		c2 := sx.Cut{Instrs: map[ssa.Instruction]bool{waitPoint: true}, Edges: map[sx.Edge]bool{}}
		for e := range nonNil {
			c2.Edges[e] = true
		}
		// os/exec: after Start returned nil, cmd.Process is set — a defensive `cmd.Process == nil` test is dead on its nil edge
		sx.Instrs(launcher, func(in ssa.Instruction) {
			ld, ok := in.(*ssa.UnOp)
			if !ok || ld.Op != token.MUL {
				return
			}
			if fa, ok := ld.X.(*ssa.FieldAddr); ok && sx.OwnerName(fa.X.Type()) == "Cmd" && sx.FieldOf(fa) != nil && sx.FieldOf(fa).Name() == "Process" {
				nilE, _ := sx.NilEdges(ld)
				for e := range nilE {
					c2.Edges[e] = true
				}
			}
		})
		okAll := len(nonNil) > 0
		for _, ret := range sx.Returns(launcher) {
			if sx.ReachInstr(launcher, startCall, ret, c2) {
				okAll = false
			}
		}
		r.Check(okAll, "C20-R2", fnName(launcher)+": returns only through the wait", p.Pos(startCall.Pos()), "after a successful Start every return passes the blocking select", "after a successful Start the launcher can return without waiting for Done() or the daemon's exit")
		// exit channel closed only after Wait
		okClose, nClose := true, 0
		for _, gb := range goBodies(p, selFn) {
			fn := gb.fn
			sx.Instrs(fn, func(in ssa.Instruction) {
				var cc *ssa.CallCommon
				var deferred *ssa.Defer
				switch c := in.(type) {
				case *ssa.Call:
					cc = &c.Call
				case *ssa.Defer:
					if fn == selFn {
						return // deferred by the waiting function itself (`defer cancel()`): runs after the wait
					}
					cc, deferred = &c.Call, c
				default:
					return
				}
				isClose := false
				if b, ok := cc.Value.(*ssa.Builtin); ok && b.Name() == "close" {
					isClose = true
				} else if !cc.IsInvoke() && cancelOf(cc.Value, gb.bind) != nil {
					isClose = true // the exit channel is a cancellable context's Done()
				}
				if isClose {
					nClose++
					wcut := sx.Cut{Instrs: map[ssa.Instruction]bool{}}
					sx.Instrs(fn, func(i2 ssa.Instruction) {
						if c2, ok := i2.(*ssa.Call); ok && sx.CalleeName(c2) == "(*os/exec.Cmd).Wait" {
							wcut.Instrs[i2] = true
						}
					})
					switch {
					case len(wcut.Instrs) == 0:
						okClose = false
					case deferred == nil:
						if !sx.MustPass(fn, nil, in, wcut) {
							okClose = false
						}
					default:
						// a deferred close runs when the goroutine's function returns: every path through the defer
						// to a return crosses cmd.Wait, before the defer or after it
						if !sx.MustPass(fn, nil, in, wcut) {
							for _, ret := range sx.Returns(fn) {
								if !sx.MustPass(fn, in, ret, wcut) {
									okClose = false
								}
							}
						}
					}
				}
			})
		}
		r.Check(okClose && nClose > 0, "C20-R2", fnName(launcher)+": exit channel closed after cmd.Wait", p.FuncPos(selFn), fmt.Sprintf("%d close call(s), each after cmd.Wait", nClose), "the daemon-exit channel can be closed before cmd.Wait returned")
	}

	// ---- R3
	{
		nilE, _ := sx.NilEdges(startCall)
		var writes []*ssa.Call
		// the pid leaves through encoding/binary: binary.Write(os.Stdout, order, pid), or order.PutUint32(buf, pid) followed
		// by os.Stdout.Write(buf)
		pidArg := map[*ssa.Call]ssa.Value{}
		var putCalls, appCalls []*ssa.Call
		sx.Instrs(launcher, func(in ssa.Instruction) {
			c, ok := in.(*ssa.Call)
			if !ok {
				return
			}
			n := sx.CalleeName(c)
			switch {
			case n == "encoding/binary.Write":
				writes = append(writes, c)
				pidArg[c] = c.Call.Args[2]
			case strings.HasPrefix(n, "(encoding/binary.") && strings.Contains(n, ").PutUint"):
				putCalls = append(putCalls, c)
			case strings.HasPrefix(n, "(encoding/binary.") && strings.Contains(n, ").AppendUint"):
				appCalls = append(appCalls, c)
			}
		})
		// order.AppendUint32(nil, pid) handed to os.Stdout.Write
		for _, ac := range appCalls {
			args := sx.Args(ac)
			sx.Instrs(launcher, func(in ssa.Instruction) {
				c, ok := in.(*ssa.Call)
				if !ok || sx.CalleeName(c) != "(*os.File).Write" || !sx.Origins(sx.Args(c)[0])["global:Stdout"] {
					return
				}
				if sx.Unspill(sx.Args(c)[1]) == ssa.Value(ac) {
					writes = append(writes, c)
					pidArg[c] = args[len(args)-1]
				}
			})
		}
		for _, pc := range putCalls {
			args := sx.Args(pc)
			// the stdout write that follows the encoding step stands for the write of the pid
			sx.Instrs(launcher, func(in ssa.Instruction) {
				c, ok := in.(*ssa.Call)
				if !ok || sx.CalleeName(c) != "(*os.File).Write" || !sx.Origins(sx.Args(c)[0])["global:Stdout"] {
					return
				}
				if sx.MustPass(launcher, nil, c, sx.Cut{Instrs: map[ssa.Instruction]bool{pc: true}}) {
					writes = append(writes, c)
					pidArg[c] = args[len(args)-1]
				}
			})
		}
		okW := len(writes) > 0
		detail := "no binary.Write of the pid found"
		for _, w := range writes {
			org := sx.Origins(pidArg[w])
			if !org["field:Process.Pid"] {
				okW = false
				detail = "the value written to stdout derives from " + keys(org) + ", not from cmd.Process.Pid"
			}
			if len(nilE) == 0 || !sx.MustPass(launcher, nil, w, sx.Cut{Edges: nilE}) {
				okW = false
				detail = "the pid is written on a path where cmd.Start did not succeed"
			}
			if waitPoint != nil && !sx.MustPass(launcher, nil, waitPoint, sx.Cut{Instrs: map[ssa.Instruction]bool{w: true}, Edges: func() map[sx.Edge]bool { _, nn := sx.NilEdges(startCall); return nn }()}) {
				okW = false
				detail = "the wait can be reached without the pid having been written"
			}
		}
		r.Check(okW, "C20-R3", fnName(launcher)+": pid written on the success edge, before the wait", p.FuncPos(launcher), "binary.Write(cmd.Process.Pid) only after Start succeeded and before the select", detail)
	}
	launch := p.Inl(p.Func("daemon", "Launch"))
	if launch == nil {
		r.Fail("C20-R3", "anchor Launch", "-", "exported function Launch not found")
	} else {
		var run *ssa.Call
		usesStart := false
		sx.Instrs(launch, func(in ssa.Instruction) {
			if c, ok := in.(*ssa.Call); ok {
				switch sx.CalleeName(c) {
				case "(*os/exec.Cmd).Run", "(*os/exec.Cmd).Output", "(*os/exec.Cmd).CombinedOutput":
					run = c
				case "(*os/exec.Cmd).Start":
					usesStart = true
				}
			}
		})
		r.Check(run != nil && !usesStart, "C20-R3", "Launch waits for the launcher (cmd.Run)", p.FuncPos(launch), "uses Run: returns only after the launcher exited", "Launch does not run the launcher to completion (Start without waiting?)")
		if run != nil {
			nilRun, _ := sx.NilEdges(run)
			// stderr-empty edge
			emptyEdges := map[sx.Edge]bool{}
			var readCall, decodeCall *ssa.Call
			sx.Instrs(launch, func(in ssa.Instruction) {
				switch x := in.(type) {
				case *ssa.BinOp:
					c, ok := x.X.(*ssa.Call)
					if !ok || (sx.CalleeName(c) != "(*bytes.Buffer).Len" && sx.CalleeName(c) != "(*strings.Builder).Len") {
						return
					}
					k, isC := sx.ConstInt(x.Y)
					if !isC || k != 0 {
						return
					}
					for _, u := range *x.Referrers() {
						if iff, ok := u.(*ssa.If); ok {
							switch x.Op {
							case token.GTR, token.NEQ:
								emptyEdges[sx.Edge{From: iff.Block(), Idx: 1}] = true
							case token.EQL:
								emptyEdges[sx.Edge{From: iff.Block(), Idx: 0}] = true
							}
						}
					}
				case *ssa.Call:
					switch sx.CalleeName(x) {
					case "encoding/binary.Read", "io.ReadFull", "io.ReadAtLeast":
						readCall = x
					default:
						// order.Uint32(stdout bytes): decoding a short slice panics, it never yields a pid
						if n := sx.CalleeName(x); strings.HasPrefix(n, "(encoding/binary.") && strings.Contains(n, ").Uint") {
							decodeCall = x
						}
					}
				}
			})
			okRet := true
			why := ""
			nNil := 0
			for _, ret0 := range sx.Returns(launch) {
				// a single `return pid, err` at the end: one case per path the error value arrives on
				for _, rc := range retCases(ret0, len(ret0.Results)-1) {
					if !sx.IsNilConst(rc.Val) {
						continue
					}
					ret := rc.At
					nNil++
					if len(nilRun) == 0 || !sx.MustPass(launch, nil, ret, sx.Cut{Edges: nilRun}) {
						okRet, why = false, "a nil error is returned although the launcher failed"
					}
					if len(emptyEdges) == 0 || !sx.MustPass(launch, nil, ret, sx.Cut{Edges: emptyEdges}) {
						okRet, why = false, "a nil error is returned although the launcher wrote to stderr"
					}
					if readCall == nil && decodeCall != nil {
						if !sx.MustPass(launch, nil, ret, sx.Cut{Instrs: map[ssa.Instruction]bool{decodeCall: true}}) {
							okRet, why = false, "a nil error is returned on a path that does not decode the pid from the launcher's stdout"
						}
					} else if readCall == nil {
						okRet, why = false, "the pid is not read from the launcher's stdout"
					} else {
						nilRead, _ := sx.NilEdges(readCall)
						if len(nilRead) == 0 || !sx.MustPass(launch, nil, ret, sx.Cut{Edges: nilRead}) {
							okRet, why = false, "a nil error is returned although reading the pid failed"
						}
					}
				}
			}
			r.Check(okRet && nNil > 0, "C20-R3", "Launch returns nil only for a completed hand-shake", p.FuncPos(launch), fmt.Sprintf("%d nil-error return(s): after Run succeeded, stderr empty, pid read", nNil), why)
		}
	}

	// ---- R3 (cont.): the two ends of the pipe agree on how the pid is spelled (byte order and width)
	if launch != nil {
		spell := func(fn *ssa.Function, writer bool) map[string]bool {
			out := map[string]bool{}
			orderOf := func(v ssa.Value) string {
				org := sx.Origins(v)
				switch {
				case org["global:LittleEndian"] && len(org) == 1:
					return "little-endian"
				case org["global:BigEndian"] && len(org) == 1:
					return "big-endian"
				case org["global:NativeEndian"] && len(org) == 1:
					return "native-endian"
				}
				return "order " + keys(org)
			}
			widthOf := func(v ssa.Value, ptr bool) string {
				if mi, ok := v.(*ssa.MakeInterface); ok {
					v = mi.X
				}
				t := v.Type()
				if ptr {
					if pt := ptrTo(t); pt != nil {
						t = pt
					}
				}
				return t.Underlying().String()
			}
			sx.Instrs(fn, func(in ssa.Instruction) {
				c, ok := in.(*ssa.Call)
				if !ok {
					return
				}
				n := sx.CalleeName(c)
				switch {
				case writer && n == "encoding/binary.Write":
					out[orderOf(c.Call.Args[1])+" "+widthOf(c.Call.Args[2], false)] = true
				case !writer && n == "encoding/binary.Read":
					out[orderOf(c.Call.Args[1])+" "+widthOf(c.Call.Args[2], true)] = true
				case strings.HasPrefix(n, "(encoding/binary."):
					// (encoding/binary.littleEndian).PutUint32 / AppendUint32 / Uint32
					rest := strings.TrimPrefix(n, "(encoding/binary.")
					i := strings.Index(rest, ").")
					if i < 0 {
						return
					}
					ord, m := strings.ToLower(rest[:i]), rest[i+2:]
					ord = strings.TrimSuffix(ord, "endian") + "-endian"
					isW := strings.HasPrefix(m, "PutUint") || strings.HasPrefix(m, "AppendUint")
					isR := strings.HasPrefix(m, "Uint")
					if (writer && isW) || (!writer && isR) {
						w := strings.TrimPrefix(strings.TrimPrefix(strings.TrimPrefix(m, "Put"), "Append"), "Uint")
						out[ord+" uint"+w] = true
					}
				}
			})
			return out
		}
		ws, rs := spell(launcher, true), spell(launch, false)
		same := len(ws) == 1 && len(rs) == 1 && keys(ws) == keys(rs)
		r.Check(same, "C20-R3", "launcher and Launch spell the pid the same way", p.FuncPos(launch), "written and read as "+keys(ws), "the launcher writes the pid as "+keys(ws)+" but Launch reads it as "+keys(rs)+": Launch would return a number that is not the daemon's pid")
	}

	// ---- R3 (cont.): per-call state of Launch/launch is fresh — output buffers and the environment slice
	for _, fn := range []*ssa.Function{launch, launcher} {
		if fn == nil {
			continue
		}
		sx.Instrs(fn, func(in ssa.Instruction) {
			st, ok := in.(*ssa.Store)
			if !ok {
				return
			}
			fa, ok := st.Addr.(*ssa.FieldAddr)
			if !ok || sx.OwnerName(fa.X.Type()) != "Cmd" {
				return
			}
			f := sx.FieldOf(fa)
			switch f.Name() {
			case "Args", "Path":
				// the re-executed program finds itself through os.Args[0]: argv[0] (and Path) stay what exec.Command made them
				r.Fail("C20-R3", fnName(fn)+": the re-executed command keeps its argv[0] and path", p.Pos(in.Pos()), "cmd."+f.Name()+" is overwritten with "+short(sx.ValPath(st.Val))+": inside the re-executed process os.Args[0] is no longer the program's path, so a Launch issued from a daemon (or the launcher starting the daemon) cannot re-execute the program")
			case "Dir":
				// the command is os.Args[0], possibly a relative path: os/exec resolves it against Dir
				r.Check(sx.IsNilConst(st.Val) || func() bool { k, ok := sx.ConstString(st.Val); return ok && k == "" }(), "C20-R3", fnName(fn)+": the re-executed command keeps the caller's working directory", p.Pos(in.Pos()), "cmd.Dir left empty", "cmd.Dir is set to "+short(sx.ValPath(st.Val))+" while the command is os.Args[0]: a program started through a relative path (./app) can no longer be found — Launch fails (or starts another file) although the handler is registered")
			case "Stdin", "Stdout", "Stderr":
				org := sx.Origins(st.Val)
				fresh := len(org) == 1 && org["alloc"]
				if org["global:Stdout"] || org["global:Stderr"] || org["global:Stdin"] {
					return // inherited os.Stdout / os.Stderr
				}
				if fn == launcher {
					// the daemon outlives the launcher: a stream that is not a file is served by a pipe and a copying goroutine
					// inside the launcher — once the launcher has exited, the daemon's next write gets SIGPIPE
					isFile := false
					if mi, ok := st.Val.(*ssa.MakeInterface); ok {
						isFile = mi.X.Type().String() == "*os.File"
					}
					r.Check(isFile || sx.IsNilConst(st.Val), "C20-R3", fnName(fn)+": the daemon's "+f.Name()+" does not depend on the launcher staying alive", p.Pos(in.Pos()), "nil or an *os.File", "the daemon's "+f.Name()+" is "+keys(org)+", not a file: os/exec serves it through a pipe read by the launcher, which exits at Done() — the daemon is killed by SIGPIPE on its next write and does not keep running")
					return
				}
				r.Check(fresh, "C20-R3", fnName(fn)+": cmd."+f.Name()+" is a buffer owned by this call", p.Pos(in.Pos()), "a local buffer", "cmd."+f.Name()+" is "+keys(org)+" — not a buffer created for this call (pooled or shared buffers keep the bytes of an earlier, possibly failed, launch: a later Launch then reports the old error or the old pid)")
			case "Env":
				// append(os.Environ(), …): the slice appended to must be the fresh result of os.Environ() in this call
				okEnv, why := false, "cmd.Env is not built by appending to a fresh os.Environ()"
				if c, ok := st.Val.(*ssa.Call); ok && isBuiltin(c, "append") {
					base := sx.Unspill(c.Call.Args[0])
					// append(append(make([]string, 0, n), os.Environ()...), …): peel the chain down to its first operand
					for d := 0; d < 6; d++ {
						if inner, ok := base.(*ssa.Call); ok && isBuiltin(inner, "append") {
							base = sx.Unspill(inner.Call.Args[0])
						}
					}
					if bc, ok := base.(*ssa.Call); ok && sx.CalleeName(bc) == "os.Environ" && bc.Parent() == fn {
						okEnv = true
					} else if ms, ok := base.(*ssa.MakeSlice); ok && ms.Parent() == fn {
						okEnv = true // a slice made for this call
					} else if sl, ok := base.(*ssa.Slice); ok {
						if al, ok := sl.X.(*ssa.Alloc); ok && al.Parent() == fn {
							okEnv = true // make with constant sizes: a fresh array of this call
						}
					} else {
						why = "cmd.Env is appended to " + short(sx.ValPath(c.Call.Args[0])) + " (" + keys(sx.Origins(c.Call.Args[0])) + "), a slice that outlives the call: concurrent Launch calls append into the same spare capacity and start each other's handler"
					}
				}
				r.Check(okEnv, "C20-R4", fnName(fn)+": environment slice is fresh for this call", p.Pos(in.Pos()), "append(os.Environ(), …)", why)
			}
		})
	}
	// Run recognises its role by the *presence* of the name variable (Register accepts any name, including the empty one)
	if runFn := p.Func("daemon", "Run"); runFn != nil {
		okP, why := false, "Run does not read the daemon-name variable with os.LookupEnv"
		sx.Instrs(runFn, func(in ssa.Instruction) {
			c, ok := in.(*ssa.Call)
			if !ok {
				return
			}
			switch sx.CalleeName(c) {
			case "os.LookupEnv":
				if k, isC := sx.ConstString(c.Call.Args[0]); isC && strings.Contains(k, "NAME") {
					for _, u := range *c.Referrers() {
						if e, ok := u.(*ssa.Extract); ok && e.Index == 1 {
							for _, uu := range *e.Referrers() {
								if _, ok := uu.(*ssa.If); ok {
									okP = true
								}
							}
						}
					}
				}
			case "os.Getenv":
				if k, isC := sx.ConstString(c.Call.Args[0]); isC && strings.Contains(k, "NAME") {
					why = "the role is decided from os.Getenv(" + k + ") != \"\": a handler registered under the empty name is never recognised in the re-executed process, Launch(\"\") returns garbage"
				}
			}
		})
		// the handler that runs is the one registered under exactly the name in the environment (Launch(name) promises the
		// process running *that* handler): the registry is indexed with the variable's value itself
		{
			okKey, nLk := true, 0
			whyK := ""
			rv := p.Inl(runFn)
			sx.Instrs(rv, func(in ssa.Instruction) {
				lk, ok := in.(*ssa.Lookup)
				if !ok {
					return
				}
				if _, isMap := lk.X.Type().Underlying().(*types.Map); !isMap {
					return
				}
				mt := lk.X.Type().Underlying().(*types.Map)
				if _, isFn := mt.Elem().Underlying().(*types.Signature); !isFn {
					return
				}
				nLk++
				key := sx.Unspill(lk.Index)
				okThis := false
				if e, isE := key.(*ssa.Extract); isE && e.Index == 0 {
					if c, isC := e.Tuple.(*ssa.Call); isC && sx.CalleeName(c) == "os.LookupEnv" {
						okThis = true
					}
				}
				if c, isC := key.(*ssa.Call); isC && sx.CalleeName(c) == "os.Getenv" {
					okThis = true
				}
				if !okThis {
					okKey = false
					whyK = "the handler registry is indexed with " + short(sx.ValPath(key)) + " (" + keys(sx.Origins(key)) + ") at " + p.Pos(lk.Pos()) + ", not with the name variable's value itself: a handler registered under the exact name is not the one that runs"
				}
			})
			r.Check(okKey && nLk > 0, "C20-R4", "Run looks the handler up under exactly the launched name", p.FuncPos(runFn), "handlers[name] with name as read from the environment", whyK)
		}
		r.Check(okP, "C20-R4", "Run recognises a re-executed process by the presence of the name variable", p.FuncPos(runFn), "os.LookupEnv + ok", why)
	}

	// ---- R4: role flags
	{
		envConsts := func(fn *ssa.Function) []string {
			var out []string
			sx.Instrs(fn, func(in ssa.Instruction) {
				if st, ok := in.(*ssa.Store); ok {
					// a constant, or constants joined with + (a helper taking the role as a parameter, expanded with its argument)
					str, all := "", true
					for _, part := range concatParts(st.Val) {
						if s, ok := sx.ConstString(part); ok {
							str += s
						} else {
							all = false
						}
					}
					if all && strings.Contains(str, "=") {
						out = append(out, str)
					}
				}
			})
			return out
		}
		runFn := p.Func("daemon", "Run")
		if runFn == nil || launch == nil {
			r.Fail("C20-R4", "anchors Run/Launch", "-", "not found")
			return
		}
		// In Run: comparisons of os.Getenv(K) with constant V guarding a call
		type arm struct {
			key, val string
			call     ssa.CallInstruction
			edge     sx.Edge
		}
		var arms []arm
		sx.Instrs(runFn, func(in ssa.Instruction) {
			b, ok := in.(*ssa.BinOp)
			if !ok || b.Op != token.EQL {
				return
			}
			g, ok := b.X.(*ssa.Call)
			v, okv := sx.ConstString(b.Y)
			if !ok || !okv || sx.CalleeName(g) != "os.Getenv" {
				return
			}
			k, _ := sx.ConstString(g.Call.Args[0])
			for _, u := range *b.Referrers() {
				if iff, ok := u.(*ssa.If); ok {
					tb := iff.Block().Succs[0]
					for _, i2 := range tb.Instrs {
						if c, ok := i2.(ssa.CallInstruction); ok {
							arms = append(arms, arm{k, v, c, sx.Edge{From: iff.Block(), Idx: 0}})
							break
						}
					}
				}
			}
		})
		find := func(envs []string, wantCallee func(ssa.CallInstruction) bool) (bool, string) {
			for _, a := range arms {
				for _, e := range envs {
					if e == a.key+"="+a.val && wantCallee(a.call) {
						return true, e
					}
				}
			}
			return false, strings.Join(envs, ",")
		}
		ok1, d1 := find(envConsts(launcher), func(c ssa.CallInstruction) bool { return sx.StaticCallee(c) == nil && !c.Common().IsInvoke() })
		r.Check(ok1, "C20-R4", "daemon flag set by the launcher selects the handler in Run", p.FuncPos(runFn), d1+" → registered handler", "the launcher starts the daemon with "+d1+" but Run does not dispatch that value to the handler")
		ok2, d2 := find(envConsts(launch), func(c ssa.CallInstruction) bool { return sameFn(sx.StaticCallee(c), launcher) })
		if !ok2 && sameFn(launcher, runFn) {
			// the launcher's body is written out in Run's own arm: cmd.Start is reached only through that arm
			var start ssa.Instruction
			sx.Instrs(runFn, func(in ssa.Instruction) {
				if c, ok := in.(ssa.CallInstruction); ok && sx.CalleeName(c) == "(*os/exec.Cmd).Start" {
					start = in
				}
			})
			for _, a := range arms {
				for _, e := range envConsts(launch) {
					if e == a.key+"="+a.val && start != nil && sx.MustPass(runFn, nil, start, sx.Cut{Edges: map[sx.Edge]bool{a.edge: true}}) {
						ok2, d2 = true, e
					}
				}
			}
		}
		r.Check(ok2, "C20-R4", "launcher flag set by Launch selects the launcher in Run", p.FuncPos(runFn), d2+" → "+fnName(launcher), "Launch starts the launcher with "+d2+" but Run does not dispatch that value to "+fnName(launcher))
	}
}

// variadicElem: for a variadic argument built as a slice literal, return the first element stored.
func variadicElem(v ssa.Value) ssa.Value {
	sl, ok := v.(*ssa.Slice)
	if !ok {
		return v
	}
	a, ok := sl.X.(*ssa.Alloc)
	if !ok {
		return v
	}
	for _, u := range *a.Referrers() {
		if ia, ok := u.(*ssa.IndexAddr); ok {
			for _, uu := range *ia.Referrers() {
				if st, ok := uu.(*ssa.Store); ok && st.Addr == ia {
					return st.Val
				}
			}
		}
	}
	return v
}

func sameChan(a, b ssa.Value) bool {
	strip := func(v ssa.Value) ssa.Value {
		for {
			switch x := v.(type) {
			case *ssa.ChangeType:
				v = x.X
			case *ssa.Convert:
				v = x.X
			default:
				return sx.Unspill(v)
			}
		}
	}
	return strip(a) == strip(b)
}

// goBody is code that runs on behalf of fn: fn itself, its closures, and the (inlined views of the) named module
// functions it starts with a go statement, with their parameters bound to the go statement's arguments.
type goBody struct {
	fn   *ssa.Function
	bind map[ssa.Value]ssa.Value
}

func goBodies(p *core.Prog, fn *ssa.Function) []goBody {
	var out []goBody
	for _, f := range sx.WithClosures(fn) {
		out = append(out, goBody{f, nil})
		sx.Instrs(f, func(in ssa.Instruction) {
			g, ok := in.(*ssa.Go)
			if !ok {
				return
			}
			callee := sx.StaticCallee(g)
			if callee == nil || callee.Parent() != nil || !p.InModule(callee) || callee.Blocks == nil {
				return
			}
			v := p.Inl(callee)
			bind := map[ssa.Value]ssa.Value{}
			for i, prm := range v.Params {
				if i < len(g.Call.Args) {
					bind[prm] = g.Call.Args[i]
				}
			}
			for _, vf := range sx.WithClosures(v) {
				out = append(out, goBody{vf, bind})
			}
		})
	}
	return out
}

// closedAfterWait: ch is closed (only) in a closure of fn after cmd.Wait.
// cancelOf: v is (possibly through a captured variable) the cancel function of a context.WithCancel call: returns
// that call.
func cancelOf(v ssa.Value, bind map[ssa.Value]ssa.Value) *ssa.Call {
	v = sx.Unspill(v)
	if fv, ok := v.(*ssa.FreeVar); ok {
		if bnd := sx.FreeVarBinding(fv); bnd != nil {
			v = sx.Unspill(bnd)
		}
	}
	if a, ok := bind[v]; ok {
		v = sx.Unspill(a)
	}
	if e, ok := v.(*ssa.Extract); ok && e.Index == 1 {
		if c, ok := e.Tuple.(*ssa.Call); ok && sx.CalleeName(c) == "context.WithCancel" {
			return c
		}
	}
	return nil
}

// doneOf: ch is `ctx.Done()` of the context made by a context.WithCancel call: returns that call.
func doneOf(ch ssa.Value) *ssa.Call {
	c, ok := sx.Unspill(ch).(*ssa.Call)
	if !ok || !c.Call.IsInvoke() || c.Call.Method.Name() != "Done" {
		return nil
	}
	if e, ok := sx.Unspill(c.Call.Value).(*ssa.Extract); ok && e.Index == 0 {
		if w, ok := e.Tuple.(*ssa.Call); ok && sx.CalleeName(w) == "context.WithCancel" {
			return w
		}
	}
	return nil
}

func closedAfterWait(p *core.Prog, fn *ssa.Function, ch ssa.Value) bool {
	ch = sx.Unspill(ch)
	withCancel := doneOf(ch)
	if _, ok := ch.(*ssa.MakeChan); !ok {
		if ct, ok := ch.(*ssa.ChangeType); ok {
			ch = sx.Unspill(ct.X)
		}
	}
	found := false
	for _, gb := range goBodies(p, fn) {
		sx.Instrs(gb.fn, func(in ssa.Instruction) {
			// a call or a deferred call (`defer close(ch)` closes the channel when the goroutine's function returns)
			var cc *ssa.CallCommon
			switch c := in.(type) {
			case *ssa.Call:
				cc = &c.Call
			case *ssa.Defer:
				if gb.fn == fn {
					return // a clean-up deferred by the waiting function itself runs after the wait: it releases nobody
				}
				cc = &c.Call
			default:
				return
			}
			// cancelling the context whose Done() the arm receives from closes that channel
			if withCancel != nil && !cc.IsInvoke() && cancelOf(cc.Value, gb.bind) == withCancel {
				found = true
			}
			if b, ok := cc.Value.(*ssa.Builtin); ok && b.Name() == "close" {
				arg := sx.Unspill(cc.Args[0])
				if fv, ok := arg.(*ssa.FreeVar); ok {
					if bnd := sx.FreeVarBinding(fv); bnd != nil {
						arg = sx.Unspill(bnd)
					}
				}
				if a, ok := gb.bind[arg]; ok {
					arg = sx.Unspill(a)
				}
				if arg == ch {
					found = true
				}
			}
		})
	}
	return found
}

func stripChanConv(v ssa.Value) ssa.Value {
	for {
		switch x := v.(type) {
		case *ssa.ChangeType:
			v = x.X
		case *ssa.Convert:
			v = x.X
		default:
			return v
		}
	}
}
