package props

import (
	"fmt"
	"go/ast"
	"go/constant"
	"go/token"
	"go/types"
	"log/slog"
	"sort"
	"strings"
	"unicode"
	"unicode/utf8"

	"golang.org/x/tools/go/ssa"

	"glbverif/checker/core"
	"glbverif/checker/sx"
)

func init() { register("C01", "logger", runC01) }

func jsonStringUnsafe(b byte) bool { return b < 0x20 || b == '"' || b == '\\' }

// legalJSONEscape: the bytes form exactly one JSON string escape that denotes want (a rune).
func legalJSONEscape(bs []byte, want rune) (bool, string) {
	s := string(bs)
	if len(s) < 2 || s[0] != '\\' {
		return false, fmt.Sprintf("%q is not an escape sequence", s)
	}
	var got rune
	switch s[1] {
	case '"', '\\', '/':
		got = rune(s[1])
	case 'b':
		got = '\b'
	case 'f':
		got = '\f'
	case 'n':
		got = '\n'
	case 'r':
		got = '\r'
	case 't':
		got = '\t'
	case 'u':
		if len(s) != 6 {
			return false, fmt.Sprintf("%q: \\u needs four hex digits", s)
		}
		var v rune
		for _, c := range s[2:] {
			switch {
			case c >= '0' && c <= '9':
				v = v*16 + c - '0'
			case c >= 'a' && c <= 'f':
				v = v*16 + c - 'a' + 10
			case c >= 'A' && c <= 'F':
				v = v*16 + c - 'A' + 10
			default:
				return false, fmt.Sprintf("%q: bad hex digit", s)
			}
		}
		got = v
		if len(s) != 6 {
			return false, "length"
		}
		if got != want {
			return false, fmt.Sprintf("%q denotes U+%04X, not U+%04X", s, got, want)
		}
		return true, ""
	default:
		return false, fmt.Sprintf("%q is not a JSON escape", s)
	}
	if len(s) != 2 {
		return false, fmt.Sprintf("%q has trailing bytes", s)
	}
	if got != want {
		return false, fmt.Sprintf("%q denotes %q, not %q", s, got, want)
	}
	return true, ""
}

func runC01(p *core.Prog, r *core.Report) {
	r.Rule("C01-R1", "grammar typestate: every path of every JSON emitter keeps the object-member grammar — separators only between members, balanced braces, value position always filled, exactly one trailing newline; the handler invariant is established by the constructor and preserved by WithAttrs/WithGroup (emission typestate, see emit.go)", 0)
	r.Rule("C01-R2", "sanitizer: inside the line only constants, the escaping function, closed-alphabet formatters, encoder output (minus its newline) and the handler's own pre-rendered bytes are appended; colour-only sinks are out of scope", 20)
	r.Rule("C01-R3", "escape table: evaluated over all 128 ASCII bytes and every Unicode scalar value, a character is passed through raw only if JSON allows it inside a string, and otherwise is replaced by exactly one legal escape denoting it (invalid UTF-8 → \\ufffd)", 3)
	r.Rule("C01-R4", "error containment: every path of the marshal helper appends something (an encoding error is rendered as an escaped string, the value position never stays empty)", 1)
	r.Rule("C01-R5", "source location: a function that captures the caller with runtime.Callers(2+d, …) is reached through exactly d frames of the package — d-1 private levels nobody outside can enter, then entry points that are not themselves called from inside the logger package (fixed stack depth)", 1)
	r.Rule("C01-R7", "no attribute is dropped: in an emitter that is handed one slog.Attr, a return with nothing appended is reachable only inside the group branch (Kind() == KindGroup) — an empty group is the only attribute that leaves the line untouched", 1)
	r.Rule("C01-R6", "the caller's attributes are read-only: no function of the logger package stores through a pointer parameter to slog.Attr / slog.Value / slog.Record or into an element of a []slog.Attr it was given or obtained from Value.Group() (resolving a LogValuer in place would freeze a deferred value for every later record)", 0)
	r.NotDecided = append(r.NotDecided, "that decoded values equal the inputs (round-trip of numbers/time through strconv/time; U+FFFD substitution result)", "attribute order beyond: emitted in iteration order of the same loops")
	r.Trusted = append(r.Trusted, "strconv.AppendInt/Uint/Bool output is a JSON number/literal", "Time.AppendFormat(RFC3339Nano) emits only digits, '-', ':', '.', 'T', 'Z', '+'", "encoding/json Encoder.Encode writes one valid JSON value followed by '\\n'", "slog.Value.Resolve never returns a LogValuer kind")

	// ---- R6: attribute memory of the caller is never written
	{
		isAttrMem := func(t types.Type) bool {
			if pt, ok := t.Underlying().(*types.Pointer); ok {
				t = pt.Elem()
			} else if st, ok := t.Underlying().(*types.Slice); ok {
				t = st.Elem()
			} else {
				return false
			}
			n, ok := t.(*types.Named)
			return ok && n.Obj().Pkg() != nil && n.Obj().Pkg().Path() == "log/slog" && (n.Obj().Name() == "Attr" || n.Obj().Name() == "Value" || n.Obj().Name() == "Record")
		}
		var bad []string
		nFn := 0
		for _, fn := range p.PkgFuncs("logger") {
			if fn.Blocks == nil {
				continue
			}
			nFn++
			sx.Instrs(fn, func(in ssa.Instruction) {
				st, ok := in.(*ssa.Store)
				if !ok {
					return
				}
				a := st.Addr
				for {
					if fa, ok := a.(*ssa.FieldAddr); ok {
						a = fa.X
						continue
					}
					if ia, ok := a.(*ssa.IndexAddr); ok {
						a = ia.X
						continue
					}
					break
				}
				a = sx.Unspill(a)
				switch x := a.(type) {
				case *ssa.Parameter:
					if isAttrMem(x.Type()) {
						bad = append(bad, "store through parameter "+x.Name()+" of "+fnName(fn)+" at "+p.Pos(in.Pos()))
					}
				case *ssa.Call:
					if n := sx.CalleeName(x); n == "(log/slog.Value).Group" {
						bad = append(bad, "store into the members of a group value in "+fnName(fn)+" at "+p.Pos(in.Pos()))
					}
				}
			})
		}
		sort.Strings(bad)
		r.Check(len(bad) == 0, "C01-R6", "attribute memory handed to the logger is never written", "-", fmt.Sprintf("%d functions, none stores through a *slog.Attr / *slog.Value / *slog.Record parameter or into group members", nFn), strings.Join(bad, "; ")+": the value the caller keeps (a group attribute it logs again, a deferred LogValuer) is changed by logging it — later records show what the first one resolved")
	}

	h := handlerNamed(p, "json")
	if h == nil {
		r.Fail("ANCHOR", "json handler", "-", "no handler type with 'Json' in its name implements logger.Handler")
		return
	}
	_, bufs := classifySinks(p, h, nil)
	san := findSanitizer(p, bufs, false)
	if san == nil {
		r.Fail("C01-R3", "escaping function", "-", "no function (buf *[]byte, s string) with a character loop among the JSON emitters")
		return
	}
	r.Anchor("sanitizer", fnName(san))
	sinks, _ := classifySinks(p, h, san)

	// ---- R2
	n := map[string]int{}
	for _, s := range sinks {
		key := describeSink(p, s)
		n[key]++
		c := fmt.Sprintf("%s #%d", key, n[key])
		switch {
		case s.Class == "const":
			r.OK("C01-R2", c, p.Pos(s.In.Pos()), "constant bytes "+fmtBytes(s.Bytes)+" (grammar checked by C01-R1)")
		case s.Class == "preformatted", s.Class == "sanitizer-internal", s.Class == "json-value", s.Class == "closed:number":
			r.OK("C01-R2", c, p.Pos(s.In.Pos()), s.Class)
		case s.Class == "closed:float":
			// strconv.AppendFloat writes NaN, +Inf, -Inf, which are not JSON: only behind explicit finiteness tests
			call := s.In.(*ssa.Call)
			val := call.Call.Args[1]
			cut := sx.Cut{Edges: map[sx.Edge]bool{}}
			seenNaN, seenInf := false, false
			sx.Instrs(s.Fn, func(in ssa.Instruction) {
				g, ok := in.(*ssa.Call)
				if !ok || len(g.Call.Args) == 0 || sx.Unspill(g.Call.Args[0]) != sx.Unspill(val) {
					return
				}
				n := sx.CalleeName(g)
				if n != "math.IsNaN" && n != "math.IsInf" {
					return
				}
				for _, u := range *g.Referrers() {
					if iff, ok := u.(*ssa.If); ok {
						e := sx.Edge{From: iff.Block(), Idx: 1}
						if sx.MustPass(s.Fn, nil, s.In, sx.Cut{Edges: map[sx.Edge]bool{e: true}}) {
							if n == "math.IsNaN" {
								seenNaN = true
							} else {
								seenInf = true
							}
						}
					}
				}
			})
			_ = cut
			r.Check(seenNaN && seenInf, "C01-R2", c, p.Pos(s.In.Pos()), "strconv.AppendFloat behind !IsNaN and !IsInf", "a float is written with strconv.AppendFloat without excluding NaN and ±Inf, whose spellings (NaN, +Inf, -Inf) are not JSON: the line does not parse instead of carrying an error string")
		case s.Class == "closed:time":
			bad := strings.ContainsAny(s.Detail, "\"\\\n")
			r.Check(!bad, "C01-R2", c, p.Pos(s.In.Pos()), "time layout "+s.Detail, "time layout contains a character that needs escaping in JSON")
		case strings.HasPrefix(s.Class, "table:"):
			ok, d := checkLabelTable(p, strings.TrimPrefix(s.Class, "table:"), s, jsonStringUnsafe)
			r.Check(ok, "C01-R2", c, p.Pos(s.In.Pos()), d, d)
		case s.ColourOnly:
			r.OK("C01-R2", c+" (colour only)", p.Pos(s.In.Pos()), "reachable only with colour on: outside the property's scope")
		case s.Class == "quoted":
			r.Fail("C01-R2", c, p.Pos(s.In.Pos()), "strconv.AppendQuote produces Go syntax (\\x7f, \\a, \\U000e0001), which is not JSON")
		default:
			r.Fail("C01-R2", c, p.Pos(s.In.Pos()), s.Detail+" is appended to the JSON line without passing "+fnName(san)+": a quote, backslash or control byte in it breaks the line")
		}
	}

	// ---- R3
	cl, why := findCharLoop(p.Inl(san)) // a scanning helper is seen in place
	if cl == nil {
		r.Fail("C01-R3", "escape decision", p.FuncPos(san), why)
		return
	}
	safe, spos := boolTable(p, "logger", "safeSet")
	if safe == nil {
		r.Fail("C01-R3", "safeSet table", "-", "cannot read the safeSet table")
		return
	}
	tables := map[string][]constant.Value{"safeSet": safe}
	derivedBoolTables(p, "logger", tables)
	var bad []string
	raw, esc := 0, 0
	for b := 0; b < 0x80; b++ {
		o := cl.evalByte(p, tables, byte(b))
		if o.Kind != "advance" {
			bad = append(bad, fmt.Sprintf("byte %#02x: %s %s", b, o.Kind, o.Why))
			continue
		}
		if w := cl.bookkeeping(o, 1); w != "" {
			bad = append(bad, fmt.Sprintf("byte %#02x: %s", b, w))
		}
		if len(o.Emitted) == 0 && !o.Raw {
			raw++
			if jsonStringUnsafe(byte(b)) {
				bad = append(bad, fmt.Sprintf("byte %#02x (%q) is passed through unescaped", b, rune(b)))
			}
			continue
		}
		// an escape: the step first flushes the pending raw run (non-constant), then emits constant bytes
		esc++
		if ok, w := legalJSONEscape(o.Emitted, rune(b)); !ok {
			bad = append(bad, fmt.Sprintf("byte %#02x: %s", b, w))
		}
	}
	if cl.startV != nil {
		w := cl.finalFlush()
		r.Check(w == "", "C01-R3", "the raw run pending at the end of the string is appended", p.FuncPos(san), "every return passes append(buf, str[start:]...) after the loop; per character: raw leaves start alone, an escape flushes str[start:i] first and restarts the run just past the character", w)
	}
	r.Check(len(bad) == 0, "C01-R3", "escape decision over all 128 ASCII bytes", p.FuncPos(san), fmt.Sprintf("%d bytes passed raw (all legal inside a JSON string), %d replaced by a legal escape denoting them", raw, esc), strings.Join(bad, "; "))
	okTab := true
	var tb []string
	for b, v := range safe {
		if constant.BoolVal(v) && jsonStringUnsafe(byte(b)) {
			okTab = false
			tb = append(tb, fmt.Sprintf("safeSet[%#02x] is true", b))
		}
	}
	r.Check(okTab && len(safe) == 0x80, "C01-R3", "safeSet marks no byte that JSON forbids inside a string", p.Pos(spos), "128 entries; true only for bytes >= 0x20 other than '\"' and '\\'", strings.Join(tb, "; "))
	var badR []string
	nR := 0
	for rr := rune(0x80); rr <= unicode.MaxRune; rr++ {
		if rr >= 0xD800 && rr <= 0xDFFF {
			continue
		}
		nR++
		var enc [4]byte
		sz := utf8.EncodeRune(enc[:], rr)
		o := cl.evalRune(p, tables, rr, sz, enc[0])
		if o.Kind != "advance" {
			if len(badR) < 5 {
				badR = append(badR, fmt.Sprintf("U+%04X: %s %s", rr, o.Kind, o.Why))
			}
			continue
		}
		if len(o.Emitted) > 0 {
			if ok, w := legalJSONEscape(o.Emitted, rr); !ok && len(badR) < 5 {
				badR = append(badR, fmt.Sprintf("U+%04X: %s", rr, w))
			}
		}
		if w := cl.bookkeeping(o, sz); w != "" && len(badR) < 5 {
			badR = append(badR, fmt.Sprintf("U+%04X: %s", rr, w))
		}
	}
	for _, fb := range []byte{0x80, 0xbf, 0xc0, 0xff} {
		o := cl.evalRune(p, tables, utf8.RuneError, 1, fb)
		if ok, w := legalJSONEscape(o.Emitted, utf8.RuneError); o.Kind != "advance" || !ok {
			badR = append(badR, fmt.Sprintf("invalid byte %#02x: %s %s", fb, o.Kind, w))
		} else if w := cl.bookkeeping(o, 1); w != "" {
			badR = append(badR, fmt.Sprintf("invalid byte %#02x: %s", fb, w))
		}
	}
	r.Check(len(badR) == 0, "C01-R3", "escape decision over every Unicode scalar value and invalid bytes", p.FuncPos(san), fmt.Sprintf("%d scalar values evaluated: raw or one legal \\uXXXX escape denoting them; invalid bytes become \\ufffd", nR), strings.Join(badR, "; "))

	// ---- R4
	// "writes": an append to the line, or a call of an emitter (a function that receives the line buffer) which itself
	// writes on every path
	var alwaysWrites func(f *ssa.Function, depth int) (sx.Cut, bool)
	alwaysWrites = func(f *ssa.Function, depth int) (sx.Cut, bool) {
		c := sx.Cut{Instrs: map[ssa.Instruction]bool{}}
		for _, s := range sinks {
			if s.Fn == f {
				c.Instrs[s.In] = true
			}
		}
		if depth < 3 {
			sx.Instrs(f, func(in ssa.Instruction) {
				call, ok := in.(*ssa.Call)
				if !ok {
					return
				}
				callee := sx.StaticCallee(call)
				if callee == nil || bufs[callee] == nil || callee == f {
					return
				}
				passes := false
				for _, a := range sx.Args(call) {
					if bufs[f][a] || bufs[f][sx.Unspill(a)] {
						passes = true
					}
				}
				if !passes {
					return
				}
				if _, all := alwaysWrites(callee, depth+1); all {
					c.Instrs[in] = true
				}
			})
		}
		all := len(c.Instrs) > 0
		for _, ret := range sx.Returns(f) {
			if sx.ReachInstr(f, nil, ret, c) {
				all = false
			}
		}
		return c, all
	}
	for fn := range bufs {
		uses := false
		sx.Instrs(fn, func(in ssa.Instruction) {
			if c, ok := in.(ssa.CallInstruction); ok && sx.CalleeName(c) == "(*encoding/json.Encoder).Encode" {
				uses = true
			}
		})
		if !uses {
			continue
		}
		_, ok := alwaysWrites(fn, 0)
		r.Check(ok, "C01-R4", fnName(fn)+": every path writes a value", p.FuncPos(fn), "no return without an append (error → escaped string)", "a path of the marshal helper returns without appending anything: `\"key\":` would be followed by ',' or '}'")
	}

	// ---- R7: no attribute is dropped. In an emitter that is handed one slog.Attr, a return that no append to the line
	// precedes is reachable only through the group branch (`Kind() == KindGroup`): a group without members is the one
	// attribute that leaves the line untouched; any other attribute — whatever its key and value — writes a member.
	{
		var attrFns []*ssa.Function
		for fn := range bufs {
			for _, prm := range fn.Params {
				pt := prm.Type()
				if ptr, ok := pt.(*types.Pointer); ok {
					pt = ptr.Elem() // the Attr handed on by reference
				}
				if nt, ok := pt.(*types.Named); ok && nt.Obj().Pkg() != nil && nt.Obj().Pkg().Path() == "log/slog" && nt.Obj().Name() == "Attr" {
					attrFns = append(attrFns, fn)
					break
				}
			}
		}
		sort.Slice(attrFns, func(i, j int) bool { return attrFns[i].String() < attrFns[j].String() })
		for _, fn := range attrFns {
			cut := sx.Cut{Instrs: map[ssa.Instruction]bool{}, Edges: map[sx.Edge]bool{}}
			for _, sk := range sinks {
				if sk.Fn == fn && !sk.ColourOnly {
					cut.Instrs[sk.In] = true
				}
			}
			// a call of an emitter that writes on every one of its paths (the key, the value) is a write
			if c2, _ := alwaysWrites(fn, 0); true {
				for in := range c2.Instrs {
					cut.Instrs[in] = true
				}
			}
			// handing the attribute on to another attribute emitter delegates the decision to it (it is judged itself)
			sx.Instrs(fn, func(in ssa.Instruction) {
				if call, ok := in.(*ssa.Call); ok {
					if callee := sx.StaticCallee(call); callee != nil && callee != fn {
						for _, af := range attrFns {
							if af == callee {
								cut.Instrs[in] = true
							}
						}
					}
				}
			})
			isKindCall := func(v ssa.Value) bool {
				c, ok := sx.Unspill(v).(*ssa.Call)
				return ok && sx.CalleeName(c) == "(log/slog.Value).Kind"
			}
			isGroupConst := func(v ssa.Value) bool {
				k, ok := sx.ConstInt(v)
				return ok && k == int64(slog.KindGroup)
			}
			nGroupEdges := 0
			sx.Instrs(fn, func(in ssa.Instruction) {
				iff, ok := in.(*ssa.If)
				if !ok {
					return
				}
				b, ok := iff.Cond.(*ssa.BinOp)
				if !ok || !((isKindCall(b.X) && isGroupConst(b.Y)) || (isKindCall(b.Y) && isGroupConst(b.X))) {
					return
				}
				switch b.Op {
				case token.EQL:
					cut.Edges[sx.Edge{From: iff.Block(), Idx: 0}] = true
					nGroupEdges++
				case token.NEQ:
					cut.Edges[sx.Edge{From: iff.Block(), Idx: 1}] = true
					nGroupEdges++
				}
			})
			var bad []string
			for _, ret := range sx.Returns(fn) {
				if sx.ReachInstr(fn, nil, ret, cut) {
					bad = append(bad, p.Pos(ret.Pos()))
				}
			}
			r.Check(len(bad) == 0, "C01-R7", fnName(fn)+": only a group can leave the line untouched", p.FuncPos(fn), fmt.Sprintf("every return is behind an append to the line or inside the group branch (%d group test(s))", nGroupEdges), "the return at "+strings.Join(bad, ", ")+" is reachable for an attribute that is not a group without anything having been appended: that attribute is missing from the decoded object")
		}
	}

	checkCallerFrames(p, r, "C01-R5")

	// ---- R1
	runEmitJSON(p, r, h, san)
}

var _ = ssa.Value(nil)
var _ = core.ModPath

// checkCallerFrames: functions that capture the program counter with runtime.Callers(skip, …) assume a fixed
// number of logger frames above the user's call.
func checkCallerFrames(p *core.Prog, r *core.Report, rule string) {
	cm := staticCalls(p)
	// sibling constructors agree: whatever the root constructor of Logger computes and stores (a cached "add source"
	// flag, say), every other place that builds a Logger stores too — or copies the whole struct
	if lg := p.Named("logger", "Logger"); lg != nil {
		type site struct {
			fn     *ssa.Function
			at     ssa.Instruction
			fields map[string]bool
			copied bool
		}
		var sites []site
		for _, fn := range p.PkgFuncs("logger") {
			sx.Instrs(fn, func(in ssa.Instruction) {
				al, ok := in.(*ssa.Alloc)
				if !ok || !types.Identical(ptrTo(al.Type()), lg) || al.Referrers() == nil {
					return
				}
				st := site{fn: fn, at: in, fields: map[string]bool{}}
				for _, u := range *al.Referrers() {
					switch x := u.(type) {
					case *ssa.FieldAddr:
						if x.Referrers() == nil {
							continue
						}
						for _, uu := range *x.Referrers() {
							if s2, ok := uu.(*ssa.Store); ok && s2.Addr == ssa.Value(x) {
								st.fields[sx.FieldOf(x).Name()] = true
							}
						}
					case *ssa.Store:
						if x.Addr == ssa.Value(al) {
							st.copied = true
						}
					}
				}
				sites = append(sites, st)
			})
		}
		var root *site
		for i := range sites {
			f := sites[i].fn
			if f.Signature.Recv() == nil && f.Parent() == nil && (root == nil || len(sites[i].fields) > len(root.fields)) {
				root = &sites[i]
			}
		}
		if root != nil {
			var bad []string
			for _, st := range sites {
				if st.copied || st.at == root.at {
					continue
				}
				for f := range root.fields {
					if !st.fields[f] {
						bad = append(bad, fmt.Sprintf("the Logger built in %s at %s leaves field %s at its zero value, %s sets it", fnName(st.fn), p.Pos(st.at.Pos()), f, fnName(root.fn)))
					}
				}
			}
			sort.Strings(bad)
			r.Check(len(bad) == 0, rule, "every Logger the package builds carries what the root constructor sets", p.FuncPos(root.fn), fmt.Sprintf("%d construction site(s) agree with %s on the fields they set", len(sites), fnName(root.fn)), strings.Join(uniq(bad), "; ")+": loggers derived with With/WithGroup behave differently from the logger they were derived from (e.g. lose the source location)")
		}
	}
	for _, fn := range p.PkgFuncs("logger") {
		sx.Instrs(fn, func(in ssa.Instruction) {
			c, ok := in.(*ssa.Call)
			if !ok || sx.CalleeName(c) != "runtime.Callers" {
				return
			}
			skip, isC := sx.ConstInt(c.Call.Args[0])
			var deep []string
			okDepth := isC && skip >= 2 && skip <= 6
			if !isC {
				deep = append(deep, "skip count is not constant")
			} else if !okDepth {
				deep = append(deep, fmt.Sprintf("skip count %d is outside what the rule follows (2..6)", skip))
			}
			// skip = 2 + d: runtime.Callers, the capturing function, d-1 private helpers above it, the entry point the user
			// called. Walk d levels of static callers: every function below the top level is private to the package (nobody
			// outside can enter the chain half-way), every function at the top level is an entry point — not itself called
			// from inside the package (that would be one frame more than the skip count assumes).
			level := map[*ssa.Function]bool{rootFn(fn): true}
			nTop := 0
			for d := int64(1); okDepth && d <= skip-2; d++ {
				next := map[*ssa.Function]bool{}
				for f := range level {
					if ast.IsExported(f.Name()) {
						okDepth = false
						deep = append(deep, fmt.Sprintf("%s is %d frame(s) below the assumed entry point but exported: called directly by a user the record's source is off by that many frames", fnName(f), skip-2-d+1))
					}
					if len(cm.callers[f]) == 0 {
						okDepth = false
						deep = append(deep, fmt.Sprintf("%s has no static caller: the frame the skip count points at does not exist on that path", fnName(f)))
					}
					for _, cs := range cm.callers[f] {
						g := rootFn(cs.Caller)
						if g.Pkg != fn.Pkg {
							okDepth = false
							deep = append(deep, fmt.Sprintf("%s is called from %s outside the package with %d frame(s) still to skip", fnName(f), fnName(g), skip-2-d+1))
							continue
						}
						next[g] = true
					}
				}
				level = next
			}
			if okDepth {
				for f := range level {
					nTop++
					for _, cs := range cm.callers[f] {
						if g := rootFn(cs.Caller); g.Pkg == fn.Pkg {
							okDepth = false
							deep = append(deep, fmt.Sprintf("%s reaches %s through %s: one frame more than the skip count assumes, the record's source is a line of the logger itself", fnName(g), fn.Name(), fnName(f)))
						}
					}
				}
			}
			sort.Strings(deep)
			r.Check(okDepth, rule, "caller frame: "+fn.Name()+" is reached with a fixed stack depth", p.Pos(in.Pos()), fmt.Sprintf("runtime.Callers(%d): %d private level(s) and %d entry points, none called from inside the package", skip, skip-2, nTop), strings.Join(uniq(deep), "; "))
		})
	}
}
