package props

import (
	"fmt"
	"go/token"
	"go/types"
	"sort"
	"strings"

	"golang.org/x/tools/go/ssa"

	"glbverif/checker/core"
	"glbverif/checker/sx"
)

// tlInfo resolves the roles of TaskLane's parts from the program itself:
// channel fields by type and by how the constructor makes them, goroutine
// bodies as the targets of the constructor's go statements.
type tlInfo struct {
	p          *core.Prog
	Named      *types.Named
	TaskI      *types.Named
	Fns        []*ssa.Function
	Ctor       *ssa.Function   // inlined view, like Queue, Worker, Push and Status (compare with sameFn)
	AliasElems []*ssa.Store    // stores into a lane-list element of something that is not a fresh channel
	ElemChans  []*ssa.MakeChan // channels made for lane-list elements
	elemField  map[*ssa.MakeChan]*types.Var
	Buffered   *types.Var // []chan Task made with non-zero capacity
	Blocking   *types.Var // []chan Task made with capacity 0
	Shared     *types.Var // chan Task
	Ctx        *types.Var
	WG         *types.Var
	Queue      *ssa.Function // goroutine body that drains the buffered queue
	Worker     *ssa.Function // goroutine body that runs tasks
	Push       *ssa.Function
	Status     *ssa.Function
	GoSites    []*ssa.Go
	Views      []pkgView
	problems   []string

	owner       map[*types.Var]string // channel field → name of the struct that declares it
	Containers  []*types.Var          // slice fields of TaskLane that hold the per-lane objects
	GoRole      map[*ssa.Go]string    // go statement → "queue" | "worker"
	QueueEntry  *ssa.Function         // the functions the go statements start (a wrapper closure, or the body itself)
	WorkerEntry *ssa.Function
	WorkerLoop  *ssa.Function                // where the worker's selects and its task loop live (the body, or a per-run frame it calls)
	bind        map[*ssa.Parameter]ssa.Value // parameters of goroutine bodies → the values passed where they are started
}

func (t *tlInfo) fieldKey(f *types.Var) string {
	if o, ok := t.owner[f]; ok {
		return "field:" + o + "." + f.Name()
	}
	return "field:TaskLane." + f.Name()
}

// resolveChan follows a channel value to where it comes from: through direction conversions, spilled cells, and the
// parameters of goroutine bodies (bound to the arguments of the go statement / wrapper call that starts them).
func (t *tlInfo) resolveChan(v ssa.Value) ssa.Value {
	for i := 0; i < 8; i++ {
		v = sx.Unspill(v)
		switch x := v.(type) {
		case *ssa.ChangeType:
			v = x.X
			continue
		case *ssa.Convert:
			v = x.X
			continue
		case *ssa.Parameter:
			if b, ok := t.bind[x]; ok && b != nil {
				v = b
				continue
			}
		}
		break
	}
	return v
}

// chanRole classifies a channel value by the field it was loaded from.
func (t *tlInfo) chanRole(v ssa.Value) string {
	v = t.resolveChan(v)
	// the channel object itself (made in the constructor and both installed in a lane field and handed to a goroutine):
	// its role is that of the field it is installed in
	if mc, ok := v.(*ssa.MakeChan); ok && mc.Referrers() != nil {
		role := ""
		for _, u := range *mc.Referrers() {
			st, ok := u.(*ssa.Store)
			if !ok || st.Val != ssa.Value(mc) {
				continue
			}
			var f *types.Var
			switch a := st.Addr.(type) {
			case *ssa.FieldAddr:
				f = sx.FieldOf(a)
			case *ssa.IndexAddr:
				for _, cand := range []*types.Var{t.Buffered, t.Blocking} {
					if cand != nil && sx.Origins(a.X)[t.fieldKey(cand)] {
						f = cand
					}
				}
			case *ssa.Alloc:
				// spilled local: loads of it are resolved by Unspill
				continue
			}
			switch {
			case f != nil && f == t.Buffered:
				role = "buffered"
			case f != nil && f == t.Blocking:
				role = "blocking"
			case f != nil && f == t.Shared:
				role = "shared"
			}
		}
		if role != "" {
			return role
		}
	}
	// an element of a slice the constructor made and installed in a lane-list field, read through the local variable
	// (`go tl.startQueue(bufferedQueueList[i], …)` before or after `tl.bufferedQueueList = bufferedQueueList`)
	if ld, ok := v.(*ssa.UnOp); ok && ld.Op == token.MUL {
		if ia, ok := ld.X.(*ssa.IndexAddr); ok {
			if ms, ok := sx.Unspill(ia.X).(*ssa.MakeSlice); ok && ms.Referrers() != nil {
				for _, u := range *ms.Referrers() {
					st, ok := u.(*ssa.Store)
					if !ok || st.Val != ssa.Value(ms) {
						continue
					}
					if fa, ok := st.Addr.(*ssa.FieldAddr); ok {
						switch f := sx.FieldOf(fa); {
						case f != nil && f == t.Buffered:
							return "buffered"
						case f != nil && f == t.Blocking:
							return "blocking"
						}
					}
				}
			}
		}
	}
	org := t.origins(v)
	if len(org) != 1 {
		// a channel variable that is sometimes the lane's channel and sometimes something else (nil, another channel)
		return "other:" + keys(org)
	}
	switch {
	case t.Buffered != nil && org[t.fieldKey(t.Buffered)]:
		return "buffered"
	case t.Blocking != nil && org[t.fieldKey(t.Blocking)]:
		return "blocking"
	case t.Shared != nil && org[t.fieldKey(t.Shared)]:
		return "shared"
	case org["call:(context.Context).Done"]:
		return "done"
	}
	return "other:" + keys(org)
}

// origins is sx.Origins with the parameters of goroutine bodies replaced by what is passed for them: a field of an
// object handed in by pointer (`q *taskQueue`, `q.buffered`) keeps its field key.
func (t *tlInfo) origins(v ssa.Value) map[string]bool {
	return sx.Origins(v)
}

func resolveTaskLane(p *core.Prog) *tlInfo {
	t := &tlInfo{p: p, owner: map[*types.Var]string{}, GoRole: map[*ssa.Go]string{}, bind: map[*ssa.Parameter]ssa.Value{}}
	t.Named = p.Named("tasklane", "TaskLane")
	t.TaskI = p.Named("tasklane", "Task")
	if t.Named == nil || t.TaskI == nil {
		t.problems = append(t.problems, "types tasklane.TaskLane / tasklane.Task not found")
		return t
	}
	t.Fns = p.PkgFuncs("tasklane")
	isChanOfTask := func(ty types.Type) bool {
		c, ok := ty.Underlying().(*types.Chan)
		return ok && types.Identical(c.Elem(), t.TaskI)
	}
	// channel fields: of TaskLane itself and of the per-lane structs of the package it holds in slices
	var lists []*types.Var  // []chan Task
	var direct []*types.Var // chan Task
	scanStruct := func(n *types.Named, top bool) {
		for _, f := range structFields(n) {
			switch ty := f.Type().Underlying().(type) {
			case *types.Slice:
				if isChanOfTask(ty.Elem()) {
					lists = append(lists, f)
					t.owner[f] = n.Obj().Name()
				}
			case *types.Chan:
				if isChanOfTask(f.Type()) {
					direct = append(direct, f)
					t.owner[f] = n.Obj().Name()
				}
			case *types.Pointer:
				if top && typeIs(ty.Elem(), "sync", "WaitGroup") {
					t.WG = f
				}
			default:
				if top && typeIs(f.Type(), "context", "Context") {
					t.Ctx = f
				}
				if top && typeIs(f.Type(), "sync", "WaitGroup") {
					t.WG = f
				}
			}
		}
	}
	scanStruct(t.Named, true)
	for _, f := range structFields(t.Named) {
		sl, ok := f.Type().Underlying().(*types.Slice)
		if !ok {
			continue
		}
		el := sl.Elem()
		if pt, ok := el.Underlying().(*types.Pointer); ok {
			el = pt.Elem()
		}
		if n, ok := el.(*types.Named); ok && n.Obj().Pkg() == t.Named.Obj().Pkg() {
			if _, isStruct := n.Underlying().(*types.Struct); isStruct {
				t.Containers = append(t.Containers, f)
				scanStruct(n, false)
			}
		}
	}
	// All role resolution and all path rules run on inlined views (core.Prog.Inl): a select moved into a
	// helper of the package, or go statements moved into a per-lane start helper, are seen in place.
	t.Views = pkgViews(p, "tasklane")
	// constructor: the package-level function whose (inlined) body starts goroutines
	for _, v := range t.Views {
		if v.Root.Signature.Recv() != nil {
			continue
		}
		n := 0
		sx.Instrs(v.Fn, func(in ssa.Instruction) {
			if _, ok := in.(*ssa.Go); ok {
				n++
			}
		})
		if n > 0 {
			t.Ctor = v.Fn
		}
	}
	if t.Ctor == nil {
		t.problems = append(t.problems, "no package-level function of tasklane starts goroutines (constructor not found)")
		return t
	}
	// go statements: those of the constructor's view, and those of every other view that are not copies of the same source statement
	seenGo := map[ssa.Instruction]bool{}
	sx.Instrs(t.Ctor, func(in ssa.Instruction) {
		if g, ok := in.(*ssa.Go); ok {
			t.GoSites = append(t.GoSites, g)
			seenGo[sx.OrigInstr(g)] = true
		}
	})
	for _, v := range t.Views {
		if v.Fn == t.Ctor {
			continue
		}
		for _, f := range sx.WithClosures(v.Fn) {
			sx.Instrs(f, func(in ssa.Instruction) {
				if g, ok := in.(*ssa.Go); ok && !seenGo[sx.OrigInstr(g)] {
					// a helper that only the constructor calls was judged there
					if src := sx.SourceFunc(g); !sameFn(src, v.Root) && onlyCalledFrom(p, src, map[*ssa.Function]bool{t.Ctor: true}) {
						return
					}
					t.GoSites = append(t.GoSites, g)
					seenGo[sx.OrigInstr(g)] = true
				}
			})
		}
	}
	// buffered vs blocking lists: capacity of the channels the constructor stores into the elements of the slice held by the field
	listOf := func(base ssa.Value) *types.Var {
		for _, f := range lists {
			if sx.Origins(base)[t.fieldKey(f)] {
				return f
			}
		}
		ms, ok := sx.Unspill(base).(*ssa.MakeSlice)
		if !ok {
			return nil
		}
		for _, f := range lists {
			for _, ref := range sx.FieldRefs([]*ssa.Function{t.Ctor}, f) {
				fa, ok := ref.Instr.(*ssa.FieldAddr)
				if !ok {
					continue
				}
				for _, a := range sx.Accesses(fa) {
					if a.Kind == "write" && sx.Unspill(a.Val) == ssa.Value(ms) {
						return f
					}
				}
			}
		}
		return nil
	}
	capKind := map[*types.Var]string{}
	note := func(f *types.Var, mc *ssa.MakeChan) {
		kind := "buffered"
		if k, isC := sx.ConstInt(mc.Size); isC && k == 0 {
			kind = "blocking"
		}
		if prev, ok := capKind[f]; ok && prev != kind {
			kind = "mixed"
		}
		capKind[f] = kind
	}
	for _, cf := range sx.WithClosures(t.Ctor) {
		sx.Instrs(cf, func(in ssa.Instruction) {
			st, ok := in.(*ssa.Store)
			if !ok {
				return
			}
			mc, ok := sx.Unspill(st.Val).(*ssa.MakeChan)
			if !ok {
				// a lane-list element that is not a channel made for it (an alias of another lane's or list's channel)
				if a, isIA := st.Addr.(*ssa.IndexAddr); isIA {
					if f := listOf(a.X); f != nil {
						t.AliasElems = append(t.AliasElems, st)
					}
				}
				return
			}
			switch a := st.Addr.(type) {
			case *ssa.IndexAddr:
				if f := listOf(a.X); f != nil {
					note(f, mc)
					t.ElemChans = append(t.ElemChans, mc)
					if t.elemField == nil {
						t.elemField = map[*ssa.MakeChan]*types.Var{}
					}
					t.elemField[mc] = f
				}
			case *ssa.FieldAddr:
				f := sx.FieldOf(a)
				for _, d := range direct {
					if d == f {
						note(f, mc)
						t.ElemChans = append(t.ElemChans, mc)
						if t.elemField == nil {
							t.elemField = map[*ssa.MakeChan]*types.Var{}
						}
						t.elemField[mc] = f
					}
				}
			}
		})
	}
	perLane := func(f *types.Var) bool {
		for _, l := range lists {
			if l == f {
				return true
			}
		}
		return t.owner[f] != t.Named.Obj().Name()
	}
	for _, f := range append(append([]*types.Var{}, lists...), direct...) {
		switch {
		case capKind[f] == "blocking" && perLane(f):
			t.Blocking = f
		case capKind[f] == "buffered" && perLane(f):
			t.Buffered = f
		case capKind[f] == "blocking" && !perLane(f):
			t.Shared = f
		}
	}
	if t.Buffered == nil || t.Blocking == nil || t.Shared == nil || t.Ctx == nil || t.WG == nil {
		t.problems = append(t.problems, "cannot identify buffered list / blocking list / shared channel / ctx / wg fields")
		return t
	}
	// goroutine bodies
	startReach := func(fn *ssa.Function) bool {
		found := false
		for f := range reachableFrom(p, fn) {
			sx.Instrs(f, func(in ssa.Instruction) {
				if c, ok := in.(ssa.CallInstruction); ok && t.isStart(c) {
					found = true
				}
			})
		}
		return found
	}
	hasLaneOps := func(fn *ssa.Function) bool {
		hit := false
		for _, f := range sx.WithClosures(fn) {
			sx.Instrs(f, func(in ssa.Instruction) {
				switch x := in.(type) {
				case *ssa.Select:
					for _, st := range x.States {
						if _, isChan := st.Chan.Type().Underlying().(*types.Chan); isChan && types.Identical(st.Chan.Type().Underlying().(*types.Chan).Elem(), t.TaskI) {
							hit = true
						}
					}
				case *ssa.Send:
					if types.Identical(x.Chan.Type().Underlying().(*types.Chan).Elem(), t.TaskI) {
						hit = true
					}
				}
			})
		}
		return hit
	}
	bindParams := func(callee *ssa.Function, args []ssa.Value) {
		for i, prm := range callee.Params {
			if i < len(args) {
				t.bind[prm] = args[i]
			}
		}
	}
	for _, g := range t.GoSites {
		// what the go statement starts: a named function/method (the body), or a closure that wraps the body —
		// `go func() { defer wg.Done(); tl.startQueue(q) }()`, `go func() { defer wg.Done(); loop(index) }()` with loop a
		// method value bound where the wrapper is called
		entry := sx.StaticCallee(g)
		var args []ssa.Value = g.Call.Args
		if entry == nil {
			if fn, extra := sx.ResolveFuncValue(g.Call.Value); fn != nil {
				entry, args = fn, append(append([]ssa.Value{}, extra...), g.Call.Args...)
			}
		}
		if entry == nil || entry.Blocks == nil {
			continue
		}
		var body *ssa.Function
		if entry.Parent() == nil {
			entry = p.Inl(entry)
			body = entry
			bindParams(body, args)
		} else if hasLaneOps(entry) {
			body = entry // the closure is a copy inside the constructor's view: its package callees are expanded already
		} else {
			// a wrapper: its one synchronous call of a package function is the body
			sx.Instrs(entry, func(in ssa.Instruction) {
				c, ok := in.(*ssa.Call)
				if !ok || body != nil {
					return
				}
				callee := sx.StaticCallee(c)
				cargs := sx.Args(c)
				if callee == nil && !c.Call.IsInvoke() {
					if fn, extra := sx.ResolveFuncValue(c.Call.Value); fn != nil {
						callee, cargs = fn, append(append([]ssa.Value{}, extra...), c.Call.Args...)
					}
				}
				if callee == nil || callee.Blocks == nil || !p.InModule(callee) || rootFn(callee).Pkg != p.SPkgs["tasklane"] {
					return
				}
				v := p.Inl(callee)
				if hasLaneOps(v) || startReach(callee) {
					body = v
					bindParams(v, cargs)
				}
			})
		}
		if body == nil {
			continue
		}
		// the queue goroutine is the one that hands tasks over (sends on the hand-over channels, possibly in helpers);
		// the worker is the one from which Task.Start is reachable
		handsOver := false
		for _, f := range viewFuncs(p, body) {
			sx.Instrs(f, func(in ssa.Instruction) {
				if s, ok := in.(*ssa.Select); ok {
					for _, st := range s.States {
						if role := t.chanRole(st.Chan); st.Dir == types.SendOnly && (role == "blocking" || role == "shared") {
							handsOver = true
						}
					}
				}
				if sd, ok := in.(*ssa.Send); ok {
					if role := t.chanRole(sd.Chan); role == "blocking" || role == "shared" {
						handsOver = true
					}
				}
			})
		}
		switch {
		case startReach(body) && !handsOver:
			t.Worker, t.WorkerEntry = body, entry
			t.GoRole[g] = "worker"
		case handsOver:
			t.Queue, t.QueueEntry = body, entry
			t.GoRole[g] = "queue"
		}
	}
	// the worker's loop may live in a per-run frame of its own (a function with a deferred recover that the body calls
	// in a loop: `for tl.runTasks(i) {}`): that frame is where the selects and the task loop are
	t.WorkerLoop = t.Worker
	if t.Worker != nil {
		recvs := func(fn *ssa.Function) bool {
			hit := false
			sx.Instrs(fn, func(in ssa.Instruction) {
				if s, ok := in.(*ssa.Select); ok {
					for _, st := range s.States {
						if role := t.chanRole(st.Chan); st.Dir == types.RecvOnly && (role == "blocking" || role == "shared") {
							hit = true
						}
					}
				}
			})
			return hit
		}
		if !recvs(t.Worker) {
			sx.Instrs(t.Worker, func(in ssa.Instruction) {
				c, ok := in.(*ssa.Call)
				if !ok {
					return
				}
				callee := sx.StaticCallee(c)
				if callee == nil || callee.Parent() != nil || callee.Blocks == nil || rootFn(callee).Pkg != p.SPkgs["tasklane"] {
					return
				}
				if v := p.Inl(callee); recvs(v) && onlyCalledFrom(p, callee, map[*ssa.Function]bool{t.Worker: true}) {
					t.WorkerLoop = v
					bindParams(v, sx.Args(c))
				}
			})
		}
	}
	ms := p.SSA.MethodSets.MethodSet(types.NewPointer(t.Named))
	for i := 0; i < ms.Len(); i++ {
		src := p.SSA.MethodValue(ms.At(i))
		if src == nil || src.Blocks == nil {
			continue
		}
		fn := p.Inl(src)
		if ms.At(i).Obj().Name() == "Status" {
			t.Status = fn
		}
		if !ms.At(i).Obj().Exported() {
			continue
		}
		sx.Instrs(fn, func(in ssa.Instruction) {
			if s, ok := in.(*ssa.Select); ok {
				for _, st := range s.States {
					if st.Dir == types.SendOnly && t.chanRole(st.Chan) == "buffered" {
						t.Push = fn
					}
				}
			}
			if s, ok := in.(*ssa.Send); ok && t.chanRole(s.Chan) == "buffered" {
				t.Push = fn
			}
		})
	}
	if t.Queue == nil || t.Worker == nil || t.Push == nil || t.Status == nil {
		t.problems = append(t.problems, fmt.Sprintf("roles not resolved: queue goroutine=%v worker goroutine=%v push=%v status=%v", t.Queue != nil, t.Worker != nil, t.Push != nil, t.Status != nil))
	}
	return t
}

// actor: on whose behalf the code of fn (a function of the view with root viewRoot) runs — "push", "queue", "worker" or
// the name of the view's root. A closure that a go statement starts is its goroutine, wherever it is written.
func (t *tlInfo) actor(fn, viewRoot *ssa.Function) string {
	// closures are compared by identity (one source closure expanded twice gives two distinct copies, e.g. a spawn
	// wrapper used for both goroutines), named functions by source function
	same := func(a, b *ssa.Function) bool {
		if a == nil || b == nil {
			return false
		}
		if a.Parent() != nil || b.Parent() != nil {
			return a == b
		}
		return sameFn(a, b)
	}
	for f := fn; f != nil; f = f.Parent() {
		switch {
		case same(f, t.QueueEntry), same(f, t.Queue):
			return "queue"
		case same(f, t.WorkerEntry), same(f, t.Worker), same(f, t.WorkerLoop):
			return "worker"
		}
	}
	switch {
	case sameFn(viewRoot, t.Push):
		return "push"
	case sameFn(viewRoot, t.Queue), sameFn(viewRoot, t.QueueEntry):
		return "queue"
	case sameFn(viewRoot, t.Worker), sameFn(viewRoot, t.WorkerEntry), sameFn(viewRoot, t.WorkerLoop):
		return "worker"
	}
	return fnName(viewRoot)
}

func (t *tlInfo) isStart(c ssa.CallInstruction) bool {
	cc := c.Common()
	return cc.IsInvoke() && cc.Method.Name() == "Start" && types.Identical(cc.Value.Type(), t.TaskI)
}

func (t *tlInfo) anchors(r *core.Report) bool {
	if len(t.problems) > 0 {
		r.Fail("ANCHOR", "tasklane roles", "-", strings.Join(t.problems, "; "))
		return false
	}
	r.Anchor("constructor", fnName(t.Ctor))
	r.Anchor("queue_goroutine", fnName(t.Queue))
	r.Anchor("worker_goroutine", fnName(t.Worker))
	r.Anchor("push", fnName(t.Push))
	r.Anchor("buffered/blocking/shared", t.Buffered.Name()+"/"+t.Blocking.Name()+"/"+t.Shared.Name())
	return true
}

// loopHeader returns the header of the outermost loop of a goroutine body.
func outerLoop(fn *ssa.Function) *ssa.BasicBlock {
	hs := sx.LoopHeaders(fn)
	var best *ssa.BasicBlock
	for _, h := range hs {
		if best == nil || h.Dominates(best) {
			best = h
		}
	}
	return best
}

// armEdges collects, for every select of fn, the CFG edges of arms matching pred.
func (t *tlInfo) armEdges(fn *ssa.Function, pred func(sel *ssa.Select, a sx.Arm) bool) (map[sx.Edge]bool, []string) {
	out := map[sx.Edge]bool{}
	var bad []string
	sx.Instrs(fn, func(in ssa.Instruction) {
		sel, ok := in.(*ssa.Select)
		if !ok {
			return
		}
		arms, ok := sx.SelectArms(sel)
		if !ok {
			bad = append(bad, "select at "+t.p.Pos(sel.Pos())+" has an unrecognised lowering")
			return
		}
		for _, a := range arms {
			if pred(sel, a) {
				out[a.Edge] = true
			}
		}
	})
	return out, bad
}

func edgeWeight(set map[sx.Edge]bool) func(sx.Edge) sx.Range {
	return func(e sx.Edge) sx.Range {
		if set[e] {
			return sx.Range{Min: 1, Max: 1}
		}
		return sx.Range{}
	}
}

// startSite: the call instruction inside fn's loop through which Task.Start is reached.
func (t *tlInfo) startSites(fn *ssa.Function) []ssa.CallInstruction {
	var out []ssa.CallInstruction
	sx.Instrs(fn, func(in ssa.Instruction) {
		c, ok := in.(ssa.CallInstruction)
		if !ok {
			return
		}
		if t.isStart(c) {
			out = append(out, c)
			return
		}
		if callee := sx.StaticCallee(c); callee != nil && t.p.InModule(callee) {
			hit := false
			for f := range reachableFrom(t.p, callee) {
				sx.Instrs(f, func(i2 ssa.Instruction) {
					if c2, ok := i2.(ssa.CallInstruction); ok && t.isStart(c2) {
						hit = true
					}
				})
			}
			if hit {
				out = append(out, c)
			}
		}
	})
	return out
}

func rangeStr(r sx.Range) string {
	f := func(n int) string {
		if n >= sx.Sat {
			return "many"
		}
		return fmt.Sprint(n)
	}
	return "[" + f(r.Min) + "," + f(r.Max) + "]"
}

// ---- rounds: the discipline between two consecutive receives, independent of how the loop is written ----
//
// A lane goroutine alternates "take a task" and "pass it on" (hand it over / start it). Written as `for { select
// {recv}; … }` the receive opens an iteration; written as `for t, ok := next(); ok; t, ok = next()` it closes one.
// What must hold either way is stated about rounds: a round begins on a receive arm's edge and ends at the next
// receive arm's edge (or at a return).

// recvArms: the CFG edges of fn's receive arms on channels of the given roles, each with the value it received.
func (t *tlInfo) recvArms(fn *ssa.Function, roles string) map[sx.Edge]ssa.Value {
	out := map[sx.Edge]ssa.Value{}
	sx.Instrs(fn, func(in ssa.Instruction) {
		sel, ok := in.(*ssa.Select)
		if !ok {
			return
		}
		arms, ok := sx.SelectArms(sel)
		if !ok {
			return
		}
		for _, a := range arms {
			if a.State == nil || a.State.Dir != types.RecvOnly || !strings.Contains(roles, t.chanRole(a.State.Chan)) {
				continue
			}
			// the k-th receive state's value is tuple element 2+k
			k := 0
			for i, st := range sel.States {
				if i == a.Index {
					break
				}
				if st.Dir == types.RecvOnly {
					k++
				}
			}
			var val ssa.Value
			for _, u := range *sel.Referrers() {
				if e, ok := u.(*ssa.Extract); ok && e.Index == 2+k {
					val = e
				}
			}
			out[a.Edge] = val
		}
	})
	return out
}

// roundCounts runs the (min,max) event count from the function entry up to the first receive, and from every
// receive arm up to the next one; cut edges are the receive arms.
func roundCounts(fn *ssa.Function, R map[sx.Edge]ssa.Value, w sx.Weights) (fromEntry *sx.CountResult, rounds map[sx.Edge]*sx.CountResult) {
	cut := map[sx.Edge]bool{}
	for e := range R {
		cut[e] = true
	}
	fromEntry = sx.Count(fn, fn.Blocks[0], w, cut)
	rounds = map[sx.Edge]*sx.CountResult{}
	for e := range R {
		rounds[e] = sx.Count(fn, e.To(), w, cut)
	}
	return
}

// roundDiscipline: no event before the first receive, exactly one event between two consecutive receives, at most one
// after the last. Returns a description of the first deviation.
func roundDiscipline(p *core.Prog, fn *ssa.Function, R map[sx.Edge]ssa.Value, w sx.Weights, what string) string {
	if len(R) == 0 {
		return "no receive arm found"
	}
	fromEntry, rounds := roundCounts(fn, R, w)
	for e, rg := range fromEntry.BackEdges {
		if !rg.Is(0) {
			return fmt.Sprintf("%s %s times before the first task was received (receive at block %d)", what, rangeStr(rg), e.From.Index)
		}
	}
	for _, ret := range sx.Returns(fn) {
		if rg, ok := fromEntry.Before(ret); ok && rg.Max > 0 {
			return what + " on a path that received nothing"
		}
	}
	for r, res := range rounds {
		for e, rg := range res.BackEdges {
			if !rg.Is(1) {
				return fmt.Sprintf("between the receive at block %d and the next receive (block %d) %s %s times", r.From.Index, e.From.Index, what, rangeStr(rg))
			}
		}
		for _, ret := range sx.Returns(fn) {
			if rg, ok := res.Before(ret); ok && rg.Max > 1 {
				return fmt.Sprintf("after the receive at block %d %s %s times before returning", r.From.Index, what, rangeStr(rg))
			}
		}
	}
	return ""
}

// usesLastReceived walks every round and checks that each value yielded by `use` (the value a hand-over sends, the
// receiver of Start) is, along the path walked, the value received at the round's opening arm: phis are resolved by
// the edges actually taken. Returns a description of the first stale or foreign value.
func (t *tlInfo) usesLastReceived(fn *ssa.Function, R map[sx.Edge]ssa.Value, use func(in ssa.Instruction) []ssa.Value) string {
	cut := map[sx.Edge]bool{}
	for e := range R {
		cut[e] = true
	}
	for r, recv := range R {
		if recv == nil {
			continue
		}
		type key struct {
			b    *ssa.BasicBlock
			from *ssa.BasicBlock
			env  string
		}
		envKey := func(env map[ssa.Value]ssa.Value) string {
			var ks []string
			for k, v := range env {
				ks = append(ks, fmt.Sprintf("%p=%p", k, v))
			}
			sort.Strings(ks)
			return strings.Join(ks, ",")
		}
		seen := map[key]bool{}
		var walk func(b, from *ssa.BasicBlock, env map[ssa.Value]ssa.Value, depth int) string
		resolve := func(v ssa.Value, env map[ssa.Value]ssa.Value) ssa.Value {
			for i := 0; i < 8; i++ {
				v = sx.Unspill(v)
				if x, ok := env[v]; ok {
					v = x
					continue
				}
				if ct, ok := v.(*ssa.ChangeInterface); ok {
					v = ct.X
					continue
				}
				if ld, ok := v.(*ssa.UnOp); ok && ld.Op == token.MUL {
					if a, isCell := ld.X.(*ssa.Alloc); isCell {
						if x, ok := env[a]; ok { // the variable's content on this path
							v = x
							continue
						}
					}
				}
				break
			}
			return v
		}
		walk = func(b, from *ssa.BasicBlock, env map[ssa.Value]ssa.Value, depth int) string {
			k0 := key{b, from, envKey(env)}
			if seen[k0] || depth > 400 {
				return ""
			}
			seen[k0] = true
			env2 := map[ssa.Value]ssa.Value{}
			for k, v := range env {
				env2[k] = v
			}
			for _, in := range b.Instrs {
				if ph, ok := in.(*ssa.Phi); ok {
					for k, pred := range b.Preds {
						if pred == from {
							env2[ph] = resolve(ph.Edges[k], env)
						}
					}
					continue
				}
				if st, ok := in.(*ssa.Store); ok {
					if a, isCell := st.Addr.(*ssa.Alloc); isCell {
						env2[a] = resolve(st.Val, env2) // a variable the task is kept in
					}
				}
				for _, v := range use(in) {
					got := resolve(v, env2)
					// a value spilled into a cell that a closure reads
					if got != sx.Unspill(recv) && got != recv {
						return fmt.Sprintf("%s at %s uses %s, which on this path is not the task received last (%s)", in.String(), t.p.Pos(in.Pos()), sx.ValPath(v), sx.ValPath(recv))
					}
				}
			}
			for si, s := range b.Succs {
				if cut[sx.Edge{From: b, Idx: si}] || sx.IsUnreachablePanic(s) {
					continue
				}
				if why := walk(s, b, env2, depth+1); why != "" {
					return why
				}
			}
			return ""
		}
		if why := walk(r.To(), r.From, map[ssa.Value]ssa.Value{}, 0); why != "" {
			return why
		}
	}
	return ""
}
