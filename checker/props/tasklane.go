package props

import (
	"fmt"
	_ "go/token"
	"go/types"
	"strings"

	"golang.org/x/tools/go/ssa"

	"glbverif/checker/core"
	"glbverif/checker/sx"
)

// tlInfo resolves the roles of TaskLane's parts from the program itself:
// channel fields by type and by how the constructor makes them, goroutine
// bodies as the targets of the constructor's go statements.
type tlInfo struct {
	p        *core.Prog
	Named    *types.Named
	TaskI    *types.Named
	Fns      []*ssa.Function
	Ctor     *ssa.Function // inlined view, like Queue, Worker, Push and Status (compare with sameFn)
	Buffered *types.Var    // []chan Task made with non-zero capacity
	Blocking *types.Var    // []chan Task made with capacity 0
	Shared   *types.Var    // chan Task
	Ctx      *types.Var
	WG       *types.Var
	Queue    *ssa.Function // goroutine body that drains the buffered queue
	Worker   *ssa.Function // goroutine body that runs tasks
	Push     *ssa.Function
	Status   *ssa.Function
	GoSites  []*ssa.Go
	Views    []pkgView
	problems []string
}

func (t *tlInfo) fieldKey(f *types.Var) string { return "field:TaskLane." + f.Name() }

// chanRole classifies a channel value by the field it was loaded from.
func (t *tlInfo) chanRole(v ssa.Value) string {
	org := sx.Origins(v)
	if len(org) != 1 {
		// a channel variable that is sometimes the lane's channel and sometimes something else (nil, another channel)
		return "other:" + keys(org)
	}
	switch {
	case t.Buffered != nil && org[t.fieldKey(t.Buffered)]:
		return "buffered"
	case t.Blocking != nil && org[t.fieldKey(t.Blocking)]:
		return "blocking"
	case t.Shared != nil && org[t.fieldKey(t.Shared)]:
		return "shared"
	case org["call:(context.Context).Done"]:
		return "done"
	}
	return "other:" + keys(org)
}

func resolveTaskLane(p *core.Prog) *tlInfo {
	t := &tlInfo{p: p}
	t.Named = p.Named("tasklane", "TaskLane")
	t.TaskI = p.Named("tasklane", "Task")
	if t.Named == nil || t.TaskI == nil {
		t.problems = append(t.problems, "types tasklane.TaskLane / tasklane.Task not found")
		return t
	}
	t.Fns = p.PkgFuncs("tasklane")
	isChanOfTask := func(ty types.Type) bool {
		c, ok := ty.Underlying().(*types.Chan)
		return ok && types.Identical(c.Elem(), t.TaskI)
	}
	var lists []*types.Var
	for _, f := range structFields(t.Named) {
		switch ty := f.Type().Underlying().(type) {
		case *types.Slice:
			if isChanOfTask(ty.Elem()) {
				lists = append(lists, f)
			}
		case *types.Chan:
			if isChanOfTask(f.Type()) {
				t.Shared = f
			}
		case *types.Pointer:
			if typeIs(ty.Elem(), "sync", "WaitGroup") {
				t.WG = f
			}
		default:
			if typeIs(f.Type(), "context", "Context") {
				t.Ctx = f
			}
			if typeIs(f.Type(), "sync", "WaitGroup") {
				t.WG = f
			}
		}
	}
	// All role resolution and all path rules run on inlined views (core.Prog.Inl): a select moved into a
	// helper of the package, or go statements moved into a per-lane start helper, are seen in place.
	t.Views = pkgViews(p, "tasklane")
	// constructor: the package-level function whose (inlined) body starts goroutines
	for _, v := range t.Views {
		if v.Root.Signature.Recv() != nil {
			continue
		}
		n := 0
		sx.Instrs(v.Fn, func(in ssa.Instruction) {
			if _, ok := in.(*ssa.Go); ok {
				n++
			}
		})
		if n > 0 {
			t.Ctor = v.Fn
		}
	}
	if t.Ctor == nil {
		t.problems = append(t.problems, "no package-level function of tasklane starts goroutines (constructor not found)")
		return t
	}
	// go statements: those of the constructor's view, and those of every other view that are not copies of the same source statement
	seenGo := map[ssa.Instruction]bool{}
	sx.Instrs(t.Ctor, func(in ssa.Instruction) {
		if g, ok := in.(*ssa.Go); ok {
			t.GoSites = append(t.GoSites, g)
			seenGo[sx.OrigInstr(g)] = true
		}
	})
	for _, v := range t.Views {
		if v.Fn == t.Ctor {
			continue
		}
		for _, f := range sx.WithClosures(v.Fn) {
			sx.Instrs(f, func(in ssa.Instruction) {
				if g, ok := in.(*ssa.Go); ok && !seenGo[sx.OrigInstr(g)] {
					// a helper that only the constructor calls was judged there
					if src := sx.SourceFunc(g); !sameFn(src, v.Root) && onlyCalledFrom(p, src, map[*ssa.Function]bool{t.Ctor: true}) {
						return
					}
					t.GoSites = append(t.GoSites, g)
					seenGo[sx.OrigInstr(g)] = true
				}
			})
		}
	}
	// buffered vs blocking lists: capacity of the channels the constructor stores into the elements of the slice held by the field
	listOf := func(base ssa.Value) *types.Var {
		for _, f := range lists {
			if sx.Origins(base)[t.fieldKey(f)] {
				return f
			}
		}
		ms, ok := sx.Unspill(base).(*ssa.MakeSlice)
		if !ok {
			return nil
		}
		for _, f := range lists {
			for _, ref := range sx.FieldRefs([]*ssa.Function{t.Ctor}, f) {
				fa, ok := ref.Instr.(*ssa.FieldAddr)
				if !ok {
					continue
				}
				for _, a := range sx.Accesses(fa) {
					if a.Kind == "write" && sx.Unspill(a.Val) == ssa.Value(ms) {
						return f
					}
				}
			}
		}
		return nil
	}
	capKind := map[*types.Var]string{}
	sx.Instrs(t.Ctor, func(in ssa.Instruction) {
		st, ok := in.(*ssa.Store)
		if !ok {
			return
		}
		mc, ok := sx.Unspill(st.Val).(*ssa.MakeChan)
		if !ok {
			return
		}
		ia, ok := st.Addr.(*ssa.IndexAddr)
		if !ok {
			return
		}
		f := listOf(ia.X)
		if f == nil {
			return
		}
		kind := "buffered"
		if k, isC := sx.ConstInt(mc.Size); isC && k == 0 {
			kind = "blocking"
		}
		if prev, ok := capKind[f]; ok && prev != kind {
			kind = "mixed"
		}
		capKind[f] = kind
	})
	for _, f := range lists {
		switch capKind[f] {
		case "blocking":
			t.Blocking = f
		case "buffered":
			t.Buffered = f
		}
	}
	if t.Buffered == nil || t.Blocking == nil || t.Shared == nil || t.Ctx == nil || t.WG == nil {
		t.problems = append(t.problems, "cannot identify buffered list / blocking list / shared channel / ctx / wg fields")
		return t
	}
	// goroutine bodies
	startReach := func(fn *ssa.Function) bool {
		found := false
		for f := range reachableFrom(p, fn) {
			sx.Instrs(f, func(in ssa.Instruction) {
				if c, ok := in.(ssa.CallInstruction); ok && t.isStart(c) {
					found = true
				}
			})
		}
		return found
	}
	for _, g := range t.GoSites {
		if g.Parent() != t.Ctor {
			continue
		}
		src := sx.StaticCallee(g)
		if src == nil {
			continue
		}
		body := p.Inl(src)
		// the queue goroutine is the one that hands tasks over (sends on the hand-over channels, possibly in helpers);
		// the worker is the one from which Task.Start is reachable
		handsOver := false
		for _, f := range sx.WithClosures(body) {
			sx.Instrs(f, func(in ssa.Instruction) {
				if s, ok := in.(*ssa.Select); ok {
					for _, st := range s.States {
						if role := t.chanRole(st.Chan); st.Dir == types.SendOnly && (role == "blocking" || role == "shared") {
							handsOver = true
						}
					}
				}
				if sd, ok := in.(*ssa.Send); ok {
					if role := t.chanRole(sd.Chan); role == "blocking" || role == "shared" {
						handsOver = true
					}
				}
			})
		}
		switch {
		case startReach(src) && !handsOver:
			t.Worker = body
		case handsOver:
			t.Queue = body
		}
	}
	ms := p.SSA.MethodSets.MethodSet(types.NewPointer(t.Named))
	for i := 0; i < ms.Len(); i++ {
		src := p.SSA.MethodValue(ms.At(i))
		if src == nil || src.Blocks == nil {
			continue
		}
		fn := p.Inl(src)
		if ms.At(i).Obj().Name() == "Status" {
			t.Status = fn
		}
		if !ms.At(i).Obj().Exported() {
			continue
		}
		sx.Instrs(fn, func(in ssa.Instruction) {
			if s, ok := in.(*ssa.Select); ok {
				for _, st := range s.States {
					if st.Dir == types.SendOnly && t.chanRole(st.Chan) == "buffered" {
						t.Push = fn
					}
				}
			}
			if s, ok := in.(*ssa.Send); ok && t.chanRole(s.Chan) == "buffered" {
				t.Push = fn
			}
		})
	}
	if t.Queue == nil || t.Worker == nil || t.Push == nil || t.Status == nil {
		t.problems = append(t.problems, fmt.Sprintf("roles not resolved: queue goroutine=%v worker goroutine=%v push=%v status=%v", t.Queue != nil, t.Worker != nil, t.Push != nil, t.Status != nil))
	}
	return t
}

func (t *tlInfo) isStart(c ssa.CallInstruction) bool {
	cc := c.Common()
	return cc.IsInvoke() && cc.Method.Name() == "Start" && types.Identical(cc.Value.Type(), t.TaskI)
}

func (t *tlInfo) anchors(r *core.Report) bool {
	if len(t.problems) > 0 {
		r.Fail("ANCHOR", "tasklane roles", "-", strings.Join(t.problems, "; "))
		return false
	}
	r.Anchor("constructor", fnName(t.Ctor))
	r.Anchor("queue_goroutine", fnName(t.Queue))
	r.Anchor("worker_goroutine", fnName(t.Worker))
	r.Anchor("push", fnName(t.Push))
	r.Anchor("buffered/blocking/shared", t.Buffered.Name()+"/"+t.Blocking.Name()+"/"+t.Shared.Name())
	return true
}

// loopHeader returns the header of the outermost loop of a goroutine body.
func outerLoop(fn *ssa.Function) *ssa.BasicBlock {
	hs := sx.LoopHeaders(fn)
	var best *ssa.BasicBlock
	for _, h := range hs {
		if best == nil || h.Dominates(best) {
			best = h
		}
	}
	return best
}

// armEdges collects, for every select of fn, the CFG edges of arms matching pred.
func (t *tlInfo) armEdges(fn *ssa.Function, pred func(sel *ssa.Select, a sx.Arm) bool) (map[sx.Edge]bool, []string) {
	out := map[sx.Edge]bool{}
	var bad []string
	sx.Instrs(fn, func(in ssa.Instruction) {
		sel, ok := in.(*ssa.Select)
		if !ok {
			return
		}
		arms, ok := sx.SelectArms(sel)
		if !ok {
			bad = append(bad, "select at "+t.p.Pos(sel.Pos())+" has an unrecognised lowering")
			return
		}
		for _, a := range arms {
			if pred(sel, a) {
				out[a.Edge] = true
			}
		}
	})
	return out, bad
}

func edgeWeight(set map[sx.Edge]bool) func(sx.Edge) sx.Range {
	return func(e sx.Edge) sx.Range {
		if set[e] {
			return sx.Range{Min: 1, Max: 1}
		}
		return sx.Range{}
	}
}

// startSite: the call instruction inside fn's loop through which Task.Start is reached.
func (t *tlInfo) startSites(fn *ssa.Function) []ssa.CallInstruction {
	var out []ssa.CallInstruction
	sx.Instrs(fn, func(in ssa.Instruction) {
		c, ok := in.(ssa.CallInstruction)
		if !ok {
			return
		}
		if t.isStart(c) {
			out = append(out, c)
			return
		}
		if callee := sx.StaticCallee(c); callee != nil && t.p.InModule(callee) {
			hit := false
			for f := range reachableFrom(t.p, callee) {
				sx.Instrs(f, func(i2 ssa.Instruction) {
					if c2, ok := i2.(ssa.CallInstruction); ok && t.isStart(c2) {
						hit = true
					}
				})
			}
			if hit {
				out = append(out, c)
			}
		}
	})
	return out
}

func rangeStr(r sx.Range) string {
	f := func(n int) string {
		if n >= sx.Sat {
			return "many"
		}
		return fmt.Sprint(n)
	}
	return "[" + f(r.Min) + "," + f(r.Max) + "]"
}
