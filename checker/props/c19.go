package props

import (
	"fmt"
	"go/token"
	"go/types"

	"golang.org/x/tools/go/ssa"

	"glbverif/checker/core"
	"glbverif/checker/sx"
)

func init() { register("C19", "util/ioutil", runC19) }

// leaves follows phis and single-function cells down to defining values.
func leaves(v ssa.Value) []ssa.Value {
	var out []ssa.Value
	seen := map[ssa.Value]bool{}
	var walk func(v ssa.Value)
	walk = func(v ssa.Value) {
		if v == nil || seen[v] {
			return
		}
		seen[v] = true
		switch x := v.(type) {
		case *ssa.Phi:
			for _, e := range x.Edges {
				walk(e)
			}
		case *ssa.UnOp:
			if x.Op == token.MUL {
				if a, ok := x.X.(*ssa.Alloc); ok {
					st, _ := sx.CellStores(a)
					if len(st) > 0 {
						for _, s := range st {
							walk(s)
						}
						return
					}
				}
			}
			out = append(out, v)
		default:
			out = append(out, v)
		}
	}
	walk(v)
	return out
}

func runC19(p *core.Prog, r *core.Report) {
	r.Rule("C19-R1", "accounting: on every path of Write/WriteString exactly one forwarding call to the wrapped writer is followed by exactly one size update whose addend is that call's byte count; size is written only as size += n; (n, err) of the wrapped call are returned unchanged", 6)
	r.Rule("C19-R2", "non-blocking progress: every channel send reachable from Write/WriteString is an arm of a select with default, and sends the size read after the addition", 2)
	r.Rule("C19-R3", "close protocol: in Close a blocking send of the size on the status channel dominates close(status); the channel is closed nowhere else and the field is assigned only in the constructor", 2)
	r.NotDecided = append(r.NotDecided, "monotonicity relies on n >= 0 from the wrapped writer (io.Writer contract)", "concurrent Size() from another goroutine is unsynchronised (not promised by the property)")
	r.Trusted = append(r.Trusted, "io.Writer contract 0 <= n <= len(p)", "Go channel semantics", "go/ssa")

	n := p.Named("util/ioutil", "ProgressWriter")
	if n == nil {
		r.Fail("C19-R1", "anchor ProgressWriter", "-", "type not found")
		return
	}
	var wr, size, status *types.Var
	// the fields are identified through the public accessors: Size() returns the size field, Status() the channel
	accessor := func(name string) *types.Var {
		fn := p.Method("util/ioutil", "ProgressWriter", name)
		if fn == nil {
			return nil
		}
		var out *types.Var
		for _, ret := range sx.Returns(fn) {
			if len(ret.Results) != 1 {
				return nil
			}
			for _, lf := range leaves(ret.Results[0]) {
				if u, ok := lf.(*ssa.UnOp); ok {
					if fa, ok := u.X.(*ssa.FieldAddr); ok {
						out = sx.FieldOf(fa)
					}
				}
			}
		}
		return out
	}
	size, status = accessor("Size"), accessor("Status")
	for _, f := range structFields(n) {
		if typeIs(f.Type(), "io", "Writer") {
			wr = f
		}
	}
	if wr == nil || size == nil || status == nil {
		r.Fail("C19-R1", "anchor fields", "-", "cannot identify wrapped writer / size (via Size()) / status channel (via Status())")
		return
	}
	// Size() is the total itself on every path (not the total minus what a buffering writer has not flushed, say): what
	// Size() says and what is sent on the channel are the same number
	if fn := p.Method("util/ioutil", "ProgressWriter", "Size"); fn != nil {
		okSize, whySize := true, ""
		for _, ret := range sx.Returns(fn) {
			for _, lf := range leaves(ret.Results[0]) {
				u, isLd := lf.(*ssa.UnOp)
				fa, isFA := ssa.Value(nil), false
				if isLd {
					_, isFA = u.X.(*ssa.FieldAddr)
					fa = u.X
				}
				if !isLd || !isFA || sx.FieldOf(fa.(*ssa.FieldAddr)) != size {
					okSize, whySize = false, "Size() returns "+short(sx.ValPath(lf))+" at "+p.Pos(ret.Pos())+", not the running total"
				}
			}
		}
		r.Check(okSize, "C19-R1", "Size() returns the running total itself", p.FuncPos(fn), "every return is a load of the size field", whySize+": Size() and the values on the status channel disagree")
	}
	// a new writer starts at zero: the constructor leaves the total alone or sets the constant 0 (not the wrapped writer's
	// current offset)
	for _, ref := range sx.FieldRefs(p.PkgFuncs("util/ioutil"), size) {
		fa, ok := ref.Instr.(*ssa.FieldAddr)
		if !ok || !sx.IsFreshObject(ref.Base) {
			continue
		}
		for _, a := range sx.Accesses(fa) {
			if a.Kind != "write" {
				continue
			}
			k, isC := sx.ConstInt(a.Val)
			r.Check(isC && k == 0, "C19-R1", "a new ProgressWriter starts at 0 ("+fnName(ref.Fn)+")", p.Pos(a.Instr.Pos()), "size initialised with the constant 0", "the constructor initialises the total with "+short(sx.ValPath(a.Val))+": Size() and the progress values are shifted away from the sum of what the wrapped writer reported")
		}
	}
	// other fields that hold the same wrapped writer seen through another interface (`pw.sw, _ = w.(io.StringWriter)`): every
	// assignment of such a field is on a freshly built ProgressWriter and stores a type assertion of the very value stored in wr
	wrNames := map[string]bool{fieldKey(p, "util/ioutil", wr): true}
	for _, f := range structFields(n) {
		if f == wr || !types.IsInterface(f.Type()) {
			continue
		}
		writes, okAll := 0, true
		for _, ref := range sx.FieldRefs(p.ModuleFuncs(), f) {
			fa, ok := ref.Instr.(*ssa.FieldAddr)
			if !ok {
				continue
			}
			for _, a := range sx.Accesses(fa) {
				if a.Kind != "write" {
					continue
				}
				writes++
				if !sx.IsFreshObject(ref.Base) {
					okAll = false
					continue
				}
				// the value stored in wr of the same object
				var wrapped ssa.Value
				for _, r2 := range sx.FieldRefs([]*ssa.Function{ref.Fn}, wr) {
					if fa2, ok := r2.Instr.(*ssa.FieldAddr); ok && r2.Base == ref.Base {
						for _, a2 := range sx.Accesses(fa2) {
							if a2.Kind == "write" {
								wrapped = a2.Val
							}
						}
					}
				}
				v := a.Val
				if e, ok := v.(*ssa.Extract); ok && e.Index == 0 {
					v = e.Tuple
				}
				ta, ok := v.(*ssa.TypeAssert)
				if !ok || wrapped == nil || ta.X != wrapped {
					okAll = false
				}
			}
		}
		if writes > 0 && okAll {
			wrNames[fieldKey(p, "util/ioutil", f)] = true
		}
	}
	isWrapped := func(v ssa.Value) bool {
		for o := range sx.Origins(v) {
			if wrNames[o] {
				return true
			}
		}
		return false
	}
	// all rules run on the package's inlined views: private helpers (sum, account/offer, …) are seen in place
	var fns []*ssa.Function
	for _, v := range pkgViews(p, "util/ioutil") {
		fns = append(fns, sx.WithClosures(v.Fn)...)
	}
	methods := map[string]*ssa.Function{}
	ms := p.SSA.MethodSets.MethodSet(types.NewPointer(n))
	for i := 0; i < ms.Len(); i++ {
		if fn := p.SSA.MethodValue(ms.At(i)); fn != nil && fn.Blocks != nil && fn.Synthetic == "" {
			methods[ms.At(i).Obj().Name()] = p.Inl(fn)
		}
	}
	// size writers
	adders := map[*ssa.Function]bool{}
	for _, ref := range sx.FieldRefs(fns, size) {
		fa, ok := ref.Instr.(*ssa.FieldAddr)
		if !ok || sx.IsFreshObject(ref.Base) {
			continue
		}
		for _, a := range sx.Accesses(fa) {
			if a.Kind != "write" {
				continue
			}
			b, isB := a.Val.(*ssa.BinOp)
			ok := isB && b.Op == token.ADD && sx.Origins(b.X)[fieldKey(p, "util/ioutil", size)]
			r.Check(ok, "C19-R1", "size written in "+fnName(ref.Fn), p.Pos(a.Instr.Pos()), "size = size + n", "size is assigned "+sx.ValPath(a.Val)+", not size + n")
			if ok {
				adders[ref.Fn] = true
			}
		}
	}
	// where size may be updated: in Write / WriteString of the writer, and in private helpers that only they call
	// (`sum`). Any other function that adds to size — a ReadFrom that counts what was *read*, a reader wrapper — adds
	// a number the wrapped writer never reported
	{
		cm := staticCalls(p)
		allowed := map[*ssa.Function]bool{}
		for _, nm := range []string{"Write", "WriteString"} {
			if m := methods[nm]; m != nil {
				allowed[sx.OrigFunc(m)] = true
			}
		}
		var okFn func(f *ssa.Function, depth int) bool
		okFn = func(f *ssa.Function, depth int) bool {
			f = sx.OrigFunc(rootFn(f))
			if allowed[f] {
				return true
			}
			if depth > 3 || len(cm.callers[f]) == 0 || (f.Object() != nil && f.Object().Exported()) {
				return false
			}
			for _, cs := range cm.callers[f] {
				if !okFn(cs.Caller, depth+1) {
					return false
				}
			}
			return true
		}
		for f := range adders {
			r.Check(okFn(f, 0), "C19-R1", "size is updated only on behalf of Write/WriteString ("+fnName(f)+")", p.FuncPos(f), "the function is Write/WriteString or a private helper only they call", fnName(f)+" adds to size but is not Write/WriteString (nor a private helper called only from them): what it adds is not a byte count reported by the wrapped writer's Write — Size() and the progress values drift from what was written")
		}
	}
	isForward := func(c ssa.CallInstruction) bool {
		cc := c.Common()
		if !cc.IsInvoke() {
			// io.WriteString(w, s) is the standard library's spelling of "WriteString if available, else Write": one forwarding
			// call with the same (n, err) contract
			if sx.CalleeName(c) == "io.WriteString" && len(cc.Args) == 2 {
				return isWrapped(cc.Args[0])
			}
			return false
		}
		if cc.Method.Name() != "Write" && cc.Method.Name() != "WriteString" {
			return false
		}
		return isWrapped(cc.Value)
	}
	isAdd := func(c ssa.CallInstruction) bool {
		callee := sx.StaticCallee(c)
		return callee != nil && adders[callee]
	}
	// a size update written inline (`pw.size += n`) counts like a call of the adder
	isInlineAdd := func(in ssa.Instruction) (ssa.Value, bool) {
		st, ok := in.(*ssa.Store)
		if !ok {
			return nil, false
		}
		fa, ok := st.Addr.(*ssa.FieldAddr)
		if !ok || sx.FieldOf(fa) != size {
			return nil, false
		}
		if b, ok := st.Val.(*ssa.BinOp); ok && b.Op == token.ADD {
			return b.Y, true
		}
		return nil, false
	}
	for _, name := range []string{"Write", "WriteString"} {
		fn := methods[name]
		if fn == nil {
			r.Fail("C19-R1", "ProgressWriter."+name, "-", "method not found")
			continue
		}
		var fw, ad []ssa.CallInstruction
		sx.Instrs(fn, func(in ssa.Instruction) {
			if c, ok := in.(ssa.CallInstruction); ok {
				if isForward(c) {
					fw = append(fw, c)
				}
				if isAdd(c) {
					ad = append(ad, c)
				}
			}
		})
		count := func(pred func(ssa.CallInstruction) bool) (sx.Range, bool) {
			w := sx.Weights{Instr: func(in ssa.Instruction) sx.Range {
				if c, ok := in.(ssa.CallInstruction); ok && pred(c) {
					return sx.Range{Min: 1, Max: 1}
				}
				return sx.Range{}
			}}
			res := sx.Count(fn, fn.Blocks[0], w, nil)
			tot := sx.Range{Min: sx.Sat, Max: 0}
			any := false
			for _, ret := range sx.Returns(fn) {
				if rg, ok := res.Before(ret); ok {
					tot = tot.Join(rg)
					any = true
				}
			}
			return tot, any
		}
		fr, _ := count(isForward)
		ar, _ := count(isAdd)
		{
			w := sx.Weights{Instr: func(in ssa.Instruction) sx.Range {
				if c, ok := in.(ssa.CallInstruction); ok && isAdd(c) {
					return sx.Range{Min: 1, Max: 1}
				}
				if _, ok := isInlineAdd(in); ok {
					return sx.Range{Min: 1, Max: 1}
				}
				return sx.Range{}
			}}
			res := sx.Count(fn, fn.Blocks[0], w, nil)
			tot := sx.Range{Min: sx.Sat, Max: 0}
			for _, ret := range sx.Returns(fn) {
				if rg, ok := res.Before(ret); ok {
					tot = tot.Join(rg)
				}
			}
			ar = tot
		}
		r.Check(fr.Is(1), "C19-R1", name+": one forwarding call per path", p.FuncPos(fn), "exactly one call of the wrapped writer on every path", fmt.Sprintf("forwarding calls per path in [%d,%d]", fr.Min, fr.Max))
		r.Check(ar.Is(1), "C19-R1", name+": one size update per path", p.FuncPos(fn), "exactly one size update on every path to a return (including the error path)", fmt.Sprintf("size updates per path in [%d,%d] (3 = more): a short or failed write would not be counted, or counted twice", ar.Min, ar.Max))
		// each update happens after the forwarding call, with its count
		var addends []ssa.Value
		var addPos []token.Pos
		for _, a := range ad {
			args := sx.Args(a)
			if len(args) >= 2 {
				addends = append(addends, args[len(args)-1])
			} else {
				addends = append(addends, nil)
			}
			addPos = append(addPos, a.Pos())
		}
		sx.Instrs(fn, func(in ssa.Instruction) {
			if v, ok := isInlineAdd(in); ok {
				addends = append(addends, v)
				addPos = append(addPos, in.Pos())
			}
		})
		for i, av := range addends {
			okArg := av != nil
			if okArg {
				for _, lf := range leaves(av) {
					e, isE := lf.(*ssa.Extract)
					if !isE || e.Index != 0 {
						okArg = false
						continue
					}
					c, isC := e.Tuple.(ssa.CallInstruction)
					if !isC || !isForward(c) {
						okArg = false
					}
				}
			}
			r.Check(okArg, "C19-R1", fmt.Sprintf("%s: size update #%d adds the wrapped call's count", name, i), p.Pos(addPos[i]), "addend is result #0 of the forwarding call", "the value added to size is not the byte count reported by the wrapped writer")
		}
		// returns unchanged
		for i, ret := range sx.Returns(fn) {
			ok := len(ret.Results) == 2
			if ok {
				for k := 0; k < 2; k++ {
					for _, lf := range leaves(ret.Results[k]) {
						if k == 1 && sx.IsNilConst(lf) {
							// `return n, nil` is the same as `return n, err` where err is known to be nil
							known := false
							for _, f := range fw {
								for _, u := range *f.Value().Referrers() {
									if e, ok := u.(*ssa.Extract); ok && e.Index == 1 {
										nilE, _ := sx.NilEdges(e)
										if len(nilE) > 0 && sx.MustPass(fn, nil, ret, sx.Cut{Edges: nilE}) {
											known = true
										}
									}
								}
							}
							if !known {
								ok = false
							}
							continue
						}
						e, isE := lf.(*ssa.Extract)
						if !isE || e.Index != k {
							ok = false
							continue
						}
						if c, isC := e.Tuple.(ssa.CallInstruction); !isC || !isForward(c) {
							ok = false
						}
					}
				}
			}
			r.Check(ok, "C19-R1", fmt.Sprintf("%s: return #%d passes (n, err) through", name, i), p.Pos(ret.Pos()), "results are the wrapped call's results", "returned values are not the wrapped call's (n, err)")
		}
		// R2: sends reachable from here
		for _, f := range viewFuncs(p, fn) {
			f := f
			sx.Instrs(f, func(in ssa.Instruction) {
				switch x := in.(type) {
				case *ssa.UnOp:
					if x.Op == token.ARROW {
						r.Fail("C19-R2", "receive in "+fnName(f)+" reachable from "+name, p.Pos(in.Pos()), "a blocking channel receive is reachable from "+name+": the writer can stall (e.g. draining its own progress channel after the consumer already took the value)")
					}
				case *ssa.Send:
					r.Fail("C19-R2", "send in "+fnName(f)+" reachable from "+name, p.Pos(in.Pos()), "a blocking channel send is reachable from "+name+": the writer would stall when nobody receives")
				case *ssa.Select:
					for si, st := range x.States {
						if st.Dir != types.SendOnly {
							continue
						}
						c := fmt.Sprintf("select send arm #%d in %s reachable from %s", si, fnName(f), name)
						if x.Blocking {
							r.Fail("C19-R2", c, p.Pos(in.Pos()), "select without default: the send can block the writer")
							continue
						}
						// value sent = size read after the addition
						okv := sx.Origins(st.Send)[fieldKey(p, "util/ioutil", size)]
						if okv {
							// a store to size must precede on every path within f (the adder)
							cut := sx.Cut{Instrs: map[ssa.Instruction]bool{}}
							sx.Instrs(f, func(i2 ssa.Instruction) {
								if s2, ok := i2.(*ssa.Store); ok {
									if fa, ok := s2.Addr.(*ssa.FieldAddr); ok && sx.FieldOf(fa) == size {
										cut.Instrs[i2] = true
									}
								}
							})
							if ld, ok := st.Send.(*ssa.UnOp); ok {
								okv = sx.MustPass(f, nil, ld, cut) && len(cut.Instrs) > 0
							}
						} else {
							// the new total handed on as a value: the very value a size update stores, sent after that store
							sx.Instrs(f, func(i2 ssa.Instruction) {
								if s2, ok := i2.(*ssa.Store); ok {
									if fa, ok := s2.Addr.(*ssa.FieldAddr); ok && sx.FieldOf(fa) == size && s2.Val == st.Send {
										if sx.MustPass(f, nil, in, sx.Cut{Instrs: map[ssa.Instruction]bool{i2: true}}) {
											okv = true
										}
									}
								}
							})
						}
						r.Check(okv, "C19-R2", c, p.Pos(in.Pos()), "non-blocking send of the size read after the addition", "value offered on the status channel is not the size after this write")
					}
				}
			})
		}
	}
	// R3
	cl := methods["Close"]
	if cl == nil {
		r.Fail("C19-R3", "ProgressWriter.Close", "-", "method not found")
		return
	}
	var sends []*ssa.Send
	var closes []ssa.Instruction
	var defCloses []*ssa.Defer
	for _, f := range fns {
		sx.Instrs(f, func(in ssa.Instruction) {
			if c, ok := in.(*ssa.Call); ok {
				if b, ok := c.Call.Value.(*ssa.Builtin); ok && b.Name() == "close" && sx.Origins(c.Call.Args[0])[fieldKey(p, "util/ioutil", status)] {
					if f == cl {
						closes = append(closes, in)
					} else {
						r.Fail("C19-R3", "close(status) in "+fnName(f), p.Pos(in.Pos()), "the status channel is closed outside Close")
					}
				}
			}
			// `defer close(status)`: the channel is closed when Close returns, on every path that executed the defer
			if d, ok := in.(*ssa.Defer); ok {
				if b, ok := d.Call.Value.(*ssa.Builtin); ok && b.Name() == "close" && sx.Origins(d.Call.Args[0])[fieldKey(p, "util/ioutil", status)] {
					if f == cl {
						defCloses = append(defCloses, d)
					} else {
						r.Fail("C19-R3", "close(status) in "+fnName(f), p.Pos(in.Pos()), "the status channel is closed outside Close")
					}
				}
			}
			if s, ok := in.(*ssa.Send); ok && f == cl {
				sends = append(sends, s)
			}
		})
	}
	if len(closes)+len(defCloses) == 0 {
		r.Fail("C19-R3", "Close closes the status channel", p.FuncPos(cl), "no close(status) in Close")
	}
	// deliveries of the final total in Close: blocking sends of the size on the status channel, and the taken arm of a
	// non-blocking offer of it (a receiver was already waiting and has the total)
	delivered := sx.Cut{Instrs: map[ssa.Instruction]bool{}, Edges: map[sx.Edge]bool{}}
	for _, s := range sends {
		if sx.Origins(s.Chan)[fieldKey(p, "util/ioutil", status)] && sx.Origins(s.X)[fieldKey(p, "util/ioutil", size)] {
			delivered.Instrs[s] = true
		}
	}
	sx.Instrs(cl, func(in ssa.Instruction) {
		sel, ok := in.(*ssa.Select)
		if !ok {
			return
		}
		arms, ok := sx.SelectArms(sel)
		if !ok {
			return
		}
		for _, a := range arms {
			if a.State != nil && a.State.Dir == types.SendOnly && sx.Origins(a.State.Chan)[fieldKey(p, "util/ioutil", status)] && sx.Origins(a.State.Send)[fieldKey(p, "util/ioutil", size)] {
				delivered.Edges[a.Edge] = true
			}
		}
	})
	for i, c := range closes {
		// some delivery lies on every path to the close
		ok := len(delivered.Instrs)+len(delivered.Edges) > 0 && sx.MustPass(cl, nil, c, delivered)
		r.Check(ok, "C19-R3", fmt.Sprintf("Close: final total sent before close #%d", i), p.Pos(c.Pos()), "a blocking send of size on the status channel lies on every path to close(status)", "close(status) is reachable without first sending the final total: the consumer's last value may be stale")
	}
	for i, d := range defCloses {
		// a deferred close runs when Close returns: some delivery lies on every path from the defer to a return
		ok := len(delivered.Instrs)+len(delivered.Edges) > 0
		for _, ret := range sx.Returns(cl) {
			ok = ok && sx.MustPass(cl, d, ret, delivered)
		}
		r.Check(ok, "C19-R3", fmt.Sprintf("Close: final total sent before deferred close #%d", i), p.Pos(d.Pos()), "a blocking send of size on the status channel lies on every path from `defer close(status)` to the return", "Close can return, running the deferred close(status), without first sending the final total: the consumer's last value may be stale")
	}
	// …and Close always gets there: the only way past the send-and-close is a writer that has no status channel
	{
		cut := sx.Cut{Instrs: map[ssa.Instruction]bool{}, Edges: map[sx.Edge]bool{}}
		for _, c := range closes {
			cut.Instrs[c] = true
		}
		for _, d := range defCloses {
			cut.Instrs[d] = true
		}
		sx.Instrs(cl, func(in ssa.Instruction) {
			if ld, ok := in.(*ssa.UnOp); ok && ld.Op == token.MUL {
				if fa, ok := ld.X.(*ssa.FieldAddr); ok && sx.FieldOf(fa) == status {
					nilE, _ := sx.NilEdges(ld)
					for e := range nilE {
						cut.Edges[e] = true
					}
				}
			}
		})
		for i, ret := range sx.Returns(cl) {
			ok := len(closes)+len(defCloses) > 0 && sx.MustPass(cl, nil, ret, cut)
			r.Check(ok, "C19-R3", fmt.Sprintf("Close: return #%d is reached only after close(status) or without a status channel", i), p.Pos(ret.Pos()), "every path to the return closes the channel (after the final send) or found the channel nil", "Close can return without sending the final total and closing the status channel although the channel exists: the consumer waits forever for the end of the stream")
		}
	}
	// every writer the constructor hands out is a new one with a status channel of its own: two owners never share one
	// channel (one Close would close it under the other, one consumer would take the other's final total)
	if ctor := p.Func("util/ioutil", "NewProgressWriter"); ctor != nil {
		cv := p.Inl(ctor)
		okFresh := true
		whyF := ""
		for _, ret := range sx.Returns(cv) {
			for _, lf := range leaves(ret.Results[0]) {
				if !sx.IsFreshObject(lf) {
					okFresh = false
					whyF = "NewProgressWriter can return " + short(sx.ValPath(lf)) + " at " + p.Pos(ret.Pos()) + ", which is not a writer built by this call"
				}
			}
		}
		r.Check(okFresh, "C19-R3", "the constructor returns a new writer on every path", p.FuncPos(ctor), "every returned value is a fresh ProgressWriter", whyF+": the caller shares size and status channel with whoever else holds that writer — the final total reaches one of them, the second Close panics")
	}
	for _, ref := range sx.FieldRefs(p.ModuleFuncs(), status) {
		fa, ok := ref.Instr.(*ssa.FieldAddr)
		if !ok {
			continue
		}
		for _, a := range sx.Accesses(fa) {
			if a.Kind == "write" {
				r.Check(sx.IsFreshObject(ref.Base), "C19-R3", "status channel assigned in "+fnName(ref.Fn), p.Pos(a.Instr.Pos()), "constructor only", "the status channel is replaced after construction: the receiver would hold a different channel than the writer uses")
			}
		}
	}
}

// fieldKey: the Origins key of a field — "field:<owner>.<name>" with the struct type that declares it (the writer
// itself, or a private struct embedded in it).
func fieldKey(p *core.Prog, rel string, f *types.Var) string {
	owner := "ProgressWriter"
	if pk := p.Pkgs[rel]; pk != nil && f != nil {
		sc := pk.Types.Scope()
		for _, nm := range sc.Names() {
			tn, ok := sc.Lookup(nm).(*types.TypeName)
			if !ok {
				continue
			}
			st, ok := tn.Type().Underlying().(*types.Struct)
			if !ok {
				continue
			}
			for i := 0; i < st.NumFields(); i++ {
				if st.Field(i) == f {
					owner = nm
				}
			}
		}
	}
	if f == nil {
		return "field:" + owner + ".?"
	}
	return "field:" + owner + "." + f.Name()
}
