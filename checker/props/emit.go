package props

import (
	"golang.org/x/tools/go/ssa"

	"glbverif/checker/core"
)

func emitJSON(p *core.Prog, r *core.Report, h *handlerInfo, san *ssa.Function) {
	r.Note("C01-R1: emission typestate engine not built yet")
}

func emitText(p *core.Prog, r *core.Report, h *handlerInfo, san *ssa.Function) {
	r.Note("C13-R1: emission typestate engine not built yet")
}
