package props

import (
	"fmt"
	"go/ast"
	"go/constant"
	"go/token"
	"go/types"
	"sort"
	"strings"

	"golang.org/x/tools/go/ssa"

	"glbverif/checker/core"
	"glbverif/checker/emit"
	"glbverif/checker/sx"
)

type emitSetup struct {
	cfg     emit.Config
	it      *emit.Interp
	decls   map[*types.Func]*ast.FuncDecl
	methods map[string]*types.Func
}

func funcObj(fn *ssa.Function) *types.Func {
	if fn == nil {
		return nil
	}
	f, _ := fn.Object().(*types.Func)
	return f
}

func buildEmit(p *core.Prog, h *handlerInfo, san *ssa.Function, gram emit.Grammar) *emitSetup {
	pk := p.Pkgs["logger"]
	es := &emitSetup{decls: map[*types.Func]*ast.FuncDecl{}, methods: map[string]*types.Func{}}
	for _, f := range pk.Syntax {
		for _, d := range f.Decls {
			if fd, ok := d.(*ast.FuncDecl); ok && fd.Body != nil {
				if obj, ok := pk.TypesInfo.Defs[fd.Name].(*types.Func); ok {
					es.decls[obj] = fd
				}
			}
		}
	}
	sinks, bufs := classifySinks(p, h, san)
	classAt := map[token.Pos]emit.SinkClass{}
	for _, s := range sinks {
		classAt[s.In.Pos()] = emit.SinkClass{Class: s.Class, Bytes: s.Bytes}
	}
	bufParam := map[*types.Func]int{}
	for fn, vals := range bufs {
		if fn.Parent() != nil {
			continue
		}
		for i, prm := range fn.Params {
			if vals[prm] {
				if obj := funcObj(fn); obj != nil {
					bufParam[obj] = i
				}
			}
		}
	}
	getters, releasers := poolFuncs(p, "logger")
	ignore := map[*types.Func]bool{}
	for g := range getters {
		ignore[funcObj(g)] = true
	}
	for g := range releasers {
		ignore[funcObj(g)] = true
	}
	var sep, open *types.Var
	for _, f := range structFields(h.Named) {
		if b, ok := f.Type().Underlying().(*types.Basic); ok {
			switch b.Kind() {
			case types.Bool:
				sep = f
			case types.Int:
				open = f
			}
		}
	}
	_, isJSON := gram.(emit.JSON)
	cfg := emit.Config{
		Gram: gram, Info: pk.TypesInfo, Fset: p.Fset, Decls: es.decls, BufParam: bufParam,
		Sanitizer: funcObj(san), Ignore: ignore, PreField: h.Pre,
		ClassAt: func(pos token.Pos) (emit.SinkClass, bool) { c, ok := classAt[pos]; return c, ok },
		IsColour: func(e ast.Expr) bool {
			t := pk.TypesInfo.TypeOf(e)
			if t == nil {
				return false
			}
			if b, ok := t.Underlying().(*types.Basic); !ok || b.Kind() != types.Bool {
				return false
			}
			s := strings.ToLower(types.ExprString(e))
			return strings.HasSuffix(s, "colorful") || strings.HasSuffix(s, "colourful")
		},
		Pos: p.Pos,
	}
	if isJSON {
		cfg.SepField, cfg.OpenField = sep, open
		cfg.SanToken = emit.TokStr
		cfg.TokenOf = func(class string) string {
			switch {
			case strings.HasPrefix(class, "table:"), class == "closed:time":
				return emit.TokStr
			case class == "closed:number", class == "closed:float":
				return emit.TokNum
			case class == "json-value":
				return emit.TokValue
			}
			return ""
		}
		cfg.Resolve = func(s bool) int {
			if s {
				return emit.JAfterMember
			}
			return emit.JObjOpen
		}
		cfg.Pre = func(g emit.G, s *bool) ([]emit.G, []bool, error) {
			if g.S != emit.JAfterMember {
				return nil, nil, fmt.Errorf("the pre-rendered bytes are spliced in state %s (they start with a separator: only legal after a member)", emit.JSON{}.StateName(g.S))
			}
			var gs []emit.G
			var ss []bool
			for _, v := range []bool{true, false} {
				if s != nil && *s != v {
					continue
				}
				n := g
				n.K++
				n.S = cfg.Resolve(v)
				gs, ss = append(gs, n), append(ss, v)
			}
			return gs, ss, nil
		}
	} else {
		cfg.SanToken = emit.TokAtom
		cfg.TokenOf = func(class string) string {
			switch {
			case strings.HasPrefix(class, "table:"), class == "closed:time", class == "closed:duration":
				return emit.TokBare
			case class == "closed:number", class == "closed:float":
				return emit.TokNum
			case class == "quoted":
				return emit.TokAtom
			}
			return ""
		}
		cfg.Resolve = func(bool) int { return emit.TAfterItem }
		cfg.Pre = func(g emit.G, s *bool) ([]emit.G, []bool, error) {
			if g.S != emit.TAfterItem {
				return nil, nil, fmt.Errorf("the pre-rendered bytes are spliced in state %s (they are a sequence of ` key=value` items: only legal after an item)", emit.Text{}.StateName(g.S))
			}
			return []emit.G{g}, []bool{true}, nil
		}
	}
	es.cfg = cfg
	es.it = emit.New(cfg)
	for name, m := range h.Methods {
		es.methods[name] = funcObj(m)
	}
	return es
}

// localBufNames: identifiers of fn's syntax that hold the line buffer: locals assigned from a pool getter,
// and "&x" for locals x of the handler type whose pre-rendered field is appended to.
func localBufNames(p *core.Prog, h *handlerInfo, es *emitSetup, decl *ast.FuncDecl) []string {
	info := es.cfg.Info
	var out []string
	ast.Inspect(decl.Body, func(n ast.Node) bool {
		as, ok := n.(*ast.AssignStmt)
		if !ok || len(as.Lhs) != 1 || len(as.Rhs) != 1 {
			return true
		}
		id, ok := as.Lhs[0].(*ast.Ident)
		if !ok {
			return true
		}
		if call, ok := as.Rhs[0].(*ast.CallExpr); ok {
			var fn *types.Func
			switch f := call.Fun.(type) {
			case *ast.Ident:
				fn, _ = info.Uses[f].(*types.Func)
			case *ast.SelectorExpr:
				fn, _ = info.Uses[f.Sel].(*types.Func)
			}
			if fn != nil && es.cfg.Ignore[fn] && fn.Type().(*types.Signature).Recv() == nil {
				out = append(out, id.Name) // buf := newBuffer()
			}
		}
		if t := info.TypeOf(id); t != nil {
			if pt := ptrTo(t); pt != nil && types.Identical(pt, h.Named) {
				out = append(out, "&"+id.Name) // h2 := h.clone()
			}
		}
		return true
	})
	return out
}

func emitCommon(p *core.Prog, r *core.Report, h *handlerInfo, san *ssa.Function, gram emit.Grammar, rule string, startS, endS int) {
	es := buildEmit(p, h, san, gram)
	it := es.it
	stateName := gram.StateName
	perFn := map[string][]string{}
	note := func(fn, msg string) { perFn[fn] = append(perFn[fn], msg) }

	// Handle: from the start of a line to its end on every path
	if obj := es.methods["Handle"]; obj != nil && es.decls[obj] != nil {
		decl := es.decls[obj]
		rets := it.RunMethod(obj, decl, localBufNames(p, h, es, decl), []emit.State{{G: emit.G{S: startS}, Env: map[string]bool{}}})
		bad := map[string]bool{}
		for _, rs := range rets {
			g := rs.State().G
			if g.S != endS || g.C != 0 || g.K != 0 {
				name := "Invariant"
				if g.S >= 0 {
					name = stateName(g.S)
				}
				bad[fmt.Sprintf("a path of Handle returns with the line in state %s (depth %d%+d·N) instead of a complete line", name, g.C, g.K)] = true
			}
		}
		for m := range bad {
			note("Handle", m)
		}
		if len(rets) == 0 {
			note("Handle", "no path of Handle reaches its end under the grammar (every path hit a grammar error)")
		}
	} else {
		note("Handle", "method body not found")
	}
	// derivation methods preserve the handler invariant
	for _, name := range []string{"WithAttrs", "WithGroup"} {
		obj := es.methods[name]
		if obj == nil || es.decls[obj] == nil {
			continue
		}
		decl := es.decls[obj]
		bufs := localBufNames(p, h, es, decl)
		rets := it.RunMethod(obj, decl, bufs, []emit.State{{G: emit.G{S: emit.SInv}, Env: map[string]bool{}}})
		for _, rs := range rets {
			st := rs.State()
			if st.G.S == emit.SInv {
				if st.NOpen != 0 {
					note(name, "the open-group counter changes although nothing was emitted")
				}
				continue
			}
			want := es.cfg.Resolve(true)
			sepTxt := ""
			if es.cfg.SepField != nil {
				known := false
				for _, b := range bufs {
					if strings.HasPrefix(b, "&") {
						if v, ok := st.Env[b[1:]+"."+es.cfg.SepField.Name()]; ok {
							want, known = es.cfg.Resolve(v), true
							sepTxt = fmt.Sprintf(" with %s=%v", es.cfg.SepField.Name(), v)
						}
					}
				}
				if !known {
					note(name, "the separator flag of the derived handler is unknown at return")
					continue
				}
			}
			if st.G.S != want {
				note(name, fmt.Sprintf("returns a handler whose pre-rendered bytes end in state %s%s: the next member would be emitted with a wrong separator", stateName(st.G.S), sepTxt))
			}
			if st.G.C != st.NOpen || st.G.K != 0 {
				note(name, fmt.Sprintf("opens %d object(s) but the open-group counter changes by %d: Handle would close the wrong number of braces", st.G.C, st.NOpen))
			}
		}
	}
	for _, pr := range it.Problems {
		note(pr.Fn, pr.Msg+" at "+pr.Pos)
	}
	// soundness guard: every append to the line that the SSA-level sink analysis found must have been executed
	// abstractly by the interpreter (an append through an alias of the buffer would otherwise be skipped silently)
	sinks, _ := classifySinks(p, h, san)
	for _, s := range sinks {
		if s.Fn == san || s.Class == "sanitizer-internal" || (san != nil && onlyCalledFrom(p, s.Fn, map[*ssa.Function]bool{san: true})) {
			continue
		}
		if !it.Visited[s.In.Pos()] {
			// colour-only branches are not explored (the colour flag is fixed to false)
			if s.ColourOnly {
				continue
			}
			r.Unknown(rule, h.Name+": append site not interpreted", p.Pos(s.In.Pos()), "an append to the line in "+fnName(s.Fn)+" was found by the sink analysis but never reached by the grammar interpreter (buffer alias, unreachable under the tracked predicates, or a construct outside the fragment)")
		}
	}
	var und []string
	for _, u := range it.Undecided {
		und = append(und, u.Fn+": "+u.Msg+" at "+u.Pos)
	}
	// one obligation per function that was interpreted
	fns := map[string]bool{"Handle": true}
	for _, n := range []string{"WithAttrs", "WithGroup"} {
		if es.methods[n] != nil {
			fns[n] = true
		}
	}
	for k := range it.Summaries {
		f := strings.SplitN(k, "|", 2)[0]
		f = f[strings.LastIndex(f, ".")+1:]
		fns[f] = true
	}
	for f := range perFn {
		fns[f] = true
	}
	var names []string
	for f := range fns {
		names = append(names, f)
	}
	sort.Strings(names)
	for _, f := range names {
		msgs := uniq(perFn[f])
		nS := 0
		for k := range it.Summaries {
			if strings.Contains(k, "."+f+"|") {
				nS++
			}
		}
		r.Check(len(msgs) == 0, rule, fmt.Sprintf("%s.%s keeps the %s grammar on every path", h.Name, f, gram.Name()), "-", fmt.Sprintf("no grammar error (%d entry-state summaries computed by fixpoint)", nS), strings.Join(msgs, "; "))
	}
	for _, u := range uniq(und) {
		r.Unknown(rule, h.Name+": construct outside the interpreter's fragment", "-", u)
	}
	// summaries as evidence
	var sums []string
	for k, os := range it.Summaries {
		var parts []string
		for _, o := range os {
			s := stateName(o.S)
			if o.DC != 0 || o.DK != 0 {
				s += fmt.Sprintf("%+d", o.DC)
			}
			switch o.Ret {
			case 0:
				s += "/false"
			case 1:
				s += "/true"
			}
			if o.NeedGroup {
				s += "/only-kind-Group"
			}
			parts = append(parts, s)
		}
		sums = append(sums, short(k)+" → {"+strings.Join(parts, ", ")+"}")
	}
	sort.Strings(sums)
	r.Extra["emit_summaries_"+h.Name] = sums
}

func emitJSON(p *core.Prog, r *core.Report, h *handlerInfo, san *ssa.Function) {
	emitCommon(p, r, h, san, emit.JSON{}, "C01-R1", emit.JStart, emit.JEnd)
	// constructor establishes, clone preserves the invariant (separator flag / counter / bytes)
	var sep, open *types.Var
	for _, f := range structFields(h.Named) {
		if b, ok := f.Type().Underlying().(*types.Basic); ok {
			switch b.Kind() {
			case types.Bool:
				sep = f
			case types.Int:
				open = f
			}
		}
	}
	if sep == nil || open == nil || h.Pre == nil {
		r.Fail("C01-R1", h.Name+": invariant fields", "-", "separator flag / open-group counter / pre-rendered bytes not found")
		return
	}
	for _, fn := range p.PkgFuncs("logger") {
		sx.Instrs(fn, func(in ssa.Instruction) {
			a, ok := in.(*ssa.Alloc)
			if !ok || !types.Identical(ptrTo(a.Type()), h.Named) {
				return
			}
			vals := map[*types.Var]ssa.Value{}
			whole := false
			for _, u := range *a.Referrers() {
				switch x := u.(type) {
				case *ssa.FieldAddr:
					for _, uu := range *x.Referrers() {
						if st, ok := uu.(*ssa.Store); ok && st.Addr == x {
							vals[sx.FieldOf(x)] = st.Val
						}
					}
				case *ssa.Store:
					if x.Addr == a {
						whole = true
					}
				}
			}
			c := fmt.Sprintf("%s created in %s satisfies the invariant", h.Name, fnName(fn))
			if whole {
				r.OK("C01-R1", c, p.Pos(a.Pos()), "whole-struct copy of a handler that satisfies it (byte sharing is C03's concern)")
				return
			}
			isMethod := fn.Signature.Recv() != nil
			if !isMethod {
				// root constructor: empty bytes, counter 0, flag true
				sv, okS := vals[sep]
				cst, isC := sv.(*ssa.Const)
				ok := okS && isC && cst.Value != nil && cst.Value.ExactString() == "true" && vals[open] == nil && vals[h.Pre] == nil
				r.Check(ok, "C01-R1", c, p.Pos(a.Pos()), "empty bytes, no open group, separator flag true (the next member follows \"msg\")", "the root handler is created with a state that does not match empty pre-rendered bytes (flag must be true, counter 0)")
				return
			}
			// derived: all three inherited from the receiver
			var bad []string
			for _, f := range []*types.Var{sep, open, h.Pre} {
				v, ok := vals[f]
				if !ok {
					bad = append(bad, f.Name()+" not copied")
					continue
				}
				if c, ok := v.(*ssa.Call); ok {
					switch sx.CalleeName(c) {
					case "slices.Clip", "slices.Clone", "bytes.Clone":
						v = c.Call.Args[0]
					}
				}
				org := sx.Origins(v)
				if !org["field:"+h.Name+"."+f.Name()] {
					bad = append(bad, f.Name()+" set from "+keys(org))
				}
			}
			r.Check(len(bad) == 0, "C01-R1", c, p.Pos(a.Pos()), "bytes, counter and flag inherited together from the receiver", strings.Join(bad, "; "))
		})
	}
}

func emitText(p *core.Prog, r *core.Report, h *handlerInfo, san *ssa.Function) {
	emitCommon(p, r, h, san, emit.Text{}, "C13-R1", emit.TLineStart, emit.TEnd)
	emitPrefixPath(p, r, h)
}

// emitPrefixPath runs the same interpreter over the *key-prefix scratch buffer* of the text emitters with the
// dotted-path grammar: a '.' is never appended to a prefix that already ends with '.', i.e. no empty group segment
// ("http..method") can be produced for any attribute tree.
func emitPrefixPath(p *core.Prog, r *core.Report, h *handlerInfo) {
	pk := p.Pkgs["logger"]
	decls := map[*types.Func]*ast.FuncDecl{}
	for _, f := range pk.Syntax {
		for _, d := range f.Decls {
			if fd, ok := d.(*ast.FuncDecl); ok && fd.Body != nil {
				if obj, ok := pk.TypesInfo.Defs[fd.Name].(*types.Func); ok {
					decls[obj] = fd
				}
			}
		}
	}
	// emitters with two *[]byte parameters: the second is the key-prefix scratch buffer
	bufParam := map[*types.Func]int{}
	_, bufs := classifySinks(p, h, nil)
	for fn, vals := range bufs {
		if fn.Parent() != nil {
			continue
		}
		line := -1
		for i, prm := range fn.Params {
			if vals[prm] {
				line = i
			}
		}
		for i, prm := range fn.Params {
			if i != line && line >= 0 && ptrTo(prm.Type()) != nil && ptrTo(prm.Type()).String() == "[]byte" {
				bufParam[funcObj(fn)] = i
			}
		}
	}
	if len(bufParam) == 0 {
		r.Note("C13-R1: no emitter with a separate key-prefix buffer found; dotted-path rule not applicable")
		return
	}
	// classify appends to the prefix from the syntax: all-constant arguments → const bytes, otherwise a key
	classAt := map[token.Pos]emit.SinkClass{}
	for obj, idx := range bufParam {
		fd := decls[obj]
		if fd == nil {
			continue
		}
		sig := obj.Type().(*types.Signature)
		pi := idx
		if sig.Recv() != nil {
			pi = idx - 1
		}
		name := sig.Params().At(pi).Name()
		ast.Inspect(fd.Body, func(n ast.Node) bool {
			as, ok := n.(*ast.AssignStmt)
			if !ok || len(as.Lhs) != 1 || len(as.Rhs) != 1 {
				return true
			}
			star, ok := as.Lhs[0].(*ast.StarExpr)
			if !ok {
				return true
			}
			if id, ok := star.X.(*ast.Ident); !ok || id.Name != name {
				return true
			}
			call, ok := as.Rhs[0].(*ast.CallExpr)
			if !ok {
				return true
			}
			if f, ok := call.Fun.(*ast.Ident); !ok || f.Name != "append" {
				return true
			}
			var bs []byte
			allConst := true
			for _, a := range call.Args[1:] {
				tv := pk.TypesInfo.Types[a]
				if tv.Value == nil {
					allConst = false
					break
				}
				if tv.Value.Kind() == constant.String {
					bs = append(bs, constant.StringVal(tv.Value)...)
				} else if k, ok := constant.Int64Val(constant.ToInt(tv.Value)); ok {
					bs = append(bs, byte(k))
				}
			}
			if allConst {
				classAt[call.Lparen] = emit.SinkClass{Class: "const", Bytes: bs}
			} else {
				classAt[call.Lparen] = emit.SinkClass{Class: "maybe-empty"}
			}
			return true
		})
	}
	cfg := emit.Config{
		Gram: emit.Path{}, Info: pk.TypesInfo, Fset: p.Fset, Decls: decls, BufParam: bufParam,
		ClassAt:  func(pos token.Pos) (emit.SinkClass, bool) { c, ok := classAt[pos]; return c, ok },
		TokenOf:  func(string) string { return emit.TokKey },
		IsColour: func(ast.Expr) bool { return false },
		Resolve:  func(bool) int { return emit.PBase },
		Pre:      func(g emit.G, s *bool) ([]emit.G, []bool, error) { return []emit.G{g}, []bool{true}, nil },
		Pos:      p.Pos,
	}
	it := emit.New(cfg)
	var names []string
	for obj := range bufParam {
		it.SummaryOf(obj, emit.PBase, map[string]bool{})
		names = append(names, obj.Name())
	}
	sort.Strings(names)
	var msgs []string
	for _, pr := range it.Problems {
		msgs = append(msgs, pr.Msg+" in "+pr.Fn+" at "+pr.Pos)
	}
	for _, u := range it.Undecided {
		r.Unknown("C13-R1", h.Name+": key-prefix construct outside the interpreter's fragment", "-", u.Fn+": "+u.Msg+" at "+u.Pos)
	}
	r.Check(len(msgs) == 0, "C13-R1", h.Name+": the dotted group path never gets an empty segment ("+strings.Join(names, ", ")+")", "-", fmt.Sprintf("no '.' is ever appended after a '.' (%d entry-state summaries over the key-prefix buffer)", len(it.Summaries)), strings.Join(uniq(msgs), "; "))
}
