package props

import (
	"fmt"
	"go/constant"
	"go/token"
	"go/types"
	"os"
	"strings"

	"golang.org/x/tools/go/ssa"

	"glbverif/checker/core"
	"glbverif/checker/sx"
)

func init() { register("C05", "httpd", runC05) }

// derivesFromField: v is computed from the current value of field f
// (through slicing, append-style calls, phis, conversions).
func derivesFromField(v ssa.Value, owner string, f *types.Var) bool {
	seen := map[ssa.Value]bool{}
	var walk func(v ssa.Value) bool
	walk = func(v ssa.Value) bool {
		if v == nil || seen[v] {
			return false
		}
		seen[v] = true
		switch x := v.(type) {
		case *ssa.UnOp:
			if x.Op == token.MUL {
				if fa, ok := x.X.(*ssa.FieldAddr); ok && sx.FieldOf(fa) == f {
					return true
				}
				if a, ok := x.X.(*ssa.Alloc); ok {
					st, _ := sx.CellStores(a)
					for _, s := range st {
						if walk(s) {
							return true
						}
					}
				}
			}
		case *ssa.Slice:
			return walk(x.X)
		case *ssa.Phi:
			for _, e := range x.Edges {
				if walk(e) {
					return true
				}
			}
		case *ssa.Convert:
			return walk(x.X)
		case *ssa.ChangeType:
			return walk(x.X)
		case *ssa.Call:
			n := sx.CalleeName(x)
			if (n == "builtin.append" || appendStyle(n)) && len(x.Call.Args) > 0 {
				return walk(x.Call.Args[0])
			}
		}
		return false
	}
	return walk(v)
}

type c05field struct {
	owner *types.Named
	f     *types.Var
	path  string // as seen from the Store: "W.Status"
}

func runC05(p *core.Prog, r *core.Report) {
	r.Rule("C05-R1", "definite (re)initialisation: every field of the pooled Store object graph that is written between Get and Put is either assigned (independently of its old value) on every path from Get to the relay call, or reset on every path from the relay call to Put", 7)
	r.Rule("C05-R2", "constructor ≡ reset: the value the pool constructor installs in a field equals the value the reset installs (same constant, or same length for truncation resets)", 0)
	r.Rule("C05-R3", "dirty stores are dropped: Put is not deferred (a Store abandoned by a panicking handler never re-enters the pool) and every path to Put passes all resets", 1)
	r.Rule("C05-R4", "capacity independence: captured parameter values are stored with append (or a truncation to a constant length), never by reslicing up to a computed length or by element stores that rely on the capacity fixed at creation", 2)
	r.Rule("C05-R5", "request IDs: the counter is only touched through sync/atomic; each pooled Store owns a freshly made ID buffer; the ID buffer is written only by ServeHTTP and the constructor", 3)
	r.Rule("C05-R7", "requests do not write the Mux: code reachable from ServeHTTP stores nothing into memory reachable from its receiver (same analysis as C03-R1; pools and atomics exempt)", 1)
	r.Rule("C05-R6", "shared route data is read-only for requests: a slice of the Store that aliases a field of the routing tree (the parameter names) is never cleared, copied into or element-assigned", 0)
	r.NotDecided = append(r.NotDecided, "cross-Mux uniqueness of the random prefix", "registration concurrent with serving (ServeHTTP reads the tree without mux.mu): the property speaks of registration between requests")
	r.Trusted = append(r.Trusted, "sync.Pool: an object is owned exclusively between Get and Put", "go/ssa")

	mux := p.Named("httpd", "Mux")
	store := p.Named("httpd", "Store")
	serveSrc := p.Method("httpd", "Mux", "ServeHTTP")
	if mux == nil || store == nil || serveSrc == nil {
		r.Fail("C05-R1", "anchors Mux/Store/ServeHTTP", "-", "not found")
		return
	}
	// the inlined view: acquire/release/reset helpers of the package are seen in place
	serve := p.Inl(serveSrc)
	// Get / Put / relay call in ServeHTTP
	var get, put, relay ssa.Instruction
	var deferredPut []ssa.Instruction
	sx.Instrs(serve, func(in ssa.Instruction) {
		c, ok := in.(ssa.CallInstruction)
		if !ok {
			return
		}
		switch sx.CalleeName(c) {
		case "(*sync.Pool).Get":
			get = in
		case "(*sync.Pool).Put":
			if _, isDefer := c.(*ssa.Defer); isDefer {
				deferredPut = append(deferredPut, in)
			} else {
				put = in
			}
		}
		// the relay call: a dynamic call of a function value held in a Mux field, passing the Store
		if _, isB := c.Common().Value.(*ssa.Builtin); !isB && !c.Common().IsInvoke() && sx.StaticCallee(c) == nil {
			fromMux := false
			for o := range sx.Origins(c.Common().Value) {
				if strings.HasPrefix(o, "field:Mux.") {
					fromMux = true
				}
			}
			passesStore := false
			for _, a := range c.Common().Args {
				if types.Identical(ptrTo(a.Type()), store) {
					passesStore = true
				}
			}
			if fromMux && passesStore {
				relay = in
			}
		}
	})
	// Put inside deferred closures
	sx.Instrs(serve, func(in ssa.Instruction) {
		if d, ok := in.(*ssa.Defer); ok {
			if callee := sx.StaticCallee(d); callee != nil {
				sx.Instrs(callee, func(i2 ssa.Instruction) {
					if c, ok := i2.(ssa.CallInstruction); ok && sx.CalleeName(c) == "(*sync.Pool).Put" {
						deferredPut = append(deferredPut, in)
					}
				})
			}
		}
	})
	if get == nil || relay == nil || (put == nil && len(deferredPut) == 0) {
		r.Fail("C05-R1", "ServeHTTP: Get / relay call / Put", p.FuncPos(serve), fmt.Sprintf("found Get=%v relay=%v Put=%v", get != nil, relay != nil, put != nil || len(deferredPut) > 0))
		return
	}
	// ---- R3
	r.Check(len(deferredPut) == 0 && put != nil, "C05-R3", "ServeHTTP: Put is not deferred", p.FuncPos(serve), "Put runs only on the normal path, after the resets", "the Store is returned to the pool by a deferred call: when a handler panics the resets are skipped but the dirty Store is recycled (stale status, parameter values and request ID leak into the next request)")
	if put == nil {
		return
	}
	// what is reset before Put is what the Store holds *then*: the sub-objects are exported fields (Store.W, Store.P) that
	// a relay or handler may replace, so a reset through a pointer read before the handlers ran wipes the old object and
	// sends the replacement back to the pool as the handler left it
	{
		var stale []string
		sx.Instrs(serve, func(in ssa.Instruction) {
			st, ok := in.(*ssa.Store)
			if !ok || !sx.ReachInstr(serve, relay, in, sx.Cut{}) {
				return
			}
			a := st.Addr
			for d := 0; d < 4; d++ {
				fa, ok := a.(*ssa.FieldAddr)
				if !ok {
					return
				}
				ld, ok := fa.X.(*ssa.UnOp)
				if !ok || ld.Op != token.MUL {
					return
				}
				inner, ok := ld.X.(*ssa.FieldAddr)
				if !ok {
					return
				}
				if types.Identical(ptrTo(inner.X.Type()), store) {
					if !sx.ReachInstr(serve, relay, ld, sx.Cut{}) {
						stale = append(stale, "the reset at "+p.Pos(in.Pos())+" goes through Store."+sx.FieldOf(inner).Name()+" as read at "+p.Pos(ld.Pos())+", before the handlers ran")
					}
					return
				}
				a = inner
			}
		})
		r.Check(len(stale) == 0, "C05-R1", "resets address the Store's sub-objects as they are after the handlers", p.Pos(relay.Pos()), "every reset reads Store.W / Store.P after the relay call", strings.Join(uniq(stale), "; ")+": a sub-object the handler put in place returns to the pool un-reset (its status, its values), the next request starts with them")
	}
	// the Store handed to the handlers is the pool's own: taken with Get (sync.Pool never hands one object to two
	// callers) or freshly made — not read from some other shared slot (a "spare" kept beside the pool is read by two
	// concurrent requests before either clears it)
	{
		var bad []string
		seen := map[ssa.Value]bool{}
		var walk func(v ssa.Value)
		walk = func(v ssa.Value) {
			v = sx.Unspill(v)
			if v == nil || seen[v] {
				return
			}
			seen[v] = true
			switch x := v.(type) {
			case *ssa.Phi:
				for _, e := range x.Edges {
					walk(e)
				}
			case *ssa.TypeAssert:
				walk(x.X)
			case *ssa.Extract:
				walk(x.Tuple)
			case *ssa.ChangeType:
				walk(x.X)
			case *ssa.Alloc:
				if !x.Heap {
					bad = append(bad, "a local at "+p.Pos(x.Pos()))
				}
			case *ssa.Call:
				if n := sx.CalleeName(x); n != "(*sync.Pool).Get" {
					bad = append(bad, "the result of "+short(n)+" at "+p.Pos(x.Pos()))
				}
			default:
				bad = append(bad, short(sx.ValPath(v)))
			}
		}
		for _, a := range relay.(ssa.CallInstruction).Common().Args {
			if types.Identical(ptrTo(a.Type()), store) {
				walk(a)
			}
		}
		r.Check(len(bad) == 0, "C05-R3", "ServeHTTP: the request's Store is the pool's (Get or new)", p.Pos(relay.Pos()), "the Store given to the handlers comes from sync.Pool.Get (or is freshly made) on every path", "the Store given to the handlers can be "+strings.Join(uniq(bad), ", ")+": a slot outside the pool has no hand-out-once guarantee, two concurrent requests can hold the same Store and see each other's route, parameters, status and ID")
	}

	// pool constructor: the function stored into storePool.New (a closure returning *Store), or the place where a Store is
	// allocated when the pool had none
	ctor := poolCtor(p)
	if ctor == nil {
		r.Fail("C05-R2", "pool constructor", "-", "no function returning a fresh *Store as `any` found")
		return
	}
	r.Anchor("pool_constructor", fnName(ctor))

	// object graph: Store fields, plus fields of struct types the Store points to
	var fields []c05field
	for _, f := range structFields(store) {
		fields = append(fields, c05field{store, f, f.Name()})
		if pt := ptrTo(f.Type()); pt != nil {
			if n, ok := pt.(*types.Named); ok && n.Obj().Pkg() != nil && strings.HasPrefix(n.Obj().Pkg().Path(), core.ModPath) {
				if _, isStruct := n.Underlying().(*types.Struct); isStruct {
					for _, g := range structFields(n) {
						fields = append(fields, c05field{n, g, f.Name() + "." + g.Name()})
					}
				}
			}
		}
	}
	// every function of the module; the httpd package through its inlined views (a helper's writes belong to its callers)
	var allFns []*ssa.Function
	for _, fn := range p.ModuleFuncs() {
		if rootFn(fn).Pkg != p.SPkgs["httpd"] {
			allFns = append(allFns, fn)
		}
	}
	for _, v := range pkgViews(p, "httpd") {
		allFns = append(allFns, sx.WithClosures(v.Fn)...)
	}
	// whole-struct stores into the pooled object graph (`*store.W = ResponseWriter{}`): a write of every field
	type wholeStore struct {
		st    *ssa.Store
		owner *types.Named
		vals  map[*types.Var]ssa.Value // field → value (absent = zero value)
		zero  ssa.Value
	}
	var wholes []wholeStore
	sx.Instrs(serve, func(in ssa.Instruction) {
		st, ok := in.(*ssa.Store)
		if !ok {
			return
		}
		if _, isLocal := st.Addr.(*ssa.Alloc); isLocal {
			return
		}
		n, ok := ptrTo(st.Addr.Type()).(*types.Named)
		if !ok {
			return
		}
		stt, ok := n.Underlying().(*types.Struct)
		if !ok || n.Obj().Pkg() == nil || !strings.HasPrefix(n.Obj().Pkg().Path(), core.ModPath) {
			return
		}
		w := wholeStore{st: st, owner: n, vals: map[*types.Var]ssa.Value{}}
		switch v := st.Val.(type) {
		case *ssa.Const:
			if v.Value != nil {
				return
			}
		case *ssa.UnOp:
			a, isA := v.X.(*ssa.Alloc)
			if v.Op != token.MUL || !isA {
				return // a copy of another object: not followed
			}
			for _, u := range *a.Referrers() {
				if fa, ok := u.(*ssa.FieldAddr); ok {
					for _, uu := range *fa.Referrers() {
						if fs, ok := uu.(*ssa.Store); ok && fs.Addr == ssa.Value(fa) {
							w.vals[stt.Field(fa.Field)] = fs.Val
						}
					}
				}
			}
		default:
			return
		}
		wholes = append(wholes, w)
	})
	c05InitImmutable(p, allFns)
	type fieldWrite struct {
		st  *ssa.Store
		val ssa.Value
	}
	for _, cf := range fields {
		// written outside the constructor?
		var writers []string
		var serveStores []fieldWrite
		for _, w := range wholes {
			if w.owner == cf.owner {
				v, ok := w.vals[cf.f]
				if !ok {
					v = zeroConst(cf.f.Type())
				}
				serveStores = append(serveStores, fieldWrite{w.st, v})
			}
		}
		for _, ref := range sx.FieldRefs(allFns, cf.f) {
			fa, ok := ref.Instr.(*ssa.FieldAddr)
			if !ok || rootFn(sx.SourceFunc(ref.Instr)) == rootFn(ctor) && sx.IsFreshObject(ref.Base) {
				continue
			}
			if sx.IsFreshObject(ref.Base) {
				continue // other constructors (tests of Params etc.)
			}
			for _, a := range sx.Accesses(fa) {
				if a.Kind == "write" {
					writers = append(writers, fnName(ref.Fn))
					if ref.Fn == serve {
						serveStores = append(serveStores, fieldWrite{a.Instr.(*ssa.Store), a.Val})
					}
				}
				if a.Kind == "elem-write" {
					writers = append(writers, fnName(ref.Fn)+"(element)")
				}
			}
		}
		if len(writers) == 0 && len(serveStores) == 0 {
			continue // structural / immutable field
		}
		if len(writers) == 0 {
			// only rewritten wholesale by the reset: nothing writes it while a request is served, the reset is harmless
			continue
		}
		c := "Store." + cf.path
		// (a) assigned before the relay call on every path, independent of the old value
		pre := sx.Cut{Instrs: map[ssa.Instruction]bool{}}
		post := sx.Cut{Instrs: map[ssa.Instruction]bool{}}
		var resetVals []ssa.Value
		for _, fw := range serveStores {
			st := fw.st
			indep := !derivesFromField(fw.val, cf.owner.Obj().Name(), cf.f)
			trunc := false
			if sl, ok := fw.val.(*ssa.Slice); ok && derivesFromField(sl.X, cf.owner.Obj().Name(), cf.f) {
				if _, isC := sx.ConstInt(sl.High); isC && sl.Low == nil {
					trunc = true
				} else if _, isSym := symLen(sl.High); isSym && sl.Low == nil && sl.High != nil {
					trunc = true // truncation to the length of an immutable field
				}
			}
			if indep || trunc {
				pre.Instrs[st] = true
				post.Instrs[st] = true
				// what is compared with the constructor is what a store after the relay call installs
				if sx.ReachInstr(serve, relay, st, sx.Cut{}) {
					// …unless a later store of the same field overwrites it on every path to Put (a struct literal
					// assigned in place first zeroes the field, then stores the listed value)
					over := sx.Cut{Instrs: map[ssa.Instruction]bool{}}
					for _, o := range serveStores {
						if o.st != st && sx.ReachInstr(serve, st, o.st, sx.Cut{}) {
							over.Instrs[o.st] = true
						}
					}
					if len(over.Instrs) == 0 || !sx.MustPass(serve, st, put, over) {
						resetVals = append(resetVals, fw.val)
					}
				}
			}
		}
		okPre := len(pre.Instrs) > 0 && sx.MustPass(serve, get, relay, pre)
		if okPre {
			// the (re)initialisation must come first: no other write of the field — directly or through a callee —
			// is reachable from Get without passing it
			sx.WalkFrom(serve, get, pre, func(in ssa.Instruction) bool {
				switch x := in.(type) {
				case *ssa.Store:
					if fa, ok := x.Addr.(*ssa.FieldAddr); ok && sx.FieldOf(fa) == cf.f {
						okPre = false
					}
				case ssa.CallInstruction:
					if _, isB := x.Common().Value.(*ssa.Builtin); isB {
						return true
					}
					for _, callee := range p.Callees(x) {
						m, all := mayStoreFields(p, callee, 0)
						if (all && p.InModule(callee)) || m[cf.f] {
							okPre = false
						}
					}
				}
				return true
			})
		}
		// (b) reset after the relay call on every path to Put
		okPost := len(post.Instrs) > 0 && sx.MustPass(serve, relay, put, post)
		switch {
		case okPre:
			r.OK("C05-R1", c, p.FuncPos(serve), "assigned from request data on every path from Get to the relay call")
		case okPost:
			r.OK("C05-R1", c, p.FuncPos(serve), "reset on every path from the relay call to Put")
		default:
			r.Fail("C05-R1", c, p.FuncPos(serve), "written by "+strings.Join(uniq(writers), ", ")+" but neither assigned on every path before the relay call nor reset on every path to Put: a later request on the recycled Store observes the residue")
		}
		// ---- R2
		if okPost || okPre {
			ctorVal := ctorFieldValue(ctor, cf)
			for _, rv := range resetVals {
				if _, isSl := rv.(*ssa.Slice); !isSl {
					if _, isC := rv.(*ssa.Const); !isC {
						// a reset that installs a value loaded from another object: it must not be a snapshot of mutable configuration
						if !okPre {
							for o := range sx.Origins(rv) {
								if !strings.HasPrefix(o, "field:") {
									continue
								}
								parts := strings.SplitN(strings.TrimPrefix(o, "field:"), ".", 2)
								if owner := p.Named("httpd", parts[0]); owner != nil && len(parts) == 2 {
									if f := fieldByName(owner, parts[1]); f != nil {
										var later []string
										for _, ref := range sx.FieldRefs(allFns, f) {
											if fa, ok := ref.Instr.(*ssa.FieldAddr); ok && !sx.IsFreshObject(ref.Base) {
												for _, a := range sx.Accesses(fa) {
													if a.Kind == "write" && ref.Fn != serve && rootFn(ref.Fn).Name() != "NewMux" {
														later = append(later, fnName(ref.Fn))
													}
												}
											}
										}
										r.Check(len(later) == 0, "C05-R2", c+": reset value is not a snapshot of mutable configuration", p.FuncPos(serve), "reset from "+o+", which never changes after construction", "the reset parks the current value of "+o+" in the pooled Store, but "+strings.Join(uniq(later), ", ")+" can replace it later: a recycled Store then serves the old value once")
									}
								}
							}
						}
						continue
					}
					if okPre {
						continue // assigned from request data: nothing to compare with the constructor
					}
				}
				// only resets that lie after the relay call
				ok, detail := resetMatchesCtor(rv, ctorVal)
				r.Check(ok, "C05-R2", c+": constructor installs what the reset installs", p.FuncPos(ctor), detail, detail)
			}
		}
	}

	// ---- R4
	params := p.Named("httpd", "Params")
	if params != nil {
		for _, f := range structFields(params) {
			if _, isSlice := f.Type().Underlying().(*types.Slice); !isSlice {
				continue
			}
			for _, ref := range sx.FieldRefs(allFns, f) {
				fa, ok := ref.Instr.(*ssa.FieldAddr)
				if !ok || sx.IsFreshObject(ref.Base) {
					continue
				}
				n := 0
				for _, a := range sx.Accesses(fa) {
					switch a.Kind {
					case "write":
						n++
						c := fmt.Sprintf("Params.%s assigned in %s #%d", f.Name(), fnName(ref.Fn), n)
						v := a.Val
						okV, why := true, "append / constant-length truncation / independent value"
						if sl, isS := v.(*ssa.Slice); isS && derivesFromField(sl.X, "Params", f) {
							if _, isC := sx.ConstInt(sl.High); !isC {
								okV, why = false, "resliced to a computed length ("+sx.ValPath(sl.High)+"): panics when the capacity fixed at Store creation is smaller (route with more params registered later)"
							}
						}
						r.Check(okV, "C05-R4", c, p.Pos(a.Instr.Pos()), why, why)
					case "elem-write":
						n++
						r.Fail("C05-R4", fmt.Sprintf("Params.%s element store in %s #%d", f.Name(), fnName(ref.Fn), n), p.Pos(a.Instr.Pos()), "element stored into the pooled slice: relies on length/capacity established elsewhere")
					}
				}
			}
		}
	}

	// no decision may depend on the capacity of the pooled value slice
	if params != nil {
		for fn := range reachableFrom(p, serve) {
			sx.Instrs(fn, func(in ssa.Instruction) {
				if c, ok := in.(*ssa.Call); ok && isBuiltin(c, "cap") {
					for o := range sx.Origins(c.Call.Args[0]) {
						if strings.HasPrefix(o, "field:Params.") {
							r.Fail("C05-R4", "cap("+o+") consulted in "+fnName(fn), p.Pos(in.Pos()), "behaviour depends on the capacity the pooled slice got when its Store was created (maxParams at that time): a Store created before a later Handle() behaves differently from a fresh one")
						}
					}
				}
			})
		}
	}

	// ---- R5
	for _, f := range structFields(mux) {
		b, ok := f.Type().Underlying().(*types.Basic)
		if !ok || b.Kind() != types.Uint64 {
			continue
		}
		for _, ref := range sx.FieldRefs(allFns, f) {
			fa, ok := ref.Instr.(*ssa.FieldAddr)
			if !ok {
				continue
			}
			for _, a := range sx.Accesses(fa) {
				okA := strings.HasPrefix(a.Kind, "call:sync/atomic.")
				r.Check(okA, "C05-R5", "Mux."+f.Name()+" "+a.Kind+" in "+fnName(ref.Fn), p.Pos(a.Instr.Pos()), "only through sync/atomic", "request counter accessed non-atomically: concurrent requests can get the same ID")
			}
		}
	}
	// the number formatted into the request ID is the very value the atomic increment returned (an increment whose result
	// is dropped followed by a separate load lets two requests read the same number)
	{
		n := 0
		sx.Instrs(serve, func(in ssa.Instruction) {
			c, ok := in.(*ssa.Call)
			if !ok || !strings.HasPrefix(sx.CalleeName(c), "strconv.Append") || len(c.Call.Args) < 2 {
				return
			}
			if !derivesFromFieldAny(c.Call.Args[0], store) {
				return
			}
			n++
			org := sx.Origins(c.Call.Args[1])
			okInc := false
			for o := range org {
				if (strings.HasPrefix(o, "call:(*sync/atomic.") && strings.HasSuffix(o, ").Add")) || strings.HasPrefix(o, "call:sync/atomic.Add") {
					okInc = true
				}
			}
			r.Check(okInc && len(org) == 1, "C05-R5", fmt.Sprintf("request ID #%d is the result of the atomic increment", n), p.Pos(in.Pos()), "formatted from the value returned by the counter's atomic Add", "the number formatted into the request ID comes from "+keys(org)+", not from the result of the atomic increment: concurrent requests can format the same number")
		})
	}
	idf := fieldByName(store, "id")
	if idf == nil {
		for _, f := range structFields(store) {
			if f.Type().String() == "[]byte" {
				idf = f
			}
		}
	}
	if idf != nil {
		cv := ctorFieldValue(ctor, c05field{store, idf, idf.Name()})
		mfn, _, _, isMS := freshSlice(cv)
		r.Check(isMS && mfn == ctor, "C05-R5", "each pooled Store owns a fresh ID buffer", p.FuncPos(ctor), "make([]byte, …) inside the pool constructor", "the ID buffer installed by the pool constructor is "+valStr(cv)+", not a buffer made per Store: all Stores append request IDs into one shared array, concurrent requests overwrite each other's ID")
		for _, ref := range sx.FieldRefs(allFns, idf) {
			fa, ok := ref.Instr.(*ssa.FieldAddr)
			if !ok {
				continue
			}
			for _, a := range sx.Accesses(fa) {
				if a.Kind == "write" || a.Kind == "elem-write" {
					okW := ref.Fn == serve || rootFn(sx.SourceFunc(a.Instr)) == rootFn(ctor)
					r.Check(okW, "C05-R5", "Store."+idf.Name()+" "+a.Kind+" in "+fnName(ref.Fn), p.Pos(a.Instr.Pos()), "ServeHTTP / constructor only: the ID is constant while handlers run", "the ID buffer is modified outside ServeHTTP: GetID() aliases it, the ID would change during the request")
				}
			}
		}
	}

	// ---- R5 (cont.): the truncating reset `id = id[:k]` keeps the first k bytes as they are — the random prefix the
	// constructor wrote. Nothing between Get and Put may write below k: an append onto id[:m] with m < k, an element
	// store below k. (Otherwise the next request on this Store starts from the previous request's bytes.)
	if idf != nil {
		keep := int64(-1)
		for _, fn := range allFns {
			sx.Instrs(fn, func(in ssa.Instruction) {
				st, ok := in.(*ssa.Store)
				if !ok {
					return
				}
				fa, ok := st.Addr.(*ssa.FieldAddr)
				if !ok || sx.FieldOf(fa) != idf {
					return
				}
				if sl, ok := st.Val.(*ssa.Slice); ok && sl.Low == nil && sl.High != nil && sx.Origins(sl.X)["field:Store."+idf.Name()] {
					if k, isC := sx.ConstInt(sl.High); isC && k > keep {
						keep = k
					}
				}
			})
		}
		if os.Getenv("GLB_C05_DEBUG") != "" {
			fmt.Fprintf(os.Stderr, "C05 keep=%d allFns=%d\n", keep, len(allFns))
		}
		if keep > 0 {
			var bad []string
			for _, fn := range allFns {
				if rootFn(sx.OrigFunc(fn)) == rootFn(ctor) {
					continue
				}
				sx.Instrs(fn, func(in ssa.Instruction) {
					switch x := in.(type) {
					case *ssa.Call:
						if !isBuiltin(x, "append") && !isBuiltin(x, "copy") {
							return
						}
						base := x.Call.Args[0]
						for d := 0; d < 4; d++ { // append(append(id[:0], …), …)
							if inner, ok := base.(*ssa.Call); ok && isBuiltin(inner, "append") {
								base = inner.Call.Args[0]
							}
						}
						sl, ok := base.(*ssa.Slice)
						if !ok || !sx.Origins(sl.X)["field:Store."+idf.Name()] {
							return
						}
						m := int64(-1)
						if sl.High != nil {
							if k, isC := sx.ConstInt(sl.High); isC {
								m = k
							}
						}
						if isBuiltin(x, "copy") {
							m = 0
							if sl.Low != nil {
								if k, isC := sx.ConstInt(sl.Low); isC {
									m = k
								}
							}
						}
						if m >= 0 && m < keep {
							bad = append(bad, fmt.Sprintf("%s writes the ID buffer from offset %d in %s at %s", x.Call.Value.Name(), m, fnName(fn), p.Pos(in.Pos())))
						}
					case *ssa.Store:
						if ia, ok := x.Addr.(*ssa.IndexAddr); ok && sx.Origins(ia.X)["field:Store."+idf.Name()] {
							if k, isC := sx.ConstInt(ia.Index); !isC || k < keep {
								bad = append(bad, "element store into the ID buffer in "+fnName(fn)+" at "+p.Pos(in.Pos()))
							}
						}
					}
				})
			}
			r.Check(len(bad) == 0, "C05-R5", fmt.Sprintf("the %d bytes the reset keeps are never overwritten after construction", keep), "-", "every write to the ID buffer starts at or after the kept prefix", fmt.Sprintf("the reset truncates the ID buffer to its first %d bytes and relies on them being the constructor's prefix, but %s: the next request served by this pooled Store gets an ID that starts with bytes of this request", keep, strings.Join(uniq(bad), "; ")))
		}
	}

	// ---- R5 (cont.): what the pool constructor hangs on a new Store belongs to that Store alone — nothing it installs is a
	// package-level object (a shared "always empty" Params, a shared buffer): Stores are used by requests in parallel
	if ctor != nil {
		var sharedObj []string
		for _, f := range sx.WithClosures(p.Inl(ctor)) {
			sx.Instrs(f, func(in ssa.Instruction) {
				st, ok := in.(*ssa.Store)
				if !ok {
					return
				}
				fa, ok := st.Addr.(*ssa.FieldAddr)
				if !ok || !sx.IsFreshObject(fa.X) {
					return
				}
				if ptrTo(st.Val.Type()) == nil {
					if _, isSl := st.Val.Type().Underlying().(*types.Slice); !isSl {
						return
					}
				}
				for o := range sx.Origins(st.Val) {
					if strings.HasPrefix(o, "global:") {
						sharedObj = append(sharedObj, sx.FieldOf(fa).Name()+" = "+short(sx.ValPath(st.Val))+" ("+o+") at "+p.Pos(in.Pos()))
					}
				}
				if g, ok := st.Val.(*ssa.Global); ok {
					sharedObj = append(sharedObj, sx.FieldOf(fa).Name()+" = &"+g.Name()+" at "+p.Pos(in.Pos()))
				}
			})
		}
		r.Check(len(sharedObj) == 0, "C05-R5", "the pool constructor gives every Store objects of its own", p.FuncPos(ctor), "no field of a new Store points at a package-level variable", "a new Store is handed a package-level object ("+strings.Join(uniq(sharedObj), "; ")+"): Stores serving requests in parallel append to the same memory — one request sees another's route parameters")
	}

	// ---- R7: serving a request leaves the Mux as it found it — the route a request selects depends on the registered
	// routes only, not on what earlier requests left behind (a cache, a counter other than the ID sequence). The
	// receiver-immutability analysis of C03 run from ServeHTTP: pools and atomics are exempt, sync.Map is state.
	{
		var bad []string
		if len(serveSrc.Params) > 0 {
			for _, f := range newMutAnalysis(p).analyse(serveSrc, map[ssa.Value]string{serveSrc.Params[0]: tPtr}) {
				if strings.Contains(f.msg, "passed to sync/atomic.") {
					continue // the ID sequence (C05-R5 requires exactly this)
				}
				bad = append(bad, f.msg+" at "+f.pos)
			}
		}
		r.Check(len(bad) == 0, "C05-R7", "ServeHTTP writes no memory owned by the Mux", p.FuncPos(serveSrc), "no store, in-place append or mutating call reaches memory reachable from the Mux (the ID counter is atomic, Stores come from the pool)", "state that survives the request and is shared by all requests: "+strings.Join(uniq(bad), "; ")+" — a later request (or a route registered in between) is served according to what an earlier request left there")
	}

	// ---- R6: the parameter names a Store carries are an alias of the matched route's own list (Params.K = node.names): a
	// request may replace the alias but never write through it — that would change the route for every later request
	{
		params := p.Named("httpd", "Params")
		var shared []string // origin keys of slices that belong to the routing tree
		if params != nil {
			for _, f := range structFields(params) {
				if sl, ok := f.Type().Underlying().(*types.Slice); ok && isStringT(sl.Elem()) {
					// which of the string-slice fields is assigned from a tree node's field?
					for _, ref := range sx.FieldRefs(p.PkgFuncs("httpd"), f) {
						fa, ok := ref.Instr.(*ssa.FieldAddr)
						if !ok {
							continue
						}
						for _, a := range sx.Accesses(fa) {
							if a.Kind != "write" {
								continue
							}
							for o := range sx.Origins(a.Val) {
								if strings.HasPrefix(o, "field:") && !strings.HasPrefix(o, "field:Params.") && !strings.HasPrefix(o, "field:Store.") {
									shared = append(shared, "field:Params."+f.Name(), o)
								}
							}
						}
					}
				}
			}
		}
		shared = uniq(shared)
		isShared := func(v ssa.Value) string {
			org := sx.Origins(v)
			for _, k := range shared {
				if org[k] {
					return k
				}
			}
			return ""
		}
		var bad []string
		nRead := 0
		for _, fn := range p.PkgFuncs("httpd") {
			sx.Instrs(fn, func(in ssa.Instruction) {
				switch x := in.(type) {
				case *ssa.Call:
					if b, ok := x.Call.Value.(*ssa.Builtin); ok && len(x.Call.Args) > 0 {
						if k := isShared(x.Call.Args[0]); k != "" {
							nRead++
							switch b.Name() {
							case "clear", "copy":
								bad = append(bad, b.Name()+"() writes through "+strings.TrimPrefix(k, "field:")+" in "+fnName(fn)+" at "+p.Pos(in.Pos()))
							}
						}
					}
				case *ssa.Store:
					if ia, ok := x.Addr.(*ssa.IndexAddr); ok {
						if k := isShared(ia.X); k != "" {
							bad = append(bad, "element store through "+strings.TrimPrefix(k, "field:")+" in "+fnName(fn)+" at "+p.Pos(in.Pos()))
						}
					}
				}
			})
		}
		if len(shared) > 0 {
			r.Check(len(bad) == 0, "C05-R6", "the route's parameter-name list is never written through its alias in the Store", "-", "Params.K is only replaced, never cleared, copied into or indexed for writing ("+strings.Join(shared, ", ")+")", strings.Join(uniq(bad), "; ")+": the list belongs to the matched route — after the first request the route has lost its parameter names for every later request")
		}
	}
}

// derivesFromFieldAny: v is (an append chain on) the current value of some []byte field of the given struct type.
func derivesFromFieldAny(v ssa.Value, owner *types.Named) bool {
	for _, f := range structFields(owner) {
		if f.Type().String() == "[]byte" && derivesFromField(v, owner.Obj().Name(), f) {
			return true
		}
	}
	return false
}

func zeroConst(t types.Type) ssa.Value {
	switch u := t.Underlying().(type) {
	case *types.Basic:
		switch {
		case u.Info()&types.IsString != 0:
			return ssa.NewConst(constant.MakeString(""), t)
		case u.Info()&types.IsBoolean != 0:
			return ssa.NewConst(constant.MakeBool(false), t)
		case u.Info()&types.IsNumeric != 0:
			return ssa.NewConst(constant.MakeInt64(0), t)
		}
	}
	return ssa.NewConst(nil, t)
}

// constLen: the length of a slice value when it is a constant of the program text.
func constLen(v ssa.Value) (int64, bool) {
	switch x := sx.Unspill(orNil(v)).(type) {
	case *ssa.MakeSlice:
		return sx.ConstInt(x.Len)
	case *ssa.Const:
		if x.Value == nil {
			return 0, true
		}
		if x.Value.Kind() == constant.String {
			return int64(len(constant.StringVal(x.Value))), true
		}
	case *ssa.Slice:
		lo := int64(0)
		if x.Low != nil {
			k, ok := sx.ConstInt(x.Low)
			if !ok {
				return 0, false
			}
			lo = k
		}
		if x.High != nil {
			k, ok := sx.ConstInt(x.High)
			return k - lo, ok
		}
		if pt, ok := x.X.Type().Underlying().(*types.Pointer); ok {
			if at, ok := pt.Elem().Underlying().(*types.Array); ok {
				return at.Len() - lo, true
			}
		}
	case *ssa.Call:
		if b, ok := x.Call.Value.(*ssa.Builtin); ok && b.Name() == "append" && len(x.Call.Args) == 2 {
			a, ok1 := constLen(x.Call.Args[0])
			c, ok2 := constLen(x.Call.Args[1])
			return a + c, ok1 && ok2
		}
	}
	return 0, false
}

// c05InitImmutable installs the immutability oracle used by symLen.
func c05InitImmutable(p *core.Prog, allFns []*ssa.Function) {
	c05Immutable = func(o string) bool {
		parts := strings.SplitN(strings.TrimPrefix(o, "field:"), ".", 2)
		owner := p.Named("httpd", parts[0])
		if owner == nil || len(parts) != 2 {
			return false
		}
		f := fieldByName(owner, parts[1])
		if f == nil {
			return false
		}
		for _, ref := range sx.FieldRefs(allFns, f) {
			fa, ok := ref.Instr.(*ssa.FieldAddr)
			if !ok || sx.IsFreshObject(ref.Base) {
				continue
			}
			for _, a := range sx.Accesses(fa) {
				if a.Kind != "read" {
					return false
				}
			}
		}
		return true
	}
}

// poolCtor: the function that returns a fresh *Store as `any` (the value of storePool.New).
func poolCtor(p *core.Prog) (ctor *ssa.Function) {
	store := p.Named("httpd", "Store")
	defer func() {
		if ctor != nil {
			return
		}
		// no separate constructor function: the Store is allocated where it is taken from the pool (`if v == nil { … }`)
		for _, v := range pkgViews(p, "httpd") {
			for _, fn := range sx.WithClosures(v.Fn) {
				sx.Instrs(fn, func(in ssa.Instruction) {
					if a, ok := in.(*ssa.Alloc); ok && a.Heap && types.Identical(ptrTo(a.Type()), store) {
						ctor = fn
					}
				})
			}
		}
	}()
	for _, fn := range p.PkgFuncs("httpd") {
		for _, ret := range sx.Returns(fn) {
			if len(ret.Results) == 1 {
				if mi, ok := ret.Results[0].(*ssa.MakeInterface); ok {
					if a, ok := sx.Unspill(mi.X).(*ssa.Alloc); ok && types.Identical(ptrTo(a.Type()), store) {
						ctor = fn
					}
				}
			}
		}
	}
	return ctor
}

// immutableFields (set by runC05): fields that are only written while their object is unpublished.
var c05Immutable func(o string) bool

// symLen: the length of a slice value as an expression of the program text: a constant ("9") or the length of
// a field that never changes after construction ("len(field:Mux.idPrefix)").
func symLen(v ssa.Value) (string, bool) {
	if k, ok := constLen(v); ok {
		return fmt.Sprint(k), true
	}
	switch x := sx.Unspill(orNil(v)).(type) {
	case *ssa.Call:
		if b, ok := x.Call.Value.(*ssa.Builtin); ok && len(x.Call.Args) >= 1 {
			switch b.Name() {
			case "len":
				return symLen(x.Call.Args[0])
			case "append":
				if len(x.Call.Args) == 2 {
					if a, ok := constLen(x.Call.Args[0]); ok && a == 0 {
						return symLen(x.Call.Args[1])
					}
				}
			}
		}
	case *ssa.Slice:
		if x.Low == nil && x.High == nil {
			if _, isSlice := x.X.Type().Underlying().(*types.Slice); isSlice {
				return symLen(x.X)
			}
		}
		if x.Low == nil && x.High != nil {
			return symLen(x.High)
		}
	case *ssa.UnOp:
		if x.Op == token.MUL {
			if fa, ok := x.X.(*ssa.FieldAddr); ok {
				o := "field:" + sx.OwnerName(fa.X.Type()) + "." + sx.FieldOf(fa).Name()
				if c05Immutable != nil && c05Immutable(o) {
					return "len(" + o + ")", true
				}
			}
		}
	}
	return "", false
}

// freshSlice: v is a slice made in place (make with dynamic or constant size); returns its length if constant.
func freshSlice(v ssa.Value) (fn *ssa.Function, length int64, isConstLen bool, ok bool) {
	switch x := sx.Unspill(orNil(v)).(type) {
	case *ssa.Call:
		// append(make([]T, 0, c), src...): the result is backed by the array made here (or a newer one)
		if b, ok := x.Call.Value.(*ssa.Builtin); ok && b.Name() == "append" && len(x.Call.Args) == 2 {
			if fn, _, _, ok := freshSlice(x.Call.Args[0]); ok {
				n, isC := constLen(x)
				return fn, n, isC, true
			}
		}
	case *ssa.MakeSlice:
		n, isC := sx.ConstInt(x.Len)
		return x.Parent(), n, isC, true
	case *ssa.Slice:
		if a, isA := x.X.(*ssa.Alloc); isA && a.Heap {
			if x.High == nil {
				return a.Parent(), 0, false, true
			}
			n, isC := sx.ConstInt(x.High)
			return a.Parent(), n, isC, true
		}
	}
	return nil, 0, false, false
}

func orNil(v ssa.Value) ssa.Value {
	if v == nil {
		return ssa.NewConst(nil, types.Typ[types.UntypedNil])
	}
	return v
}

func valStr(v ssa.Value) string {
	if v == nil {
		return "unset (zero value)"
	}
	return sx.ValPath(v)
}

func uniq(in []string) []string {
	seen := map[string]bool{}
	var out []string
	for _, s := range in {
		if !seen[s] {
			seen[s] = true
			out = append(out, s)
		}
	}
	return out
}

// ctorFieldValue: the value the pool constructor stores into the field (nil = field left at its zero value).
func ctorFieldValue(ctor *ssa.Function, cf c05field) ssa.Value {
	var out ssa.Value
	for _, fn := range sx.WithClosures(ctor) {
		for _, ref := range sx.FieldRefs([]*ssa.Function{fn}, cf.f) {
			fa, ok := ref.Instr.(*ssa.FieldAddr)
			if !ok || !sx.IsFreshObject(ref.Base) {
				continue
			}
			for _, a := range sx.Accesses(fa) {
				if a.Kind == "write" {
					out = a.Val
				}
			}
		}
	}
	return out
}

func resetMatchesCtor(reset, ctorVal ssa.Value) (bool, string) {
	if sl, ok := reset.(*ssa.Slice); ok {
		if _, isC := sx.ConstInt(sl.High); !isC {
			rl, ok1 := symLen(sl.High)
			cl, ok2 := symLen(ctorVal)
			if ok1 && ok2 && rl == cl {
				return true, "reset truncates to " + rl + ", constructor installs a buffer of that length"
			}
			return false, "reset truncates to " + sx.ValPath(sl.High) + ", constructor installs " + valStr(ctorVal) + ": the lengths cannot be shown equal"
		}
		k, _ := sx.ConstInt(sl.High)
		// constructor must install a slice of the same length
		if _, n, isC, ok := freshSlice(ctorVal); ok {
			if isC && n == k {
				return true, fmt.Sprintf("reset truncates to length %d, constructor makes length %d", k, n)
			}
			return false, fmt.Sprintf("reset truncates to length %d but the constructor makes a different or unknown length: a recycled Store differs from a fresh one", k)
		}
		if ctorVal == nil && k == 0 {
			return true, "reset truncates to length 0, constructor leaves the field nil (length 0)"
		}
		return false, fmt.Sprintf("reset truncates to length %d, constructor installs %s", k, valStr(ctorVal))
	}
	if c, ok := reset.(*ssa.Const); ok {
		zero := c.Value == nil || c.Value.ExactString() == "0" || c.Value.ExactString() == `""` || c.Value.ExactString() == "false"
		if ctorVal == nil {
			if zero {
				return true, "reset to the zero value, constructor leaves the field at its zero value"
			}
			return false, "reset to " + c.String() + " but the constructor leaves the zero value"
		}
		if cc, ok := ctorVal.(*ssa.Const); ok {
			same := (cc.Value == nil && c.Value == nil) || (cc.Value != nil && c.Value != nil && cc.Value.ExactString() == c.Value.ExactString())
			if same {
				return true, "reset and constructor install " + c.String()
			}
		}
		return false, "reset installs " + c.String() + ", constructor installs " + valStr(ctorVal)
	}
	return false, "reset value " + sx.ValPath(reset) + " cannot be compared with the constructor's " + valStr(ctorVal)
}
