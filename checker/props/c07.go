package props

import (
	"fmt"
	"go/token"
	"go/types"
	"strings"

	"golang.org/x/tools/go/ssa"

	"glbverif/checker/core"
	"glbverif/checker/sx"
)

func init() {
	register("C07", "tasklane", runC07)
	register("C08", "tasklane", runC08)
}

// doneOnly: a non-blocking select whose only state receives from ctx.Done().
func (t *tlInfo) doneOnly(sel *ssa.Select) bool {
	return !sel.Blocking && len(sel.States) == 1 && sel.States[0].Dir == types.RecvOnly && t.chanRole(sel.States[0].Chan) == "done"
}

// defaultEdgesOfDoneChecks: the default-arm edges of all `select { case <-ctx.Done(): …; default: }` in fn.
func (t *tlInfo) doneCheckDefaults(fn *ssa.Function) map[sx.Edge]bool {
	out := map[sx.Edge]bool{}
	sx.Instrs(fn, func(in ssa.Instruction) {
		sel, ok := in.(*ssa.Select)
		if !ok || !t.doneOnly(sel) {
			return
		}
		arms, ok := sx.SelectArms(sel)
		if !ok {
			return
		}
		for _, a := range arms {
			if a.Default {
				out[a.Edge] = true
			}
		}
	})
	// `if ctx.Err() != nil { return … }` is an equivalent pre-check: the edge on which Err() is nil
	sx.Instrs(fn, func(in ssa.Instruction) {
		c, ok := in.(*ssa.Call)
		if !ok || sx.CalleeName(c) != "(context.Context).Err" || !sx.Origins(c.Call.Value)[t.fieldKey(t.Ctx)] {
			return
		}
		nilE, _ := sx.NilEdges(c)
		for e := range nilE {
			out[e] = true
		}
	})
	return out
}

// armLeadsToReturn: from the arm's edge the function returns without any
// channel operation, Start or other module call.
func (t *tlInfo) armLeadsToReturn(fn *ssa.Function, a sx.Arm) (bool, string) {
	ok, why, _ := t.armReturn(fn, a)
	return ok, why
}

// armReturn also yields the first result returned on that path (nil if none): a result merged by phis
// is resolved along the path taken.
func (t *tlInfo) armReturn(fn *ssa.Function, a sx.Arm) (bool, string, ssa.Value) {
	ok, why, ret, path := t.armLeadsToReturnPath(fn, a)
	if !ok || ret == nil || len(ret.Results) == 0 {
		return ok, why, nil
	}
	v := returnValue(ret, 0)
	for i := len(path) - 1; i >= 0; i-- {
		ph, isPhi := v.(*ssa.Phi)
		if !isPhi {
			break
		}
		if ph.Block() != path[i] {
			continue
		}
		from := a.Edge.From
		if i > 0 {
			from = path[i-1]
		}
		for k, pred := range path[i].Preds {
			if pred == from {
				v = ph.Edges[k]
			}
		}
	}
	return ok, why, v
}

func (t *tlInfo) armLeadsToReturnPath(fn *ssa.Function, a sx.Arm) (bool, string, *ssa.Return, []*ssa.BasicBlock) {
	b := a.Edge.To()
	seen := map[*ssa.BasicBlock]bool{}
	var path []*ssa.BasicBlock
	for {
		path = append(path, b)
		if seen[b] {
			return false, "loops", nil, nil
		}
		seen[b] = true
		for _, in := range b.Instrs {
			switch x := in.(type) {
			case *ssa.Select, *ssa.Send, *ssa.Go:
				return false, "reaches " + in.String(), nil, nil
			case *ssa.UnOp:
				if x.Op == token.ARROW {
					return false, "reaches a channel receive", nil, nil
				}
			case ssa.CallInstruction:
				if t.isStart(x) {
					return false, "reaches Start", nil, nil
				}
				if c := sx.StaticCallee(x); c != nil && t.p.InModule(c) {
					if _, isDefer := x.(*ssa.Defer); !isDefer {
						return false, "calls " + fnName(c), nil, nil
					}
				}
			case *ssa.Return:
				return true, "", x, path
			}
		}
		if len(b.Succs) != 1 {
			return false, "branches before returning", nil, nil
		}
		b = b.Succs[0]
	}
}

func runC07(p *core.Prog, r *core.Report) {
	r.Rule("C07-R1", "every blocking point is cancellable: every select without default and every bare channel operation reachable from a goroutine body or PushTask has an arm receiving from ctx.Done(); in goroutine bodies that arm returns at once, in PushTask it returns ctx.Err()", 4)
	r.Rule("C07-R2", "push-after-cancel: the enqueue select of PushTask is reachable only through the default arm of a non-blocking `select { case <-ctx.Done(): return ctx.Err() }`", 1)
	r.Rule("C07-R3", "wait-group accounting: every goroutine body defers wg.Done() before anything else; wg.Add dominates the go statements and its (symbolic) count equals go-statements-per-iteration × loop trip count; go statements outside the constructor are preceded by Add(1); Wait only waits for the group", 5)
	r.Rule("C07-R4", "nothing starts after Wait: Start is called synchronously inside a wg-counted goroutine body from which no go statement is reachable", 1)
	r.Rule("C07-R5", "loop re-check: in the worker every receive of a task, and in the queue goroutine every hand-over send, is reachable only through the default arm of a ctx.Done() check made in the same iteration", 2)
	r.NotDecided = append(r.NotDecided, "wall-clock promptness of Wait", "goroutines created by task bodies themselves")
	r.Trusted = append(r.Trusted, "ctx.Done() is closed on cancel/deadline", "sync.WaitGroup semantics", "a non-blocking select never takes default when an arm is ready (language spec)")

	t := resolveTaskLane(p)
	if !t.anchors(r) {
		return
	}
	// ---- R1 (on the inlined views of the three bodies, their closures and the frames they still call)
	nSel, nBlocking := 0, 0
	for _, bk := range []struct {
		body *ssa.Function
		kind string
	}{{t.Queue, "goroutine"}, {t.Worker, "goroutine"}, {t.Push, "push"}} {
		body, kind := bk.body, bk.kind
		_ = body
		for _, f := range viewFuncs(p, body) {
			f := f
			if p.SPkgs["tasklane"] != rootFn(f).Pkg {
				continue
			}
			sx.Instrs(f, func(in ssa.Instruction) {
				switch x := in.(type) {
				case *ssa.Select:
					nSel++
					if !x.Blocking {
						return
					}
					nBlocking++
					c := fmt.Sprintf("blocking select #%d in %s", nBlocking, fnName(f))
					arms, ok := sx.SelectArms(x)
					if !ok {
						r.Unknown("C07-R1", c, p.Pos(in.Pos()), "unrecognised select lowering")
						return
					}
					found := false
					for _, a := range arms {
						if a.State == nil || a.State.Dir != types.RecvOnly || t.chanRole(a.State.Chan) != "done" {
							continue
						}
						found = true
						okRet, why, rv := t.armReturn(f, a)
						if kind == "push" && okRet {
							// must return ctx.Err()
							if rv == nil || !sx.Origins(rv)["call:(context.Context).Err"] {
								okRet, why = false, "does not return ctx.Err()"
							}
						}
						r.Check(okRet, "C07-R1", c+": Done arm returns", p.Pos(in.Pos()), "the ctx.Done() arm leaves the function immediately", "the ctx.Done() arm "+why+": after cancellation the "+kind+" keeps going")
					}
					if !found {
						r.Fail("C07-R1", c+": has a Done arm", p.Pos(in.Pos()), "blocking select without a `<-ctx.Done()` arm: it cannot be released by cancellation")
					}
				case *ssa.Send:
					r.Fail("C07-R1", "bare send in "+fnName(f), p.Pos(in.Pos()), "a bare channel send cannot be released by cancellation")
				case *ssa.UnOp:
					if x.Op == token.ARROW {
						r.Fail("C07-R1", "bare receive in "+fnName(f), p.Pos(in.Pos()), "a bare channel receive cannot be released by cancellation")
					}
				case *ssa.Call:
					// a lock, a condition variable or a wait group is a blocking point no context can interrupt: a goroutine
					// parked there (a pause gate, a quiescence barrier) outlives the cancellation, and Wait() with it
					switch n := sx.CalleeName(x); n {
					case "(*sync.Mutex).Lock", "(*sync.RWMutex).Lock", "(*sync.RWMutex).RLock", "(*sync.Cond).Wait", "(*sync.WaitGroup).Wait":
						r.Fail("C07-R1", "uninterruptible blocking call in "+fnName(f), p.Pos(in.Pos()), short(n)+" in a lane goroutine cannot be released by cancellation: the goroutine stays parked after the context is done and Wait() hangs")
					}
				}
			})
		}
	}
	r.Anchor("selects/blocking", fmt.Sprintf("%d/%d", nSel, nBlocking))

	// ---- R2
	{
		defaults := t.doneCheckDefaults(t.Push)
		n := 0
		sx.Instrs(t.Push, func(in ssa.Instruction) {
			sel, ok := in.(*ssa.Select)
			if !ok {
				return
			}
			enq := false
			for _, st := range sel.States {
				if st.Dir == types.SendOnly && t.chanRole(st.Chan) == "buffered" {
					enq = true
				}
			}
			if !enq {
				return
			}
			n++
			ok2 := len(defaults) > 0 && sx.MustPass(t.Push, nil, sel, sx.Cut{Edges: defaults})
			r.Check(ok2, "C07-R2", fmt.Sprintf("PushTask: enqueue select #%d is behind a Done pre-check", n), p.Pos(in.Pos()), "reachable only through the default arm of a non-blocking ctx.Done() check", "the enqueue select is reachable without first checking ctx.Done() non-blockingly: with the context already cancelled and queue space available the select may still pick the enqueue arm")
		})
		// the pre-check's Done arm returns ctx.Err()
		sx.Instrs(t.Push, func(in ssa.Instruction) {
			sel, ok := in.(*ssa.Select)
			if !ok || !t.doneOnly(sel) {
				return
			}
			arms, _ := sx.SelectArms(sel)
			for _, a := range arms {
				if a.State == nil {
					continue
				}
				okRet, why, rv := t.armReturn(t.Push, a)
				if okRet && (rv == nil || !sx.Origins(rv)["call:(context.Context).Err"]) {
					okRet, why = false, "does not return ctx.Err()"
				}
				r.Check(okRet, "C07-R2", "PushTask: Done pre-check returns ctx.Err()", p.Pos(in.Pos()), "returns the context's error", "the pre-check's Done arm "+why)
			}
		})
		if n == 0 {
			r.Fail("C07-R2", "PushTask enqueue select", p.FuncPos(t.Push), "no select with an enqueue arm found")
		}
		// the context's error is what the context says it is: PushTask never names context.Canceled / DeadlineExceeded
		// itself (a deadline that has passed does not mean the context ended by it: it may have been cancelled before)
		{
			var named []string
			for _, ret := range sx.Returns(t.Push) {
				if len(ret.Results) == 0 {
					continue
				}
				for _, lf := range leaves(ret.Results[len(ret.Results)-1]) {
					if ld, ok := lf.(*ssa.UnOp); ok && ld.Op == token.MUL {
						if g, ok := ld.X.(*ssa.Global); ok && g.Pkg != nil && g.Pkg.Pkg.Path() == "context" {
							named = append(named, "context."+g.Name()+" at "+p.Pos(ret.Pos()))
						}
					}
				}
			}
			r.Check(len(named) == 0, "C07-R2", "PushTask reports the context's own error", p.FuncPos(t.Push), "no return names a context error constant; the error comes from ctx.Err()", "PushTask returns "+strings.Join(uniq(named), ", ")+" decided by itself instead of ctx.Err(): on a context with a deadline that was cancelled earlier the caller is told DeadlineExceeded although the context's error is Canceled")
		}
	}

	// ---- R3
	isWG := func(c ssa.CallInstruction, m string) bool {
		if sx.CalleeName(c) != "(*sync.WaitGroup)."+m {
			return false
		}
		recv := sx.Args(c)[0]
		if fa, ok := recv.(*ssa.FieldAddr); ok { // a value field: its address is the receiver
			return sx.FieldOf(fa) == t.WG
		}
		return sx.Origins(recv)[t.fieldKey(t.WG)]
	}
	for _, body := range []*ssa.Function{t.QueueEntry, t.WorkerEntry} {
		if explicitDoneOK(p, t, body, isWG) {
			r.OK("C07-R3", fnName(body)+": wg.Done deferred first", p.FuncPos(body), "wg.Done() is called exactly once on every path to a return of a goroutine that runs no task code (no panic can skip it)")
			continue
		}
		ok, why := false, "no `defer wg.Done()` in the entry block"
		for _, in := range body.Blocks[0].Instrs {
			if d, isD := in.(*ssa.Defer); isD && isWG(d, "Done") {
				ok = true
				break
			}
			switch in.(type) {
			case *ssa.Select, *ssa.Send, *ssa.Go, *ssa.If, *ssa.Jump:
				why = "something runs before `defer wg.Done()`"
			case *ssa.Call:
				if c := in.(*ssa.Call); sx.StaticCallee(c) != nil || c.Call.IsInvoke() {
					why = "a call runs before `defer wg.Done()` (" + sx.CalleeName(c) + ")"
				}
			}
			if why != "no `defer wg.Done()` in the entry block" {
				break
			}
		}
		r.Check(ok, "C07-R3", fnName(body)+": wg.Done deferred first", p.FuncPos(body), "defer wg.Done() is the first action (runs on every exit, including panic)", why+": the group's counter would not drop on some exit, Wait would hang")
	}
	// the lane's context is the caller's own: PushTask and the goroutines look at the very Context New was given. A
	// derived context (WithCancel for a Stop method, …) learns of the parent's end through a watcher goroutine when the
	// parent is not one of the standard types: a PushTask that begins after the caller's cancel is still accepted
	{
		var bad []string
		n := 0
		for _, ref := range sx.FieldRefs(viewFuncs(p, t.Ctor), t.Ctx) {
			fa, ok := ref.Instr.(*ssa.FieldAddr)
			if !ok {
				continue
			}
			for _, a := range sx.Accesses(fa) {
				if a.Kind != "write" {
					continue
				}
				n++
				isParam := false
				for _, prm := range t.Ctor.Params {
					if sx.Unspill(a.Val) == ssa.Value(prm) || (sx.OrigFunc(ref.Fn) == t.Ctor && len(sx.Origins(a.Val)) == 1 && sx.Origins(a.Val)["param:"+prm.Name()]) {
						if _, isCall := sx.Unspill(a.Val).(*ssa.Call); !isCall {
							isParam = true
						}
					}
				}
				if !isParam {
					bad = append(bad, "the context field is assigned "+short(sx.ValPath(a.Val))+" at "+p.Pos(a.Instr.Pos()))
				}
			}
		}
		r.Check(len(bad) == 0 && n > 0, "C07-R2", "the lane uses the caller's context itself", p.FuncPos(t.Ctor), "ctx field = New's context parameter", strings.Join(bad, "; ")+": not the Context the caller cancels — its cancellation reaches the lane later (or, for a replaced context, never)")
	}
	{
		// Add in the constructor
		var adds []*ssa.Call
		sx.Instrs(t.Ctor, func(in ssa.Instruction) {
			if c, ok := in.(*ssa.Call); ok && sx.CalleeName(c) == "(*sync.WaitGroup).Add" {
				adds = append(adds, c)
			}
		})
		var ctorGos []*ssa.Go
		for _, g := range t.GoSites {
			if g.Parent() == t.Ctor {
				ctorGos = append(ctorGos, g)
			}
		}
		if len(adds) == 0 {
			r.Fail("C07-R3", "constructor: wg.Add", p.FuncPos(t.Ctor), "no wg.Add call in the constructor")
		} else {
			cut := sx.Cut{Instrs: map[ssa.Instruction]bool{}}
			for _, a := range adds {
				cut.Instrs[a] = true
			}
			// `if n > 0 { wg.Add(n * k) }`: the path that skips Add is the one on which the loops `for i := 0; i < n; i++`
			// that start the goroutines do not run at all. Accepted: every path to a go statement passes Add or the
			// `n <= 0` edge, and from that edge the go statement is reachable only through a loop test `i < n` with the
			// same n (false on its first evaluation, so never true)
			skip := map[sx.Edge]bool{}
			loopTrue := map[sx.Edge]bool{}
			sx.Instrs(t.Ctor, func(in ssa.Instruction) {
				b, ok := in.(*ssa.BinOp)
				if !ok || b.Referrers() == nil {
					return
				}
				for _, u := range *b.Referrers() {
					iff, isIf := u.(*ssa.If)
					if !isIf {
						continue
					}
					// n > 0 / 0 < n guarding an Add: its false edge
					if k, isC := sx.ConstInt(b.Y); isC && k == 0 && b.Op == token.GTR {
						tb := iff.Block().Succs[0]
						for _, a := range adds {
							if a.Block() == tb {
								skip[sx.Edge{From: iff.Block(), Idx: 1}] = true
							}
						}
					}
					// i < n with i a loop counter starting at 0
					if ph, isPhi := b.X.(*ssa.Phi); isPhi && b.Op == token.LSS {
						zero := false
						for _, e := range ph.Edges {
							if k, isC := sx.ConstInt(e); isC && k == 0 {
								zero = true
							}
						}
						if zero {
							loopTrue[sx.Edge{From: iff.Block(), Idx: 0}] = true
						}
					}
				}
			})
			sameBound := func(e sx.Edge, guard sx.Edge) bool {
				gi := guard.From.Instrs[len(guard.From.Instrs)-1].(*ssa.If).Cond.(*ssa.BinOp)
				li := e.From.Instrs[len(e.From.Instrs)-1].(*ssa.If).Cond.(*ssa.BinOp)
				return sx.ValPath(sx.Unspill(gi.X)) == sx.ValPath(sx.Unspill(li.Y))
			}
			dom := true
			for _, g := range ctorGos {
				if sx.MustPass(t.Ctor, nil, g, cut) {
					continue
				}
				okSkip := false
				if len(skip) > 0 {
					c2 := sx.Cut{Instrs: cut.Instrs, Edges: skip}
					if sx.MustPass(t.Ctor, nil, g, c2) {
						okSkip = true
						for se := range skip {
							lt := map[sx.Edge]bool{}
							for le := range loopTrue {
								if sameBound(le, se) {
									lt[le] = true
								}
							}
							tb := se.To()
							if len(tb.Instrs) > 0 && (tb.Instrs[0] == ssa.Instruction(g) || sx.ReachInstr(t.Ctor, tb.Instrs[0], g, sx.Cut{Edges: lt, Instrs: cut.Instrs})) {
								okSkip = false
							}
						}
					}
				}
				if !okSkip {
					dom = false
				}
			}
			r.Check(dom, "C07-R3", "constructor: wg.Add dominates every go statement", p.Pos(adds[0].Pos()), "Add happens-before all goroutine starts", "a go statement is reachable without wg.Add having run")
			// symbolic count
			okCount, detail := checkAddCount(p, t, adds, ctorGos)
			r.Check(okCount, "C07-R3", "constructor: wg.Add count equals the number of goroutines started", p.Pos(adds[0].Pos()), detail, detail)
			// …and the goroutines counted are really started: no way out of the constructor between an Add made ahead of a
			// loop and that loop (an early return would leave the counter above zero for ever: Wait() never returns)
			{
				var early []string
				for _, a := range adds {
					if sx.InnermostLoop(t.Ctor, a.Block()) != nil {
						continue
					}
					hs := map[*ssa.BasicBlock]bool{}
					for _, g := range ctorGos {
						if h := sx.InnermostLoop(t.Ctor, g.Block()); h != nil {
							hs[h] = true
						}
					}
					if len(hs) == 0 {
						continue
					}
					// a one-block `for range n` loop is entered behind its guard `0 < n`: the guard's other edge is the loop
					// running zero times, not a way around it
					skip := map[sx.Edge]bool{}
					for h := range hs {
						if len(h.Succs) > 0 && h.Succs[0] == h {
							for _, pr := range h.Preds {
								if pr != h && len(pr.Succs) == 2 && pr.Succs[0] == h {
									skip[sx.Edge{From: pr, Idx: 1}] = true
								}
							}
						}
					}
					for _, ret := range sx.Returns(t.Ctor) {
						if sx.ReachInstr(t.Ctor, a, ret, sx.Cut{Blocks: hs, Edges: skip}) {
							early = append(early, "the return at "+p.Pos(ret.Pos())+" is reachable after wg.Add at "+p.Pos(a.Pos())+" without entering the loop that starts the goroutines")
						}
					}
				}
				r.Check(len(early) == 0, "C07-R3", "constructor: every counted goroutine is started", p.FuncPos(t.Ctor), "no return between wg.Add and the loop that starts the goroutines", strings.Join(uniq(early), "; ")+": Wait() blocks for ever on such a lane")
			}
		}
	}
	for _, g := range t.GoSites {
		if g.Parent() == t.Ctor {
			continue
		}
		// go outside the constructor: needs Add(1) right before on every path
		fn := g.Parent()
		cut := sx.Cut{Instrs: map[ssa.Instruction]bool{}}
		sx.Instrs(fn, func(in ssa.Instruction) {
			if c, ok := in.(*ssa.Call); ok && sx.CalleeName(c) == "(*sync.WaitGroup).Add" {
				if k, isC := sx.ConstInt(c.Call.Args[1]); isC && k == 1 {
					cut.Instrs[in] = true
				}
			}
		})
		body := sx.StaticCallee(g)
		counted := t.GoRole[g] != "" || sameFn(body, t.Queue) || sameFn(body, t.Worker) || sameFn(body, t.QueueEntry) || sameFn(body, t.WorkerEntry)
		ok := !counted || (len(cut.Instrs) > 0 && sx.MustPass(fn, nil, g, cut))
		r.Check(ok, "C07-R3", "go statement in "+fnName(fn)+" is counted", p.Pos(g.Pos()), "Add(1) precedes the go statement", "a goroutine running "+fnName(body)+" (which calls wg.Done) is started without wg.Add(1): the counter reaches zero while a worker is still running and Wait returns early")
	}
	if w := p.Method("tasklane", "TaskLane", "Wait"); w != nil {
		okW := false
		sx.Instrs(w, func(in ssa.Instruction) {
			if c, ok := in.(*ssa.Call); ok && isWG(c, "Wait") {
				okW = true
			}
		})
		r.Check(okW, "C07-R3", "Wait waits for the group", p.FuncPos(w), "calls wg.Wait on the lane's group", "Wait does not call wg.Wait on the lane's WaitGroup")
	} else {
		r.Fail("C07-R3", "Wait", "-", "method Wait not found")
	}

	// ---- R4
	{
		var gos []string
		for f := range reachableFrom(p, t.Worker) {
			sx.Instrs(f, func(in ssa.Instruction) {
				if _, ok := in.(*ssa.Go); ok {
					gos = append(gos, fnName(f)+" at "+p.Pos(in.Pos()))
				}
			})
		}
		r.Check(len(gos) == 0, "C07-R4", "no goroutine is started from the worker body", p.FuncPos(t.Worker), "Start happens-before the worker's wg.Done, hence before Wait returns", "a go statement is reachable from the worker body ("+strings.Join(gos, ", ")+"): work can start or continue after Wait returned")
	}

	// ---- R5
	for _, spec := range []struct {
		fn   *ssa.Function
		name string
		pred func(a sx.Arm) bool
	}{
		{t.WorkerLoop, "worker: task receives are behind a Done check", func(a sx.Arm) bool {
			if a.State == nil || a.State.Dir != types.RecvOnly {
				return false
			}
			role := t.chanRole(a.State.Chan)
			return role == "blocking" || role == "shared"
		}},
		{t.Queue, "queue goroutine: hand-over sends are behind a Done check", func(a sx.Arm) bool {
			return a.State != nil && a.State.Dir == types.SendOnly
		}},
	} {
		hdr := outerLoop(spec.fn)
		defaults := t.doneCheckDefaults(spec.fn)
		ok := hdr != nil && len(defaults) > 0
		why := "no non-blocking ctx.Done() check in the loop"
		if ok {
			// per iteration: from the loop head, the select holding such an arm is reachable only through a default edge
			sx.Instrs(spec.fn, func(in ssa.Instruction) {
				sel, isS := in.(*ssa.Select)
				if !isS {
					return
				}
				arms, _ := sx.SelectArms(sel)
				has := false
				for _, a := range arms {
					if spec.pred(a) {
						has = true
					}
				}
				if !has {
					return
				}
				if hdr.Instrs[0] == ssa.Instruction(sel) || sx.ReachInstr(spec.fn, hdr.Instrs[0], sel, sx.Cut{Edges: defaults}) {
					ok = false
					why = "the select at " + p.Pos(sel.Pos()) + " is reachable from the loop head without passing a ctx.Done() check: after cancellation it may still pick a task arm"
				}
			})
		}
		r.Check(ok, "C07-R5", spec.name, p.FuncPos(spec.fn), "every such select is preceded, in the same iteration, by a non-blocking ctx.Done() check", why)
	}
}

// canonCount resolves a count expression of the constructor to its source: len(list) of a lane list made
// with make([]chan Task, n) is n.
func (t *tlInfo) canonCount(v ssa.Value) ssa.Value {
	for i := 0; i < 6; i++ {
		v = sx.Unspill(v)
		// a field of the lane under construction read back (`tl.laneSize` in a start helper): what the constructor stored
		if ld, ok := v.(*ssa.UnOp); ok && ld.Op == token.MUL {
			if fa, ok := ld.X.(*ssa.FieldAddr); ok && sx.IsFreshObject(fa.X) {
				var stored ssa.Value
				n := 0
				sx.Instrs(ld.Parent(), func(in ssa.Instruction) {
					if st, ok := in.(*ssa.Store); ok {
						if fa2, ok := st.Addr.(*ssa.FieldAddr); ok && fa2.X == fa.X && fa2.Field == fa.Field {
							n++
							stored = st.Val
						}
					}
				})
				if n == 1 {
					v = stored
					continue
				}
			}
			return v
		}
		c, ok := v.(*ssa.Call)
		if !ok {
			return v
		}
		if b, isB := c.Call.Value.(*ssa.Builtin); !isB || b.Name() != "len" || len(c.Call.Args) != 1 {
			return v
		}
		arg := sx.Unspill(c.Call.Args[0])
		if ms, ok := arg.(*ssa.MakeSlice); ok {
			v = ms.Len
			continue
		}
		var found ssa.Value
		n := 0
		cands := append([]*types.Var{t.Buffered, t.Blocking}, t.Containers...)
		for _, f := range cands {
			if f == nil || !sx.Origins(arg)[t.fieldKey(f)] {
				continue
			}
			for _, ref := range sx.FieldRefs([]*ssa.Function{t.Ctor}, f) {
				fa, ok := ref.Instr.(*ssa.FieldAddr)
				if !ok {
					continue
				}
				for _, a := range sx.Accesses(fa) {
					if a.Kind == "write" {
						n++
						if ms, ok := sx.Unspill(a.Val).(*ssa.MakeSlice); ok {
							found = ms.Len
						}
					}
				}
			}
		}
		if n != 1 || found == nil {
			return v
		}
		v = found
	}
	return v
}

// explicitDoneOK: a goroutine entry that calls wg.Done() explicitly instead of deferring it is as good when nothing it
// runs can panic past the call — it invokes no task and no function value — and every path to a return passes exactly
// one wg.Done().
func explicitDoneOK(p *core.Prog, t *tlInfo, body *ssa.Function, isWG func(ssa.CallInstruction, string) bool) bool {
	dones := map[ssa.Instruction]bool{}
	risky := false
	for _, f := range viewFuncs(p, body) {
		sx.Instrs(f, func(in ssa.Instruction) {
			c, ok := in.(ssa.CallInstruction)
			if !ok {
				return
			}
			if _, isDefer := c.(*ssa.Defer); isDefer {
				if isWG(c, "Done") {
					risky = true // deferred: the ordinary rule applies
				}
				return
			}
			if call, isCall := c.(*ssa.Call); isCall && isWG(call, "Done") && f == body {
				dones[in] = true
				return
			}
			if t.isStart(c) {
				risky = true
			}
			if _, isB := c.Common().Value.(*ssa.Builtin); !isB && !c.Common().IsInvoke() && sx.StaticCallee(c) == nil {
				risky = true // a function value: unknown code
			}
		})
	}
	if risky || len(dones) == 0 {
		return false
	}
	w := sx.Weights{Instr: func(in ssa.Instruction) sx.Range {
		if dones[in] {
			return sx.Range{Min: 1, Max: 1}
		}
		return sx.Range{}
	}}
	res := sx.Count(body, body.Blocks[0], w, nil)
	n := 0
	for _, ret := range sx.Returns(body) {
		rg, ok := res.Before(ret)
		if !ok || !rg.Is(1) {
			return false
		}
		n++
	}
	return n > 0
}

// checkAddCount compares the wg.Add calls of the constructor with the go
// statements it runs: a loop (or the straight-line part) that holds Add calls
// must add, per iteration, exactly the number of its go statements; go
// statements in loops without an Add of their own are covered by the one Add
// outside all loops, whose argument must equal (go statements per iteration)
// x (trip count), as expressions over the constructor's parameters.
func checkAddCount(p *core.Prog, t *tlInfo, adds []*ssa.Call, gos []*ssa.Go) (bool, string) {
	if len(gos) == 0 {
		return false, "no go statements in the constructor"
	}
	perLoop := map[*ssa.BasicBlock]int{} // nil key: outside all loops
	for _, g := range gos {
		perLoop[sx.InnermostLoop(t.Ctor, g.Block())]++
	}
	addIn := map[*ssa.BasicBlock][]*ssa.Call{}
	for _, a := range adds {
		h := sx.InnermostLoop(t.Ctor, a.Block())
		addIn[h] = append(addIn[h], a)
	}
	var notes []string
	uncovered := map[*ssa.BasicBlock]int{}
	for h, n := range perLoop {
		if h == nil {
			continue
		}
		as := addIn[h]
		if len(as) == 0 {
			uncovered[h] = n
			continue
		}
		sum := 0
		for _, a := range as {
			k, ok := sx.ConstInt(a.Call.Args[1])
			if !ok {
				return false, "wg.Add(" + sx.ValPath(a.Call.Args[1]) + ") inside a loop: not a constant per-iteration count"
			}
			sum += int(k)
		}
		if sum != n {
			return false, fmt.Sprintf("a loop adds %d per iteration but starts %d goroutine(s) per iteration: Wait would return early or hang", sum, n)
		}
		notes = append(notes, fmt.Sprintf("Add(%d) per iteration for %d go statement(s) per iteration", sum, n))
	}
	for h, as := range addIn {
		if h != nil && perLoop[h] == 0 {
			return false, "wg.Add at " + p.Pos(as[0].Pos()) + " is in a loop that starts no goroutine"
		}
	}
	outer := addIn[nil]
	straight := perLoop[nil]
	if len(uncovered) == 0 {
		sum := 0
		for _, a := range outer {
			k, ok := sx.ConstInt(a.Call.Args[1])
			if !ok {
				return false, "wg.Add(" + sx.ValPath(a.Call.Args[1]) + ") outside the loops although every loop adds for itself"
			}
			sum += int(k)
		}
		if sum != straight {
			return false, fmt.Sprintf("Add(%d) outside the loops for %d go statement(s) there", sum, straight)
		}
		if straight > 0 {
			notes = append(notes, fmt.Sprintf("Add(%d) for %d go statement(s) outside loops", sum, straight))
		}
		return true, strings.Join(notes, "; ")
	}
	if len(outer) != 1 {
		return false, fmt.Sprintf("%d wg.Add calls outside the loops for goroutines started in loops: the total cannot be compared symbolically", len(outer))
	}
	if straight > 0 {
		return false, "go statements both inside and outside loops under one wg.Add: the total cannot be compared with wg.Add symbolically"
	}
	arg := outer[0].Call.Args[1]
	var bound ssa.Value
	total := 0
	for h, n := range uncovered {
		b, ok := sx.LoopTrip(h)
		if !ok {
			return false, "cannot determine the trip count of a loop that starts goroutines"
		}
		b = t.canonCount(b)
		if bound != nil && bound != b {
			return false, "loops that start goroutines have different trip counts: the total cannot be compared with wg.Add symbolically"
		}
		bound = b
		total += n
	}
	want := fmt.Sprintf("%s × %d", sx.ValPath(bound), total)
	if b, ok := sx.Unspill(arg).(*ssa.BinOp); ok && b.Op == token.MUL {
		for _, pr := range [][2]ssa.Value{{b.X, b.Y}, {b.Y, b.X}} {
			if k, isC := sx.ConstInt(pr[1]); isC && int(k) == total && t.canonCount(pr[0]) == bound {
				notes = append(notes, "Add("+want+") for "+fmt.Sprint(total)+" go statements per "+sx.ValPath(bound)+" iterations")
				return true, strings.Join(notes, "; ")
			}
		}
	}
	if total == 1 && t.canonCount(arg) == bound {
		notes = append(notes, "Add("+sx.ValPath(bound)+") for one go statement per iteration")
		return true, strings.Join(notes, "; ")
	}
	return false, "wg.Add(" + sx.ValPath(arg) + ") but the loops start " + want + " goroutines: Wait would return early or hang"
}

func runC08(p *core.Prog, r *core.Report) {
	r.Rule("C08-R1", "concurrency bound: Start is called only synchronously in the worker body, once per iteration; worker goroutines are started only by the constructor, one go statement per iteration of the loop bounded by laneSize", 3)
	r.Rule("C08-R2", "shared hand-over is wired: the queue goroutine's blocking select offers the held task on both its own hand-over channel and the shared channel, the worker's blocking select receives from both; the shared channel is one object made once; all hand-over channels are unbuffered", 4)
	r.NotDecided = append(r.NotDecided, "'started as soon as any worker is idle' as a timing/scheduler statement")
	r.Trusted = append(r.Trusted, "Go channel semantics (unbuffered = rendezvous)", "go/ssa")

	t := resolveTaskLane(p)
	if !t.anchors(r) {
		return
	}
	// an idle worker takes the next task and starts it: nothing it has to wait for lies between — a lock taken around
	// Start (a pause gate, a "wait until idle" barrier with a pending writer) parks idle workers while tasks wait
	{
		var locks []string
		for _, f := range viewFuncs(p, t.Worker) {
			for _, g := range sx.WithClosures(f) {
				sx.Instrs(g, func(in ssa.Instruction) {
					c, ok := in.(*ssa.Call)
					if !ok {
						return
					}
					switch n := sx.CalleeName(c); n {
					case "(*sync.Mutex).Lock", "(*sync.RWMutex).Lock", "(*sync.RWMutex).RLock", "(*sync.Cond).Wait":
						locks = append(locks, short(n)+" in "+fnName(g)+" at "+p.Pos(in.Pos()))
					}
				})
			}
		}
		r.Check(len(locks) == 0, "C08-R2", "the worker waits for nothing but tasks", p.FuncPos(t.Worker), "no lock or condition wait in the worker goroutine", strings.Join(uniq(locks), "; ")+": a worker that is idle can be held there while an accepted task waits (all workers stall behind one writer)")
	}
	// ---- R1
	{
		var workerGos []*ssa.Go
		var elsewhere []string
		for _, g := range t.GoSites {
			if role, known := t.GoRole[g]; known {
				if role != "worker" {
					continue
				}
			} else if !sameFn(sx.StaticCallee(g), t.Worker) {
				continue
			}
			workerGos = append(workerGos, g)
			if g.Parent() != t.Ctor {
				elsewhere = append(elsewhere, fnName(g.Parent())+" at "+p.Pos(g.Pos()))
			}
		}
		r.Check(len(elsewhere) == 0 && len(workerGos) > 0, "C08-R1", "worker goroutines are started only by the constructor", p.FuncPos(t.Ctor), fmt.Sprintf("%d go statement(s), all in %s", len(workerGos), fnName(t.Ctor)), "a worker goroutine is started outside the constructor ("+strings.Join(elsewhere, ", ")+"): more than laneSize tasks can run at once")
		// one per iteration of a loop bounded by the laneSize parameter
		okLoop, why := false, "worker go statement is not inside a counted loop"
		nInCtor := 0
		for _, g := range workerGos {
			if g.Parent() != t.Ctor {
				continue
			}
			nInCtor++
			for _, h := range sx.LoopHeaders(t.Ctor) {
				// (the test block of an ordinary loop runs once more than the body; a one-block `for range n` loop is
				// body and test at once and runs n times behind its guard)
				if !sx.LoopBody(h)[g.Block()] || (g.Block() == h && (len(h.Succs) == 0 || h.Succs[0] != h)) {
					continue
				}
				bound, ok := sx.LoopTrip(h)
				if !ok {
					continue
				}
				if prm, isParam := t.canonCount(bound).(*ssa.Parameter); isParam {
					// the same parameter is stored as laneSize / used for the channel lists
					okLoop = true
					why = "one go statement per iteration of a loop that runs " + prm.Name() + " times"
				}
			}
		}
		if nInCtor != 1 {
			okLoop, why = false, fmt.Sprintf("%d go statements start workers in the constructor (expected one per lane)", nInCtor)
		}
		r.Check(okLoop, "C08-R1", "exactly one worker per lane", p.FuncPos(t.Ctor), why, why)
		// every goroutine the constructor starts in a loop is started on every iteration (no lane without its queue or worker)
		{
			var cond []string
			for _, g := range t.GoSites {
				if g.Parent() != t.Ctor {
					continue
				}
				h := sx.InnermostLoop(t.Ctor, g.Block())
				if h == nil || len(h.Instrs) == 0 {
					continue
				}
				for e := range sx.BackEdgesTo(h) {
					latch := e.From
					if latch == g.Block() {
						continue
					}
					// from the loop head, can the back edge be reached without passing the go statement?
					if sx.ReachInstr(t.Ctor, h.Instrs[0], latch.Instrs[len(latch.Instrs)-1], sx.Cut{Instrs: map[ssa.Instruction]bool{g: true}}) && g.Block() != h {
						cond = append(cond, "the go statement at "+p.Pos(g.Pos())+" is skipped on some iterations of the constructor's loop")
					}
				}
			}
			r.Check(len(cond) == 0, "C08-R1", "every lane gets all of its goroutines", p.FuncPos(t.Ctor), "each go statement of the constructor's loop runs on every iteration", strings.Join(uniq(cond), "; ")+": a lane without its queue goroutine never offers its tasks on the shared channel — they wait behind that lane's busy worker while other workers idle")
		}
		// every element of the lane lists is a channel of its own
		{
			var al []string
			for _, st := range t.AliasElems {
				al = append(al, "the lane-list element assigned at "+p.Pos(st.Pos())+" is "+short(sx.ValPath(st.Val))+", not a channel made for it")
			}
			r.Check(len(al) == 0, "C08-R2", "lane channels are distinct objects", p.FuncPos(t.Ctor), fmt.Sprintf("%d channel(s) made per iteration, one per list element", len(t.ElemChans)), strings.Join(al, "; ")+": with the buffered and the hand-over channel being one object PushTask talks to the lane's worker directly and the shared channel is never offered the task")
		}
		// Start only synchronous in the worker body (same check as C06-R4, restated for the bound)
		wreach := reachableFrom(p, t.Worker)
		okWho := true
		where := ""
		for _, fn := range p.ModuleFuncs() {
			sx.Instrs(fn, func(in ssa.Instruction) {
				c, ok := in.(ssa.CallInstruction)
				if !ok || !t.isStart(c) {
					return
				}
				if _, isGo := c.(*ssa.Go); isGo || !wreach[fn] || !onlyCalledFrom(p, fn, map[*ssa.Function]bool{t.Worker: true}) {
					okWho = false
					where = fnName(fn) + " at " + p.Pos(in.Pos())
				}
			})
		}
		for f := range wreach {
			sx.Instrs(f, func(in ssa.Instruction) {
				if _, isGo := in.(*ssa.Go); isGo {
					okWho = false
					where = "go statement in " + fnName(f) + " at " + p.Pos(in.Pos())
				}
			})
		}
		r.Check(okWho, "C08-R1", "Start runs synchronously in a worker goroutine", p.FuncPos(t.Worker), "each worker runs one task body at a time", "Start is reachable outside the worker's synchronous loop: "+where)
	}
	// ---- R2
	wiring := func(fn *ssa.Function, dir types.ChanDir, who string) {
		best := ""
		ok := false
		partial := ""
		sx.Instrs(fn, func(in ssa.Instruction) {
			sel, isS := in.(*ssa.Select)
			if !isS || !sel.Blocking {
				return
			}
			own, shared := false, false
			for _, st := range sel.States {
				if st.Dir != dir {
					continue
				}
				switch t.chanRole(st.Chan) {
				case "blocking":
					own = true
				case "shared":
					shared = true
				}
			}
			if own || shared {
				best = fmt.Sprintf("blocking select at %s: own lane=%v shared=%v", p.Pos(sel.Pos()), own, shared)
				if own && shared {
					ok = true
				} else {
					// every blocking hand-over select counts: one that waits on the own lane only (until a timer fires, say)
					// keeps the task from idle workers for that long
					partial = best
				}
			}
		})
		if partial != "" {
			ok, best = false, partial
		}
		verb := map[types.ChanDir]string{types.SendOnly: "offers the held task on", types.RecvOnly: "listens on"}[dir]
		r.Check(ok, "C08-R2", who+": blocking select "+verb+" own lane and shared channel", p.FuncPos(fn), best, "the blocking hand-over select of the "+who+" does not cover both the lane's own channel and the shared channel ("+best+"): a task waits behind a busy worker while another worker is idle")
	}
	wiring(t.Queue, types.SendOnly, "queue goroutine")
	wiring(t.WorkerLoop, types.RecvOnly, "worker goroutine")
	// shared channel: one object, made once, unbuffered
	{
		n := 0
		okCap := true
		for _, ref := range sx.FieldRefs(p.ModuleFuncs(), t.Shared) {
			fa, ok := ref.Instr.(*ssa.FieldAddr)
			if !ok {
				continue
			}
			for _, a := range sx.Accesses(fa) {
				if a.Kind != "write" {
					continue
				}
				n++
				mc, isMC := sx.Unspill(a.Val).(*ssa.MakeChan)
				if !isMC {
					okCap = false
					continue
				}
				if k, isC := sx.ConstInt(mc.Size); !isC || k != 0 {
					okCap = false
				}
			}
		}
		// installed on every path of the constructor (a conditionally created channel is nil for some sizes: select arms on nil never fire)
		uncond := true
		cutS := sx.Cut{Instrs: map[ssa.Instruction]bool{}}
		sx.Instrs(t.Ctor, func(in ssa.Instruction) {
			if st, ok := in.(*ssa.Store); ok {
				if fa, ok := st.Addr.(*ssa.FieldAddr); ok && sx.FieldOf(fa) == t.Shared {
					cutS.Instrs[in] = true
				}
			}
		})
		for _, ret := range sx.Returns(t.Ctor) {
			if len(cutS.Instrs) == 0 || sx.ReachInstr(t.Ctor, nil, ret, cutS) {
				uncond = false
			}
		}
		if !uncond {
			okCap = false
		}
		r.Check(n == 1 && okCap, "C08-R2", "shared hand-over channel is one unbuffered channel", p.FuncPos(t.Ctor), "made once, unconditionally, with capacity 0", fmt.Sprintf("shared channel assigned %d time(s), unbuffered and on every constructor path=%v: a buffered hand-over parks a task where no idle worker is guaranteed to look; a channel that is only created for some lane counts is nil otherwise and its select arms never fire", n, okCap))
	}
	// the per-lane hand-over channels are unbuffered: resolved by construction (Blocking = list whose channels have constant capacity 0)
	r.OK("C08-R2", "per-lane hand-over channels are unbuffered", p.FuncPos(t.Ctor), t.Blocking.Name()+" elements are made with constant capacity 0")
}
