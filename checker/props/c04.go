package props

import (
	"fmt"
	"go/ast"
	"go/constant"
	"go/token"
	_ "go/token"
	"go/types"
	"sort"
	"strings"

	"golang.org/x/tools/go/ssa"

	"glbverif/checker/core"
	"glbverif/checker/sx"
	"glbverif/checker/zones"
)

func init() { register("C04", "httpd", runC04) }

// mapLookupOn: Lookup instructions (comma-ok or not) on a map loaded from field f.
type nextLookup struct {
	in    *ssa.Lookup
	key   ssa.Value
	kind  string // "segment", "const:<value>", "methodtag:<key expr>"
	hit   map[sx.Edge]bool
	miss  map[sx.Edge]bool
	value ssa.Value // extract #0
}

// methodTagFn: when the method → tag translation is a function (`func methodTag(method string) (tag string, ok bool)`
// with a switch over the method names) instead of a map literal, that function; its table is read from its returns.
var methodTagFn *ssa.Function

// tagCallArg: v is the tag result of a call of the tag function: returns the method argument.
func tagCallArg(v ssa.Value) (ssa.Value, bool) {
	if methodTagFn == nil {
		return nil, false
	}
	v = sx.Unspill(v)
	if e, ok := v.(*ssa.Extract); ok && e.Index == 0 {
		v = e.Tuple
	}
	c, ok := v.(*ssa.Call)
	if !ok || !sameFn(sx.StaticCallee(c), methodTagFn) || len(c.Call.Args) == 0 {
		return nil, false
	}
	return c.Call.Args[len(c.Call.Args)-1], true
}

// findMethodTagFn: a function of package httpd with one string parameter whose first result is a string and whose
// returns carry at least five distinct constant strings starting with '/', each behind `param == <method constant>`.
func findMethodTagFn(p *core.Prog) (*ssa.Function, map[string]string) {
	for _, fn := range p.PkgFuncs("httpd") {
		if fn.Parent() != nil || fn.Blocks == nil || len(fn.Params) != 1 || !isStringT(fn.Params[0].Type()) {
			continue
		}
		res := fn.Signature.Results()
		if res.Len() == 0 || !isStringT(res.At(0).Type()) {
			continue
		}
		table := map[string]string{}
		sx.Instrs(fn, func(in ssa.Instruction) {
			b, ok := in.(*ssa.BinOp)
			if !ok || b.Op != token.EQL || b.X != ssa.Value(fn.Params[0]) || b.Referrers() == nil {
				return
			}
			m, isC := sx.ConstString(b.Y)
			if !isC {
				return
			}
			for _, u := range *b.Referrers() {
				if iff, ok := u.(*ssa.If); ok {
					if _, rv, ok := edgeReturn(sx.Edge{From: iff.Block(), Idx: 0}, 0); ok {
						if v, isV := sx.ConstString(rv); isV {
							table[m] = v
						}
					}
				}
			}
		})
		n := 0
		for _, v := range table {
			if strings.HasPrefix(v, "/") {
				n++
			}
		}
		if n >= 5 {
			return fn, table
		}
	}
	return nil, nil
}

var methodTagFnTable map[string]string

// regKey: one child name the registration uses for a trie transition: a constant given directly to a node method
// (`node.nextNodeOrNew(routeParam)`) or appended to the list of child names that a later loop hands to that method
// (`names = append(names, routeParam)` … `for _, n := range names { node = node.nextNodeOrNew(n) }`).
type regKey struct {
	At  ssa.Instruction
	Key string
}

// appendElems: the explicit elements of `append(l, a, b)` (go/ssa stores them into a fresh array and passes its slice).
func appendElems(c *ssa.Call) []ssa.Value {
	if !isBuiltin(c, "append") || len(c.Call.Args) != 2 {
		return nil
	}
	sl, ok := c.Call.Args[1].(*ssa.Slice)
	if !ok {
		return nil
	}
	al, ok := sl.X.(*ssa.Alloc)
	if !ok || al.Referrers() == nil {
		return nil
	}
	var out []ssa.Value
	for _, u := range *al.Referrers() {
		if ia, ok := u.(*ssa.IndexAddr); ok && ia.Referrers() != nil {
			for _, uu := range *ia.Referrers() {
				if st, ok := uu.(*ssa.Store); ok && st.Addr == ssa.Value(ia) {
					out = append(out, st.Val)
				}
			}
		}
	}
	return out
}

// regKeys: the constant child names of the registration, and the set of SSA values that make up the child-name list
// (empty when the registration inserts as it goes).
func regKeys(p *core.Prog, parse *ssa.Function) ([]regKey, map[ssa.Value]bool) {
	var out []regKey
	list := map[ssa.Value]bool{}
	var grow func(v ssa.Value)
	grow = func(v ssa.Value) {
		if v == nil || list[v] {
			return
		}
		switch x := v.(type) {
		case *ssa.Phi:
			list[v] = true
			for _, e := range x.Edges {
				grow(e)
			}
		case *ssa.Call:
			if isBuiltin(x, "append") {
				list[v] = true
				grow(x.Call.Args[0])
			}
		}
	}
	sx.Instrs(parse, func(in ssa.Instruction) {
		c, ok := in.(*ssa.Call)
		if !ok {
			return
		}
		callee := sx.StaticCallee(c)
		if callee == nil || !p.InModule(callee) || callee.Signature.Recv() == nil {
			return
		}
		for _, a := range c.Call.Args {
			if k, isC := sx.ConstString(a); isC {
				out = append(out, regKey{in, k})
				continue
			}
			// element of a []string list
			if ld, ok := a.(*ssa.UnOp); ok && ld.Op == token.MUL {
				if ia, ok := ld.X.(*ssa.IndexAddr); ok && ia.X.Type().String() == "[]string" {
					grow(ia.X)
				}
			}
		}
	})
	sx.Instrs(parse, func(in ssa.Instruction) {
		c, ok := in.(*ssa.Call)
		if !ok || !list[c] {
			return
		}
		for _, e := range appendElems(c) {
			if k, isC := sx.ConstString(e); isC {
				out = append(out, regKey{in, k})
			}
		}
	})
	return out, list
}

// tagParamArgs: for every parameter of a function of package httpd, the values its static callers in the package pass.
// tagViaParam: some method-tag lookup was recognised through such a parameter (the table is read by the caller).
var (
	tagParamArgs map[*ssa.Parameter][]ssa.Value
	tagViaParam  bool
)

func collectParamArgs(p *core.Prog) {
	tagParamArgs = map[*ssa.Parameter][]ssa.Value{}
	tagViaParam = false
	for _, fn := range p.PkgFuncs("httpd") {
		sx.Instrs(fn, func(in ssa.Instruction) {
			c, ok := in.(ssa.CallInstruction)
			if !ok {
				return
			}
			callee := sx.StaticCallee(c)
			if callee == nil || !p.InModule(callee) || callee.Blocks == nil {
				return
			}
			for i, a := range sx.Args(c) {
				if i < len(callee.Params) {
					tagParamArgs[callee.Params[i]] = append(tagParamArgs[callee.Params[i]], a)
				}
			}
		})
	}
}

// keyKind classifies a key given to the child map: a constant, a method tag (read from the table / tag function), or a
// path segment.
func keyKind(key ssa.Value, methodTags *ssa.Global) string {
	if s, isC := sx.ConstString(key); isC {
		return "const:" + s
	}
	if e, isE := key.(*ssa.Extract); isE && e.Index == 0 {
		if inner, isL := e.Tuple.(*ssa.Lookup); isL && inner.CommaOk {
			key = inner
		}
	}
	if inner, isL := key.(*ssa.Lookup); isL && methodTags != nil && sx.Origins(inner.X)["global:"+methodTags.Name()] {
		if s, isC := sx.ConstString(inner.Index); isC {
			return "methodtag:const:" + s
		}
		return "methodtag:" + sx.ValPath(inner.Index)
	}
	if arg, isT := tagCallArg(key); isT {
		if s, isC := sx.ConstString(arg); isC {
			return "methodtag:const:" + s
		}
		return "methodtag:" + sx.ValPath(arg)
	}
	return "segment"
}

func lookupsOn(fn *ssa.Function, field string, methodTags *ssa.Global) []*nextLookup {
	var out []*nextLookup
	sx.Instrs(fn, func(in ssa.Instruction) {
		lk, ok := in.(*ssa.Lookup)
		if !ok || !sx.Origins(lk.X)[field] {
			return
		}
		nl := &nextLookup{in: lk, key: lk.Index, hit: map[sx.Edge]bool{}, miss: map[sx.Edge]bool{}}
		nl.kind = keyKind(lk.Index, methodTags)
		if prm, isP := lk.Index.(*ssa.Parameter); isP && nl.kind == "segment" {
			// the key is a parameter: when every caller of the package passes a method tag of the same kind (`tag :=
			// methodTagMap[method]` computed once by the caller), the lookup is that method-tag lookup
			kinds := map[string]bool{}
			if of := sx.OrigFunc(fn); of != nil && of != fn { // an inlined view: the callers name the source function's parameter
				for i, q := range fn.Params {
					if q == prm && i < len(of.Params) {
						prm = of.Params[i]
					}
				}
			}
			for _, a := range tagParamArgs[prm] {
				kinds[keyKind(a, methodTags)] = true
			}
			if len(kinds) == 1 {
				for k := range kinds {
					if strings.HasPrefix(k, "methodtag:") {
						nl.kind = k
						tagViaParam = true
					}
				}
			}
		}
		if lk.CommaOk {
			for _, u := range *lk.Referrers() {
				e, ok := u.(*ssa.Extract)
				if !ok {
					continue
				}
				if e.Index == 0 {
					nl.value = e
				} else {
					for _, uu := range *e.Referrers() {
						if iff, ok := uu.(*ssa.If); ok {
							nl.hit[sx.Edge{From: iff.Block(), Idx: 0}] = true
							nl.miss[sx.Edge{From: iff.Block(), Idx: 1}] = true
						}
					}
				}
			}
		} else {
			nl.value = lk
		}
		out = append(out, nl)
	})
	return out
}

// methodTagTable reads the composite literal of the method-tag map (request method → reserved trie key).
func methodTagTable(p *core.Prog, methodTags *ssa.Global) map[string]string {
	out := map[string]string{}
	pk := p.Pkgs["httpd"]
	if methodTags == nil && methodTagFnTable != nil {
		return methodTagFnTable
	}
	if pk == nil || methodTags == nil {
		return out
	}
	for _, f := range pk.Syntax {
		ast.Inspect(f, func(n ast.Node) bool {
			vs, ok := n.(*ast.ValueSpec)
			if !ok {
				return true
			}
			for i, nm := range vs.Names {
				if i >= len(vs.Values) || nm.Name != methodTags.Name() {
					continue
				}
				if cl, ok := vs.Values[i].(*ast.CompositeLit); ok {
					for _, e := range cl.Elts {
						kv, ok := e.(*ast.KeyValueExpr)
						if !ok {
							continue
						}
						k, v := pk.TypesInfo.Types[kv.Key].Value, pk.TypesInfo.Types[kv.Value].Value
						if k != nil && v != nil && k.Kind() == constant.String && v.Kind() == constant.String {
							out[constant.StringVal(k)] = constant.StringVal(v)
						}
					}
				}
			}
			return true
		})
	}
	return out
}

func runC04(p *core.Prog, r *core.Report) {
	r.Rule("C04-R1", "panic-freedom: every index and slice expression of ServeHTTP, the route lookup, the method lookup and Params.Get is in bounds for every path and method string (zones); the Mux fields ServeHTTP dereferences are assigned by the constructor", 6)
	r.Rule("C04-R2", "exactly one dispatch: every path of ServeHTTP calls the relay handler exactly once; the default relay calls the selected route's handler exactly once", 2)
	r.Rule("C04-R3", "precedence by control flow: within one step of the walk the :param lookup is reachable only from the miss edge of the literal lookup, the * lookup only from the miss edge of the :param lookup, `return nil` only after all three missed, the * arm ends the walk; the '*' method is consulted only when the exact method missed; a route is returned only after a successful method lookup", 5)
	r.Rule("C04-R4", "namespace separation and reader/writer agreement: every method tag and both parameter keys start with '/' (a path segment never does) and are pairwise distinct; the constant keys the registration inserts are exactly those the lookup consults", 3)
	r.Rule("C04-R6", "a rejected registration leaves the routing tree unchanged: no path of the registration function leads from a change of the tree (a child created, a node field written) to a return with an error — dispatch depends on the successfully registered routes alone", 1)
	r.Rule("C04-R5", "capture pairing: registration appends one parameter name per :param/* transition, the lookup appends one value per such transition, and every successful return assigns the matched node's name list (so names and values have equal length in handlers)", 4)
	r.NotDecided = append(r.NotDecided, "that the selected route equals a reference matcher's choice for every table × path (a value property of the walk; the empty-segment and no-leading-slash conventions are not re-derived)")
	r.Trusted = append(r.Trusted, "reading a nil map does not panic", "net/http passes ServeHTTP a non-nil *Request with non-nil URL", "go/ssa", "no int overflow on indices")

	serveSrc := p.Method("httpd", "Mux", "ServeHTTP")
	newMuxSrc := p.Func("httpd", "NewMux")
	params := p.Named("httpd", "Params")
	mux := p.Named("httpd", "Mux")
	if serveSrc == nil || newMuxSrc == nil || params == nil || mux == nil {
		r.Fail("ANCHOR", "httpd", "-", "ServeHTTP / NewMux / Params / Mux not found")
		return
	}
	serve := serveSrc // roles are resolved on the source call structure; path rules run on inlined views (below)
	newMux := p.Inl(newMuxSrc)
	// roles: the route lookup = function called from ServeHTTP that takes *Params; the registration = function called from Handle with the same tree type
	var find, parse, methodFn *ssa.Function
	// the route lookup: the function ServeHTTP reaches (directly or through a helper of its own) that takes the *Params to
	// fill and returns the selected route (a pointer to a struct); ties are broken by call depth, then by name
	{
		level := []*ssa.Function{serve}
		seenLv := map[*ssa.Function]bool{serve: true}
		var cands []*ssa.Function
		for depth := 0; depth < 3 && len(level) > 0; depth++ {
			var next []*ssa.Function
			for _, f := range level {
				for _, c := range staticCalls(p).callees[f] {
					if !seenLv[c] && p.InModule(c) && c.Blocks != nil && rootFn(c).Pkg == p.SPkgs["httpd"] {
						seenLv[c] = true
						next = append(next, c)
					}
				}
			}
			sort.Slice(next, func(i, j int) bool { return next[i].String() < next[j].String() })
			for _, c := range next {
				takes := false
				for _, prm := range c.Params {
					if pt := ptrTo(prm.Type()); pt != nil && types.Identical(pt, params) {
						takes = true
					}
				}
				res := c.Signature.Results()
				returnsRoute := false
				if res.Len() >= 1 {
					if pt := ptrTo(res.At(0).Type()); pt != nil {
						if _, isStruct := pt.Underlying().(*types.Struct); isStruct {
							returnsRoute = true
						}
					}
				}
				recvIsParams := c.Signature.Recv() != nil && ptrTo(c.Signature.Recv().Type()) != nil && types.Identical(ptrTo(c.Signature.Recv().Type()), params)
				if takes && returnsRoute && !recvIsParams {
					cands = append(cands, c)
				}
			}
			level = next
		}
		// among wrappers, the walk itself and tail helpers: the walk is the one that loops over the path…
		for _, c := range cands {
			if find == nil && outerLoop(c) != nil {
				find = c
			}
		}
		// …failing that, the one from which no other candidate is reachable
		for _, c := range cands {
			leaf := true
			for f := range reachableFrom(p, c) {
				for _, o := range cands {
					if o != c && f == o {
						leaf = false
					}
				}
			}
			if leaf && find == nil {
				find = c
			}
		}
	}
	if h := p.Method("httpd", "Mux", "Handle"); h != nil {
		for _, c := range staticCalls(p).callees[h] {
			if c.Signature.Results().Len() == 2 && p.InModule(c) && c.Pkg == serve.Pkg {
				parse = c
			}
		}
	}
	if find == nil || parse == nil {
		r.Fail("ANCHOR", "httpd roles", "-", fmt.Sprintf("route lookup=%v registration=%v", find != nil, parse != nil))
		return
	}
	// what is walked is the request's decoded path and its method: literals are registered in decoded form and the
	// captured values are handed to handlers as they are
	{
		sv := p.Inl(serveSrc, find)
		n := 0
		var bad []string
		sx.Instrs(sv, func(in ssa.Instruction) {
			c, ok := in.(*ssa.Call)
			if !ok || !sameFn(sx.StaticCallee(c), find) {
				return
			}
			n++
			sawPath := false
			for _, a := range c.Call.Args {
				if !isStringT(a.Type()) {
					continue
				}
				org := map[string]bool{}
				hasConst := false
				for o := range sx.Origins(a) {
					if !strings.HasPrefix(o, "const") { // a default for the empty path is harmless ("" is walked as "/")
						org[o] = true
					} else {
						hasConst = true
					}
				}
				switch {
				case len(org) == 1 && org["field:URL.Path"]:
					sawPath = true
				case len(org) == 1 && org["field:Request.Method"] && hasConst:
					// the method is the request's own string on every path: a default ("" means GET) would give the empty
					// method — like any unknown one — the exact-method route instead of the '*' route or no route
					bad = append(bad, "the method given to the route lookup at "+p.Pos(c.Pos())+" is replaced by a constant on some path")
				case len(org) == 1 && org["field:Request.Method"]:
				default:
					bad = append(bad, "argument "+short(sx.ValPath(a))+" of the route lookup at "+p.Pos(c.Pos())+" derives from "+keys(org))
				}
			}
			if !sawPath {
				bad = append(bad, "the route lookup at "+p.Pos(c.Pos())+" is not given r.URL.Path")
			}
		})
		r.Check(len(bad) == 0 && n > 0, "C04-R5", "the lookup walks the request's decoded path and method", p.FuncPos(serveSrc), "findRoute(root, r.URL.Path, r.Method, params)", strings.Join(bad, "; ")+": literals would be compared with, and :name/* bound to, a text other than the decoded path (an escaped or rewritten form)")
	}
	// the method lookup: the function reachable from the route lookup that indexes the trie with a method tag
	var findSet []*ssa.Function // the route lookup and its tail helpers (module callees that also return the route)
	for f := range reachableFrom(p, find) {
		if f.Parent() != nil || !p.InModule(f) {
			continue
		}
		if f == find || (f.Signature.Results().Len() == 1 && types.Identical(f.Signature.Results().At(0).Type(), find.Signature.Results().At(0).Type())) {
			findSet = append(findSet, f)
		}
	}
	sort.Slice(findSet, func(i, j int) bool { return findSet[i].String() < findSet[j].String() })
	isTail := map[*ssa.Function]bool{}
	for _, f := range findSet {
		isTail[f] = true
	}
	r.Anchor("route_lookup", fnName(find))
	r.Anchor("registration", fnName(parse))
	node := p.Named("httpd", "treeNode")
	var nextF, nameListF *types.Var
	if node != nil {
		for _, f := range structFields(node) {
			if _, ok := f.Type().Underlying().(*types.Map); ok {
				nextF = f
			}
			if f.Type().String() == "[]string" {
				nameListF = f
			}
		}
	}
	if nextF == nil || nameListF == nil {
		r.Fail("ANCHOR", "trie node fields", "-", "child map / name list not found")
		return
	}
	nextKey := "field:treeNode." + nextF.Name()
	var methodTags *ssa.Global
	for _, m := range p.SPkgs["httpd"].Members {
		if g, ok := m.(*ssa.Global); ok {
			if mt, ok := ptrTo(g.Type()).Underlying().(*types.Map); ok && mt.Key().String() == "string" && mt.Elem().String() == "string" {
				methodTags = g
			}
		}
	}

	collectParamArgs(p)
	methodTagFn, methodTagFnTable = nil, nil
	if methodTags == nil {
		methodTagFn, methodTagFnTable = findMethodTagFn(p)
	}
	for f := range reachableFrom(p, find) {
		if isTail[f] || f.Parent() != nil || sameFn(f, methodTagFn) {
			continue
		}
		for _, l := range lookupsOn(f, nextKey, methodTags) {
			if strings.HasPrefix(l.kind, "methodtag:") {
				methodFn = f
			}
		}
	}
	if methodFn != nil {
		r.Anchor("method_lookup", fnName(methodFn))
	}
	// path rules: the route lookup with its tail helpers expanded (the method lookup stays a call: its own rules
	// speak about it, and the walk's rules about its nil / non-nil edges); ServeHTTP with its helpers expanded
	find = p.Inl(find, methodFn)
	findSet = []*ssa.Function{find}
	isTail = map[*ssa.Function]bool{}
	serve = p.Inl(serveSrc, sx.OrigFunc(find), methodFn)
	methodSrc := methodFn
	if methodFn != nil {
		methodFn = p.Inl(methodFn, methodTagFn)
	}
	sameMethod := func(c *ssa.Function) bool { return methodSrc != nil && c != nil && sx.OrigFunc(c) == methodSrc }

	// ---- R1: zones
	kF, vF := fieldByName(params, "K"), fieldByName(params, "V")
	get := p.Method("httpd", "Params", "Get")
	var targets []zoneTarget
	idField := fieldByName(p.Named("httpd", "Store"), "id")
	if idField == nil {
		// by role: the byte-slice field of Store (the request-ID buffer)
		if st := p.Named("httpd", "Store"); st != nil {
			for _, f := range structFields(st) {
				if f.Type().String() == "[]byte" {
					idField = f
				}
			}
		}
	}
	serveAssume := []zones.Assumption{{LocField: idField, LocMin: 9, Why: "the pool constructor makes the ID buffer with length 9 and ServeHTTP's reset truncates to 9 (C05-R2, C05-R5)"}}
	// a reset that truncates to the length of an immutable Mux field from which the constructor also builds the buffer
	// (C05-R2 proves the two lengths equal): len(Mux.F) <= len(Store.id) whenever a Store is in use
	c05InitImmutable(p, p.ModuleFuncs())
	idLen := ""
	if ctor := poolCtor(p); ctor != nil && idField != nil {
		idLen, _ = symLen(ctorFieldValue(ctor, c05field{p.Named("httpd", "Store"), idField, idField.Name()}))
	}
	for _, f := range structFields(mux) {
		switch f.Type().Underlying().(type) {
		case *types.Slice, *types.Basic:
			if idField != nil && idLen == "len(field:Mux."+f.Name()+")" {
				serveAssume = append(serveAssume, zones.Assumption{LEField: f, GEField: idField, AnyBase: true, Why: "the ID buffer is built from and truncated to Mux." + f.Name() + " (C05-R2)"})
			}
		}
	}
	targets = append(targets, zoneTarget{Fn: serve, Assume: serveAssume})
	targets = append(targets, zoneTarget{Fn: find})
	if methodFn != nil {
		targets = append(targets, zoneTarget{Fn: methodFn})
	}
	if get != nil && kF != nil && vF != nil {
		// len(K) <= len(V): established by C04-R5 (capture pairing)
		targets = append(targets, zoneTarget{Fn: p.Inl(get), Assume: []zones.Assumption{{LEField: kF, GEField: vF, Why: "len(K) <= len(V) at handler entry (C04-R5)"}}})
	}
	runZones(p, r, "C04-R1", targets)
	r.Note("C04-R1 assumptions: Params.Get is analysed under len(K) <= len(V) (justified by C04-R5 + C05-R1); ServeHTTP under len(Store.id) >= 9 at Get (C05-R2/R5)")
	// nil safety of the Mux fields ServeHTTP dereferences / calls
	// the pointer- and function-typed Mux fields that ServeHTTP reads
	var muxDeref []string
	for _, f := range structFields(mux) {
		switch f.Type().Underlying().(type) {
		case *types.Pointer, *types.Signature:
			if len(sx.FieldRefs([]*ssa.Function{serve}, f)) > 0 {
				muxDeref = append(muxDeref, f.Name())
			}
		}
	}
	r.Anchor("mux_fields_dereferenced", strings.Join(muxDeref, ","))
	for _, fname := range muxDeref {
		f := fieldByName(mux, fname)
		if f == nil {
			continue
		}
		cut := sx.Cut{Instrs: map[ssa.Instruction]bool{}}
		sx.Instrs(newMux, func(in ssa.Instruction) {
			switch x := in.(type) {
			case *ssa.Store:
				if fa, ok := x.Addr.(*ssa.FieldAddr); ok && sx.FieldOf(fa) == f && !sx.IsNilConst(x.Val) {
					cut.Instrs[in] = true
				}
			case *ssa.Call:
				if callee := sx.StaticCallee(x); callee != nil && p.InModule(callee) {
					if alwaysStoresField(callee, f) {
						cut.Instrs[in] = true
					}
				}
			}
		})
		ok := len(cut.Instrs) > 0
		for _, ret := range sx.Returns(newMux) {
			if sx.ReachInstr(newMux, nil, ret, cut) {
				ok = false
			}
		}
		r.Check(ok, "C04-R1", "Mux."+fname+" is assigned by NewMux on every path", p.FuncPos(newMux), "non-nil before any request is served", "NewMux can return without assigning Mux."+fname+": ServeHTTP would dereference / call nil")
	}

	// ---- R2
	{
		var relayCalls []ssa.Instruction
		sx.Instrs(serve, func(in ssa.Instruction) {
			if c, ok := in.(*ssa.Call); ok && !c.Call.IsInvoke() && sx.StaticCallee(c) == nil {
				if _, isB := c.Call.Value.(*ssa.Builtin); isB {
					return
				}
				for o := range sx.Origins(c.Call.Value) {
					if strings.HasPrefix(o, "field:Mux.") {
						relayCalls = append(relayCalls, in)
						break
					}
				}
			}
		})
		set := map[ssa.Instruction]bool{}
		for _, c := range relayCalls {
			set[c] = true
		}
		res := sx.Count(serve, serve.Blocks[0], sx.Weights{Instr: func(in ssa.Instruction) sx.Range {
			if set[in] {
				return sx.Range{Min: 1, Max: 1}
			}
			return sx.Range{}
		}}, nil)
		tot := sx.Range{Min: sx.Sat, Max: 0}
		for _, ret := range sx.Returns(serve) {
			if rg, ok := res.Before(ret); ok {
				tot = tot.Join(rg)
			}
		}
		r.Check(tot.Is(1), "C04-R2", "ServeHTTP dispatches through the relay exactly once", p.FuncPos(serve), "one relay call on every path", "relay calls per request: "+rangeStr(tot))
		// default relay
		okDef, nDef := false, 0
		for _, cl := range newMux.AnonFuncs {
			w := sx.Weights{Instr: func(in ssa.Instruction) sx.Range {
				if c, ok := in.(*ssa.Call); ok && !c.Call.IsInvoke() && sx.StaticCallee(c) == nil && sx.Origins(c.Call.Value)["field:RouteInfo.HandlerFunc"] {
					return sx.Range{Min: 1, Max: 1}
				}
				return sx.Range{}
			}}
			rs := sx.Count(cl, cl.Blocks[0], w, nil)
			for _, ret := range sx.Returns(cl) {
				if rg, ok := rs.Before(ret); ok && rg.Max > 0 {
					nDef++
					okDef = rg.Is(1)
				}
			}
		}
		r.Check(okDef && nDef == 1, "C04-R2", "default relay runs the selected handler exactly once", p.FuncPos(newMux), "store.I.HandlerFunc(store) once", "the default relay installed by NewMux does not call the selected handler exactly once")
	}

	// the selected route is the walk's: what ServeHTTP records as the request's route is the result of the trie lookup
	// or the no-route entry held directly in a Mux field — not something found in a second index beside the trie
	// (pattern text and path text differ in meaning: a trailing slash, an empty segment)
	{
		var bad []string
		n := 0
		storeT, muxT, infoT := p.Named("httpd", "Store"), p.Named("httpd", "Mux"), p.Named("httpd", "RouteInfo")
		is := func(t types.Type, n *types.Named) bool { return t != nil && n != nil && types.Identical(t, n) }
		sx.Instrs(serve, func(in ssa.Instruction) {
			st, ok := in.(*ssa.Store)
			if !ok {
				return
			}
			fa, ok := st.Addr.(*ssa.FieldAddr)
			if !ok || !is(ptrTo(fa.X.Type()), storeT) {
				return
			}
			ft := ptrTo(ptrTo(fa.Type()))
			if !is(ft, infoT) {
				return
			}
			for _, lf := range leaves(st.Val) {
				if c, isC := lf.(*ssa.Const); isC && c.IsNil() {
					continue // the reset before the Store returns to the pool
				}
				n++
				switch x := lf.(type) {
				case *ssa.Call:
					if callee := sx.StaticCallee(x); callee != nil && sx.OrigFunc(callee) == sx.OrigFunc(find) {
						continue
					}
					bad = append(bad, "the result of "+short(sx.CalleeName(x))+" at "+p.Pos(x.Pos()))
				case *ssa.UnOp:
					if fa2, ok := x.X.(*ssa.FieldAddr); ok && is(ptrTo(fa2.X.Type()), muxT) {
						if t := ptrTo(ptrTo(fa2.Type())); is(t, infoT) {
							continue
						}
					}
					bad = append(bad, short(sx.ValPath(lf))+" at "+p.Pos(x.Pos()))
				default:
					bad = append(bad, short(sx.ValPath(lf))+" at "+p.Pos(st.Pos()))
				}
			}
		})
		r.Check(len(bad) == 0 && n >= 2, "C04-R3", "ServeHTTP selects what the walk found, or the no-route entry", p.FuncPos(serve), fmt.Sprintf("%d recorded values, each the lookup's result or the Mux's no-route entry", n), "the request's route can be "+strings.Join(uniq(bad), ", ")+": a route chosen outside the segment-by-segment walk does not follow its rules (empty final segment, precedence)")
	}

	// ---- R3
	{
		lks := lookupsOn(find, nextKey, methodTags)
		hdr := outerLoop(find)
		var seg, par, any *nextLookup
		consts := []string{}
		for _, l := range lks {
			if l.kind == "segment" {
				seg = l
			}
			if strings.HasPrefix(l.kind, "const:") {
				consts = append(consts, l.kind)
			}
		}
		// which constant is the :param key and which the * key: the * arm captures the rest of the path (slice without upper bound)
		for _, l := range lks {
			if !strings.HasPrefix(l.kind, "const:") {
				continue
			}
			isAny := false
			for e := range l.hit {
				for _, in := range e.To().Instrs {
					if sl, ok := in.(*ssa.Slice); ok && sl.High == nil && isStringT(sl.X.Type()) {
						isAny = true
					}
				}
			}
			if isAny {
				any = l
			} else {
				par = l
			}
		}
		if seg == nil || par == nil || any == nil || hdr == nil {
			r.Fail("C04-R3", "walk lookups", p.FuncPos(find), fmt.Sprintf("literal=%v :param=%v *=%v loop=%v (constant keys seen: %v)", seg != nil, par != nil, any != nil, hdr != nil, consts))
		} else {
			back := sx.BackEdgesTo(hdr)
			per := func(extra map[sx.Edge]bool) sx.Cut {
				c := sx.Cut{Edges: map[sx.Edge]bool{}}
				for e := range back {
					c.Edges[e] = true
				}
				for e := range extra {
					c.Edges[e] = true
				}
				return c
			}
			first := hdr.Instrs[0]
			r.Check(!sx.ReachInstr(find, first, par.in, per(seg.miss)) && len(seg.miss) > 0, "C04-R3", "walk: :param is tried only after the literal segment missed", p.Pos(par.in.Pos()), "reachable only from the literal lookup's miss edge (per step)", "the :param lookup is reachable without the literal lookup having missed in the same step: a :param route can shadow a literal one")
			r.Check(!sx.ReachInstr(find, first, any.in, per(par.miss)) && len(par.miss) > 0, "C04-R3", "walk: * is tried only after :param missed", p.Pos(any.in.Pos()), "reachable only from the :param lookup's miss edge (per step)", "the * lookup is reachable without the :param lookup having missed in the same step: a trailing * can shadow a :param route")
			// literal lookup precedes param lookup at all: param lookup not reachable without passing literal lookup
			r.Check(sx.MustPass(find, first, par.in, sx.Cut{Instrs: map[ssa.Instruction]bool{seg.in: true}, Edges: back}), "C04-R3", "walk: the literal lookup comes first", p.Pos(seg.in.Pos()), "every step consults the literal child before the parameter children", "a step can consult the parameter children without consulting the literal child first")
			// return nil inside the loop only after all three missed
			okNil := true
			for _, ret := range sx.Returns(find) {
				if !hdr.Dominates(ret.Block()) || !sx.IsNilConst(returnValue(ret, 0)) {
					continue
				}
				// `no route` because the method lookup failed after the walk: not part of a step
				methodKind := false
				sx.Instrs(find, func(in ssa.Instruction) {
					if c, ok := in.(*ssa.Call); ok && sameMethod(sx.StaticCallee(c)) {
						nilE, _ := sx.NilEdges(c)
						if len(nilE) > 0 && sx.MustPass(find, nil, ret, sx.Cut{Edges: nilE}) {
							methodKind = true
						}
					}
				})
				if methodKind {
					continue
				}
				// reachable within the step only via any.miss
				if sx.ReachInstr(find, first, ret, per(any.miss)) {
					okNil = false
				}
			}
			r.Check(okNil, "C04-R3", "walk: gives up only after literal, :param and * all missed", p.FuncPos(find), "`return nil` inside the walk is behind the * lookup's miss edge", "the walk can return `no route` although a :param or * child was not consulted")
			// the * arm ends the walk
			okEnd := true
			for e := range any.hit {
				if len(e.To().Instrs) > 0 && (reachFromBlock(find, e.To(), seg.in) || e.To().Instrs[0] == ssa.Instruction(seg.in)) {
					okEnd = false
				}
			}
			r.Check(okEnd, "C04-R3", "walk: * consumes the rest of the path", p.Pos(any.in.Pos()), "after a * match no further segment is looked up", "after matching * the walk continues with further segments")
		}
		// method precedence
		if methodFn != nil {
			ml := lookupsOn(methodFn, nextKey, methodTags)
			var exact, all *nextLookup
			starTag, haveStar := methodTagTable(p, methodTags)["*"]
			for _, l := range ml {
				if strings.HasPrefix(l.kind, "methodtag:const:") || (haveStar && l.kind == "const:"+starTag) {
					// methodTagMap[MethodAll], or the tag it maps MethodAll to written as a constant
					all = l
				} else if strings.HasPrefix(l.kind, "methodtag:") {
					exact = l
				}
			}
			ok := exact != nil && all != nil && len(exact.miss) > 0 && sx.MustPass(methodFn, nil, all.in, sx.Cut{Edges: exact.miss})
			// and conversely: no path gives up without having consulted the '*' method
			if ok {
				onlyExact := func(v ssa.Value) bool {
					lv := leaves(v)
					return len(lv) == 1 && lv[0] == exact.value
				}
				for _, ret := range sx.Returns(methodFn) {
					rv := returnValue(ret, 0)
					if onlyExact(rv) {
						continue
					}
					// a result merged at the return is judged per incoming path
					if ph, isPhi := rv.(*ssa.Phi); isPhi && ph.Block() == ret.Block() {
						for k, e := range ph.Edges {
							if onlyExact(e) {
								continue
							}
							pred := ph.Block().Preds[k]
							if !sx.MustPass(methodFn, nil, pred.Instrs[len(pred.Instrs)-1], sx.Cut{Instrs: map[ssa.Instruction]bool{all.in: true}}) {
								ok = false
							}
						}
						continue
					}
					if !sx.MustPass(methodFn, nil, ret, sx.Cut{Instrs: map[ssa.Instruction]bool{all.in: true}}) {
						ok = false
					}
				}
				if !ok {
					r.Fail("C04-R3", "method: every miss of the exact method falls back to '*'", p.FuncPos(methodFn), "a path of the method lookup returns without consulting the '*' method (e.g. an early return for unknown request methods): a MethodAll route is not found for that request")
				} else {
					r.OK("C04-R3", "method: every miss of the exact method falls back to '*'", p.FuncPos(methodFn), "every return is either the exact hit or after the MethodAll lookup")
				}
			}
			r.Check(ok, "C04-R3", "method: '*' handler only when the exact method missed", p.FuncPos(methodFn), "the MethodAll lookup is behind the exact lookup's miss edge", "the '*' method lookup is reachable without the exact method having missed (or one of the two lookups is gone): the exact-method handler loses its precedence / the '*' fallback is lost")
		}
		// a route is returned only after a successful method lookup (returns that delegate to a tail helper are covered there)
		okRet, nRet := true, 0
		for _, f := range findSet {
			for _, ret := range sx.Returns(f) {
				for _, rc := range retCases(ret, 0) {
					rv := rc.Val
					if sx.IsNilConst(rv) {
						continue
					}
					if c, ok := rv.(*ssa.Call); ok && isTail[sx.StaticCallee(c)] {
						continue
					}
					nRet++
					guarded := false
					sx.Instrs(f, func(in ssa.Instruction) {
						c, ok := in.(*ssa.Call)
						if !ok || !sameMethod(sx.StaticCallee(c)) {
							return
						}
						_, nonNil := sx.NilEdges(c)
						if len(nonNil) > 0 && sx.MustPass(f, nil, rc.At, sx.Cut{Edges: nonNil}) {
							guarded = true
						}
					})
					if !guarded {
						okRet = false
					}
				}
			}
		}
		r.Check(okRet && nRet > 0, "C04-R3", "a route is returned only after its method node was found", p.FuncPos(find), fmt.Sprintf("%d successful returns, each behind `methodNode != nil`", nRet), "a route is returned on a path where the method lookup may have failed (nil dereference or wrong route)")
	}

	// ---- R4
	{
		pk := p.Pkgs["httpd"]
		vals := map[string]string{}
		for _, f := range pk.Syntax {
			ast.Inspect(f, func(n ast.Node) bool {
				vs, ok := n.(*ast.ValueSpec)
				if !ok {
					return true
				}
				for i, nm := range vs.Names {
					if i >= len(vs.Values) {
						continue
					}
					if methodTags != nil && nm.Name == methodTags.Name() {
						_ = 0
						if cl, ok := vs.Values[i].(*ast.CompositeLit); ok {
							for _, e := range cl.Elts {
								kv := e.(*ast.KeyValueExpr)
								k, v := pk.TypesInfo.Types[kv.Key].Value, pk.TypesInfo.Types[kv.Value].Value
								if k != nil && v != nil {
									vals["method "+constant.StringVal(k)] = constant.StringVal(v)
								}
							}
						}
					}
				}
				return true
			})
		}
		if methodTags == nil {
			for k, v := range methodTagFnTable {
				vals["method "+k] = v
			}
		}
		// parameter keys: the constants the lookup consults
		lkConsts := map[string]bool{}
		for _, l := range lookupsOn(find, nextKey, methodTags) {
			if strings.HasPrefix(l.kind, "const:") {
				lkConsts[strings.TrimPrefix(l.kind, "const:")] = true
			}
		}
		for k := range lkConsts {
			vals["key "+k] = k
		}
		var bad []string
		seen := map[string]string{}
		var names []string
		for n := range vals {
			names = append(names, n)
		}
		sort.Strings(names)
		for _, n := range names {
			v := vals[n]
			if !strings.HasPrefix(v, "/") {
				bad = append(bad, fmt.Sprintf("%s → %q does not start with '/': a literal path segment can collide with it", n, v))
			}
			if o, dup := seen[v]; dup {
				bad = append(bad, fmt.Sprintf("%s and %s share the key %q", o, n, v))
			}
			seen[v] = n
		}
		r.Check(len(bad) == 0 && len(vals) >= 5, "C04-R4", "reserved trie keys are outside the segment namespace and distinct", "-", fmt.Sprintf("%d reserved keys, all start with '/' and are pairwise distinct", len(vals)), strings.Join(bad, "; "))
		// writer constants == reader constants
		wrConsts := map[string]bool{}
		rkeys, _ := regKeys(p, parse)
		for _, k := range rkeys {
			wrConsts[k.Key] = true
		}
		r.Check(keys(wrConsts) == keys(lkConsts) && len(lkConsts) == 2, "C04-R4", "registration and lookup use the same parameter keys", p.FuncPos(parse), "both use {"+keys(lkConsts)+"}", "registration inserts {"+keys(wrConsts)+"} but the lookup consults {"+keys(lkConsts)+"}")
		// the catch-all arm of the registration is taken for the fragment "*" and for nothing else: one of the two reserved
		// children is created behind a comparison of the whole fragment with "*" (a test of the first byte only would turn
		// literal fragments like *.css into catch-alls)
		{
			starEdges := map[sx.Edge]bool{}
			sx.Instrs(parse, func(in ssa.Instruction) {
				b, ok := in.(*ssa.BinOp)
				if !ok || (b.Op != token.EQL && b.Op != token.NEQ) || b.Referrers() == nil {
					return
				}
				for _, pr := range [][2]ssa.Value{{b.X, b.Y}, {b.Y, b.X}} {
					if k, isC := sx.ConstString(pr[1]); !isC || k != "*" || !isStringT(pr[0].Type()) {
						continue
					}
					for _, u := range *b.Referrers() {
						if iff, ok := u.(*ssa.If); ok {
							idx := 0
							if b.Op == token.NEQ {
								idx = 1
							}
							starEdges[sx.Edge{From: iff.Block(), Idx: idx}] = true
						}
					}
				}
			})
			nStar := 0
			for _, k := range rkeys {
				if len(starEdges) > 0 && sx.MustPass(parse, nil, k.At, sx.Cut{Edges: starEdges}) {
					nStar++
				}
			}
			r.Check(nStar > 0, "C04-R4", "registration: the catch-all child is created only for the fragment \"*\"", p.FuncPos(parse), "behind a comparison of the whole fragment with \"*\"", "no reserved child is created behind `fragment == \"*\"`: the registration decides the catch-all arm by something weaker (the first byte?), so literal fragments that merely begin with '*' are registered as catch-alls and swallow every longer path")
		}
		// method tags: registration and lookup both go through the same table
		usesW, usesR := false, false
		callsTagFn := func(in ssa.Instruction) bool {
			c, ok := in.(*ssa.Call)
			return ok && methodTagFn != nil && sameFn(sx.StaticCallee(c), methodTagFn)
		}
		sx.Instrs(parse, func(in ssa.Instruction) {
			if lk, ok := in.(*ssa.Lookup); ok && methodTags != nil && sx.Origins(lk.X)["global:"+methodTags.Name()] {
				usesW = true
			}
			if callsTagFn(in) {
				usesW = true
			}
		})
		if methodFn != nil {
			sx.Instrs(methodFn, func(in ssa.Instruction) {
				if lk, ok := in.(*ssa.Lookup); ok && methodTags != nil && sx.Origins(lk.X)["global:"+methodTags.Name()] {
					usesR = true
				}
				if callsTagFn(in) {
					usesR = true
				}
			})
		}
		if tagViaParam {
			// the method lookup receives the tags from its caller, which reads the table
			for _, args := range tagParamArgs {
				for _, a := range args {
					if strings.HasPrefix(keyKind(a, methodTags), "methodtag:") {
						usesR = true
					}
				}
			}
		}
		r.Check(usesW && usesR, "C04-R4", "registration and lookup translate methods through the same table", "-", "both read the method tag table", "method tags are not derived from one shared table on both sides")
	}

	// ---- R6: a rejected registration leaves the tree unchanged
	{
		var mutates func(fn *ssa.Function, depth int) bool
		mutates = func(fn *ssa.Function, depth int) bool {
			if fn == nil || fn.Blocks == nil || depth > 3 {
				return false
			}
			hit := false
			sx.Instrs(fn, func(in ssa.Instruction) {
				switch x := in.(type) {
				case *ssa.MapUpdate:
					hit = true
				case *ssa.Store:
					if fa, ok := x.Addr.(*ssa.FieldAddr); ok && node != nil && types.Identical(ptrTo(fa.X.Type()), node) {
						hit = true
					}
				case *ssa.Call:
					if c := sx.StaticCallee(x); c != nil && p.InModule(c) && mutates(c, depth+1) {
						hit = true
					}
				}
			})
			return hit
		}
		var muts []ssa.Instruction
		sx.Instrs(parse, func(in ssa.Instruction) {
			switch x := in.(type) {
			case *ssa.MapUpdate:
				muts = append(muts, in)
			case *ssa.Store:
				if fa, ok := x.Addr.(*ssa.FieldAddr); ok && node != nil && types.Identical(ptrTo(fa.X.Type()), node) {
					muts = append(muts, in)
				}
			case *ssa.Call:
				if c := sx.StaticCallee(x); c != nil && p.InModule(c) && mutates(c, 0) {
					muts = append(muts, in)
				}
			}
		})
		errIdx := -1
		res := parse.Signature.Results()
		for i := 0; i < res.Len(); i++ {
			if res.At(i).Type().String() == "error" {
				errIdx = i
			}
		}
		nErr := 0
		if errIdx >= 0 && len(muts) > 0 {
			for _, b := range parse.Blocks {
				ret, ok := b.Instrs[len(b.Instrs)-1].(*ssa.Return)
				if !ok {
					continue
				}
				for _, rc := range retCases(ret, errIdx) {
					if c, isC := rc.Val.(*ssa.Const); isC && c.IsNil() {
						continue
					}
					nErr++
					var bad ssa.Instruction
					for _, m := range muts {
						// a child found in the map of the node this very call returned (or of a node below it) proves that the
						// call created nothing: a node made a moment ago has no children. The "duplicate route" test on the node
						// the build walk ends in is of that kind; paths through its hit edge are paths without a change
						proof := sx.Cut{Edges: map[sx.Edge]bool{}}
						if mc, isCall := m.(*ssa.Call); isCall {
							for _, l := range lookupsOn(parse, nextKey, methodTags) {
								ld, ok := l.in.X.(*ssa.UnOp)
								if !ok {
									continue
								}
								fa, ok := ld.X.(*ssa.FieldAddr)
								if !ok {
									continue
								}
								for _, lf := range leaves(fa.X) {
									if lf == ssa.Value(mc) {
										for e := range l.hit {
											proof.Edges[e] = true
										}
									}
								}
							}
						}
						if m == rc.At || sx.ReachInstr(parse, m, rc.At, proof) {
							bad = m
							break
						}
					}
					pos := p.Pos(rc.At.Pos())
					if bad == nil {
						r.OK("C04-R6", fmt.Sprintf("error return #%d of %s", nErr, fnName(parse)), pos, "no change of the tree precedes it on any path")
					} else {
						r.Fail("C04-R6", fmt.Sprintf("error return #%d of %s", nErr, fnName(parse)), pos, "the tree is changed at "+p.Pos(bad.Pos())+" on a path that then rejects the route: the nodes created for the rejected pattern stay behind, and a left-over literal child shadows a :param / * sibling for later requests (the walk does not backtrack)")
					}
				}
			}
		}
		if nErr == 0 {
			r.Fail("C04-R6", "error returns of the registration", p.FuncPos(parse), "the registration function has no error return or changes nothing: the rule has nothing to check")
		}
	}

	// ---- R5
	{
		// registration: per block, transitions through a parameter key == appends to the name list
		okW, nW := true, 0
		rkeys, keyList := regKeys(p, parse)
		for _, b := range parse.Blocks {
			tr, ap := 0, 0
			for _, in := range b.Instrs {
				c, ok := in.(*ssa.Call)
				if !ok {
					continue
				}
				for _, k := range rkeys {
					if k.At == in && strings.HasPrefix(k.Key, "/:") {
						tr++
					}
				}
				// appends to the parameter-name list (the list of child names, when there is one, is not it)
				if isBuiltin(c, "append") && c.Type().String() == "[]string" && !keyList[c] {
					ap++
				}
			}
			if tr != ap {
				okW = false
			}
			nW += tr
		}
		r.Check(okW && nW == 2, "C04-R5", "registration: one parameter name per :param/* transition", p.FuncPos(parse), fmt.Sprintf("%d transitions, each paired with one append to the name list in the same block", nW), "a :param/* transition of the registration is not paired with exactly one appended parameter name")
		// lookup: hit edge of a parameter lookup -> exactly one append to V in the target block; no other writes to V
		okR, nR := true, 0
		whyR := ""
		paramTargets := map[*ssa.BasicBlock]bool{}
		for _, l := range lookupsOn(find, nextKey, methodTags) {
			if !strings.HasPrefix(l.kind, "const:") {
				continue
			}
			for e := range l.hit {
				paramTargets[e.To()] = true
				n := 0
				for _, in := range e.To().Instrs {
					if st, ok := in.(*ssa.Store); ok {
						if fa, ok := st.Addr.(*ssa.FieldAddr); ok && sx.FieldOf(fa) == vF {
							if c, ok := st.Val.(*ssa.Call); ok && isBuiltin(c, "append") && derivesFromField(c.Call.Args[0], "Params", vF) {
								n++
							}
						}
					}
				}
				nR++
				if n != 1 {
					okR, whyR = false, fmt.Sprintf("the hit edge of the %s lookup captures %d values", l.kind, n)
				}
			}
		}
		sx.Instrs(find, func(in ssa.Instruction) {
			if st, ok := in.(*ssa.Store); ok {
				if fa, ok := st.Addr.(*ssa.FieldAddr); ok && sx.FieldOf(fa) == vF && !paramTargets[in.Block()] {
					okR, whyR = false, "Params.V is written at "+p.Pos(in.Pos())+" outside a parameter transition"
				}
			}
		})
		// the captured text is the segment just looked up (for :param) resp. the rest of the path from the same start (for *)
		var segLow, segHigh string
		for _, l := range lookupsOn(find, nextKey, methodTags) {
			if l.kind == "segment" {
				if sl, ok := l.key.(*ssa.Slice); ok {
					segLow, segHigh = sx.ValPath(sl.Low), sx.ValPath(sl.High)
				}
			}
		}
		for _, l := range lookupsOn(find, nextKey, methodTags) {
			if !strings.HasPrefix(l.kind, "const:") {
				continue
			}
			for e := range l.hit {
				for _, in := range e.To().Instrs {
					st, ok := in.(*ssa.Store)
					if !ok {
						continue
					}
					fa, ok := st.Addr.(*ssa.FieldAddr)
					if !ok || sx.FieldOf(fa) != vF {
						continue
					}
					c, ok := st.Val.(*ssa.Call)
					if !ok || !isBuiltin(c, "append") {
						continue
					}
					elems := variadicElems(c.Call.Args[1])
					okTxt := false
					got := "?"
					if len(elems) == 1 {
						if sl, ok := elems[0].(*ssa.Slice); ok && isStringT(sl.X.Type()) {
							got = sx.ValPath(sl.Low) + ":" + sx.ValPath(sl.High)
							if sx.ValPath(sl.Low) == segLow && (sx.ValPath(sl.High) == segHigh || sl.High == nil) {
								okTxt = true
							}
						}
					}
					r.Check(okTxt && segLow != "", "C04-R5", "lookup: value captured on the "+l.kind+" hit is the text of the segment being matched", p.Pos(in.Pos()), "path["+segLow+":"+segHigh+"] (or to the end for *)", "the captured value is path["+got+"], not the segment path["+segLow+":"+segHigh+"] that was just looked up")
				}
			}
		}
		r.Check(okR && nR == 2, "C04-R5", "lookup: one captured value per :param/* transition", p.FuncPos(find), "each parameter hit appends exactly one value; nothing else writes the value list", whyR)
		// successful returns assign K from the matched node
		okK, nK := true, 0
		whyK := "a successful return does not assign Params.K from the matched node: names and values would not correspond"
		for _, f := range findSet {
			for _, ret := range sx.Returns(f) {
				for _, rc := range retCases(ret, 0) {
					rv := rc.Val
					ret := rc.At
					if sx.IsNilConst(rv) {
						continue
					}
					if c, ok := rv.(*ssa.Call); ok && isTail[sx.StaticCallee(c)] {
						continue
					}
					nK++
					cut := sx.Cut{Instrs: map[ssa.Instruction]bool{}}
					sx.Instrs(f, func(in ssa.Instruction) {
						if st, ok := in.(*ssa.Store); ok {
							if fa, ok := st.Addr.(*ssa.FieldAddr); ok && sx.FieldOf(fa) == kF && sx.Origins(st.Val)["field:treeNode."+nameListF.Name()] {
								cut.Instrs[in] = true
							}
						}
					})
					if len(cut.Instrs) == 0 || !sx.MustPass(f, nil, ret, cut) {
						okK = false
					}
					// …from the very node whose route is returned (names are per path *and* method: two methods on one path
					// may name their parameters differently)
					if ld, ok := sx.Unspill(rv).(*ssa.UnOp); ok && ld.Op == token.MUL {
						if fa, ok := ld.X.(*ssa.FieldAddr); ok {
							for st := range cut.Instrs {
								src, ok := sx.Unspill(st.(*ssa.Store).Val).(*ssa.UnOp)
								if !ok {
									continue
								}
								if fa2, ok := src.X.(*ssa.FieldAddr); ok && sx.Unspill(fa2.X) != sx.Unspill(fa.X) && sx.ReachInstr(f, st, ret, sx.Cut{}) {
									okK = false
									whyK = "the names installed at " + p.Pos(st.Pos()) + " are read from " + sx.ValPath(fa2.X) + " but the route returned at " + p.Pos(ret.Pos()) + " belongs to " + sx.ValPath(fa.X) + ": a route registered later on the same path with another method overwrites the names this route's handler sees"
								}
							}
						}
					}
				}
			}
		}
		r.Check(okK && nK > 0, "C04-R5", "lookup: every successful return installs the matched route's parameter names", p.FuncPos(find), fmt.Sprintf("%d successful returns, each after Params.K = node.paramNameList of the returned route's node", nK), whyK)
		// captured values are read by key: outside the lookup (which only appends), an element of Params.V is read at the
		// index at which the same index into Params.K compared equal to the key asked for
		{
			var bad []string
			nRd := 0
			inFind := map[*ssa.Function]bool{}
			for _, f := range findSet {
				inFind[rootFn(f)] = true
			}
			for _, fn := range p.PkgFuncs("httpd") {
				if inFind[rootFn(fn)] {
					continue
				}
				sx.Instrs(fn, func(in ssa.Instruction) {
					ia, ok := in.(*ssa.IndexAddr)
					if !ok || !derivesFromField(ia.X, "Params", vF) || ia.Referrers() == nil {
						return
					}
					isRead := false
					for _, u := range *ia.Referrers() {
						if ld, ok := u.(*ssa.UnOp); ok && ld.Op == token.MUL {
							isRead = true
						}
					}
					if !isRead {
						return
					}
					nRd++
					// the index is what a search of Params.K for the key returned (slices.Index(ps.K, key)); its sign test is
					// the bounds rule's business
					if c, ok := sx.Unspill(ia.Index).(*ssa.Call); ok && len(c.Call.Args) >= 1 && derivesFromField(c.Call.Args[0], "Params", kF) {
						if n := sx.CalleeName(c); strings.HasPrefix(n, "slices.Index") {
							return
						}
					}
					// a comparison K[same index] == x whose true edge dominates
					cut := sx.Cut{Edges: map[sx.Edge]bool{}}
					sx.Instrs(fn, func(i2 ssa.Instruction) {
						b, ok := i2.(*ssa.BinOp)
						if !ok || b.Op != token.EQL || b.Referrers() == nil {
							return
						}
						for _, side := range []ssa.Value{b.X, b.Y} {
							ld, ok := side.(*ssa.UnOp)
							if !ok || ld.Op != token.MUL {
								continue
							}
							ka, ok := ld.X.(*ssa.IndexAddr)
							if !ok || ka.Index != ia.Index || !derivesFromField(ka.X, "Params", kF) {
								continue
							}
							for _, u := range *b.Referrers() {
								if iff, ok := u.(*ssa.If); ok {
									cut.Edges[sx.Edge{From: iff.Block(), Idx: 0}] = true
								}
							}
						}
					})
					if len(cut.Edges) == 0 || !sx.MustPass(fn, nil, in, cut) {
						bad = append(bad, "Params.V["+short(sx.ValPath(ia.Index))+"] read in "+fnName(fn)+" at "+p.Pos(in.Pos()))
					}
				})
			}
			r.Check(len(bad) == 0 && nRd > 0, "C04-R5", "captured values are read at the index of their name", p.FuncPos(find), fmt.Sprintf("%d read(s) of Params.V, each behind K[i] == key for the same i", nRd), strings.Join(bad, "; ")+" is not behind a comparison of Params.K at the same index with the key asked for: a handler gets the value captured for another name (or a leftover of a failed walk)")
		}
		// registration stores the list on the method node
		okS := false
		whyS := "the registration never stores the parameter name list"
		var nameBases, infoBases []ssa.Value
		sx.Instrs(parse, func(in ssa.Instruction) {
			if st, ok := in.(*ssa.Store); ok {
				if fa, ok := st.Addr.(*ssa.FieldAddr); ok {
					if sx.FieldOf(fa) == nameListF {
						okS = true
						nameBases = append(nameBases, sx.Unspill(fa.X))
					} else if pt := ptrTo(fa.Type()); pt != nil && typeIs(pt, "httpd", "RouteInfo") || (pt != nil && ptrTo(pt) != nil && typeIs(ptrTo(pt), "httpd", "RouteInfo")) {
						infoBases = append(infoBases, sx.Unspill(fa.X))
					}
				}
			}
		})
		for _, nb := range nameBases {
			same := len(infoBases) == 0
			for _, ib := range infoBases {
				if ib == nb {
					same = true
				}
			}
			if !same {
				okS, whyS = false, "the registration stores the parameter names on "+sx.ValPath(nb)+" but the route on "+sx.ValPath(infoBases[0])+": names are shared by every method registered on the path"
			}
		}
		r.Check(okS, "C04-R5", "registration stores the name list on the route's node", p.FuncPos(parse), "paramNameList and the route are assigned on the same node", whyS)
	}
}

func isStringT(t types.Type) bool {
	b, ok := t.Underlying().(*types.Basic)
	return ok && b.Info()&types.IsString != 0
}

func loopBody(hdr, b *ssa.BasicBlock, back map[sx.Edge]bool) bool { return hdr.Dominates(b) }

// alwaysStoresField: every normal return of fn is preceded by a non-nil store to field f.
func alwaysStoresField(fn *ssa.Function, f *types.Var) bool {
	if fn.Blocks == nil {
		return false
	}
	cut := sx.Cut{Instrs: map[ssa.Instruction]bool{}}
	sx.Instrs(fn, func(in ssa.Instruction) {
		if st, ok := in.(*ssa.Store); ok {
			if fa, ok := st.Addr.(*ssa.FieldAddr); ok && sx.FieldOf(fa) == f && !sx.IsNilConst(st.Val) {
				cut.Instrs[in] = true
			}
		}
	})
	if len(cut.Instrs) == 0 {
		return false
	}
	for _, ret := range sx.Returns(fn) {
		if sx.ReachInstr(fn, nil, ret, cut) {
			return false
		}
	}
	return true
}
