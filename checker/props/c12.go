package props

import (
	"fmt"
	"go/types"
	"sort"
	"strings"

	"golang.org/x/tools/go/ssa"

	"glbverif/checker/core"
	"glbverif/checker/sx"
)

func init() { register("C12", "util/netutil", runC12) }

type filterInfo struct {
	Named    *types.Named
	Mutex    *types.Var
	Atomic   []*types.Var
	Guarded  []*types.Var
	Methods  map[string]*ssa.Function
	Ctor     *ssa.Function
	AllFuncs []*ssa.Function
}

func isAtomicType(t types.Type) bool {
	if p, ok := t.(*types.Pointer); ok {
		t = p.Elem()
	}
	n, ok := t.(*types.Named)
	return ok && n.Obj().Pkg() != nil && n.Obj().Pkg().Path() == "sync/atomic"
}

func findFilter(p *core.Prog, r *core.Report, rule string) *filterInfo {
	n := p.Named("util/netutil", "IPv4Filter")
	if n == nil {
		r.Fail(rule, "anchor IPv4Filter", "-", "type netutil.IPv4Filter not found")
		return nil
	}
	fi := &filterInfo{Named: n, Methods: map[string]*ssa.Function{}}
	for _, f := range structFields(n) {
		switch {
		case typeIs(f.Type(), "sync", "RWMutex") || typeIs(f.Type(), "sync", "Mutex"):
			fi.Mutex = f
		case isAtomicType(f.Type()):
			fi.Atomic = append(fi.Atomic, f)
		default:
			fi.Guarded = append(fi.Guarded, f)
		}
	}
	ms := p.SSA.MethodSets.MethodSet(types.NewPointer(n))
	for i := 0; i < ms.Len(); i++ {
		fn := p.SSA.MethodValue(ms.At(i))
		if fn != nil && fn.Synthetic == "" && fn.Blocks != nil {
			fi.Methods[ms.At(i).Obj().Name()] = p.Inl(fn)
		}
	}
	// every rule runs on the package's inlined views: code in a helper is judged with the locks its caller holds
	for _, v := range pkgViews(p, "util/netutil") {
		fi.AllFuncs = append(fi.AllFuncs, withLiveClosures(v.Fn)...)
	}
	return fi
}

func runC12(p *core.Prog, r *core.Report) {
	r.Rule("C12-R1", "GUARDED: every access to a non-atomic field of IPv4Filter outside its constructor holds the filter's mutex (write mode for writes, incl. map insert/delete and array element stores)", 20)
	r.Rule("C12-R2", "ATOMIC-ONLY: the match-all flag has an atomic type, is only used through its methods, and the field itself is written only while the filter is unpublished", 3)
	r.Rule("C12-R3", "no lock is acquired while another is held and no locking method is called with the lock held", 3)
	r.Rule("C12-R4", "each method acquires the mutex at most once on any path (the update is one critical section)", 3)
	r.NotDecided = append(r.NotDecided, "nothing beyond C11's residue: each single-threaded state is correct by C11; this check decides atomicity of each operation w.r.t. the others")
	r.Trusted = append(r.Trusted, "sync.RWMutex semantics", "sync/atomic semantics", "Go memory model", "go/ssa")

	fi := findFilter(p, r, "C12-R1")
	if fi == nil {
		return
	}
	if fi.Mutex == nil {
		r.Fail("C12-R1", "IPv4Filter has a mutex", "-", "no sync.RWMutex/sync.Mutex field")
		return
	}
	r.Anchor("mutex", fi.Mutex.Name())
	var gnames []string
	for _, g := range fi.Guarded {
		gnames = append(gnames, g.Name())
	}
	r.Anchor("guarded_fields", strings.Join(gnames, ","))
	locksets := map[*ssa.Function]map[ssa.Instruction]sx.Lockset{}
	ls := func(fn *ssa.Function) map[ssa.Instruction]sx.Lockset {
		if l, ok := locksets[fn]; ok {
			return l
		}
		l := sx.Locksets(fn)
		locksets[fn] = l
		return l
	}

	// R1
	for _, g := range fi.Guarded {
		for _, ref := range sx.FieldRefs(fi.AllFuncs, g) {
			if sx.IsFreshObject(ref.Base) {
				r.OK("C12-R1", fmt.Sprintf("%s in %s (constructor)", g.Name(), fnName(ref.Fn)), p.Pos(ref.Instr.Pos()), "object not yet published")
				continue
			}
			key := sx.ValPath(ref.Base) + "." + fi.Mutex.Name()
			fa, isAddr := ref.Instr.(*ssa.FieldAddr)
			var accs []sx.Access
			if isAddr {
				accs = sx.Accesses(fa)
			} else {
				accs = []sx.Access{{Instr: ref.Instr, Kind: "read", Val: ref.Val}}
			}
			nAcc := map[string]int{}
			for _, a := range accs {
				isWrite := a.Kind == "write" || a.Kind == "elem-write" || a.Kind == "map-write"
				if strings.HasPrefix(a.Kind, "call:") || a.Kind == "addr-escape" {
					isWrite = true
				}
				held := ls(ref.Fn)[a.Instr]
				ok := held[key+":W"] || (!isWrite && held[key+":R"])
				nAcc[a.Kind]++
				c := fmt.Sprintf("%s %s in %s #%d", g.Name(), a.Kind, fnName(ref.Fn), nAcc[a.Kind]+ordinalOf(ref, p))
				mode := "read"
				if isWrite {
					mode = "write"
				}
				r.Check(ok, "C12-R1", c, p.Pos(a.Instr.Pos()), mode+" under "+key, fmt.Sprintf("%s of %s without holding %s in %s mode (held: %s)", a.Kind, g.Name(), key, map[bool]string{true: "write", false: "read"}[isWrite], locksetString(held)))
			}
		}
	}

	// R2
	for _, af := range fi.Atomic {
		for _, ref := range sx.FieldRefs(fi.AllFuncs, af) {
			fa, ok := ref.Instr.(*ssa.FieldAddr)
			if !ok {
				continue
			}
			for _, a := range sx.Accesses(fa) {
				c := fmt.Sprintf("%s %s in %s", af.Name(), a.Kind, fnName(ref.Fn))
				switch {
				case a.Kind == "write":
					r.Check(sx.IsFreshObject(ref.Base), "C12-R2", c, p.Pos(a.Instr.Pos()), "initialised before publication", "the atomic field itself is reassigned on a published filter")
				case a.Kind == "read":
					bad := ""
					if a.Val.Referrers() != nil {
						for _, u := range *a.Val.Referrers() {
							if cc, ok := u.(ssa.CallInstruction); ok && strings.Contains(sx.CalleeName(cc), "sync/atomic.") {
								continue
							}
							if _, ok := u.(*ssa.DebugRef); ok {
								continue
							}
							bad = u.String()
						}
					}
					r.Check(bad == "", "C12-R2", c, p.Pos(a.Instr.Pos()), "used only through sync/atomic methods", "atomic value used non-atomically: "+bad)
				case strings.HasPrefix(a.Kind, "call:") && strings.Contains(a.Kind, "sync/atomic."):
					r.OK("C12-R2", c, p.Pos(a.Instr.Pos()), "atomic method")
				default:
					r.Fail("C12-R2", c, p.Pos(a.Instr.Pos()), "non-atomic use of the atomic field")
				}
			}
		}
	}
	// the reader publishes nothing: what Contains computed under the read lock describes the filter at that moment; a
	// remembered answer (a lookup cache in an atomic) outlives the lock and can be re-published after a writer changed
	// the set and invalidated it
	if cfn := fi.Methods["Contains"]; cfn != nil {
		var wr []string
		for _, f := range sx.WithClosures(p.Inl(cfn)) {
			sx.Instrs(f, func(in ssa.Instruction) {
				c, ok := in.(ssa.CallInstruction)
				if !ok {
					return
				}
				n := sx.CalleeName(c)
				isAtomicWrite := (strings.HasPrefix(n, "(*sync/atomic.") && !strings.HasSuffix(n, ".Load")) || (strings.HasPrefix(n, "sync/atomic.") && !strings.HasPrefix(n, "sync/atomic.Load"))
				if isAtomicWrite {
					wr = append(wr, short(n)+" at "+p.Pos(in.Pos()))
				}
			})
		}
		r.Check(len(wr) == 0, "C12-R2", "Contains publishes nothing", p.FuncPos(cfn), "the reader only loads", "Contains writes shared state ("+strings.Join(wr, "; ")+"): a result computed before a concurrent Add/Remove can be stored after that writer finished and be served to later callers — Contains stays false after Add returned (or true after Remove)")
	}
	// every field that is read outside the lock must be atomic: a plain flag read before RLock is caught by R1 (it is then a guarded field)
	if len(fi.Atomic) == 0 {
		r.Fail("C12-R2", "match-all flag is atomic", "-", "IPv4Filter has no sync/atomic field: the lock-free match-all fast path would be a data race")
	}

	// R3 / R4
	lockers := map[*ssa.Function]bool{} // keyed by source function
	for _, fn := range p.PkgFuncs("util/netutil") {
		sx.Instrs(fn, func(in ssa.Instruction) {
			if c, ok := in.(ssa.CallInstruction); ok {
				switch sx.CalleeName(c) {
				case "(*sync.RWMutex).Lock", "(*sync.RWMutex).RLock", "(*sync.Mutex).Lock":
					lockers[fn] = true
				}
			}
		})
	}
	for changed := true; changed; {
		changed = false
		for _, fn := range p.PkgFuncs("util/netutil") {
			if lockers[fn] {
				continue
			}
			for _, c := range staticCalls(p).callees[fn] {
				if lockers[c] {
					lockers[fn] = true
					changed = true
				}
			}
		}
	}
	var mnames []string
	for name := range fi.Methods {
		mnames = append(mnames, name)
	}
	sort.Strings(mnames)
	for _, name := range mnames {
		fn := fi.Methods[name]
		if !lockers[sx.OrigFunc(fn)] {
			continue
		}
		nested := ""
		sx.Instrs(fn, func(in ssa.Instruction) {
			c, ok := in.(ssa.CallInstruction)
			if !ok {
				return
			}
			if _, isDefer := c.(*ssa.Defer); isDefer {
				return
			}
			held := ls(fn)[in]
			if len(held) == 0 {
				return
			}
			switch sx.CalleeName(c) {
			case "(*sync.RWMutex).Lock", "(*sync.RWMutex).RLock", "(*sync.Mutex).Lock":
				nested = fmt.Sprintf("lock acquired at %s while holding %s", p.Pos(in.Pos()), locksetString(held))
			}
			if callee := sx.StaticCallee(c); callee != nil && lockers[sx.OrigFunc(callee)] {
				nested = fmt.Sprintf("%s (which locks) called at %s while holding %s", fnName(callee), p.Pos(in.Pos()), locksetString(held))
			}
		})
		// every acquisition is released on every path to a return (explicitly, or by a defer registered after it)
		{
			leak := ""
			sx.Instrs(fn, func(in ssa.Instruction) {
				lc, ok := in.(*ssa.Call)
				if !ok {
					return
				}
				var unlockName string
				switch sx.CalleeName(lc) {
				case "(*sync.RWMutex).Lock":
					unlockName = "(*sync.RWMutex).Unlock"
				case "(*sync.RWMutex).RLock":
					unlockName = "(*sync.RWMutex).RUnlock"
				case "(*sync.Mutex).Lock":
					unlockName = "(*sync.Mutex).Unlock"
				default:
					return
				}
				key := sx.MutexKey(sx.Args(lc)[0])
				cut := sx.Cut{Instrs: map[ssa.Instruction]bool{}}
				sx.Instrs(fn, func(i2 ssa.Instruction) {
					if uc, ok := i2.(ssa.CallInstruction); ok && sx.CalleeName(uc) == unlockName && sx.MutexKey(sx.Args(uc)[0]) == key {
						if _, isGo := uc.(*ssa.Go); !isGo {
							cut.Instrs[i2] = true // a call, or a defer statement (runs at exit once registered)
						}
					}
				})
				for _, ret := range sx.Returns(fn) {
					if sx.ReachInstr(fn, in, ret, cut) {
						leak = fmt.Sprintf("the lock taken at %s is still held at the return at %s on some path: every later writer (and, after a writer queues, every reader) blocks forever", p.Pos(in.Pos()), p.Pos(ret.Pos()))
					}
				}
			})
			r.Check(leak == "", "C12-R3", "IPv4Filter."+name+": every acquisition is released on every path", p.FuncPos(fn), "each Lock/RLock is followed by its Unlock/RUnlock (or a defer of it) on every path to a return", leak)
		}
		r.Check(nested == "", "C12-R3", "IPv4Filter."+name+": no nested locking", p.FuncPos(fn), "no lock taken and no locking callee invoked while a lock is held", nested)

		w := sx.Weights{Instr: func(in ssa.Instruction) sx.Range {
			if c, ok := in.(*ssa.Call); ok {
				switch sx.CalleeName(c) {
				case "(*sync.RWMutex).Lock", "(*sync.RWMutex).RLock", "(*sync.Mutex).Lock":
					return sx.Range{Min: 1, Max: 1}
				}
				if callee := sx.StaticCallee(c); callee != nil && lockers[sx.OrigFunc(callee)] {
					return sx.Range{Min: 1, Max: 1}
				}
			}
			return sx.Range{}
		}}
		res := sx.Count(fn, fn.Blocks[0], w, nil)
		maxAcq := 0
		for _, ret := range sx.Returns(fn) {
			if rg, ok := res.Before(ret); ok && rg.Max > maxAcq {
				maxAcq = rg.Max
			}
		}
		r.Check(maxAcq <= 1, "C12-R4", "IPv4Filter."+name+": one critical section", p.FuncPos(fn), "at most one lock acquisition on any path", fmt.Sprintf("a path acquires the lock %d times (3 = more): state read in one critical section is used in another, an update in between is lost", maxAcq))
	}
}

func locksetString(l sx.Lockset) string {
	if len(l) == 0 {
		return "nothing"
	}
	m := map[string]bool{}
	for k := range l {
		m[k] = true
	}
	return keys(m)
}

// ordinalOf distinguishes several selections of the same field in one function.
func ordinalOf(ref sx.FieldRef, p *core.Prog) int {
	n := 0
	idx := 0
	sx.Instrs(ref.Fn, func(in ssa.Instruction) {
		v, ok := in.(ssa.Value)
		if !ok {
			return
		}
		if f := sx.FieldOf(v); f != nil && f == sx.FieldOf(ref.Val) {
			if in == ref.Instr {
				idx = n
			}
			n++
		}
	})
	return idx * 100
}

// withLiveClosures: fn and the anonymous functions nested in it that are still used — in an inlined view a closure
// whose only call was expanded in place (`f.update(func() { … })` with update expanded) is left behind as a
// MakeClosure nobody refers to; judged on its own it would be judged without the caller's context (locks held).
func withLiveClosures(fn *ssa.Function) []*ssa.Function {
	out := []*ssa.Function{fn}
	for _, a := range fn.AnonFuncs {
		live, made := false, false
		sx.Instrs(fn, func(in ssa.Instruction) {
			mc, ok := in.(*ssa.MakeClosure)
			if !ok || mc.Fn != ssa.Value(a) {
				// a closure without free variables is referred to as a plain function value
				var buf [8]*ssa.Value
				for _, op := range in.Operands(buf[:0]) {
					if op != nil && *op == ssa.Value(a) {
						made, live = true, true
					}
				}
				return
			}
			made = true
			if mc.Referrers() != nil {
				for _, u := range *mc.Referrers() {
					if _, isDbg := u.(*ssa.DebugRef); !isDbg {
						live = true
					}
				}
			}
		})
		_ = made
		if live {
			out = append(out, withLiveClosures(a)...)
		}
	}
	return out
}
