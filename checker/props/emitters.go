package props

import (
	"fmt"
	"go/constant"
	"go/token"
	"go/types"
	"sort"
	"strings"

	"golang.org/x/tools/go/ssa"

	"glbverif/checker/core"
	"glbverif/checker/sx"
)

// lineBufs computes, for a handler, which pointer values denote the output
// line (the pooled buffer of Handle, the address of the pre-rendered field in
// WithAttrs/WithGroup) and propagates them to module callees by argument
// position. Result: function -> set of SSA values that are the line buffer there.
func lineBufs(p *core.Prog, h *handlerInfo) map[*ssa.Function]map[ssa.Value]bool {
	getters, _ := poolFuncs(p, "logger")
	out := map[*ssa.Function]map[ssa.Value]bool{}
	add := func(fn *ssa.Function, v ssa.Value) bool {
		if out[fn] == nil {
			out[fn] = map[ssa.Value]bool{}
		}
		if out[fn][v] {
			return false
		}
		out[fn][v] = true
		return true
	}
	var work []*ssa.Function
	for _, name := range []string{"Handle", "WithAttrs", "WithGroup"} {
		m := h.Methods[name]
		if m == nil {
			continue
		}
		for _, f := range sx.WithClosures(m) {
			sx.Instrs(f, func(in ssa.Instruction) {
				switch x := in.(type) {
				case *ssa.Call:
					// the line buffer comes from the getter that takes nothing (`newBuffer()`); a getter that is a method of the
					// handler or is given the group path (`h.prefix()`, `newPrefix(h.groupPrefix)`) hands out the key scratch
					if c := sx.StaticCallee(x); c != nil && getters[c] && c.Signature.Recv() == nil && c.Signature.Params().Len() == 0 {
						add(f, x)
					}
				case *ssa.FieldAddr:
					if sx.FieldOf(x) == h.Pre && sx.IsFreshObject(x.X) {
						add(f, x)
					}
				}
			})
			work = append(work, f)
		}
	}
	seen := map[*ssa.Function]int{}
	for len(work) > 0 {
		fn := work[0]
		work = work[1:]
		if seen[fn] > 8 {
			continue
		}
		seen[fn]++
		isBuf := func(v ssa.Value) bool {
			u := sx.Unspill(v)
			if out[fn][u] || out[fn][v] {
				return true
			}
			// a free variable bound to the parent's buffer
			if fv, ok := u.(*ssa.FreeVar); ok {
				if b := sx.FreeVarBinding(fv); b != nil && fn.Parent() != nil {
					bu := sx.Unspill(b)
					if al, ok := bu.(*ssa.Alloc); ok {
						st, _ := sx.CellStores(al)
						for _, s := range st {
							if out[fn.Parent()][sx.Unspill(s)] {
								return true
							}
						}
					}
					return out[fn.Parent()][bu]
				}
			}
			return false
		}
		sx.Instrs(fn, func(in ssa.Instruction) {
			c, ok := in.(ssa.CallInstruction)
			if !ok {
				return
			}
			callee := sx.StaticCallee(c)
			if callee == nil || !p.InModule(callee) || callee.Blocks == nil {
				return
			}
			for i, a := range sx.Args(c) {
				if i < len(callee.Params) && isBuf(a) {
					if add(callee, callee.Params[i]) {
						work = append(work, callee)
					}
				}
				// the line handed on by value (`*buf = appendX(*buf, …)`, strconv.Append style): the callee's slice parameter
				// is the line there; when the callee takes its address (`&buf`), the variable it was spilled to is too
				if i < len(callee.Params) && !isBuf(a) {
					res := callee.Signature.Results()
					if _, isSlice := callee.Params[i].Type().Underlying().(*types.Slice); isSlice && res.Len() == 1 && types.Identical(res.At(0).Type(), callee.Params[i].Type()) && isLineBufVal(fn, out[fn], a, map[ssa.Value]bool{}) {
						prm := callee.Params[i]
						changed := add(callee, prm)
						if prm.Referrers() != nil {
							for _, u := range *prm.Referrers() {
								if st, ok := u.(*ssa.Store); ok && st.Val == ssa.Value(prm) {
									if al, ok := st.Addr.(*ssa.Alloc); ok && add(callee, al) {
										changed = true
									}
								}
							}
						}
						if changed {
							work = append(work, callee)
						}
					}
				}
			}
		})
		// closures see the parent's buffer through free variables
		for _, cl := range fn.AnonFuncs {
			for _, fv := range cl.FreeVars {
				b := sx.FreeVarBinding(fv)
				if b == nil {
					continue
				}
				bu := sx.Unspill(b)
				hit := out[fn][bu]
				if al, ok := bu.(*ssa.Alloc); ok {
					st, _ := sx.CellStores(al)
					for _, s := range st {
						if out[fn][sx.Unspill(s)] {
							hit = true
						}
					}
				}
				if hit && add(cl, fv) {
					work = append(work, cl)
				}
			}
		}
	}
	return out
}

type sink struct {
	Fn         *ssa.Function
	In         ssa.Instruction
	Class      string // const, preformatted, table:<name>, closed:<what>, quoted, json-value, sanitizer-internal, raw
	Detail     string
	ColourOnly bool
	Bytes      []byte // for const
}

// isLineBufLoad: v is `*buf` for a line buffer of fn.
func isLineBufLoad(fn *ssa.Function, bufs map[ssa.Value]bool, v ssa.Value) bool {
	return isLineBufVal(fn, bufs, v, map[ssa.Value]bool{})
}

// isLineBufVal: v is the line's contents — `*buf`, or a local copy extended by appends (`dst := *buf; dst = append(dst, …)`).
func isLineBufVal(fn *ssa.Function, bufs map[ssa.Value]bool, v ssa.Value, seen map[ssa.Value]bool) bool {
	if v == nil || seen[v] {
		return false
	}
	seen[v] = true
	switch x := v.(type) {
	case *ssa.Parameter:
		// the line received by value
		_, isSlice := x.Type().Underlying().(*types.Slice)
		return isSlice && bufs[x]
	case *ssa.Phi:
		for _, e := range x.Edges {
			if isLineBufVal(fn, bufs, e, seen) {
				return true
			}
		}
		return false
	case *ssa.Call:
		if n := sx.CalleeName(x); (n == "builtin.append" || appendStyle(n)) && len(x.Call.Args) > 0 {
			for _, a := range x.Call.Args {
				if _, isSlice := a.Type().Underlying().(*types.Slice); isSlice && isLineBufVal(fn, bufs, a, seen) {
					return n == "builtin.append" && a == x.Call.Args[0] || n != "builtin.append"
				}
			}
		}
		return false
	}
	u, ok := v.(*ssa.UnOp)
	if !ok || u.Op != token.MUL {
		return false
	}
	a := u.X
	if bufs[a] || bufs[sx.Unspill(a)] {
		return true
	}
	// buf spilled to a cell / free variable: *(*cell)
	if uu, ok := a.(*ssa.UnOp); ok && uu.Op == token.MUL {
		if bufs[uu.X] {
			return true
		}
		if al, ok := uu.X.(*ssa.Alloc); ok {
			st, _ := sx.CellStores(al)
			for _, s := range st {
				if bufs[sx.Unspill(s)] {
					return true
				}
			}
		}
	}
	return false
}

// colourEdges: CFG edges of fn taken when the colour option is on.
func colourEdges(fn *ssa.Function) map[sx.Edge]bool {
	out := map[sx.Edge]bool{}
	for _, b := range fn.Blocks {
		iff, ok := b.Instrs[len(b.Instrs)-1].(*ssa.If)
		if !ok {
			continue
		}
		org := sx.Origins(iff.Cond)
		isColour := org["field:Options.colorful"]
		for o := range org {
			if strings.HasPrefix(o, "param:") && strings.Contains(strings.ToLower(o), "color") {
				isColour = true
			}
		}
		if isColour && len(org) == 1 {
			out[sx.Edge{From: b, Idx: 0}] = true
		}
	}
	// `painted := colorful && x; if painted {…}`: the condition is a phi that is the constant false on every edge not
	// coming from behind a colour edge, so its true edge is taken only with colour on
	base := map[sx.Edge]bool{}
	for e := range out {
		base[e] = true
	}
	for _, b := range fn.Blocks {
		iff, ok := b.Instrs[len(b.Instrs)-1].(*ssa.If)
		if !ok {
			continue
		}
		ph, ok := iff.Cond.(*ssa.Phi)
		if !ok || len(base) == 0 {
			continue
		}
		all := true
		for k, e := range ph.Edges {
			if c, isC := e.(*ssa.Const); isC && c.Value != nil && c.Value.Kind() == constant.Bool && !constant.BoolVal(c.Value) {
				continue
			}
			pred := ph.Block().Preds[k]
			if !sx.MustPass(fn, nil, pred.Instrs[len(pred.Instrs)-1], sx.Cut{Edges: base}) {
				all = false
			}
		}
		if all {
			out[sx.Edge{From: b, Idx: 0}] = true
		}
	}
	return out
}

// constBytesOf: the bytes of a variadic byte-array literal / constant string source of an append.
func constBytesOf(src ssa.Value) ([]byte, bool) {
	if s, ok := sx.ConstString(src); ok {
		return []byte(s), true
	}
	sl, ok := src.(*ssa.Slice)
	if !ok {
		return nil, false
	}
	al, ok := sl.X.(*ssa.Alloc)
	if !ok {
		return nil, false
	}
	arr, ok := ptrTo(al.Type()).Underlying().(*types.Array)
	if !ok {
		return nil, false
	}
	out := make([]byte, arr.Len())
	got := make([]bool, arr.Len())
	for _, u := range *al.Referrers() {
		ia, ok := u.(*ssa.IndexAddr)
		if !ok {
			continue
		}
		k, isC := sx.ConstInt(ia.Index)
		if !isC {
			return nil, false
		}
		for _, uu := range *ia.Referrers() {
			if st, ok := uu.(*ssa.Store); ok && st.Addr == ia {
				c, isC := sx.ConstInt(st.Val)
				if !isC {
					return nil, false
				}
				out[k], got[k] = byte(c), true
			}
		}
	}
	for _, g := range got {
		if !g {
			return nil, false
		}
	}
	return out, true
}

// classifySinks lists every append of data to the handler's output line.
func classifySinks(p *core.Prog, h *handlerInfo, sanitizer *ssa.Function) ([]sink, map[*ssa.Function]map[ssa.Value]bool) {
	bufs := lineBufs(p, h)
	var out []sink
	var fns []*ssa.Function
	for fn := range bufs {
		fns = append(fns, fn)
	}
	sort.Slice(fns, func(i, j int) bool { return fns[i].String() < fns[j].String() })
	for _, fn := range fns {
		ce := colourEdges(fn)
		usesJSONEnc := false
		sx.Instrs(fn, func(in ssa.Instruction) {
			if c, ok := in.(ssa.CallInstruction); ok && sx.CalleeName(c) == "(*encoding/json.Encoder).Encode" {
				usesJSONEnc = true
			}
		})
		sx.Instrs(fn, func(in ssa.Instruction) {
			c, ok := in.(*ssa.Call)
			if !ok {
				return
			}
			name := sx.CalleeName(c)
			args := c.Call.Args
			s := sink{Fn: fn, In: in}
			switch {
			case name == "builtin.append" && len(args) == 2 && isLineBufLoad(fn, bufs[fn], args[0]):
				src := args[1]
				// bytes.TrimSuffix(x, "\n") / TrimRight(x, "\n"): x without its trailing newline
				trimmed := false
				if tc, ok := src.(*ssa.Call); ok && (sx.CalleeName(tc) == "bytes.TrimSuffix" || sx.CalleeName(tc) == "bytes.TrimRight") && len(tc.Call.Args) == 2 {
					if cb, ok := constBytesOf(tc.Call.Args[1]); ok && string(cb) == "\n" {
						src, trimmed = tc.Call.Args[0], true
					}
				}
				// `if n := len(x); n > 0 && x[n-1] == '\n' { x = x[:n-1] }`: x without a trailing newline, like TrimSuffix
				if ph, ok := src.(*ssa.Phi); ok && len(ph.Edges) >= 2 {
					var whole ssa.Value
					var cut *ssa.Slice
					okShape := true
					for _, e := range ph.Edges {
						if sl, isS := e.(*ssa.Slice); isS && sl.High != nil && sl.Low == nil {
							if cut != nil && cut != sl {
								okShape = false
							}
							cut = sl
						} else {
							if whole != nil && whole != e {
								okShape = false
							}
							whole = e
						}
					}
					if okShape && cut != nil && whole != nil && cut.X == whole {
						nl := map[sx.Edge]bool{}
						sx.Instrs(fn, func(i2 ssa.Instruction) {
							b, isB := i2.(*ssa.BinOp)
							if !isB || b.Op != token.EQL || b.Referrers() == nil {
								return
							}
							if k, isC := sx.ConstInt(b.Y); !isC || k != '\n' {
								return
							}
							ld, isL := b.X.(*ssa.UnOp)
							if !isL {
								return
							}
							ia, isI := ld.X.(*ssa.IndexAddr)
							if !isI || ia.X != whole {
								return
							}
							for _, u := range *b.Referrers() {
								if iff, isIf := u.(*ssa.If); isIf {
									nl[sx.Edge{From: iff.Block(), Idx: 0}] = true
								}
							}
						})
						if len(nl) > 0 && sx.MustPass(fn, nil, cut, sx.Cut{Edges: nl}) {
							src, trimmed = whole, true
						}
					}
				}
				org := sx.Origins(src)
				if b, ok := constBytesOf(src); ok {
					s.Class, s.Bytes = "const", b
				} else if b, ok := paramConst(p, fn, src); ok {
					// a string parameter that every call site outside the colour-only paths passes the same constant for
					s.Class, s.Bytes = "const", b
					s.Detail = "parameter " + sx.ValPath(src) + ": constant at every call site that is not colour-only"
				} else if h.Pre != nil && org["field:"+h.Name+"."+h.Pre.Name()] && len(org) == 1 {
					s.Class = "preformatted"
				} else if g := onlyGlobal(org); g != "" {
					s.Class, s.Detail = "table:"+g, sx.ValPath(src)
				} else if org["call:(time.Duration).String"] && len(org) == 1 {
					s.Class = "closed:duration"
				} else if usesJSONEnc && org["call:(*bytes.Buffer).Bytes"] && len(org) == 1 {
					s.Class = "json-value"
					if sl, ok := src.(*ssa.Slice); (!ok || sl.High == nil) && !trimmed {
						s.Class, s.Detail = "raw", "encoder output appended including its trailing newline"
					}
				} else if fn == sanitizer || (sanitizer != nil && onlyCalledFrom(p, fn, map[*ssa.Function]bool{sanitizer: true})) {
					// (also in a private helper of the escaping function: the escape-table rule evaluates the function with its helpers in place)
					// raw runs of the input and computed escape bytes: validated character by character by the escape-table rule
					s.Class = "sanitizer-internal"
				} else {
					s.Class, s.Detail = "raw", "data from "+short(keys(org))
				}
			case appendStyle(name) && len(sx.Args(c)) >= 1 && lineBufArg(fn, bufs[fn], c):
				switch {
				case strings.HasPrefix(name, "strconv.AppendFloat"):
					s.Class = "closed:float"
				case strings.HasPrefix(name, "strconv.AppendInt"), strings.HasPrefix(name, "strconv.AppendUint"), strings.HasPrefix(name, "strconv.AppendBool"):
					s.Class = "closed:number"
				case name == "(time.Time).AppendFormat":
					if lay, ok := sx.ConstString(args[len(args)-1]); ok {
						s.Class, s.Detail = "closed:time", lay
					} else {
						s.Class, s.Detail = "raw", "time layout is not constant"
					}
				case strings.HasPrefix(name, "strconv.AppendQuote"):
					s.Class = "quoted"
				default:
					s.Class, s.Detail = "raw", "formatted by "+name
				}
			default:
				return
			}
			if len(ce) > 0 && sx.MustPass(fn, nil, in, sx.Cut{Edges: ce}) {
				s.ColourOnly = true
			}
			out = append(out, s)
		})
	}
	return out, bufs
}

// paramConst: src is a string/[]byte parameter of fn, and every static call site of fn that is not on a colour-only
// path of its caller passes the same constant for it (and there is at least one such site).
func paramConst(p *core.Prog, fn *ssa.Function, src ssa.Value) ([]byte, bool) {
	prm, ok := sx.Unspill(src).(*ssa.Parameter)
	if !ok || prm.Parent() != fn {
		return nil, false
	}
	idx := -1
	for i, q := range fn.Params {
		if q == prm {
			idx = i
		}
	}
	if idx < 0 {
		return nil, false
	}
	var val []byte
	n := 0
	for _, cs := range staticCalls(p).callers[fn] {
		if _, isCall := cs.Instr.(*ssa.Call); !isCall {
			return nil, false
		}
		ce := colourEdges(cs.Caller)
		if len(ce) > 0 && sx.MustPass(cs.Caller, nil, cs.Instr.(ssa.Instruction), sx.Cut{Edges: ce}) {
			continue // colour-only call site: the colour option is fixed off for the structural rules
		}
		args := sx.Args(cs.Instr)
		if idx >= len(args) {
			return nil, false
		}
		b, isC := constBytesOf(args[idx])
		if !isC {
			return nil, false
		}
		if n > 0 && string(b) != string(val) {
			return nil, false
		}
		val = b
		n++
	}
	return val, n > 0
}

func lineBufArg(fn *ssa.Function, bufs map[ssa.Value]bool, c *ssa.Call) bool {
	for _, a := range c.Call.Args {
		if isLineBufLoad(fn, bufs, a) {
			return true
		}
	}
	return false
}

func onlyGlobal(org map[string]bool) string {
	if len(org) != 1 {
		return ""
	}
	for o := range org {
		if strings.HasPrefix(o, "global:") {
			return strings.TrimPrefix(o, "global:")
		}
	}
	return ""
}

func paramOfType(fn *ssa.Function, t string) string {
	for _, prm := range fn.Params {
		if prm.Type().String() == t {
			return prm.Name()
		}
	}
	return "?"
}

// findSanitizer: the function of package logger with parameters (*[]byte, string) that appends slices
// of its own string parameter and (text) hands the whole string to strconv.AppendQuote on some paths.
func findSanitizer(p *core.Prog, bufs map[*ssa.Function]map[ssa.Value]bool, wantQuote bool) *ssa.Function {
	var best *ssa.Function
	var fns []*ssa.Function
	for fn := range bufs {
		fns = append(fns, fn)
	}
	sort.Slice(fns, func(i, j int) bool { return fns[i].String() < fns[j].String() })
	for _, fn := range fns {
		if fn.Parent() != nil || len(fn.Params) != 2 || !isStringT(fn.Params[1].Type()) {
			continue
		}
		if ptrTo(fn.Params[0].Type()) == nil {
			continue
		}
		// judged on the inlined view: the scan may live in a predicate helper
		view := p.Inl(fn)
		quotes, loops := false, outerLoop(view) != nil
		sx.Instrs(view, func(in ssa.Instruction) {
			if c, ok := in.(*ssa.Call); ok && sx.CalleeName(c) == "strconv.AppendQuote" {
				quotes = true
			}
		})
		if loops && quotes == wantQuote {
			best = fn
		}
	}
	return best
}

func describeSink(p *core.Prog, s sink) string {
	return fmt.Sprintf("%s in %s", s.Class, fnName(s.Fn))
}
