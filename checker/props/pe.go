package props

import (
	"fmt"
	"go/ast"
	"go/constant"
	"go/token"
	"go/types"
	"os"
	"strconv"
	"unicode"
	"unicode/utf8"

	"golang.org/x/tools/go/ssa"

	"glbverif/checker/core"
	"glbverif/checker/sx"
)

// Partial evaluation of a per-character decision: the SSA of one loop
// iteration of an escaping/quoting function is walked with the character
// (a byte, or a decoded rune and its size) bound to a concrete value of its
// finite domain and everything else left abstract. This is a case split on a
// finite-domain variable of the *source's own decision tree*; glb code is not
// executed.

type peOutcome struct {
	Kind    string // "quote" (whole string through strconv.AppendQuote), "advance" (next character), "return", "undecided"
	Emitted []byte // constant bytes appended to the output during the step
	Raw     bool   // non-constant data appended during the step
	Why     string
	// bookkeeping of the pending raw run (only when the loop keeps one: `start`)
	Flush    bool   // the pending run str[start:i] was appended during the step
	OtherRaw string // a non-constant append that is not the pending run
	NewStart string // value of start on re-entering the loop head, as "start+k" / "i+k" / "?"
	NewI     string // value of the index on re-entering the loop head (index loops)
}

type peEnv struct {
	p      *core.Prog
	vals   map[ssa.Value]constant.Value
	arrays map[*ssa.Alloc]map[int64]constant.Value
	tables map[string][]constant.Value // global array name -> elements
	// range mode: the iteration's rune and byte count are known, a decoding of the string at the iteration's own offset
	// (`utf8.DecodeRuneInString(str[i:])`, i the range key) yields them again
	rangeKey  ssa.Value
	rangeStr  ssa.Value
	rangeRune rune
	rangeSize int
	// symbolic offsets: values that are start+k or i+k (start, i: the loop-carried run start and index)
	sym    map[ssa.Value]symOff
	iV     ssa.Value
	startV ssa.Value
}

type symOff struct {
	base string // "start", "i", "" (constant)
	off  int64
}

func (o symOff) String() string {
	if o.base == "" {
		return fmt.Sprint(o.off)
	}
	return fmt.Sprintf("%s+%d", o.base, o.off)
}

// symEval: v as start+k / i+k / k.
func (e *peEnv) symEval(v ssa.Value, depth int) (symOff, bool) {
	if depth > 8 || v == nil {
		return symOff{}, false
	}
	if s, ok := e.sym[v]; ok {
		return s, true
	}
	if e.iV != nil && v == e.iV {
		return symOff{"i", 0}, true
	}
	if e.startV != nil && v == e.startV {
		return symOff{"start", 0}, true
	}
	if c, ok := e.eval(v); ok && c.Kind() == constant.Int {
		k, _ := constant.Int64Val(c)
		return symOff{"", k}, true
	}
	switch x := v.(type) {
	case *ssa.BinOp:
		if x.Op == token.ADD || x.Op == token.SUB {
			a, ok1 := e.symEval(x.X, depth+1)
			b, ok2 := e.symEval(x.Y, depth+1)
			if ok1 && ok2 {
				if x.Op == token.ADD && (a.base == "" || b.base == "") {
					base := a.base
					if base == "" {
						base = b.base
					}
					return symOff{base, a.off + b.off}, true
				}
				if x.Op == token.SUB && b.base == "" {
					return symOff{a.base, a.off - b.off}, true
				}
			}
		}
	case *ssa.Convert:
		return e.symEval(x.X, depth+1)
	case *ssa.ChangeType:
		return e.symEval(x.X, depth+1)
	}
	return symOff{}, false
}

// atHeader records what the loop-carried values become when the iteration re-enters the head from pred.
func (e *peEnv) atHeader(hdr, pred *ssa.BasicBlock, out *peOutcome) {
	for _, in := range hdr.Instrs {
		ph, ok := in.(*ssa.Phi)
		if !ok {
			break
		}
		for k, pb := range hdr.Preds {
			if pb != pred {
				continue
			}
			txt := "?"
			if s, ok := e.symEval(ph.Edges[k], 0); ok {
				txt = s.String()
			}
			if e.startV != nil && ssa.Value(ph) == e.startV {
				out.NewStart = txt
			}
			if e.iV != nil && ssa.Value(ph) == e.iV {
				out.NewI = txt
			}
		}
	}
}

// boolTable reads a package-level `[N]bool{key: value…}` literal.
func boolTable(p *core.Prog, rel, name string) ([]constant.Value, token.Pos) {
	pk := p.Pkgs[rel]
	if pk == nil {
		return nil, token.NoPos
	}
	var out []constant.Value
	var pos token.Pos
	for _, f := range pk.Syntax {
		ast.Inspect(f, func(n ast.Node) bool {
			vs, ok := n.(*ast.ValueSpec)
			if !ok {
				return true
			}
			for i, nm := range vs.Names {
				if nm.Name != name || i >= len(vs.Values) {
					continue
				}
				cl, ok := vs.Values[i].(*ast.CompositeLit)
				if !ok {
					continue
				}
				at, ok := pk.TypesInfo.TypeOf(cl).Underlying().(*types.Array)
				if !ok {
					continue
				}
				out = make([]constant.Value, at.Len())
				for k := range out {
					out[k] = constant.MakeBool(false)
				}
				pos = cl.Pos()
				idx := int64(0)
				for _, e := range cl.Elts {
					val := e
					if kv, ok := e.(*ast.KeyValueExpr); ok {
						kc := pk.TypesInfo.Types[kv.Key].Value
						if kc == nil {
							out = nil
							return false
						}
						idx, _ = constant.Int64Val(constant.ToInt(kc))
						val = kv.Value
					}
					vc := pk.TypesInfo.Types[val].Value
					if vc == nil || idx < 0 || idx >= int64(len(out)) {
						out = nil
						return false
					}
					out[idx] = vc
					idx++
				}
			}
			return true
		})
	}
	return out, pos
}

// derivedBoolTables adds to tables the package-level `[N]bool` variables that the package initialiser fills from a
// private function of the simplest kind: copy one of the known tables, overwrite entries at constant indices with
// constants, return the copy (`var bare = func() [128]bool { t := safeSet; t[' '] = false; return t }()`).
func derivedBoolTables(p *core.Prog, rel string, tables map[string][]constant.Value) {
	sp := p.SPkgs[rel]
	if sp == nil {
		return
	}
	init := sp.Func("init")
	if init == nil {
		return
	}
	for round := 0; round < 2; round++ {
		sx.Instrs(init, func(in ssa.Instruction) {
			st, ok := in.(*ssa.Store)
			if !ok {
				return
			}
			g, ok := st.Addr.(*ssa.Global)
			if !ok || tables[g.Name()] != nil {
				return
			}
			call, ok := st.Val.(*ssa.Call)
			if !ok {
				return
			}
			f := sx.StaticCallee(call)
			if f == nil || len(f.Blocks) != 1 || len(f.Params) != 0 {
				return
			}
			state := map[*ssa.Alloc][]constant.Value{}
			var result []constant.Value
			okF := true
			for _, i2 := range f.Blocks[0].Instrs {
				switch x := i2.(type) {
				case *ssa.Alloc, *ssa.DebugRef, *ssa.IndexAddr:
				case *ssa.UnOp:
					if x.Op != token.MUL {
						okF = false
					}
				case *ssa.Store:
					switch a := x.Addr.(type) {
					case *ssa.Alloc:
						ld, isLd := x.Val.(*ssa.UnOp)
						if !isLd {
							okF = false
							break
						}
						src, isG := ld.X.(*ssa.Global)
						if !isG || tables[src.Name()] == nil {
							okF = false
							break
						}
						state[a] = append([]constant.Value(nil), tables[src.Name()]...)
					case *ssa.IndexAddr:
						al, isA := a.X.(*ssa.Alloc)
						k, isK := sx.ConstInt(a.Index)
						c, isC := x.Val.(*ssa.Const)
						if !isA || !isK || !isC || c.Value == nil || c.Value.Kind() != constant.Bool || state[al] == nil || k < 0 || k >= int64(len(state[al])) {
							okF = false
							break
						}
						state[al][k] = c.Value
					default:
						okF = false
					}
				case *ssa.Return:
					if len(x.Results) == 1 {
						if ld, isLd := x.Results[0].(*ssa.UnOp); isLd {
							if al, isA := ld.X.(*ssa.Alloc); isA {
								result = state[al]
							}
						}
					}
				default:
					okF = false
				}
			}
			if okF && result != nil {
				tables[g.Name()] = result
			}
		})
	}
}

func (e *peEnv) eval(v ssa.Value) (constant.Value, bool) {
	if c, ok := e.vals[v]; ok {
		return c, true
	}
	switch x := v.(type) {
	case *ssa.Const:
		if x.Value == nil {
			return nil, false
		}
		return x.Value, true
	case *ssa.BinOp:
		a, ok1 := e.eval(x.X)
		b, ok2 := e.eval(x.Y)
		if !ok1 || !ok2 {
			return nil, false
		}
		switch x.Op {
		case token.EQL, token.NEQ, token.LSS, token.LEQ, token.GTR, token.GEQ:
			if a.Kind() == constant.Bool || b.Kind() == constant.Bool {
				if x.Op == token.EQL {
					return constant.MakeBool(constant.BoolVal(a) == constant.BoolVal(b)), true
				}
				if x.Op == token.NEQ {
					return constant.MakeBool(constant.BoolVal(a) != constant.BoolVal(b)), true
				}
				return nil, false
			}
			return constant.MakeBool(constant.Compare(a, x.Op, b)), true
		case token.SHL, token.SHR:
			s, _ := constant.Uint64Val(constant.ToInt(b))
			return constant.Shift(constant.ToInt(a), x.Op, uint(s)), true
		case token.ADD, token.SUB, token.MUL, token.AND, token.OR, token.XOR, token.AND_NOT:
			return constant.BinaryOp(constant.ToInt(a), x.Op, constant.ToInt(b)), true
		}
	case *ssa.UnOp:
		switch x.Op {
		case token.NOT:
			if a, ok := e.eval(x.X); ok && a.Kind() == constant.Bool {
				return constant.MakeBool(!constant.BoolVal(a)), true
			}
		case token.MUL:
			// load of table[idx]
			if ia, ok := x.X.(*ssa.IndexAddr); ok {
				if g, ok := ia.X.(*ssa.Global); ok {
					tab, okT := e.tables[g.Name()]
					idx, okI := e.eval(ia.Index)
					if okT && okI {
						k, _ := constant.Int64Val(constant.ToInt(idx))
						if k >= 0 && k < int64(len(tab)) {
							return tab[k], true
						}
					}
				}
			}
		}
	case *ssa.Convert:
		if a, ok := e.eval(x.X); ok && (a.Kind() == constant.Int) {
			// integer conversions: truncate to the target width
			if b, ok := x.Type().Underlying().(*types.Basic); ok && b.Info()&types.IsInteger != 0 {
				k, _ := constant.Int64Val(a)
				switch b.Kind() {
				case types.Uint8:
					k &= 0xff
				case types.Uint16:
					k &= 0xffff
				case types.Int32, types.Uint32:
					k &= 0xffffffff
				}
				return constant.MakeInt64(k), true
			}
			return a, true
		}
	case *ssa.Index:
		if s, ok := sx.ConstString(x.X); ok {
			if idx, ok := e.eval(x.Index); ok {
				k, _ := constant.Int64Val(constant.ToInt(idx))
				if k >= 0 && k < int64(len(s)) {
					return constant.MakeInt64(int64(s[k])), true
				}
			}
		}
	case *ssa.Lookup:
		if s, ok := sx.ConstString(x.X); ok {
			if idx, ok := e.eval(x.Index); ok {
				k, _ := constant.Int64Val(constant.ToInt(idx))
				if k >= 0 && k < int64(len(s)) {
					return constant.MakeInt64(int64(s[k])), true
				}
			}
		}
	case *ssa.Call:
		name := sx.CalleeName(x)
		if name == "unicode/utf8.RuneLen" {
			if a, ok := e.eval(x.Call.Args[0]); ok {
				k, _ := constant.Int64Val(constant.ToInt(a))
				return constant.MakeInt64(int64(utf8.RuneLen(rune(k)))), true
			}
		}
		if name == "unicode.IsSpace" || name == "unicode.IsPrint" || name == "unicode.IsControl" || name == "unicode.IsGraphic" || name == "strconv.IsPrint" || name == "strconv.IsGraphic" {
			if a, ok := e.eval(x.Call.Args[0]); ok {
				k, _ := constant.Int64Val(constant.ToInt(a))
				var res bool
				switch name {
				case "unicode.IsSpace":
					res = unicode.IsSpace(rune(k))
				case "unicode.IsPrint":
					res = unicode.IsPrint(rune(k))
				case "unicode.IsControl":
					res = unicode.IsControl(rune(k))
				case "unicode.IsGraphic":
					res = unicode.IsGraphic(rune(k))
				case "strconv.IsPrint":
					res = strconv.IsPrint(rune(k))
				case "strconv.IsGraphic":
					res = strconv.IsGraphic(rune(k))
				}
				return constant.MakeBool(res), true
			}
		}
	}
	return nil, false
}

// step walks from (block, index) until the iteration ends.
func (e *peEnv) step(fn *ssa.Function, b *ssa.BasicBlock, idx int, hdr *ssa.BasicBlock, outBuf ssa.Value, whole ssa.Value) peOutcome {
	out := peOutcome{}
	var pred *ssa.BasicBlock
	for steps := 0; steps < 200; steps++ {
		for i := idx; i < len(b.Instrs); i++ {
			switch x := b.Instrs[i].(type) {
			case *ssa.Phi:
				if pred != nil {
					for k, pb := range b.Preds {
						if pb == pred {
							if c, ok := e.eval(x.Edges[k]); ok {
								e.vals[x] = c
							} else if sv, ok := e.symEval(x.Edges[k], 0); ok && e.sym != nil {
								e.sym[x] = sv
							}
						}
					}
				}
			case *ssa.Store:
				if ia, ok := x.Addr.(*ssa.IndexAddr); ok {
					if al, ok := ia.X.(*ssa.Alloc); ok {
						k, okK := sx.ConstInt(ia.Index)
						c, okC := e.eval(x.Val)
						if okK {
							if e.arrays[al] == nil {
								e.arrays[al] = map[int64]constant.Value{}
							}
							if okC {
								e.arrays[al][k] = c
							} else {
								e.arrays[al][k] = nil
							}
						}
					}
				}
			case *ssa.Call:
				name := sx.CalleeName(x)
				switch {
				case name == "builtin.append" && derivesFromBuf(x.Call.Args[0], outBuf, map[ssa.Value]bool{}):
					src := x.Call.Args[1]
					if sl, ok := src.(*ssa.Slice); ok {
						if al, ok := sl.X.(*ssa.Alloc); ok {
							arr := ptrTo(al.Type()).Underlying().(*types.Array)
							for k := int64(0); k < arr.Len(); k++ {
								c := e.arrays[al][k]
								if c == nil {
									out.Raw = true
									out.Why = "a non-constant byte is appended at " + e.p.Pos(x.Pos())
									continue
								}
								bv, _ := constant.Int64Val(constant.ToInt(c))
								out.Emitted = append(out.Emitted, byte(bv))
							}
							continue
						}
					}
					if s, ok := sx.ConstString(src); ok {
						out.Emitted = append(out.Emitted, s...)
						continue
					}
					out.Raw = true
					out.Why = "non-constant data appended at " + e.p.Pos(x.Pos())
					if e.startV != nil {
						isRun := false
						if sl, ok := src.(*ssa.Slice); ok && sl.X == e.rangeStr && sl.Low != nil && sl.High != nil {
							lo, ok1 := e.symEval(sl.Low, 0)
							hi, ok2 := e.symEval(sl.High, 0)
							if ok1 && ok2 && lo == (symOff{"start", 0}) && hi == (symOff{"i", 0}) {
								isRun = true
							}
						}
						if isRun && !out.Flush && len(out.Emitted) == 0 {
							out.Flush = true
						} else {
							out.OtherRaw = "at " + e.p.Pos(x.Pos()) + " the step appends non-constant data that is not the pending run str[start:i] (or appends the run twice, or after the escape)"
						}
					}
				case name == "strconv.AppendQuote":
					if x.Call.Args[1] == whole {
						out.Kind = "quote"
					} else {
						out.Kind, out.Why = "undecided", "AppendQuote of something else than the whole string"
					}
				case name == "unicode/utf8.DecodeRuneInString":
					if sl, ok := x.Call.Args[0].(*ssa.Slice); ok && e.rangeKey != nil && sl.X == e.rangeStr && sl.Low == e.rangeKey && sl.High == nil && x.Referrers() != nil {
						for _, u := range *x.Referrers() {
							if ex, ok := u.(*ssa.Extract); ok {
								if ex.Index == 0 {
									e.vals[ex] = constant.MakeInt64(int64(e.rangeRune))
								} else {
									e.vals[ex] = constant.MakeInt64(int64(e.rangeSize))
								}
							}
						}
						continue
					}
					out.Kind, out.Why = "undecided", "reached rune decoding with a concrete ASCII byte"
					return out
				}
			case *ssa.Return:
				if out.Kind == "" {
					out.Kind = "return"
				}
				return out
			case *ssa.Jump:
				pred, b, idx = b, b.Succs[0], 0
				if b == hdr {
					if out.Kind == "" {
						out.Kind = "advance"
					}
					e.atHeader(hdr, pred, &out)
					return out
				}
				goto next
			case *ssa.If:
				c, ok := e.eval(x.Cond)
				if !ok || c.Kind() != constant.Bool {
					out.Kind, out.Why = "undecided", "branch at "+e.p.Pos(x.Pos())+" does not depend on the character alone"
					return out
				}
				k := 1
				if constant.BoolVal(c) {
					k = 0
				}
				pred, b, idx = b, b.Succs[k], 0
				if b == hdr {
					if out.Kind == "" {
						out.Kind = "advance"
					}
					e.atHeader(hdr, pred, &out)
					return out
				}
				goto next
			}
		}
		out.Kind, out.Why = "undecided", "fell off a block"
		return out
	next:
	}
	out.Kind, out.Why = "undecided", "step limit"
	return out
}

// derivesFromBuf: v is the output buffer's contents — *buf itself, or a local copy of it that is extended by appends
// (`dst := *buf; dst = append(dst, …); *buf = dst`).
func derivesFromBuf(v ssa.Value, outBuf ssa.Value, seen map[ssa.Value]bool) bool {
	if v == nil || seen[v] {
		return false
	}
	seen[v] = true
	if sx.Origins(v)["param:"+outBuf.Name()] {
		return true
	}
	switch x := v.(type) {
	case *ssa.Phi:
		for _, e := range x.Edges {
			if derivesFromBuf(e, outBuf, seen) {
				return true
			}
		}
	case *ssa.Call:
		if sx.CalleeName(x) == "builtin.append" {
			return derivesFromBuf(x.Call.Args[0], outBuf, seen)
		}
	}
	return false
}

// charLoop finds, in an escaping function, the loop over the string parameter and the
// instruction that reads the current byte (`b := str[i]`) and the rune decoding call.
type charLoop struct {
	fn     *ssa.Function
	hdr    *ssa.BasicBlock
	byteIn ssa.Instruction // b = str[i]
	byteV  ssa.Value
	decode *ssa.Call // utf8.DecodeRuneInString
	runeV  ssa.Value
	sizeV  ssa.Value
	str    *ssa.Parameter
	buf    *ssa.Parameter
	next   *ssa.Next // `for _, r := range str`: the rune comes from the iterator (invalid bytes arrive as RuneError)
	okV    ssa.Value
	keyV   ssa.Value
	// the loop keeps a pending raw run str[start:i]: startV is the loop-carried start, iV the current offset (the
	// index phi, or the key of a range loop)
	startV ssa.Value
	iV     ssa.Value
}

func findCharLoop(fn *ssa.Function) (*charLoop, string) {
	cl := &charLoop{fn: fn}
	for _, prm := range fn.Params {
		if isStringT(prm.Type()) {
			cl.str = prm
		}
		if pt := ptrTo(prm.Type()); pt != nil && pt.String() == "[]byte" {
			cl.buf = prm
		}
	}
	if cl.str == nil || cl.buf == nil {
		return nil, "no (buf *[]byte, s string) parameters"
	}
	cl.hdr = outerLoop(fn)
	if cl.hdr == nil {
		return nil, "no loop over the string"
	}
	sx.Instrs(fn, func(in ssa.Instruction) {
		switch x := in.(type) {
		case *ssa.Index:
			if x.X == ssa.Value(cl.str) && cl.byteIn == nil {
				cl.byteIn, cl.byteV = in, x
			}
		case *ssa.Lookup:
			if x.X == ssa.Value(cl.str) && cl.byteIn == nil {
				cl.byteIn, cl.byteV = in, x
			}
		case *ssa.Call:
			if sx.CalleeName(x) == "unicode/utf8.DecodeRuneInString" {
				cl.decode = x
				for _, u := range *x.Referrers() {
					if e, ok := u.(*ssa.Extract); ok {
						if e.Index == 0 {
							cl.runeV = e
						} else {
							cl.sizeV = e
						}
					}
				}
			}
		}
	})
	if cl.byteIn == nil {
		// range over the string
		sx.Instrs(fn, func(in ssa.Instruction) {
			nx, ok := in.(*ssa.Next)
			if !ok || !nx.IsString {
				return
			}
			if rg, ok := nx.Iter.(*ssa.Range); !ok || rg.X != ssa.Value(cl.str) {
				return
			}
			cl.next = nx
			for _, u := range *nx.Referrers() {
				if e, ok := u.(*ssa.Extract); ok {
					switch e.Index {
					case 0:
						cl.okV = e
					case 1:
						cl.keyV = e
					case 2:
						cl.runeV = e
					}
				}
			}
		})
		if cl.next == nil || cl.runeV == nil {
			return nil, "no byte read str[i] and no `range str` loop found"
		}
		cl.hdr = cl.next.Block()
		cl.iV = cl.keyV
	} else {
		switch x := cl.byteV.(type) {
		case *ssa.Index:
			cl.iV = x.Index
		case *ssa.Lookup:
			cl.iV = x.Index
		}
		if ph, ok := cl.iV.(*ssa.Phi); !ok || ph.Block() != cl.hdr {
			cl.iV = nil
		}
	}
	if cl.iV != nil {
		sx.Instrs(fn, func(in ssa.Instruction) {
			c, ok := in.(*ssa.Call)
			if !ok || sx.CalleeName(c) != "builtin.append" || len(c.Call.Args) != 2 {
				return
			}
			sl, ok := c.Call.Args[1].(*ssa.Slice)
			if !ok || sl.X != ssa.Value(cl.str) || sl.Low == nil || sl.High != cl.iV {
				return
			}
			if ph, ok := sl.Low.(*ssa.Phi); ok && ph.Block() == cl.hdr {
				cl.startV = ph
			}
		})
	}
	return cl, ""
}

// finalFlush: when the loop keeps a pending run, every way out of the function appends the rest str[start:].
func (cl *charLoop) finalFlush() string {
	if cl.startV == nil {
		return ""
	}
	body := sx.LoopBody(cl.hdr)
	cut := sx.Cut{Instrs: map[ssa.Instruction]bool{}}
	sx.Instrs(cl.fn, func(in ssa.Instruction) {
		c, ok := in.(*ssa.Call)
		if !ok || sx.CalleeName(c) != "builtin.append" || len(c.Call.Args) != 2 || body[in.Block()] {
			return
		}
		if sl, ok := c.Call.Args[1].(*ssa.Slice); ok && sl.X == ssa.Value(cl.str) && sl.Low == cl.startV && sl.High == nil && derivesFromBuf(c.Call.Args[0], cl.buf, map[ssa.Value]bool{}) {
			cut.Instrs[in] = true
		}
	})
	for _, ret := range sx.Returns(cl.fn) {
		if len(cut.Instrs) == 0 || !sx.MustPass(cl.fn, nil, ret, cut) {
			return "the function can return without appending the rest of the pending raw run str[start:]: the tail of the string after the last escape is lost"
		}
	}
	return ""
}

func (cl *charLoop) arm(e *peEnv) {
	e.rangeStr = cl.str
	if cl.startV != nil {
		e.sym = map[ssa.Value]symOff{}
		e.iV, e.startV = cl.iV, cl.startV
	}
}

// bookkeeping checks what a step did to the pending run, for a character of size bytes: a character that is passed
// through raw leaves start alone; a character that is replaced has the pending run flushed first and start moved
// just past it; an index loop moves its index past it.
func (cl *charLoop) bookkeeping(o peOutcome, size int) string {
	if cl.startV == nil {
		return ""
	}
	if o.OtherRaw != "" {
		return o.OtherRaw
	}
	past := fmt.Sprintf("i+%d", size)
	if cl.next == nil && o.NewI != past {
		return fmt.Sprintf("the index moves to %s instead of %s (the character is %d byte(s) long)", o.NewI, past, size)
	}
	if len(o.Emitted) == 0 && !o.Flush {
		if o.NewStart != "start+0" {
			return "the character is passed through raw but the start of the pending run moves to " + o.NewStart
		}
		return ""
	}
	if !o.Flush {
		return "an escape is written without first appending the pending raw run str[start:i]"
	}
	if o.NewStart != past {
		return fmt.Sprintf("after the escape the pending run restarts at %s instead of %s (the replaced character is %d byte(s) long): the bytes in between are copied raw or dropped", o.NewStart, past, size)
	}
	return ""
}

var peDebug = os.Getenv("GLB_PE_DEBUG") != ""

func (cl *charLoop) evalByte(p *core.Prog, tables map[string][]constant.Value, b byte) peOutcome {
	if peDebug && b == 0 {
		fmt.Fprintf(os.Stderr, "pe: byteIn=%s in block %d hdr=%d\n", cl.byteIn, cl.byteIn.Block().Index, cl.hdr.Index)
		cl.fn.WriteTo(os.Stderr)
	}
	if cl.next != nil {
		return cl.evalRange(p, tables, rune(b), 1)
	}
	e := &peEnv{p: p, vals: map[ssa.Value]constant.Value{cl.byteV: constant.MakeInt64(int64(b))}, arrays: map[*ssa.Alloc]map[int64]constant.Value{}, tables: tables}
	cl.arm(e)
	blk := cl.byteIn.Block()
	idx := 0
	for i, in := range blk.Instrs {
		if in == cl.byteIn {
			idx = i + 1
		}
	}
	return e.step(cl.fn, blk, idx, cl.hdr, cl.buf, cl.str)
}

// evalRange: one iteration of `for _, r := range str` with r bound.
func (cl *charLoop) evalRange(p *core.Prog, tables map[string][]constant.Value, r rune, size int) peOutcome {
	e := &peEnv{p: p, vals: map[ssa.Value]constant.Value{cl.runeV: constant.MakeInt64(int64(r))}, arrays: map[*ssa.Alloc]map[int64]constant.Value{}, tables: tables}
	e.rangeKey, e.rangeStr, e.rangeRune, e.rangeSize = cl.keyV, cl.str, r, size
	cl.arm(e)
	if cl.okV != nil {
		e.vals[cl.okV] = constant.MakeBool(true)
	}
	blk := cl.next.Block()
	idx := 0
	for i, in := range blk.Instrs {
		if in == ssa.Instruction(cl.next) {
			idx = i + 1
		}
	}
	return e.step(cl.fn, blk, idx, cl.hdr, cl.buf, cl.str)
}

func (cl *charLoop) evalRune(p *core.Prog, tables map[string][]constant.Value, r rune, size int, firstByte byte) peOutcome {
	if cl.next != nil {
		return cl.evalRange(p, tables, r, size)
	}
	if cl.decode == nil {
		return peOutcome{Kind: "undecided", Why: "no rune decoding in the function"}
	}
	e := &peEnv{p: p, vals: map[ssa.Value]constant.Value{cl.byteV: constant.MakeInt64(int64(firstByte))}, arrays: map[*ssa.Alloc]map[int64]constant.Value{}, tables: tables}
	if cl.runeV != nil {
		e.vals[cl.runeV] = constant.MakeInt64(int64(r))
	}
	if cl.sizeV != nil {
		e.vals[cl.sizeV] = constant.MakeInt64(int64(size))
	}
	cl.arm(e)
	blk := cl.decode.Block()
	idx := 0
	for i, in := range blk.Instrs {
		if in == ssa.Instruction(cl.decode) {
			idx = i + 1
		}
	}
	return e.step(cl.fn, blk, idx, cl.hdr, cl.buf, cl.str)
}

func fmtBytes(b []byte) string { return fmt.Sprintf("%q", string(b)) }
