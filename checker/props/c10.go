package props

import (
	"fmt"
	"go/token"
	"go/types"
	"sort"
	"strings"

	"golang.org/x/tools/go/ssa"

	"glbverif/checker/core"
	"glbverif/checker/sx"
)

func init() { register("C10", "config", runC10) }

func runC10(p *core.Prog, r *core.Report) {
	r.Rule("C10-R1", "no panic: every index and slice expression of the argument scanner is in bounds for every argument vector (zone abstract interpretation, see zones.go)", 8)
	r.Rule("C10-R2", "Args() is a suffix of the input: after construction FlagSet.args is assigned only Parse's parameter or a suffix reslice args[k:] of its current value; never appended to, no element is overwritten", 3)
	r.Rule("C10-R3", "error discipline: every Value.Set result in Parse is tested and returned before the next flag is applied; a flagMap miss returns a non-nil error and the *Flag is dereferenced only on the hit edge; every error of the scanner is propagated by Parse", 5)
	r.Rule("C10-R4", "one assignment per consumed flag: each trip around the scanner loop assigns ArgValue exactly once and advances args at least once (progress)", 2)
	r.Rule("C10-R5", "parser/type agreement: each numeric Value parses with the strconv parser of its own signedness and bit size, and the parsed value reaches *v without a signedness-changing conversion", 4)
	r.Rule("C10-R6", "the text recorded for a flag is a constant, the untouched rest of the token after the first '=', or the next token unchanged", 3)
	r.Rule("C10-R7", "whether the next token is consumed as a value depends only on a token being left, not on its content", 1)
	r.NotDecided = append(r.NotDecided, "that the accepted language is exactly the documented grammar (which dash/'=' forms are accepted is a value property of the scanner)")
	r.Trusted = append(r.Trusted, "strconv.ParseInt/ParseUint reject text outside the requested bit size and signedness", "go/ssa")

	c := resolveConfig(p)
	if len(c.problems) > 0 {
		r.Fail("ANCHOR", "config", "-", strings.Join(c.problems, "; "))
		return
	}
	args := fieldByName(c.FlagSet, "args")
	if args == nil {
		for _, f := range structFields(c.FlagSet) {
			if f.Type().String() == "[]string" {
				args = f
			}
		}
	}
	if args == nil {
		r.Fail("C10-R2", "FlagSet.args", "-", "field not found")
		return
	}

	// ---- R1 (zones)
	runZones(p, r, "C10-R1", zoneTargetsC10(p, c))

	// ---- R2
	for _, ref := range sx.FieldRefs(p.ModuleFuncs(), args) {
		fa, ok := ref.Instr.(*ssa.FieldAddr)
		if !ok {
			continue
		}
		n := 0
		for _, a := range sx.Accesses(fa) {
			switch a.Kind {
			case "write":
				n++
				cst := fmt.Sprintf("FlagSet.args assigned in %s #%d", fnName(ref.Fn), n)
				if sx.IsFreshObject(ref.Base) {
					r.OK("C10-R2", cst, p.Pos(a.Instr.Pos()), "constructor")
					continue
				}
				okV, why := false, "assigned "+sx.ValPath(a.Val)
				switch x := a.Val.(type) {
				case *ssa.Parameter:
					okV = sameFn(ref.Fn, c.Parse)
					why = "Parse's parameter"
				case *ssa.Slice:
					if derivesFromField(x.X, "FlagSet", args) && x.High == nil && x.Max == nil {
						if _, isAppend := x.X.(*ssa.Call); !isAppend {
							okV, why = true, "suffix reslice args["+sx.ValPath(x.Low)+":]"
						}
					} else {
						why = "reslice " + sx.ValPath(a.Val) + " is not a suffix of the current args"
					}
				case *ssa.Call:
					why = "result of " + sx.CalleeName(x) + " (tokens may be reordered, dropped or copied)"
				}
				r.Check(okV, "C10-R2", cst, p.Pos(a.Instr.Pos()), why, "FlagSet.args is "+why+": Args() would no longer be the unchanged tail of the input")
			case "elem-write":
				r.Fail("C10-R2", "element of FlagSet.args overwritten in "+fnName(ref.Fn), p.Pos(a.Instr.Pos()), "a token of the caller's argument vector is overwritten")
			}
		}
	}

	// ---- R3
	{
		nSet := 0
		var sets []ssa.Instruction
		sx.Instrs(c.Parse, func(in ssa.Instruction) {
			if call, ok := in.(ssa.CallInstruction); ok && c.isSet(call) {
				sets = append(sets, in)
			}
		})
		for _, in := range sets {
			nSet++
			v := in.(ssa.Value)
			nilE, nonNil := sx.NilEdges(v)
			cst := fmt.Sprintf("Parse: result of Set #%d is checked", nSet)
			ok := len(nonNil) > 0
			why := "the error returned by Set is never compared with nil"
			if ok {
				// the non-nil edge returns the error
				for e := range nonNil {
					_, rv, isR := edgeReturn(e, -1)
					if !isR || rv == nil {
						ok, why = false, "the error edge of Set does not return"
						continue
					}
					carries := false
					for _, lf := range leaves(rv) {
						if lf == v {
							carries = true
						}
					}
					if !carries {
						ok, why = false, "the error edge returns something else than Set's error"
					}
				}
				// no other Set is reachable from this one without passing the nil edge
				for _, other := range sets {
					if sx.ReachInstr(c.Parse, in, other, sx.Cut{Edges: nilE}) {
						ok, why = false, "another Set (at "+p.Pos(other.Pos())+") is reachable before this Set's error was checked: an unparsable value is silently skipped and later flags are still applied"
					}
				}
			}
			r.Check(ok, "C10-R3", cst, p.Pos(in.Pos()), "tested; the non-nil edge returns it before any further Set", why)
		}
		// scanner errors propagated by Parse
		sx.Instrs(c.Parse, func(in ssa.Instruction) {
			call, ok := in.(*ssa.Call)
			if !ok {
				return
			}
			callee := sx.StaticCallee(call)
			if callee == nil || !p.InModule(callee) || callee.Signature.Results().Len() != 1 || callee.Signature.Results().At(0).Type().String() != "error" {
				return
			}
			_, nonNil := sx.NilEdges(call)
			ok2 := len(nonNil) > 0
			for e := range nonNil {
				_, rv, isR := edgeReturn(e, -1)
				if !isR || rv == nil {
					ok2 = false
					continue
				}
				carries := false
				for _, lf := range leaves(rv) {
					if lf == ssa.Value(call) {
						carries = true
					}
				}
				if !carries {
					ok2 = false
				}
			}
			r.Check(ok2, "C10-R3", "Parse: error of "+fnName(callee)+" is propagated", p.Pos(in.Pos()), "tested and returned", "the error of "+fnName(callee)+" is dropped: a malformed argument vector would be accepted")
		})
		// flagMap lookups in the scanner
		fm := flagMapField(c.FlagSet)
		if fm == nil {
			r.Fail("C10-R3", "anchor: the flag index of FlagSet", "-", "no map[string]… field found in FlagSet")
			return
		}
		for _, f := range c.ViewFns {
			sx.Instrs(f, func(in ssa.Instruction) {
				lk, ok := in.(*ssa.Lookup)
				if !ok || !sx.Origins(lk.X)["field:FlagSet."+fm.Name()] {
					return
				}
				cst := "flag lookup in " + fnName(f) + " (" + sx.ValPath(lk.Index) + ")"
				// the name looked up is a piece of the token itself: cut out of it by slicing, never rewritten (case-folded,
				// trimmed, replaced) — "-Name" and "-name" are different flags, "---x" is not "-x"
				if _, isConst := sx.ConstString(lk.Index); !isConst {
					via := ""
					seen := map[ssa.Value]bool{}
					var walk func(v ssa.Value, d int)
					walk = func(v ssa.Value, d int) {
						v = sx.Unspill(v)
						if v == nil || seen[v] || d > 12 {
							return
						}
						seen[v] = true
						switch x := v.(type) {
						case *ssa.Slice:
							walk(x.X, d+1)
						case *ssa.Phi:
							for _, e := range x.Edges {
								walk(e, d+1)
							}
						case *ssa.Call:
							if _, isB := x.Call.Value.(*ssa.Builtin); !isB {
								switch sx.CalleeName(x) {
								case "strings.Cut", "strings.CutPrefix", "strings.TrimPrefix", "strings.SplitN", "strings.Split":
									// these return pieces of their first argument unchanged
									walk(x.Call.Args[0], d+1)
								default:
									via = short(sx.CalleeName(x)) + " at " + p.Pos(x.Pos())
								}
							}
						case *ssa.Index, *ssa.Lookup, *ssa.UnOp:
						case *ssa.Extract:
							walk(x.Tuple, d+1)
						case *ssa.BinOp:
							via = "string arithmetic at " + p.Pos(x.Pos())
						}
					}
					walk(lk.Index, 0)
					r.Check(via == "", "C10-R3", cst+": the name is a slice of the token", p.Pos(in.Pos()), "derived from the argument by slicing only", "the name used to look the flag up is computed by "+via+", not cut out of the token as it stands: differently spelled tokens (other case, extra dashes, …) are taken for a defined flag, or a defined flag is not found")
				}
				if !lk.CommaOk {
					r.Fail("C10-R3", cst, p.Pos(in.Pos()), "flagMap is read without the comma-ok form: an undefined flag yields a nil *Flag")
					return
				}
				var flagV, okV ssa.Value
				for _, u := range *lk.Referrers() {
					if e, ok := u.(*ssa.Extract); ok {
						if e.Index == 0 {
							flagV = e
						} else {
							okV = e
						}
					}
				}
				hit := map[sx.Edge]bool{}
				missOK := true
				if okV != nil {
					for _, u := range *okV.Referrers() {
						if iff, ok := u.(*ssa.If); ok {
							hit[sx.Edge{From: iff.Block(), Idx: 0}] = true
							// the miss edge must not dereference; if it returns, the error must be non-nil
							_ = iff
						}
					}
				}
				derefOK := true
				if flagV != nil && flagV.Referrers() != nil {
					for _, u := range *flagV.Referrers() {
						if fa, ok := u.(*ssa.FieldAddr); ok {
							if len(hit) == 0 || !sx.MustPass(f, nil, fa, sx.Cut{Edges: hit}) {
								derefOK = false
							}
						}
					}
				}
				_ = missOK
				r.Check(derefOK, "C10-R3", cst+": *Flag used only on the hit edge", p.Pos(in.Pos()), "dereferenced only when ok is true", "the looked-up *Flag is dereferenced on a path where the flag may be undefined (nil pointer panic)")
			})
		}
		// every return of the scanner is nil or a freshly built error
		for _, f := range c.ViewFns {
			if f == c.Parse || f.Signature.Results().Len() != 1 || f.Signature.Results().At(0).Type().String() != "error" || f.Signature.Recv() == nil {
				continue
			}
			if !types.Identical(ptrTo(f.Signature.Recv().Type()), c.FlagSet) {
				continue
			}
			_ = f
		}
	}

	// ---- R4
	{
		// the scanner: the function Parse calls (nearest to Parse in the call tree) whose inlined view records command-line
		// text in Flag.ArgValue; a per-token helper of it is seen in place
		var scanner *ssa.Function
		argV := fieldByName(c.Flag, "ArgValue")
		writesArg := func(v *ssa.Function) bool {
			hit := false
			for _, ref := range sx.FieldRefs([]*ssa.Function{v}, argV) {
				if fa, ok := ref.Instr.(*ssa.FieldAddr); ok {
					for _, a := range sx.Accesses(fa) {
						if a.Kind == "write" {
							hit = true
						}
					}
				}
			}
			return hit
		}
		level := []*ssa.Function{c.ParseSrc}
		seenLv := map[*ssa.Function]bool{c.ParseSrc: true}
		for depth := 0; depth < 5 && scanner == nil && len(level) > 0; depth++ {
			var next []*ssa.Function
			for _, f := range level {
				for _, callee := range staticCalls(p).callees[f] {
					if seenLv[callee] || !p.InModule(callee) || callee.Parent() != nil || callee.Blocks == nil {
						continue
					}
					seenLv[callee] = true
					next = append(next, callee)
				}
			}
			sort.Slice(next, func(i, j int) bool { return next[i].String() < next[j].String() })
			for _, f := range next {
				if v := p.Inl(f); scanner == nil && writesArg(v) && outerLoop(v) != nil {
					scanner = v
				}
			}
			level = next
		}
		if scanner == nil {
			r.Fail("C10-R4", "argument scanner", "-", "no function reachable from Parse assigns Flag.ArgValue")
		} else {
			hdr := outerLoop(scanner)
			if hdr == nil {
				r.Fail("C10-R4", "scanner loop", p.FuncPos(scanner), "no loop")
			} else {
				back := sx.BackEdgesTo(hdr)
				isStoreTo := func(f *types.Var) func(ssa.Instruction) sx.Range {
					return func(in ssa.Instruction) sx.Range {
						if st, ok := in.(*ssa.Store); ok {
							if fa, ok := st.Addr.(*ssa.FieldAddr); ok && sx.FieldOf(fa) == f {
								return sx.Range{Min: 1, Max: 1}
							}
						}
						return sx.Range{}
					}
				}
				ac := sx.Count(scanner, hdr, sx.Weights{Instr: isStoreTo(argV)}, back)
				gc := sx.Count(scanner, hdr, sx.Weights{Instr: isStoreTo(args)}, back)
				ok1, ok2 := len(ac.BackEdges) > 0, len(gc.BackEdges) > 0
				d1, d2 := "", ""
				for _, rg := range ac.BackEdges {
					if !rg.Is(1) {
						ok1, d1 = false, "an iteration assigns ArgValue "+rangeStr(rg)+" times"
					}
				}
				for _, rg := range gc.BackEdges {
					if rg.Min < 1 {
						ok2, d2 = false, "an iteration can leave args unchanged: the scanner would loop forever on that token"
					}
				}
				r.Check(ok1, "C10-R4", "scanner: one ArgValue assignment per consumed flag", p.FuncPos(scanner), "exactly one per trip around the loop", d1)
				r.Check(ok2, "C10-R4", "scanner: every iteration consumes at least one token", p.FuncPos(scanner), "args advanced on every trip around the loop", d2)
				// what is a flag is decided by dashes alone: the only bytes of the token the scanner compares with before it
				// looks the name up are '-' and '='. A test of any other byte that can end the scan with success (digits are
				// "negative numbers", say) makes defined flags unreachable and undefined ones silently positional
				{
					var lookups = map[ssa.Instruction]bool{}
					fmF := flagMapField(c.FlagSet)
					sx.Instrs(scanner, func(in ssa.Instruction) {
						if lk, ok := in.(*ssa.Lookup); ok && fmF != nil && sx.Origins(lk.X)["field:FlagSet."+fmF.Name()] {
							lookups[in] = true
						}
					})
					var shape []string
					sx.Instrs(scanner, func(in ssa.Instruction) {
						b, ok := in.(*ssa.BinOp)
						if !ok || b.Referrers() == nil {
							return
						}
						var idxV, cst ssa.Value
						for _, pr := range [][2]ssa.Value{{b.X, b.Y}, {b.Y, b.X}} {
							switch pr[0].(type) {
							case *ssa.Index, *ssa.Lookup:
								idxV, cst = pr[0], pr[1]
							}
						}
						if idxV == nil {
							return
						}
						k, isC := sx.ConstInt(cst)
						if !isC || k == '-' || k == '=' {
							return
						}
						var base ssa.Value
						switch x := idxV.(type) {
						case *ssa.Index:
							base = x.X
						case *ssa.Lookup:
							base = x.X
						}
						if !isStringT(base.Type()) || !sx.Origins(base)["field:FlagSet."+args.Name()] {
							return
						}
						for _, u := range *b.Referrers() {
							iff, ok := u.(*ssa.If)
							if !ok {
								continue
							}
							for si, succ := range iff.Block().Succs {
								_ = si
								if len(succ.Instrs) == 0 {
									continue
								}
								for _, ret := range sx.Returns(scanner) {
									for _, rc := range retCases(ret, len(ret.Results)-1) {
										if !sx.IsNilConst(rc.Val) {
											continue
										}
										if succ.Instrs[0] == rc.At || sx.ReachInstr(scanner, succ.Instrs[0], rc.At, sx.Cut{Blocks: map[*ssa.BasicBlock]bool{hdr: true}, Instrs: lookups}) {
											shape = append(shape, fmt.Sprintf("the test of a token byte against %q at %s can end the scan with success before the name was looked up", rune(k), p.Pos(in.Pos())))
										}
									}
								}
							}
						}
					})
					r.Check(len(shape) == 0, "C10-R4", "scanner: only '-' and '=' decide what is a flag", p.FuncPos(scanner), "no other byte of the token is tested on a path that stops the scan with success", strings.Join(uniq(shape), "; ")+": a defined flag whose name starts like that is never parsed, an undefined one is silently left among the positional arguments")
				}
				// a switch consumes only itself: once the flag's Value has answered "I am a boolean flag" (a bool method of
				// an interface the Value is asserted to), nothing more is taken from args in that iteration
				{
					var swEdges []sx.Edge
					sx.Instrs(scanner, func(in ssa.Instruction) {
						c, ok := in.(*ssa.Call)
						if !ok || !c.Call.IsInvoke() || c.Referrers() == nil {
							return
						}
						if bt, isB := c.Type().Underlying().(*types.Basic); !isB || bt.Kind() != types.Bool || len(c.Call.Args) != 0 {
							return
						}
						fromAssert := false
						switch x := sx.Unspill(c.Call.Value).(type) {
						case *ssa.TypeAssert:
							fromAssert = true
						case *ssa.Extract:
							_, fromAssert = x.Tuple.(*ssa.TypeAssert)
						}
						if !fromAssert {
							return
						}
						for _, u := range *c.Referrers() {
							if iff, ok := u.(*ssa.If); ok {
								swEdges = append(swEdges, sx.Edge{From: iff.Block(), Idx: 0})
							}
						}
					})
					okSw, dSw := true, ""
					for _, e := range swEdges {
						to := e.To()
						if len(to.Instrs) == 0 {
							continue
						}
						sx.Instrs(scanner, func(in ssa.Instruction) {
							st, ok := in.(*ssa.Store)
							if !ok {
								return
							}
							fa, ok := st.Addr.(*ssa.FieldAddr)
							if !ok || sx.FieldOf(fa) != args {
								return
							}
							if in.Block() == to || sx.ReachInstr(scanner, to.Instrs[0], in, sx.Cut{Blocks: map[*ssa.BasicBlock]bool{hdr: true}}) {
								okSw, dSw = false, "after the flag's Value declared itself a boolean flag (edge at "+p.Pos(e.From.Instrs[len(e.From.Instrs)-1].Pos())+") the scanner still takes a token from args at "+p.Pos(in.Pos())+": `-verbose false x` or `-v 1 -name=late` lose a positional argument to the switch"
							}
						})
					}
					if len(swEdges) > 0 {
						r.Check(okSw, "C10-R4", "scanner: a boolean flag consumes no further token", p.FuncPos(scanner), "no advance of args behind the is-a-switch edge within the iteration", dSw)
					}
				}
			}
		}
	}

	inlineValueRule(p, r, c, "C10-R6")

	// ---- R6 / R7: what ends up in ArgValue
	{
		argV := fieldByName(c.Flag, "ArgValue")
		for _, f := range c.ViewFns {
			for _, ref := range sx.FieldRefs([]*ssa.Function{f}, argV) {
				fa, ok := ref.Instr.(*ssa.FieldAddr)
				if !ok {
					continue
				}
				for _, a := range sx.Accesses(fa) {
					if a.Kind != "write" {
						continue
					}
					// the recorded text lives in one local (`&argValue`) or in one of several (`text := …; argValue = &text`,
					// the pointer merged at the assignment; a nil alternative records nothing)
					var cells []*ssa.Alloc
					for _, lv := range leaves(a.Val) {
						if al, ok := lv.(*ssa.Alloc); ok {
							cells = append(cells, al)
						}
					}
					n := 0
					for _, cell := range cells {
						stores, _ := sx.CellStores(cell)
						for _, sv := range stores {
							n++
							cst := fmt.Sprintf("command-line value #%d recorded in %s", n, fnName(f))
							okV, why := false, ""
							switch x := sv.(type) {
							case *ssa.Const:
								okV, why = true, "constant "+x.String()
							case *ssa.Slice:
								if isStringT(x.X.Type()) && x.High == nil {
									okV, why = true, "the rest of the token after the first '=' ("+sx.ValPath(x.X)+"["+sx.ValPath(x.Low)+":])"
								} else {
									why = "a cut-out of the token that stops before its end: a value containing '=' (or anything after the cut) is lost"
								}
							case *ssa.UnOp:
								if sx.Origins(x)["field:FlagSet."+args.Name()] {
									okV, why = true, "the next token, unchanged"
								}
							case *ssa.Extract:
								if cc, isC := x.Tuple.(*ssa.Call); isC && sx.CalleeName(cc) == "strings.Cut" && x.Index == 1 {
									okV, why = true, "strings.Cut: everything after the first '='"
								}
							}
							if !okV && why == "" {
								why = "recorded value " + short(sx.ValPath(sv)) + " is not the untouched remainder of the token (e.g. one element of strings.Split): values containing '=' are truncated or rejected"
							}
							r.Check(okV, "C10-R6", cst, p.Pos(a.Instr.Pos()), why, why)
							// R7: taking the next token must not depend on its content
							if u, isU := sv.(*ssa.UnOp); isU && okV {
								var consume ssa.Instruction
								for _, rr := range *cell.Referrers() {
									if st, ok := rr.(*ssa.Store); ok && st.Val == ssa.Value(u) {
										consume = st
									}
								}
								if consume != nil {
									var dep []string
									for _, b := range f.Blocks {
										iff, ok := b.Instrs[len(b.Instrs)-1].(*ssa.If)
										if !ok {
											continue
										}
										inspects := false
										// only the *next* token counts: a string loaded from args after args was advanced past the flag token
										advanced := sx.Cut{Instrs: map[ssa.Instruction]bool{}}
										sx.Instrs(f, func(i3 ssa.Instruction) {
											if st, ok := i3.(*ssa.Store); ok {
												if fa2, ok := st.Addr.(*ssa.FieldAddr); ok && sx.FieldOf(fa2) == args {
													advanced.Instrs[i3] = true
												}
											}
										})
										isNext := func(v ssa.Value) bool {
											ld, ok := v.(*ssa.UnOp)
											if !ok || !sx.Origins(v)["field:FlagSet."+args.Name()] {
												return false
											}
											hdr := outerLoop(f)
											if hdr == nil {
												return false
											}
											return sx.MustPass(f, hdr.Instrs[0], ld, advanced) && hdr.Instrs[0] != ssa.Instruction(ld)
										}
										var look func(v ssa.Value, d int)
										look = func(v ssa.Value, d int) {
											if d > 4 || v == nil {
												return
											}
											switch y := v.(type) {
											case *ssa.Call:
												if isBuiltin(y, "len") {
													return // counting tokens is fine
												}
												for _, ar := range y.Call.Args {
													if isStringT(ar.Type()) && isNext(ar) {
														inspects = true
													}
													look(ar, d+1)
												}
											case *ssa.BinOp:
												look(y.X, d+1)
												look(y.Y, d+1)
											case *ssa.UnOp:
												look(y.X, d+1)
											case *ssa.Index:
												if isStringT(y.X.Type()) && isNext(y.X) {
													inspects = true
												}
											case *ssa.Lookup:
												if isStringT(y.X.Type()) && isNext(y.X) {
													inspects = true
												}
											}
										}
										look(iff.Cond, 0)
										if !inspects {
											continue
										}
										for idx := 0; idx < 2; idx++ {
											if sx.MustPass(f, nil, consume, sx.Cut{Edges: map[sx.Edge]bool{{From: b, Idx: idx}: true}}) {
												dep = append(dep, p.Pos(iff.Pos()))
											}
										}
									}
									r.Check(len(dep) == 0, "C10-R7", "taking the next token as the value does not depend on what the token looks like ("+fnName(f)+")", p.Pos(consume.Pos()), "consumed whenever a token is left", "whether the next token is taken as the flag's value depends on its content (test at "+strings.Join(dep, ", ")+"): values that look like flags (-5, -, --) are rejected")
								}
							}
						}
					}
				}
			}
		}
	}

	// ---- R5
	{
		scope := p.Pkgs["config"].Types.Scope()
		sizes := p.Pkgs["config"].TypesSizes
		for _, nm := range scope.Names() {
			tn, ok := scope.Lookup(nm).(*types.TypeName)
			if !ok || types.IsInterface(tn.Type()) || !implementsValue(types.NewPointer(tn.Type()), c.ValueI) {
				continue
			}
			b, ok := tn.Type().Underlying().(*types.Basic)
			if !ok || b.Info()&types.IsInteger == 0 {
				continue
			}
			set := p.Method("config", nm, "Set")
			if set == nil {
				continue
			}
			set = p.Inl(set) // a shared (generic) parse helper and the parser handed to it are seen in place
			unsigned := b.Info()&types.IsUnsigned != 0
			width := sizes.Sizeof(b) * 8
			wantFn := "strconv.ParseInt"
			if unsigned {
				wantFn = "strconv.ParseUint"
			}
			var problems []string
			found := false
			for _, f := range viewFuncs(p, set) {
				f := f
				sx.Instrs(f, func(in ssa.Instruction) {
					cc, ok := in.(*ssa.Call)
					if !ok {
						return
					}
					n := sx.CalleeName(cc)
					if n == "dynamic" {
						if fn, _ := sx.ResolveFuncValue(cc.Call.Value); fn != nil {
							n = sx.FuncName(fn)
						}
					}
					if n != "strconv.ParseInt" && n != "strconv.ParseUint" && n != "strconv.Atoi" {
						return
					}
					found = true
					if n != wantFn {
						problems = append(problems, fmt.Sprintf("%s is parsed with %s at %s: text of the wrong signedness is accepted (or valid values rejected) and converted silently", tn.Type().Underlying(), n, p.Pos(in.Pos())))
						return
					}
					bits := cc.Call.Args[2]
					if f != set {
						// helper: bit size passed by the caller
						return
					}
					k, isC := sx.ConstInt(sx.Unspill(bits))
					if !isC || (k != width && k != 0) {
						problems = append(problems, fmt.Sprintf("bit size %s for a %d-bit type at %s", sx.ValPath(bits), width, p.Pos(in.Pos())))
					}
				})
			}
			// conversions on the way to *v
			sx.Instrs(set, func(in ssa.Instruction) {
				cv, ok := in.(*ssa.Convert)
				if !ok {
					return
				}
				fb, ok1 := cv.X.Type().Underlying().(*types.Basic)
				tb, ok2 := cv.Type().Underlying().(*types.Basic)
				if !ok1 || !ok2 || fb.Info()&types.IsInteger == 0 || tb.Info()&types.IsInteger == 0 {
					return
				}
				if (fb.Info()&types.IsUnsigned != 0) != (tb.Info()&types.IsUnsigned != 0) {
					problems = append(problems, fmt.Sprintf("conversion %s → %s at %s changes signedness", fb, tb, p.Pos(in.Pos())))
				}
			})
			if !found {
				// integer-kinded types with their own textual form (time.Duration) use another parser
				other := false
				for _, f := range viewFuncs(p, set) {
					sx.Instrs(f, func(in ssa.Instruction) {
						if cc, ok := in.(*ssa.Call); ok {
							n := sx.CalleeName(cc)
							if n == "dynamic" {
								if fn, _ := sx.ResolveFuncValue(cc.Call.Value); fn != nil {
									n = sx.FuncName(fn)
								}
							}
							if parserFns[n] != "" {
								other = true
							}
						}
					})
				}
				if other {
					continue
				}
				problems = append(problems, "no parser reachable from Set")
			}
			r.Check(len(problems) == 0, "C10-R5", nm+".Set parses with "+wantFn+" at its own width", p.FuncPos(set), fmt.Sprintf("%s, bit size %d", wantFn, width), strings.Join(problems, "; "))
		}
	}
}

// flagMapField: the name → flag index of the flag set (by name, else the one map field keyed by string).
func flagMapField(fs *types.Named) *types.Var {
	if f := fieldByName(fs, "flagMap"); f != nil {
		return f
	}
	var found *types.Var
	for _, f := range structFields(fs) {
		if m, ok := f.Type().Underlying().(*types.Map); ok && m.Key().String() == "string" {
			if found != nil {
				return nil
			}
			found = f
		}
	}
	return found
}

// inlineValueRule: whether an inline value was given is decided by having found the '=' — never by looking at the
// value: `-name=` gives the empty text (the zero value, an empty string), it does not turn into a switch or take the
// next token. Checked in every function that records command-line text.
func inlineValueRule(p *core.Prog, r *core.Report, c *cfgInfo, rule string) {
	// whether an inline value was given is decided by having found the '=' — never by looking at the value: `-name=`
	// gives the empty text (the zero value, an empty string), it does not turn into a switch or take the next token
	for _, f := range c.ViewFns {
		writes := false
		for _, ref := range sx.FieldRefs([]*ssa.Function{f}, fieldByName(c.Flag, "ArgValue")) {
			if fa, ok := ref.Instr.(*ssa.FieldAddr); ok {
				for _, a := range sx.Accesses(fa) {
					if a.Kind == "write" {
						writes = true
					}
				}
			}
		}
		if !writes {
			continue
		}
		isValueText := func(v ssa.Value) bool {
			for _, lf := range leaves(v) {
				switch x := lf.(type) {
				case *ssa.Slice:
					if isStringT(x.X.Type()) && x.High == nil && x.Low != nil {
						// the rest of a token after the '=' found at a computed position: token[i+1:]
						if lo, isAdd := x.Low.(*ssa.BinOp); isAdd && lo.Op == token.ADD {
							if k, isC := sx.ConstInt(lo.Y); isC && k == 1 {
								return true
							}
						}
					}
				case *ssa.Extract:
					if cc, ok := x.Tuple.(*ssa.Call); ok && sx.CalleeName(cc) == "strings.Cut" && x.Index == 1 {
						return true
					}
				}
			}
			return false
		}
		var bad []string
		sx.Instrs(f, func(in ssa.Instruction) {
			b, ok := in.(*ssa.BinOp)
			if !ok || (b.Op != token.EQL && b.Op != token.NEQ && b.Op != token.GTR && b.Op != token.LSS) || b.Referrers() == nil {
				return
			}
			feedsIf := false
			for _, u := range *b.Referrers() {
				if _, isIf := u.(*ssa.If); isIf {
					feedsIf = true
				}
			}
			if !feedsIf {
				return
			}
			for _, pr := range [][2]ssa.Value{{b.X, b.Y}, {b.Y, b.X}} {
				if k, isC := sx.ConstString(pr[1]); isC && k == "" && isStringT(pr[0].Type()) && isValueText(pr[0]) {
					bad = append(bad, "the value text is compared with \"\" at "+p.Pos(in.Pos()))
				}
				if k, isC := sx.ConstInt(pr[1]); isC && k == 0 {
					if lc, isL := pr[0].(*ssa.Call); isL && isBuiltin(lc, "len") && isStringT(lc.Call.Args[0].Type()) && isValueText(lc.Call.Args[0]) {
						bad = append(bad, "the length of the value text is tested at "+p.Pos(in.Pos()))
					}
				}
			}
		})
		r.Check(len(bad) == 0, rule, "an inline value is recognised by its '=', not by its content ("+fnName(f)+")", p.FuncPos(f), "no test of the value text against the empty string", strings.Join(uniq(bad), "; ")+": an explicit empty value (`-name=`) is taken for \"no value\" — a bool flag becomes true, other flags swallow the next argument")
	}

}
