package props

import (
	"fmt"
	"go/token"
	"go/types"
	"sort"
	"strings"

	"golang.org/x/tools/go/ssa"

	"glbverif/checker/core"
	"glbverif/checker/sx"
)

func init() { register("C15", "logger", runC15) }

// stringConsts collects the string constants used in fn (not in nested closures).
func stringConsts(fn *ssa.Function) map[string]bool {
	out := map[string]bool{}
	sx.Instrs(fn, func(in ssa.Instruction) {
		for _, op := range in.Operands(nil) {
			if *op == nil {
				continue
			}
			if s, ok := sx.ConstString(*op); ok {
				out[s] = true
			}
			// a package-level value (a tag hoisted out of the function): the constant strings its initialiser stores into it
			var g *ssa.Global
			switch x := (*op).(type) {
			case *ssa.Global:
				g = x
			case *ssa.FieldAddr:
				g, _ = x.X.(*ssa.Global)
			}
			if g != nil && g.Pkg != nil {
				if init := g.Pkg.Func("init"); init != nil {
					sx.Instrs(init, func(i2 ssa.Instruction) {
						st, ok := i2.(*ssa.Store)
						if !ok {
							return
						}
						base := st.Addr
						if fa, ok := base.(*ssa.FieldAddr); ok {
							base = fa.X
						}
						if base == ssa.Value(g) {
							if s, ok := sx.ConstString(st.Val); ok {
								out[s] = true
							}
						}
					})
				}
			}
		}
	})
	return out
}

// attrSources maps attribute key -> origin set of the value, for slog.String/Int/Any… calls in fn.
func attrSources(fn *ssa.Function) map[string]string {
	out := map[string]string{}
	sx.Instrs(fn, func(in ssa.Instruction) {
		c, ok := in.(*ssa.Call)
		if !ok || !strings.HasPrefix(sx.CalleeName(c), "log/slog.") || len(c.Call.Args) != 2 {
			return
		}
		k, ok := sx.ConstString(c.Call.Args[0])
		if !ok {
			return
		}
		org := sx.Origins(c.Call.Args[1])
		out[k] = keys(org)
	})
	return out
}

// writesResponse: module functions that (transitively) write a response header/body.
func responseWriters(p *core.Prog) map[*ssa.Function]bool {
	out := map[*ssa.Function]bool{}
	direct := func(fn *ssa.Function) bool {
		hit := false
		sx.Instrs(fn, func(in ssa.Instruction) {
			c, ok := in.(ssa.CallInstruction)
			if !ok {
				return
			}
			switch sx.CalleeName(c) {
			case "net/http.Error", "net/http.Redirect", "net/http.NotFound", "(net/http.ResponseWriter).WriteHeader", "(net/http.ResponseWriter).Write":
				hit = true
			}
		})
		return hit
	}
	for _, fn := range p.ModuleFuncs() {
		if direct(fn) {
			out[fn] = true
		}
	}
	for changed := true; changed; {
		changed = false
		for _, fn := range p.ModuleFuncs() {
			if out[fn] {
				continue
			}
			for _, c := range staticCalls(p).callees[fn] {
				if out[c] && c.Parent() == nil {
					out[fn] = true
					changed = true
				}
			}
		}
	}
	return out
}

func runC15(p *core.Prog, r *core.Report) {
	r.Rule("C15-R1", "recover frame: the route handler is called under a deferred closure that calls recover() directly and cannot panic itself", 2)
	r.Rule("C15-R2", "500 iff panicked-before-status: every response write in the recover path is reachable only when recover() != nil and the recorded status is 0, and goes through the recording wrapper", 1)
	r.Rule("C15-R3", "defer order: the REQ_END closure is registered before the recover closure and both before the handler call (LIFO: the 500 is recorded before REQ_END reads the status); the 0→200 default is applied only in the REQ_END closure", 3)
	r.Rule("C15-R4", "exactly one REQ_BEG before the handler and one REQ_END on every exit (at most one Handle call each, gated by Enabled(Info)); one Error record only when recover() != nil", 3)
	r.Rule("C15-R5", "attribute agreement: ip, method, path and tid of REQ_BEG and REQ_END come from the same sources; the Error record carries the recovered value and the same tid source", 5)
	r.Rule("C15-R6", "status recording: ResponseWriter.WriteHeader forwards and records the code on every path; Write records an implicit 200 before forwarding when nothing was recorded; the wrapped writer is touched only by ResponseWriter's methods and ServeHTTP's set/reset", 4)
	r.Rule("C15-R7", "records are written whole: no log handler shortens the line it has rendered, except back to a length of that line it recorded itself or to zero (so the attributes Relay puts last — request ID, panic value — are not cut off)", 0)
	r.NotDecided = append(r.NotDecided, "a handler that calls WriteHeader twice, or hijacks the connection", "pairing of BEG/END by ID under concurrency follows from Relay having no shared state besides the logger (C02) and the per-request ID (C05)")
	r.Trusted = append(r.Trusted, "Go defer LIFO order", "recover() semantics", "net/http ignores a second WriteHeader", "go/ssa")

	// ---- R7: the records Relay writes reach the sink whole, whichever handler is installed: no handler shortens the
	// line it has rendered (a cut at a size limit drops what Relay puts last: the request ID, the panic value), except
	// back to a length it has itself recorded (`n := len(*buf)` … `*buf = (*buf)[:n]`) or to zero for reuse
	{
		nSl := 0
		for _, h := range logHandlers(p) {
			for fn, bufs := range lineBufs(p, h) {
				sx.Instrs(fn, func(in ssa.Instruction) {
					sl, ok := in.(*ssa.Slice)
					if !ok || sl.High == nil || !isLineBufVal(fn, bufs, sl.X, map[ssa.Value]bool{}) {
						return
					}
					if k, isC := sx.ConstInt(sl.High); isC && k == 0 {
						return
					}
					nSl++
					okLen := true
					for _, lf := range leaves(sl.High) {
						c, isCall := lf.(*ssa.Call)
						if !isCall || !isBuiltin(c, "len") || !isLineBufVal(fn, bufs, c.Call.Args[0], map[ssa.Value]bool{}) {
							okLen = false
						}
					}
					r.Check(okLen, "C15-R7", h.Name+": the rendered line is shortened only to a recorded length ("+fnName(fn)+")", p.Pos(sl.Pos()), "rewind to an earlier len(*buf)", "the line is cut at "+short(sx.ValPath(sl.High))+", which is not a length of the line recorded earlier: a long record loses its tail — for Relay's records the request ID and the panic value, which come last")
				})
			}
		}
		_ = nSl
	}

	lg := p.Named("logger", "Logger")
	relay := p.Method("logger", "Logger", "Relay")
	if lg == nil || relay == nil {
		r.Fail("C15-R1", "anchor Logger.Relay", "-", "method not found")
		return
	}
	// the inlined view: private helpers of the package (an emit helper, attribute builders, a recover method's helpers)
	// are seen in place, also inside Relay's deferred closures
	relay = p.Inl(relay)
	// handler call: dynamic call of a value loaded from RouteInfo.HandlerFunc
	var hcall *ssa.Call
	sx.Instrs(relay, func(in ssa.Instruction) {
		if c, ok := in.(*ssa.Call); ok && !c.Call.IsInvoke() && sx.StaticCallee(c) == nil {
			if sx.Origins(c.Call.Value)["field:RouteInfo.HandlerFunc"] {
				hcall = c
			}
		}
	})
	if hcall == nil {
		r.Fail("C15-R1", "Relay: handler call", p.FuncPos(relay), "no call of store.I.HandlerFunc found")
		return
	}
	// deferred closures
	var recClosure, endClosure *ssa.Function
	var recDefer, endDefer *ssa.Defer
	sx.Instrs(relay, func(in ssa.Instruction) {
		d, ok := in.(*ssa.Defer)
		if !ok {
			return
		}
		callee := sx.StaticCallee(d)
		if callee == nil {
			return
		}
		hasRecover, hasHandle := false, false
		sx.Instrs(callee, func(i2 ssa.Instruction) {
			if c, ok := i2.(ssa.CallInstruction); ok {
				if isBuiltin(c, "recover") {
					hasRecover = true
				}
				if c.Common().IsInvoke() && c.Common().Method.Name() == "Handle" {
					hasHandle = true
				}
			}
		})
		switch {
		case hasRecover:
			recClosure, recDefer = callee, d
		case hasHandle:
			endClosure, endDefer = callee, d
		}
	})
	// ---- R1
	okFrame := recClosure != nil && sx.MustPass(relay, nil, hcall, sx.Cut{Instrs: map[ssa.Instruction]bool{recDefer: true}})
	r.Check(okFrame, "C15-R1", "Relay: handler call is covered by a deferred recover()", p.Pos(hcall.Pos()), "deferred closure calling recover() directly is registered on every path to the handler call", "no deferred function calling recover() directly covers the handler call: a handler panic escapes Relay")
	if recClosure == nil {
		return
	}
	{
		var risky []string
		sx.Instrs(recClosure, func(in ssa.Instruction) {
			switch x := in.(type) {
			case *ssa.Panic:
				risky = append(risky, "panic at "+p.Pos(x.Pos()))
			case *ssa.TypeAssert:
				if !x.CommaOk {
					risky = append(risky, "unchecked type assertion at "+p.Pos(x.Pos()))
				}
			}
		})
		r.Check(len(risky) == 0, "C15-R1", "Relay: recover closure does not re-panic", p.FuncPos(recClosure), "no panic / unchecked assertion in the recover path", strings.Join(risky, "; "))
	}
	// recover result and its != nil edges
	var recVal ssa.Value
	sx.Instrs(recClosure, func(in ssa.Instruction) {
		if c, ok := in.(*ssa.Call); ok && isBuiltin(c, "recover") {
			recVal = c
		}
	})
	_, recNonNil := sx.NilEdges(recVal)
	// status == 0 edges in a function
	statusZeroEdges := func(fn *ssa.Function) map[sx.Edge]bool {
		out := map[sx.Edge]bool{}
		sx.Instrs(fn, func(in ssa.Instruction) {
			b, ok := in.(*ssa.BinOp)
			if !ok || (b.Op != token.EQL && b.Op != token.NEQ) {
				return
			}
			if !sx.Origins(b.X)["field:ResponseWriter.Status"] {
				return
			}
			if k, isC := sx.ConstInt(b.Y); !isC || k != 0 {
				return
			}
			for _, u := range *b.Referrers() {
				if iff, ok := u.(*ssa.If); ok {
					idx := 0
					if b.Op == token.NEQ {
						idx = 1
					}
					out[sx.Edge{From: iff.Block(), Idx: idx}] = true
				}
			}
		})
		return out
	}

	// the recover path may branch only on: recover() == nil, identity with http.ErrAbortHandler, the level gate, Status == 0
	{
		var odd []string
		for _, b := range recClosure.Blocks {
			iff, ok := b.Instrs[len(b.Instrs)-1].(*ssa.If)
			if !ok {
				continue
			}
			okCond := false
			switch c := iff.Cond.(type) {
			case *ssa.BinOp:
				ox, oy := sx.Origins(c.X), sx.Origins(c.Y)
				isRec := func(o map[string]bool) bool { return o["call:builtin.recover"] }
				isNil := func(v ssa.Value) bool { return sx.IsNilConst(v) }
				switch {
				case (isRec(ox) && isNil(c.Y)) || (isRec(oy) && isNil(c.X)):
					okCond = true
				case (isRec(ox) && oy["global:ErrAbortHandler"]) || (isRec(oy) && ox["global:ErrAbortHandler"]):
					okCond = true
				case ox["field:ResponseWriter.Status"] || oy["field:ResponseWriter.Status"]:
					okCond = true
				}
			case *ssa.Call:
				if c.Call.IsInvoke() && c.Call.Method.Name() == "Enabled" {
					okCond = true
				}
			}
			if !okCond {
				odd = append(odd, "branch on "+short(sx.ValPath(iff.Cond))+" at "+p.Pos(iff.Pos()))
			}
		}
		r.Check(len(odd) == 0, "C15-R2", "Relay recover path: a panic is skipped only for recover() == nil or the http.ErrAbortHandler sentinel itself", p.FuncPos(recClosure), "every branch tests recover()'s result against nil / the sentinel (identity), the level gate or Status == 0", strings.Join(odd, "; ")+": panic values other than the sentinel itself (e.g. errors wrapping it) can be swallowed without a 500 and without an Error record")
	}

	// ---- R2
	{
		writers := responseWriters(p)
		zero := statusZeroEdges(recClosure)
		n := 0
		sx.Instrs(recClosure, func(in ssa.Instruction) {
			c, ok := in.(ssa.CallInstruction)
			if !ok {
				return
			}
			name := sx.CalleeName(c)
			callee := sx.StaticCallee(c)
			isWrite := name == "net/http.Error" || name == "net/http.Redirect" || (callee != nil && writers[callee]) ||
				(c.Common().IsInvoke() && (c.Common().Method.Name() == "WriteHeader" || c.Common().Method.Name() == "Write") && strings.Contains(c.Common().Value.Type().String(), "ResponseWriter"))
			if !isWrite {
				return
			}
			n++
			cst := fmt.Sprintf("Relay recover path: response write #%d (%s)", n, short(name))
			okRec := len(recNonNil) > 0 && sx.MustPass(recClosure, nil, in, sx.Cut{Edges: recNonNil})
			okZero := len(zero) > 0 && sx.MustPass(recClosure, nil, in, sx.Cut{Edges: zero})
			why := ""
			if !okRec {
				why = "reachable when recover() returned nil (500 sent although the handler did not panic)"
			}
			if !okZero {
				why = "reachable when a status was already recorded: the recorded status is overwritten with 500 although the client keeps the handler's status, and REQ_END logs a code the client never received"
			}
			// through the recording wrapper
			if name == "net/http.Error" {
				org := sx.Origins(c.Common().Args[0])
				if org["field:ResponseWriter.Origin"] || !org["field:Store.W"] {
					okZero, why = false, "the 500 is written to "+keys(org)+", bypassing the status-recording wrapper"
				}
			}
			r.Check(okRec && okZero, "C15-R2", cst, p.Pos(in.Pos()), "only when recover() != nil and Status == 0, through the recording wrapper", why)
		})
		if n == 0 {
			r.Fail("C15-R2", "Relay recover path sends 500", p.FuncPos(recClosure), "no response write in the recover path: a handler that panics before writing leaves the client without a status")
		}
		// the converse: the 500 does not depend on the log level — once the handler is known to have panicked, a path on
		// which the Error level is disabled still reaches the 500 (or finds a status already recorded)
		{
			wcut := sx.Cut{Instrs: map[ssa.Instruction]bool{}, Edges: map[sx.Edge]bool{}}
			sx.Instrs(recClosure, func(in ssa.Instruction) {
				c, ok := in.(ssa.CallInstruction)
				if !ok {
					return
				}
				name := sx.CalleeName(c)
				callee := sx.StaticCallee(c)
				if name == "net/http.Error" || name == "net/http.Redirect" || (callee != nil && writers[sx.OrigFunc(callee)]) ||
					(c.Common().IsInvoke() && (c.Common().Method.Name() == "WriteHeader" || c.Common().Method.Name() == "Write") && strings.Contains(c.Common().Value.Type().String(), "ResponseWriter")) {
					wcut.Instrs[in] = true
				}
			})
			for e := range zero {
				wcut.Edges[sx.Edge{From: e.From, Idx: 1 - e.Idx}] = true // a status was already recorded: nothing to send
			}
			okConv, whyConv := true, ""
			sx.Instrs(recClosure, func(in ssa.Instruction) {
				en, ok := in.(*ssa.Call)
				if !ok || !en.Call.IsInvoke() || en.Call.Method.Name() != "Enabled" {
					return
				}
				for _, e := range enabledEdges(en) {
					dis := sx.Edge{From: e.From, Idx: 1 - e.Idx}
					if len(recNonNil) == 0 || !sx.MustPass(recClosure, nil, dis.From.Instrs[len(dis.From.Instrs)-1], sx.Cut{Edges: recNonNil}) {
						continue // a level test made before the panic is known
					}
					tb := dis.To()
					for _, ret := range sx.Returns(recClosure) {
						if len(tb.Instrs) > 0 && (tb.Instrs[0] == ssa.Instruction(ret) || sx.ReachInstr(recClosure, tb.Instrs[0], ret, wcut)) {
							okConv, whyConv = false, "with the Error level disabled (edge at "+p.Pos(en.Pos())+") the recover path returns without sending the 500 and without having found a recorded status"
						}
					}
				}
			})
			r.Check(okConv, "C15-R2", "Relay recover path: the 500 does not depend on the log level", p.FuncPos(recClosure), "every path on which the Error level is disabled still reaches the response write or the Status != 0 edge", whyConv+": a handler that panics before writing leaves the client with an empty 200")
		}
	}

	// ---- R3
	if endClosure == nil {
		r.Fail("C15-R3", "Relay: REQ_END closure", p.FuncPos(relay), "no deferred closure that logs (calls Handle) without recovering")
	} else {
		cut := sx.Cut{Instrs: map[ssa.Instruction]bool{endDefer: true}}
		r.Check(sx.MustPass(relay, nil, recDefer, cut), "C15-R3", "Relay: REQ_END defer is registered before the recover defer", p.Pos(endDefer.Pos()), "LIFO: recover (and its 500) runs first, REQ_END reads the final status", "the recover closure is registered before the REQ_END closure: REQ_END runs first and logs the status before the 500 is recorded")
		r.Check(sx.MustPass(relay, nil, hcall, cut), "C15-R3", "Relay: REQ_END defer is registered before the handler call", p.Pos(endDefer.Pos()), "REQ_END runs on every exit, including panic", "the handler can be reached without the REQ_END defer registered")
		// 0 -> 200 default only in END closure
		okDef := true
		var where []string
		var loggerFns []*ssa.Function
		for _, v := range pkgViews(p, "logger") {
			loggerFns = append(loggerFns, sx.WithClosures(v.Fn)...)
		}
		for _, fn := range loggerFns {
			fn := fn
			sx.Instrs(fn, func(in ssa.Instruction) {
				st, ok := in.(*ssa.Store)
				if !ok {
					return
				}
				fa, ok := st.Addr.(*ssa.FieldAddr)
				if !ok || sx.FieldOf(fa) == nil || sx.FieldOf(fa).Name() != "Status" || sx.OwnerName(fa.X.Type()) != "ResponseWriter" {
					return
				}
				zero := statusZeroEdges(fn)
				isEnd := fn == endClosure || (endClosure.Parent() == nil && sameFn(fn, endClosure))
				if !isEnd || len(zero) == 0 || !sx.MustPass(fn, nil, in, sx.Cut{Edges: zero}) {
					okDef = false
					where = append(where, fnName(fn)+" at "+p.Pos(in.Pos()))
				}
			})
		}
		r.Check(okDef, "C15-R3", "logger: the status default is applied only in the REQ_END closure when nothing was recorded", p.FuncPos(endClosure), "Status assigned only under Status == 0 inside the REQ_END closure", "Status is assigned by the logger at "+strings.Join(where, ", "))
	}

	// ---- R4
	countHandle := func(fn *ssa.Function, upto ssa.Instruction) (sx.Range, []ssa.CallInstruction) {
		var sites []ssa.CallInstruction
		w := sx.Weights{Instr: func(in ssa.Instruction) sx.Range {
			if c, ok := in.(ssa.CallInstruction); ok && c.Common().IsInvoke() && c.Common().Method.Name() == "Handle" {
				return sx.Range{Min: 1, Max: 1}
			}
			return sx.Range{}
		}}
		sx.Instrs(fn, func(in ssa.Instruction) {
			if c, ok := in.(ssa.CallInstruction); ok && c.Common().IsInvoke() && c.Common().Method.Name() == "Handle" {
				sites = append(sites, c)
			}
		})
		res := sx.Count(fn, fn.Blocks[0], w, nil)
		if upto != nil {
			rg, _ := res.Before(upto)
			return rg, sites
		}
		tot := sx.Range{Min: sx.Sat, Max: 0}
		for _, ret := range sx.Returns(fn) {
			if rg, ok := res.Before(ret); ok {
				tot = tot.Join(rg)
			}
		}
		return tot, sites
	}
	gatedBy := func(fn *ssa.Function, site ssa.CallInstruction, level int64) bool {
		ok, _ := levelGated(p, fn, site)
		if !ok {
			return false
		}
		lv := newRecordLevel(site.Common().Args[1])
		k, isC := sx.ConstInt(sx.Unspill(lv))
		return isC && k == level
	}
	{
		rg, sites := countHandle(relay, hcall)
		ok := rg.Max == 1 && len(sites) == 1 && gatedBy(relay, sites[0], 4) && stringConsts(relay)["REQ_BEG"]
		r.Check(ok, "C15-R4", "Relay: one REQ_BEG record before the handler", p.FuncPos(relay), "one Handle call site before the handler, gated by Enabled(LevelInfo), tagged REQ_BEG", fmt.Sprintf("Handle calls before the handler: %s over %d site(s); gated/tagged as REQ_BEG at Info level: %v", rangeStr(rg), len(sites), ok))
	}
	if endClosure != nil {
		rg, sites := countHandle(endClosure, nil)
		ok := rg.Max == 1 && len(sites) == 1 && gatedBy(endClosure, sites[0], 4) && stringConsts(endClosure)["REQ_END"]
		r.Check(ok, "C15-R4", "Relay: one REQ_END record on every exit", p.FuncPos(endClosure), "one Handle call site in the deferred closure, gated by Enabled(LevelInfo), tagged REQ_END", fmt.Sprintf("Handle calls in the REQ_END closure: %s over %d site(s)", rangeStr(rg), len(sites)))
	}
	{
		rg, sites := countHandle(recClosure, nil)
		ok := rg.Max == 1 && len(sites) == 1 && gatedBy(recClosure, sites[0], 12)
		if ok {
			ok = len(recNonNil) > 0 && sx.MustPass(recClosure, nil, sites[0].(ssa.Instruction), sx.Cut{Edges: recNonNil})
		}
		r.Check(ok, "C15-R4", "Relay: one Error record only when the handler panicked", p.FuncPos(recClosure), "one Handle call site at LevelError, reachable only when recover() != nil", fmt.Sprintf("Error-record Handle calls: %s over %d site(s), or not restricted to recover() != nil", rangeStr(rg), len(sites)))
	}

	// ---- R5
	if endClosure != nil {
		beg, end, er := attrSources(relay), attrSources(endClosure), attrSources(recClosure)
		// a deferred *named* function receives its inputs as arguments: map parameters back to what Relay passes
		if endClosure.Parent() == nil && endDefer != nil {
			args := sx.Args(endDefer)
			for k, v := range end {
				for i, prm := range endClosure.Params {
					if v == "param:"+prm.Name() && i < len(args) {
						end[k] = keys(sx.Origins(args[i]))
					}
				}
			}
		}
		var ks []string
		for k := range beg {
			ks = append(ks, k)
		}
		sort.Strings(ks)
		for _, k := range ks {
			if k == "tag" {
				continue
			}
			ev, ok := end[k]
			r.Check(ok && ev == beg[k], "C15-R5", "attribute "+k+": REQ_BEG and REQ_END use the same source", p.FuncPos(relay), "both from "+short(beg[k]), "REQ_BEG takes "+k+" from "+short(beg[k])+" but REQ_END from "+short(ev))
		}
		// the URI and the method are the request's own (what the client sent): Request.RequestURI / Request.Method as they
		// are — not re-derived from the parsed URL (which drops the absolute form and follows a handler's rewrites)
		for attr, field := range map[string]string{"path": "field:Request.RequestURI", "method": "field:Request.Method"} {
			if v, ok := beg[attr]; ok {
				okSrc := strings.Contains(v, field) && !strings.Contains(v, "call:")
				r.Check(okSrc, "C15-R5", "attribute "+attr+" is the request's own "+strings.TrimPrefix(field, "field:"), p.FuncPos(relay), "read from "+short(v), "the records take "+attr+" from "+short(v)+", not from "+strings.TrimPrefix(field, "field:")+": what is logged is not what the client sent (absolute-form targets lose their scheme and host, a handler that rewrites the URL changes REQ_END but not REQ_BEG)")
			}
		}
		for _, must := range []string{"ip", "method", "path", "tid"} {
			if _, ok := beg[must]; !ok {
				r.Fail("C15-R5", "attribute "+must+" present in REQ_BEG", p.FuncPos(relay), "REQ_BEG has no attribute "+must)
			}
		}
		r.Check(er["tid"] != "" && er["tid"] == beg["tid"], "C15-R5", "Error record carries the same tid source", p.FuncPos(recClosure), "tid from "+short(er["tid"]), "Error record tid source "+short(er["tid"])+" differs from REQ_BEG's "+short(beg["tid"]))
		okPanic := false
		for k, v := range er {
			if k != "tid" && strings.Contains(v, "builtin.recover") || k != "tid" && strings.Contains(v, "call:builtin recover") {
				okPanic = true
			}
			_ = v
		}
		if !okPanic {
			// origin spelling: recover is a builtin call
			for k, v := range er {
				if k != "tid" && strings.Contains(v, "recover") {
					okPanic = true
				}
			}
		}
		r.Check(okPanic, "C15-R5", "Error record carries the recovered value", p.FuncPos(recClosure), "an attribute's value is recover()'s result", fmt.Sprintf("no attribute of the Error record derives from recover(): %v", er))
		if _, ok := end["code"]; ok {
			r.Check(strings.Contains(end["code"], "field:ResponseWriter.Status"), "C15-R5", "REQ_END code is the recorded status", p.FuncPos(endClosure), "code from ResponseWriter.Status", "REQ_END code comes from "+end["code"])
		} else {
			r.Fail("C15-R5", "REQ_END code is the recorded status", p.FuncPos(endClosure), "REQ_END has no code attribute")
		}
	}

	// ---- R6
	rw := p.Named("httpd", "ResponseWriter")
	if rw == nil {
		r.Fail("C15-R6", "anchor httpd.ResponseWriter", "-", "type not found")
		return
	}
	origin, status := fieldByName(rw, "Origin"), fieldByName(rw, "Status")
	if origin == nil || status == nil {
		r.Fail("C15-R6", "anchor ResponseWriter fields", "-", "Origin/Status not found")
		return
	}
	rwMethods := map[*ssa.Function]bool{}
	ms := p.SSA.MethodSets.MethodSet(types.NewPointer(rw))
	for i := 0; i < ms.Len(); i++ {
		if fn := p.SSA.MethodValue(ms.At(i)); fn != nil && fn.Blocks != nil && fn.Synthetic == "" {
			rwMethods[fn] = true
		}
	}
	serve := p.Method("httpd", "Mux", "ServeHTTP")
	// who touches the wrapped writer: judged on the httpd package's inlined views (a helper of ServeHTTP that
	// binds or resets the field is ServeHTTP) and on every other module function
	var originFns []*ssa.Function
	for _, fn := range p.ModuleFuncs() {
		if rootFn(fn).Pkg != p.SPkgs["httpd"] {
			originFns = append(originFns, fn)
		}
	}
	for _, v := range pkgViews(p, "httpd") {
		originFns = append(originFns, sx.WithClosures(v.Fn)...)
	}
	seenOrigin := map[ssa.Instruction]bool{}
	for _, ref := range sx.FieldRefs(originFns, origin) {
		src := rootFn(sx.SourceFunc(ref.Instr)) // the function whose code this is (a wrapper method expanded into a caller's view stays the wrapper's code)
		if rwMethods[src] {
			if o := sx.OrigInstr(ref.Instr); !seenOrigin[o] {
				seenOrigin[o] = true
				r.OK("C15-R6", "ResponseWriter.Origin used in "+fnName(src), p.Pos(ref.Instr.Pos()), "the wrapper's own method")
			}
			continue
		}
		ok := rootFn(ref.Fn) == serve
		if rootFn(ref.Fn) == serve {
			// only set/reset
			if fa, isFA := ref.Instr.(*ssa.FieldAddr); isFA {
				for _, a := range sx.Accesses(fa) {
					if a.Kind != "write" {
						ok = false
					}
				}
			}
		}
		r.Check(ok, "C15-R6", "ResponseWriter.Origin used in "+fnName(ref.Fn), p.Pos(ref.Instr.Pos()), "wrapper's own method or ServeHTTP's set/reset", "the wrapped http.ResponseWriter is used outside ResponseWriter's methods: a write through it is not recorded")
	}
	sameVal := func(a, b ssa.Value) bool {
		a, b = sx.Unspill(a), sx.Unspill(b)
		if a == b {
			return true
		}
		ca, ok1 := a.(*ssa.Const)
		cb, ok2 := b.(*ssa.Const)
		return ok1 && ok2 && ca.Value != nil && cb.Value != nil && ca.Value.ExactString() == cb.Value.ExactString()
	}
	var rwList []*ssa.Function
	for fn := range rwMethods {
		rwList = append(rwList, fn)
	}
	sort.Slice(rwList, func(i, j int) bool { return rwList[i].String() < rwList[j].String() })
	// sendCut: the points of fn behind which a status is known to be recorded — the `Status != 0` edges, a call of the
	// wrapper's own WriteHeader, a store of a non-zero status
	sendCut := func(fn *ssa.Function) sx.Cut {
		cut := sx.Cut{Edges: map[sx.Edge]bool{}, Instrs: map[ssa.Instruction]bool{}}
		for e := range statusZeroEdges(fn) {
			other := sx.Edge{From: e.From, Idx: 1 - e.Idx}
			cut.Edges[other] = true
		}
		sx.Instrs(fn, func(i2 ssa.Instruction) {
			if cc, ok := i2.(*ssa.Call); ok {
				if callee := sx.StaticCallee(cc); callee != nil && rwMethods[sx.OrigFunc(callee)] && callee.Name() == "WriteHeader" {
					cut.Instrs[i2] = true
				}
				// the wrapped writer's own WriteHeader inside an expanded copy of the wrapper's WriteHeader
				if cc.Call.IsInvoke() && cc.Call.Method.Name() == "WriteHeader" && sx.Origins(cc.Call.Value)["field:ResponseWriter.Origin"] {
					cut.Instrs[i2] = true
				}
			}
			// a status recorded in place (the forward-then-record pair is checked by the WriteHeader case)
			if st, ok := i2.(*ssa.Store); ok {
				if fa, ok := st.Addr.(*ssa.FieldAddr); ok && sx.FieldOf(fa) == status {
					if k, isC := sx.ConstInt(st.Val); !isC || k != 0 {
						cut.Instrs[i2] = true
					}
				}
			}
		})
		return cut
	}
	for _, src := range rwList {
		// a status is recorded only for a header that was handed to the wrapped writer: a non-zero Status without a
		// forwarded WriteHeader of the same code suppresses the 500 of a later panic although nothing was sent
		{
			fn := p.Inl(src)
			fwd := map[ssa.Instruction]ssa.Value{}
			sx.Instrs(fn, func(in ssa.Instruction) {
				if c, ok := in.(*ssa.Call); ok && c.Call.IsInvoke() && c.Call.Method.Name() == "WriteHeader" && sx.Origins(c.Call.Value)["field:ResponseWriter.Origin"] {
					fwd[in] = c.Call.Args[0]
				}
			})
			sx.Instrs(fn, func(in ssa.Instruction) {
				st, ok := in.(*ssa.Store)
				if !ok {
					return
				}
				fa, ok := st.Addr.(*ssa.FieldAddr)
				if !ok || sx.FieldOf(fa) != status {
					return
				}
				if k, isC := sx.ConstInt(st.Val); isC && k == 0 {
					return
				}
				cutF := sx.Cut{Instrs: map[ssa.Instruction]bool{}}
				for f, code := range fwd {
					if sameVal(code, st.Val) {
						cutF.Instrs[f] = true
					}
				}
				okSt := len(cutF.Instrs) > 0 && sx.MustPass(fn, nil, in, cutF)
				r.Check(okSt, "C15-R6", fnName(fn)+": a status is recorded only after the same code was forwarded", p.Pos(in.Pos()), "Status = code behind Origin.WriteHeader(code) (the wrapped writer panics on an invalid code without sending anything)", "Status is set to "+short(sx.ValPath(st.Val))+" on a path where that code was not handed to the wrapped writer's WriteHeader: Status is non-zero although nothing may have been sent — a later panic is answered with nothing instead of 500, or REQ_END reports a status the client never received")
			})
		}
		fn := p.Inl(src) // Write's implicit WriteHeader(200) is seen in place, whether it is a call or written out
		sx.Instrs(fn, func(in ssa.Instruction) {
			c, ok := in.(*ssa.Call)
			if !ok {
				return
			}
			if !c.Call.IsInvoke() || !sx.Origins(c.Call.Value)["field:ResponseWriter.Origin"] {
				// the wrapped writer handed to someone else (io.Copy(w.Origin, src), io.WriteString, …): that callee writes
				viaArg := false
				for _, a := range c.Call.Args {
					if sx.Origins(a)["field:ResponseWriter.Origin"] {
						viaArg = true
					}
				}
				if _, isB := c.Call.Value.(*ssa.Builtin); isB || !viaArg {
					return
				}
				r.Check(sx.MustPass(fn, nil, in, sendCut(fn)), "C15-R6", fnName(fn)+": status is recorded before the wrapped writer is handed to "+short(sx.CalleeName(c)), p.Pos(in.Pos()), "reached only after a status was recorded (explicitly or the implicit 200)", "the wrapped writer is handed to "+short(sx.CalleeName(c))+" on a path where no status was recorded: whatever that call sends commits the header (200) but Status stays 0 — a later panic answers 500 on top of a started 200 response and REQ_END reports a status the client never saw")
				return
			}
			switch c.Call.Method.Name() {
			case "Header":
				// reading or preparing headers sends nothing
			default:
				// any other method of the wrapped writer (or of an interface it was asserted to: Flush, ReadFrom, Push, …)
				// can commit the response header
				r.Check(sx.MustPass(fn, nil, in, sendCut(fn)), "C15-R6", fnName(fn)+": status is recorded before "+c.Call.Method.Name()+" is forwarded", p.Pos(in.Pos()), "forwarded only after a status was recorded (explicitly or the implicit 200)", "the wrapped writer's "+c.Call.Method.Name()+" is called on a path where no status was recorded: it sends the header (implicit 200) but Status stays 0 — a later panic answers 500 on top of a started 200 response and REQ_END reports a status the client never saw")
			case "WriteHeader":
				// every return after the forward passes a store Status = code
				cut := sx.Cut{Instrs: map[ssa.Instruction]bool{}}
				sx.Instrs(fn, func(i2 ssa.Instruction) {
					if st, ok := i2.(*ssa.Store); ok {
						if fa, ok := st.Addr.(*ssa.FieldAddr); ok && sx.FieldOf(fa) == status && sameVal(st.Val, c.Call.Args[0]) {
							cut.Instrs[i2] = true
						}
					}
				})
				// (the stores that belong to this forward: a method may forward in several branches)
				for st := range cut.Instrs {
					if !sx.ReachInstr(fn, c, st, sx.Cut{}) {
						delete(cut.Instrs, st)
					}
				}
				okAll := len(cut.Instrs) > 0
				for _, ret := range sx.Returns(fn) {
					if sx.ReachInstr(fn, c, ret, cut) && !sx.MustPass(fn, nil, c, cut) {
						okAll = false
					}
				}
				r.Check(okAll, "C15-R6", fnName(fn)+": forwarded status is recorded", p.Pos(in.Pos()), "Status = code after the wrapped writer accepted the header, on every path", "the status is not recorded on every path after forwarding WriteHeader — or is recorded before forwarding: net/http panics on an invalid code without sending anything, Status is then non-zero although nothing was sent and the 500 is suppressed")
			case "Write":
				cut := sendCut(fn)
				r.Check(sx.MustPass(fn, nil, in, cut), "C15-R6", fnName(fn)+": implicit 200 is recorded before the body is forwarded", p.Pos(in.Pos()), "the body is forwarded only after a status was recorded (explicitly or the implicit 200)", "the body is forwarded on a path where no status was recorded: the wire status is 200 but Status stays 0 and a later panic sends a second header")
			}
		})
	}
}
