package props

import (
	"encoding/json"
	"fmt"
	"os"
	"os/exec"
	"path/filepath"
	"sort"
	"strings"

	"glbverif/checker/core"
)

type seededMeta struct {
	Property   string   `json:"property"`
	DetectedBy []string `json:"detected_by"` // properties whose check reports this change
	Kind       string   `json:"kind"`        // "mutant" (must be reported) | "refactor" (must stay silent)
	Needs      string   `json:"needs"`
	// refactors only: properties whose rule cannot decide the refactored construct (a documented limit, DESIGN §9.3):
	// an alarm there is expected and says nothing about the tree
	OutsideFragment []string `json:"outside_fragment"`
}

// SelfValidate applies every seeded change that concerns this property to a
// scratch copy of the CURRENT repository tree (outside /repo and /verif,
// removed immediately), re-runs this property's rules on the copy in a child
// process and records whether the change was reported. Behaviour-preserving
// refactors (kind "refactor") must stay silent. The outcome is evidence about
// the checker; it never produces a VIOLATION for the real tree.
func SelfValidate(prop, repo, verif string, rep *core.Report) {
	dirs, _ := filepath.Glob(filepath.Join(verif, "seeded", "*", "meta.json"))
	sort.Strings(dirs)
	type result struct {
		Name     string `json:"name"`
		Kind     string `json:"kind"`
		Outcome  string `json:"outcome"`
		Reported string `json:"reported,omitempty"`
	}
	var results []result
	killed, mutants, silent, refactors, limits := 0, 0, 0, 0, 0
	self, _ := os.Executable()
	for _, m := range dirs {
		b, err := os.ReadFile(m)
		if err != nil {
			continue
		}
		var meta seededMeta
		if json.Unmarshal(b, &meta) != nil {
			continue
		}
		concerns := meta.Property == prop
		for _, d := range meta.DetectedBy {
			if d == prop {
				concerns = true
			}
		}
		// a behaviour-preserving refactor concerns every property whose anchored package it touches
		if !concerns && meta.Kind == "refactor" {
			if pb, err := os.ReadFile(filepath.Join(filepath.Dir(m), "patch.diff")); err == nil {
				rel := pkgOf[prop]
				for _, ln := range strings.Split(string(pb), "\n") {
					if strings.HasPrefix(ln, "+++ b/") && rel != "" && strings.HasPrefix(strings.TrimPrefix(ln, "+++ b/"), rel+"/") {
						concerns = true
					}
				}
			}
		}
		if !concerns {
			continue
		}
		if meta.Kind == "" {
			meta.Kind = "mutant"
		}
		// a mutant seeded for this property but detected (by design) only by another property's rules
		expectHere := meta.Kind == "refactor"
		for _, d := range meta.DetectedBy {
			if d == prop {
				expectHere = true
			}
		}
		name := filepath.Base(filepath.Dir(m))
		patch := filepath.Join(filepath.Dir(m), "patch.diff")
		res := result{Name: name, Kind: meta.Kind}
		scratch, err := os.MkdirTemp("", "glbverif-scratch-")
		if err != nil {
			res.Outcome = "skipped: " + err.Error()
			results = append(results, res)
			continue
		}
		func() {
			defer os.RemoveAll(scratch)
			if out, err := exec.Command("rsync", "-a", "--exclude", ".git", repo+"/", scratch+"/").CombinedOutput(); err != nil {
				res.Outcome = "skipped: copy failed: " + string(out)
				return
			}
			ap := exec.Command("git", "apply", "--whitespace=nowarn", patch)
			ap.Dir = scratch
			if out, err := ap.CombinedOutput(); err != nil {
				res.Outcome = "skipped: patch does not apply to the current tree: " + firstLine(string(out))
				return
			}
			cmd := exec.Command(self, "-prop", prop, "-scratch", "-repo", scratch, "-verif", verif)
			out, err := cmd.CombinedOutput()
			if err != nil || !strings.Contains(string(out), "SCRATCH-DONE") {
				res.Outcome = "skipped: child failed: " + firstLine(string(out))
				return
			}
			var reported []string
			for _, ln := range strings.Split(string(out), "\n") {
				if strings.HasPrefix(ln, "SCRATCH ") {
					f := strings.Split(ln, "\t")
					if len(f) >= 4 {
						reported = append(reported, f[1]+" ["+f[2]+"] "+f[3])
					}
				}
			}
			res.Reported = strings.Join(reported, "; ")
			switch {
			case meta.Kind == "refactor":
				refactors++
				if len(reported) == 0 {
					silent++
					res.Outcome = "silent (as required)"
				} else {
					res.Outcome = "FALSE-ALARM on a behaviour-preserving refactor"
					for _, o := range meta.OutsideFragment {
						if o == prop {
							res.Outcome = "alarm on a behaviour-preserving refactor — documented limit: the construct is outside this rule's fragment (DESIGN §9.3)"
							limits++
						}
					}
				}
			case !expectHere:
				if len(reported) > 0 {
					res.Outcome = "reported (bonus: designed to be caught by " + strings.Join(meta.DetectedBy, ",") + ")"
				} else {
					res.Outcome = "not reported here (by design: caught by " + strings.Join(meta.DetectedBy, ",") + ")"
				}
			default:
				mutants++
				if len(reported) > 0 {
					killed++
					res.Outcome = "reported"
				} else {
					res.Outcome = "MISSED"
				}
			}
		}()
		results = append(results, res)
		fmt.Printf("selfcheck %s %s: %s\n", prop, name, res.Outcome)
	}
	rep.Extra["selfcheck"] = map[string]any{
		"what":             "seeded changes applied to scratch copies of the current tree and re-analysed (evidence about the checker, not about /repo)",
		"mutants_reported": killed, "mutants_total": mutants,
		"refactors_silent": silent, "refactors_total": refactors, "refactors_outside_fragment": limits,
		"results": results,
	}
}

func firstLine(s string) string {
	s = strings.TrimSpace(s)
	if i := strings.IndexByte(s, '\n'); i >= 0 {
		return s[:i]
	}
	return s
}
