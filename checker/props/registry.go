// Package props holds the rule sets, one file per property.
package props

import (
	"glbverif/checker/core"
)

type runFn func(p *core.Prog, r *core.Report)

// Registry maps property id to its rule set.
var Registry = map[string]runFn{}

// pkgOf names the package (relative to the module) that must build for the
// property to be applicable in a build configuration.
var pkgOf = map[string]string{}

func register(id, pkg string, f runFn) {
	Registry[id] = f
	pkgOf[id] = pkg
}

// Applicable reports whether the property's anchored package exists in this
// build configuration (package daemon is `!windows`).
func Applicable(id string, p *core.Prog) bool {
	rel, ok := pkgOf[id]
	if !ok {
		return true
	}
	_, ok = p.Pkgs[rel]
	return ok
}
