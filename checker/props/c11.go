package props

import (
	"fmt"
	"go/ast"
	"go/constant"
	"go/token"
	"go/types"
	"sort"
	"strings"

	"golang.org/x/tools/go/ssa"

	"glbverif/checker/core"
	"glbverif/checker/sx"
)

func init() { register("C11", "util/netutil", runC11) }

// returnValue resolves a result that go/ssa spilled into a local cell
// (functions with defers) to the value stored in the return's own block.
func returnValue(ret *ssa.Return, i int) ssa.Value {
	v := ret.Results[i]
	if u, ok := v.(*ssa.UnOp); ok && u.Op == token.MUL {
		if a, ok := u.X.(*ssa.Alloc); ok {
			var last ssa.Value
			for _, in := range ret.Block().Instrs {
				if st, ok := in.(*ssa.Store); ok && st.Addr == a {
					last = st.Val
				}
			}
			if last != nil {
				return last
			}
		}
	}
	return v
}

type filterSyms struct {
	masks  *ssa.Global
	maskFn *ssa.Function // when there is no table: the function computing the mask from the prefix length (may be nil: inline)
	ipList *types.Var
	ipMaps *types.Var
	index  *types.Var
	mode   *types.Var
	// maskOff: the table is indexed by prefix length minus one (0: 32 entries, entry i is the /(i+1) mask) or by the
	// prefix length itself (1: 33 entries, entry 0 unused and zero, entry n is the /n mask)
	maskOff int64
	// listIsSlice: the list is a slice field grown by append; there is no separate fill index
	listIsSlice bool
}

// affine: v as base + k (k constant).
func affine(v ssa.Value) (string, int64) {
	v = stripConv(v)
	if b, ok := v.(*ssa.BinOp); ok && (b.Op == token.ADD || b.Op == token.SUB) {
		if c, isC := sx.ConstInt(b.Y); isC {
			base, k := affine(b.X)
			if b.Op == token.SUB {
				c = -c
			}
			return base, k + c
		}
		if c, isC := sx.ConstInt(b.X); isC && b.Op == token.ADD {
			base, k := affine(b.Y)
			return base, k + c
		}
	}
	return sx.ValPath(v), 0
}

// lenOf: the prefix length n that mask index e stands for, as a value (nil if e is not of the expected form).
func (s *filterSyms) lenOf(e ssa.Value) (ssa.Value, bool) {
	if s.maskOff == 1 {
		return e, true
	}
	return minusOne(e)
}

// maskIsLen: mask index e denotes the prefix length written as the expression n.
func (s *filterSyms) maskIsLen(e, n ssa.Value) bool {
	be, ke := affine(e)
	bn, kn := affine(n)
	return be == bn && ke+1-s.maskOff == kn
}

// maskIsMap: mask index e denotes the same prefix length as map index j (the maps are indexed by length minus one).
func (s *filterSyms) maskIsMap(e, j ssa.Value) bool {
	be, ke := affine(e)
	bj, kj := affine(j)
	return be == bj && ke-s.maskOff == kj
}

// maskIndex: if v is `X & ipv4Masks[e]` (either operand order) return X and e.
func (s *filterSyms) maskKey(v ssa.Value) (x, e ssa.Value, ok bool) {
	b, isB := v.(*ssa.BinOp)
	if !isB || b.Op != token.AND {
		return nil, nil, false
	}
	for _, pair := range [][2]ssa.Value{{b.X, b.Y}, {b.Y, b.X}} {
		if s.masks == nil {
			// no table: the mask is computed from the prefix length (`^uint32(0) << (32 - n)`, inline or through the
			// package's one mask function); the "index" is then the prefix length itself (maskOff == 1)
			if c, isC := pair[1].(*ssa.Call); isC && s.maskFn != nil && sx.StaticCallee(c) == s.maskFn && len(c.Call.Args) == 1 {
				return pair[0], c.Call.Args[0], true
			}
			if n, isS := shiftMask(pair[1]); isS {
				return pair[0], n, true
			}
			continue
		}
		if ld, isL := pair[1].(*ssa.UnOp); isL && ld.Op == token.MUL {
			if ia, isI := ld.X.(*ssa.IndexAddr); isI && ia.X == ssa.Value(s.masks) {
				return pair[0], ia.Index, true
			}
		}
		// `for i, m := range table`: go/ssa indexes a copy of the table loaded before the loop (the table is never written, C11-R1)
		if ix, isX := pair[1].(*ssa.Index); isX {
			if ld, isL := ix.X.(*ssa.UnOp); isL && ld.Op == token.MUL && ld.X == ssa.Value(s.masks) {
				return pair[0], ix.Index, true
			}
		}
	}
	return nil, nil, false
}

// shiftMask: v is `0xFFFFFFFF << (32 - n)` computed in uint32 (the /n netmask for 0 <= n <= 32: Go defines a shift by
// the full width as 0): returns n.
func shiftMask(v ssa.Value) (ssa.Value, bool) {
	b, ok := v.(*ssa.BinOp)
	if !ok || b.Op != token.SHL {
		return nil, false
	}
	if bt, isB := b.Type().Underlying().(*types.Basic); !isB || bt.Kind() != types.Uint32 {
		return nil, false
	}
	c, isC := b.X.(*ssa.Const)
	if !isC || c.Value == nil {
		return nil, false
	}
	if u, exact := constant.Uint64Val(constant.ToInt(c.Value)); !exact || u != 0xFFFFFFFF {
		return nil, false
	}
	sub, isSub := stripConv(b.Y).(*ssa.BinOp)
	if !isSub || sub.Op != token.SUB {
		return nil, false
	}
	if k, isK := sx.ConstInt(sub.X); !isK || k != 32 {
		return nil, false
	}
	return sub.Y, true
}

// findMaskFn: the package function `func(n <integer>) uint32 { return ^uint32(0) << (32 - n) }`.
func findMaskFn(sp *ssa.Package) *ssa.Function {
	var names []string
	for n := range sp.Members {
		names = append(names, n)
	}
	sort.Strings(names)
	for _, n := range names {
		fn, ok := sp.Members[n].(*ssa.Function)
		if !ok || fn.Blocks == nil || len(fn.Params) != 1 || fn.Signature.Results().Len() != 1 || len(fn.Blocks) != 1 {
			continue
		}
		ret, isR := fn.Blocks[0].Instrs[len(fn.Blocks[0].Instrs)-1].(*ssa.Return)
		if !isR || len(ret.Results) != 1 {
			continue
		}
		if l, isS := shiftMask(ret.Results[0]); isS && stripConv(l) == ssa.Value(fn.Params[0]) {
			return fn
		}
	}
	return nil
}

// isListBase: v addresses the list array itself or a slice of it.
func (s *filterSyms) isListBase(v ssa.Value) bool {
	switch x := v.(type) {
	case *ssa.FieldAddr:
		return sx.FieldOf(x) == s.ipList
	case *ssa.Slice:
		return s.isListBase(x.X)
	case *ssa.UnOp: // the slice value of a list kept as a slice
		if s.listIsSlice && x.Op == token.MUL {
			return s.isListBase(x.X)
		}
	}
	return false
}

// slotOfAddr: a is the address of list slot i — directly, or of a local
// variable that holds a copy of the slot (`for _, e := range list[:n]`,
// `e := list[i]`) and is never assigned again.
func (s *filterSyms) slotOfAddr(a ssa.Value, depth int) (ssa.Value, bool) {
	if depth > 3 {
		return nil, false
	}
	switch x := a.(type) {
	case *ssa.IndexAddr:
		if s.isListBase(x.X) {
			return x.Index, true
		}
	case *ssa.Alloc:
		var stored ssa.Value
		n := 0
		for _, u := range *x.Referrers() {
			switch u := u.(type) {
			case *ssa.Store:
				if u.Addr == ssa.Value(x) {
					stored = u.Val
					n++
				} else {
					return nil, false
				}
			case *ssa.IndexAddr, *ssa.FieldAddr:
				for _, uu := range *u.(ssa.Value).Referrers() {
					if st, isSt := uu.(*ssa.Store); isSt && st.Addr == u.(ssa.Value) {
						return nil, false // written component-wise: not a plain copy
					}
				}
			case *ssa.UnOp, *ssa.DebugRef:
			default:
				return nil, false
			}
		}
		if n == 1 {
			return s.slotOfVal(stored, depth+1)
		}
	}
	return nil, false
}

// slotOfVal: v is the whole value of list slot i.
func (s *filterSyms) slotOfVal(v ssa.Value, depth int) (ssa.Value, bool) {
	if ld, ok := v.(*ssa.UnOp); ok && ld.Op == token.MUL {
		return s.slotOfAddr(ld.X, depth)
	}
	return nil, false
}

// listElem: if v is component k of list slot i (an array element or a struct
// field, read in place or from a copy of the slot) return the path of i and k.
func (s *filterSyms) listElem(v ssa.Value) (iPath string, k int64, ok bool) {
	var slot ssa.Value
	switch x := v.(type) {
	case *ssa.UnOp:
		if x.Op != token.MUL {
			return "", 0, false
		}
		switch a := x.X.(type) {
		case *ssa.IndexAddr:
			kk, isC := sx.ConstInt(a.Index)
			if !isC {
				return "", 0, false
			}
			k = kk
			slot, ok = s.slotOfAddr(a.X, 0)
		case *ssa.FieldAddr:
			k = int64(a.Field)
			slot, ok = s.slotOfAddr(a.X, 0)
		}
	case *ssa.Index:
		kk, isC := sx.ConstInt(x.Index)
		if !isC {
			return "", 0, false
		}
		k = kk
		slot, ok = s.slotOfVal(x.X, 0)
	case *ssa.Field:
		k = int64(x.Field)
		slot, ok = s.slotOfVal(x.X, 0)
	}
	if !ok {
		return "", 0, false
	}
	return sx.ValPath(slot), k, true
}

// mapOfLen: if m is a load of f.ipMaps[j] return j.
func (s *filterSyms) mapIndex(m ssa.Value) (j ssa.Value, ok bool) {
	// `for i, m := range f.ipMaps` (an array): go/ssa loads the array once and indexes the loaded value
	if ix, isIx := m.(*ssa.Index); isIx {
		if ld, isL := sx.Unspill(ix.X).(*ssa.UnOp); isL && ld.Op == token.MUL {
			if fa, isF := ld.X.(*ssa.FieldAddr); isF && sx.FieldOf(fa) == s.ipMaps {
				return ix.Index, true
			}
		}
		return nil, false
	}
	ld, isL := m.(*ssa.UnOp)
	if !isL || ld.Op != token.MUL {
		return nil, false
	}
	ia, isI := ld.X.(*ssa.IndexAddr)
	if !isI {
		return nil, false
	}
	base := ia.X
	if sl, isSl := base.(*ssa.Slice); isSl && sl.Low == nil { // `range f.ipMaps[:]`
		base = sl.X
	}
	fa, isF := base.(*ssa.FieldAddr)
	if !isF || sx.FieldOf(fa) != s.ipMaps {
		return nil, false
	}
	return ia.Index, true
}

func stripConv(v ssa.Value) ssa.Value {
	for {
		c, ok := v.(*ssa.Convert)
		if !ok {
			return v
		}
		v = c.X
	}
}

// minusOne: if v is `n - 1` return n.
func minusOne(v ssa.Value) (ssa.Value, bool) {
	b, ok := v.(*ssa.BinOp)
	if !ok || b.Op != token.SUB {
		return nil, false
	}
	if c, isC := sx.ConstInt(b.Y); isC && c == 1 {
		return b.X, true
	}
	return nil, false
}

func runC11(p *core.Prog, r *core.Report) {
	r.Rule("C11-R1", "mask table: exactly 32 entries and entry i equals the /(i+1) netmask", 1)
	r.Rule("C11-R2", "canonical-key agreement: every key stored to, compared with, deleted from or looked up in the list/maps is `addr & mask[n-1]` where the same n-1 selects the map / n is the stored prefix length; stored lengths are used as an index only behind a `> 0` test", 6)
	r.Rule("C11-R3", "every accepted Add records the range exactly once (match-all flag, list slot + index++, or map insert) on every path returning nil, and nothing on paths returning an error; the mode switch is one-way", 4)
	r.Rule("C11-R4", "validation before mutation: every state change in Add/Remove is reachable only after the mask-width test (bits == 32) and the address-length test succeeded; the prefix length is used as an index only after the /0 case was handled", 4)
	r.Rule("C11-R5", "Contains normalises the address with To4() before reading its bytes and never rejects on the length of the un-normalised argument", 2)
	r.Rule("C11-R6", "a list slot that receives an entry copied from another slot during removal is re-examined before the scan advances", 1)
	r.Rule("C11-R7", "the maps-mode lookup consults every one of the 32 per-prefix-length maps (loop bounds)", 1)
	r.NotDecided = append(r.NotDecided,
		"full equivalence with the set-of-prefixes model over all operation histories (only its structural causes are checked)",
		"that one Remove clears all duplicates is checked only as: the removal scan has no early exit and re-examines copied slots")
	r.Trusted = append(r.Trusted, "net.IP.To4 returns the 4-byte form for both IPv4 encodings", "net.IPMask.Size returns 0 <= ones <= bits, (0,0) for non-canonical masks", "go/ssa")

	fi := findFilter(p, r, "C11-R2")
	if fi == nil {
		return
	}
	pk := p.Pkgs["util/netutil"]
	sp := p.SPkgs["util/netutil"]
	syms := &filterSyms{}
	// ---- R1: mask table (AST + constant values)
	var tableName string
	for _, f := range pk.Syntax {
		for _, d := range f.Decls {
			gd, ok := d.(*ast.GenDecl)
			if !ok || gd.Tok != token.VAR {
				continue
			}
			for _, sp0 := range gd.Specs {
				vs := sp0.(*ast.ValueSpec)
				for i, nm := range vs.Names {
					if i >= len(vs.Values) {
						continue
					}
					cl, ok := vs.Values[i].(*ast.CompositeLit)
					if !ok {
						continue
					}
					at, ok := pk.TypesInfo.TypeOf(cl).Underlying().(*types.Array)
					if !ok || at.Elem().String() != "uint32" {
						continue
					}
					tableName = nm.Name
					var bad []string
					off := 0
					if at.Len() == 33 && len(cl.Elts) == 33 {
						// indexed by the prefix length itself: entry 0 (the /0 mask, never a stored key's mask) is zero
						off = 1
						syms.maskOff = 1
					} else if at.Len() != 32 || len(cl.Elts) != 32 {
						bad = append(bad, fmt.Sprintf("table has %d entries (literal %d), want 32 (or 33 when indexed by the prefix length)", at.Len(), len(cl.Elts)))
					}
					for j, e := range cl.Elts {
						if _, isKV := e.(*ast.KeyValueExpr); isKV {
							bad = append(bad, "keyed element: not evaluated")
							continue
						}
						tv := pk.TypesInfo.Types[e]
						if tv.Value == nil {
							bad = append(bad, fmt.Sprintf("entry %d is not constant", j))
							continue
						}
						got, _ := constant.Uint64Val(tv.Value)
						plen := j + 1 - off
						want := uint64(0)
						if plen > 0 && plen <= 32 {
							want = uint64(0xFFFFFFFF) << uint(32-plen) & 0xFFFFFFFF
						}
						if got != want {
							bad = append(bad, fmt.Sprintf("entry %d = %#x, the /%d netmask is %#x", j, got, plen, want))
						}
					}
					r.Check(len(bad) == 0, "C11-R1", "netutil."+nm.Name+" table", p.Pos(cl.Pos()), fmt.Sprintf("%d entries, entry i is the /(i+%d) netmask", 32+off, 1-off), strings.Join(bad, "; "))
				}
			}
		}
	}
	if tableName == "" {
		// no table: the masks are computed. Every `addr & <mask>` of the package must then be of the one recognised form
		// (R2 finds the keys through it); the form itself is the /n netmask for every 0 <= n <= 32 by construction
		syms.maskOff = 1
		syms.maskFn = findMaskFn(sp)
		nShift := 0
		for _, fn := range fi.AllFuncs {
			sx.Instrs(fn, func(in ssa.Instruction) {
				if b, ok := in.(*ssa.BinOp); ok && b.Op == token.AND {
					if _, _, isK := syms.maskKey(b); isK {
						nShift++
					}
				}
			})
		}
		if nShift == 0 {
			r.Fail("C11-R1", "mask table", "-", "no package-level [..]uint32 table found in util/netutil, and no address is masked with `^uint32(0) << (32 - n)` either")
			return
		}
		what := "inline"
		if syms.maskFn != nil {
			what = "netutil." + syms.maskFn.Name()
		}
		r.OK("C11-R1", "computed netmask ("+what+")", "-", fmt.Sprintf("%d keys are masked with `0xFFFFFFFF << (32 - n)` in uint32: the /n netmask for every 0 <= n <= 32", nShift))
	} else {
		syms.masks, _ = sp.Members[tableName].(*ssa.Global)
	}
	for _, g := range fi.Guarded {
		switch t := g.Type().Underlying().(type) {
		case *types.Array:
			if _, isMap := t.Elem().Underlying().(*types.Map); isMap {
				syms.ipMaps = g
			} else {
				syms.ipList = g
			}
		case *types.Slice:
			// the list kept as a slice grown by append (its length is the fill index)
			if _, isPair := t.Elem().Underlying().(*types.Array); isPair {
				syms.ipList = g
				syms.listIsSlice = true
			}
		case *types.Basic:
			if t.Kind() == types.Int {
				syms.index = g
			} else {
				syms.mode = g
			}
		}
	}
	if (syms.masks == nil && tableName != "") || syms.ipList == nil || syms.ipMaps == nil || (syms.index == nil && !syms.listIsSlice) || syms.mode == nil {
		r.Fail("C11-R2", "anchors", "-", "cannot identify list / maps / index / mode fields of IPv4Filter by type")
		return
	}
	r.Anchor("list", syms.ipList.Name())
	r.Anchor("maps", syms.ipMaps.Name())

	add, remove, contains := fi.Methods["Add"], fi.Methods["Remove"], fi.Methods["Contains"]
	if add == nil || remove == nil || contains == nil {
		r.Fail("C11-R2", "anchors Add/Remove/Contains", "-", "exported methods not found")
		return
	}

	// ---- R2 over every function of the package
	var addInserts []ssa.Instruction // events for R3
	for _, fn := range fi.AllFuncs {
		n := 0
		// guard helper: instruction reachable only through the true edge of `ipList[i][1] > 0`
		lenGuarded := func(at ssa.Instruction, iPath string) bool {
			cut := sx.Cut{Edges: map[sx.Edge]bool{}}
			sx.Instrs(fn, func(in ssa.Instruction) {
				b, ok := in.(*ssa.BinOp)
				if !ok {
					return
				}
				var lhs ssa.Value
				switch {
				case b.Op == token.GTR:
					if c, isC := sx.ConstInt(b.Y); isC && c == 0 {
						lhs = b.X
					}
				case b.Op == token.NEQ, b.Op == token.EQL:
					if c, isC := sx.ConstInt(b.Y); isC && c == 0 {
						lhs = b.X
					}
				}
				if lhs == nil {
					return
				}
				if ip, k, ok := syms.listElem(lhs); ok && k == 1 && ip == iPath {
					for _, u := range *b.Referrers() {
						if iff, ok := u.(*ssa.If); ok {
							idx := 0
							if b.Op == token.EQL {
								idx = 1 // `if len == 0 { continue }`: the live slots are on the false edge
							}
							cut.Edges[sx.Edge{From: iff.Block(), Idx: idx}] = true
						}
					}
				}
			})
			return len(cut.Edges) > 0 && sx.MustPass(fn, nil, at, cut)
		}
		keyOK := func(key, j ssa.Value, at ssa.Instruction) (bool, string) {
			key = syms.pairComp(key)
			// form 1: key = X & mask[e], e == j
			if _, e, ok := syms.maskKey(key); ok {
				if syms.maskIsMap(e, j) {
					return true, "key masked with mask[" + sx.ValPath(e) + "], map selected by the index of the same prefix length"
				}
				return false, "key is masked with mask[" + sx.ValPath(e) + "] but the map is selected by [" + sx.ValPath(j) + "]"
			}
			// form 2: key = ipList[i][0], j == ipList[i][1]-1, guarded by ipList[i][1] > 0
			if ip, k, ok := syms.listElem(key); ok && k == 0 {
				if nn, ok := minusOne(stripConv(j)); ok {
					if ip2, k2, ok := syms.listElem(stripConv(nn)); ok && k2 == 1 && ip2 == ip {
						if !lenGuarded(at, ip) {
							return false, "stored prefix length of slot " + ip + " used as an index without a `> 0` test (removed slots hold length 0)"
						}
						return true, "stored key of slot " + ip + " goes to the map of its own stored length (live slots only)"
					}
				}
				return false, "stored key of slot " + ip + " is not paired with its own stored length"
			}
			return false, "key " + sx.ValPath(key) + " is not of the form addr & mask[n-1]"
		}
		sx.Instrs(fn, func(in ssa.Instruction) {
			switch x := in.(type) {
			case *ssa.MapUpdate:
				if j, ok := syms.mapIndex(x.Map); ok {
					n++
					ok2, d := keyOK(x.Key, j, in)
					r.Check(ok2, "C11-R2", fmt.Sprintf("map insert #%d in %s", n, fnName(fn)), p.Pos(in.Pos()), d, d)
					if fn == add {
						if _, _, isNew := syms.maskKey(x.Key); isNew {
							addInserts = append(addInserts, in)
						}
					}
				}
			case *ssa.Lookup:
				if j, ok := syms.mapIndex(x.X); ok {
					n++
					ok2, d := keyOK(x.Index, j, in)
					r.Check(ok2, "C11-R2", fmt.Sprintf("map lookup #%d in %s", n, fnName(fn)), p.Pos(in.Pos()), d, d)
				}
			case *ssa.Call:
				if b, ok := x.Call.Value.(*ssa.Builtin); ok && b.Name() == "delete" {
					if j, ok := syms.mapIndex(x.Call.Args[0]); ok {
						n++
						ok2, d := keyOK(x.Call.Args[1], j, in)
						r.Check(ok2, "C11-R2", fmt.Sprintf("map delete #%d in %s", n, fnName(fn)), p.Pos(in.Pos()), d, d)
					}
				}
			case *ssa.Store:
				// the list as a slice: `f.ipList = append(f.ipList, pair)` fills the next slot and extends the list at once
				if fa, isF := x.Addr.(*ssa.FieldAddr); isF && syms.listIsSlice && sx.FieldOf(fa) == syms.ipList {
					if sx.IsFreshObject(fa.X) {
						return // the constructor's make
					}
					n++
					c := fmt.Sprintf("list append #%d in %s", n, fnName(fn))
					ap, isAp := x.Val.(*ssa.Call)
					if !isAp || !isBuiltin(ap, "append") || !syms.isListBase(ap.Call.Args[0]) {
						r.Fail("C11-R2", c, p.Pos(in.Pos()), "the list is assigned "+sx.ValPath(x.Val)+", not an append to itself")
						return
					}
					elems := appendElems(ap)
					if len(elems) != 1 {
						r.Fail("C11-R2", c, p.Pos(in.Pos()), "cannot identify the single appended entry")
						return
					}
					k0, k1, kind := syms.pairOf(elems[0])
					_, e, isKey := ssa.Value(nil), ssa.Value(nil), false
					if kind == "pair" {
						_, e, isKey = syms.maskKey(k0)
					}
					if isKey && syms.maskIsLen(e, k1) {
						r.OK("C11-R2", c, p.Pos(in.Pos()), "appends (addr & mask[n-1], n)")
						if fn == add {
							addInserts = append(addInserts, in)
						}
					} else {
						r.Fail("C11-R2", c, p.Pos(in.Pos()), "appended entry is not (addr & mask[n-1], n): key is not masked with the mask of the stored length")
					}
					return
				}
				// whole-slot store into ipList[...]
				ia, ok := x.Addr.(*ssa.IndexAddr)
				if !ok || !syms.isListBase(ia.X) {
					// component store f.ipList[i][k] = v / f.ipList[i].field = v
					var outerAddr ssa.Value
					switch a := x.Addr.(type) {
					case *ssa.IndexAddr:
						outerAddr = a.X
					case *ssa.FieldAddr:
						outerAddr = a.X
					}
					if outer, ok2 := outerAddr.(*ssa.IndexAddr); ok2 && syms.isListBase(outer.X) {
						n++
						c, isC := sx.ConstInt(x.Val)
						r.Check(isC && c == 0, "C11-R2", fmt.Sprintf("list component store #%d in %s", n, fnName(fn)), p.Pos(in.Pos()), "zeroing", "component of a list slot assigned separately: key/length pairing cannot be checked")
					}
					return
				}
				n++
				c := fmt.Sprintf("list slot store #%d in %s", n, fnName(fn))
				k0, k1, kind := syms.pairOf(x.Val)
				switch kind {
				case "zero":
					r.OK("C11-R2", c, p.Pos(in.Pos()), "slot reset to the invalid pair (0,0)")
					if fn == remove {
						// a range may sit in several slots (added twice): the reset is repeated for every match, i.e. it lies in a loop
						r.Check(sx.InnermostLoop(fn, in.Block()) != nil, "C11-R6", "Remove clears every slot that holds the range", p.Pos(in.Pos()), "the reset is inside the scan loop", "the slot reset in Remove is not inside a loop: only the first matching slot is cleared, a range added twice survives one Remove")
					}
				case "copy":
					r.OK("C11-R2", c, p.Pos(in.Pos()), "slot copied from another slot (already canonical)")
				case "pair":
					_, e, isKey := syms.maskKey(k0)
					if isKey && syms.maskIsLen(e, k1) {
						r.OK("C11-R2", c, p.Pos(in.Pos()), "stores (addr & mask[n-1], n)")
						if fn == add {
							addInserts = append(addInserts, in)
						}
					} else {
						r.Fail("C11-R2", c, p.Pos(in.Pos()), "stored pair is ("+sx.ValPath(k0)+", "+sx.ValPath(k1)+"): key is not masked with the mask of the stored length")
					}
				default:
					r.Fail("C11-R2", c, p.Pos(in.Pos()), "unrecognised value stored into a list slot: "+sx.ValPath(x.Val))
				}
			case *ssa.BinOp:
				if x.Op != token.EQL && x.Op != token.NEQ {
					return
				}
				// whole-slot comparison `list[i] == pair`: sound when the pair is canonical (key masked with the mask of its own length)
				for _, pr := range [][2]ssa.Value{{x.X, x.Y}, {x.Y, x.X}} {
					if _, isSlot := syms.slotOfVal(pr[0], 0); !isSlot {
						continue
					}
					n++
					c := fmt.Sprintf("slot comparison #%d in %s", n, fnName(fn))
					k0, k1, kind := syms.pairOf(pr[1])
					_, e, isKey := ssa.Value(nil), ssa.Value(nil), false
					if kind == "pair" {
						_, e, isKey = syms.maskKey(k0)
					}
					okPair := false
					if isKey && syms.maskIsLen(e, k1) {
						okPair = true
					}
					r.Check(okPair, "C11-R2", c, p.Pos(in.Pos()), "slot compared with the canonical pair (addr & mask[n-1], n)", "a list slot is compared as a whole with a value that is not (addr & mask[n-1], n)")
					return
				}
				for _, pr := range [][2]ssa.Value{{x.X, x.Y}, {x.Y, x.X}} {
					ip, k, ok := syms.listElem(pr[0])
					if !ok || k != 0 {
						continue
					}
					n++
					c := fmt.Sprintf("stored-key comparison #%d in %s", n, fnName(fn))
					_, e, isKey := syms.maskKey(pr[1])
					if !isKey {
						r.Fail("C11-R2", c, p.Pos(in.Pos()), "stored key compared with "+sx.ValPath(pr[1])+", which is not addr & mask[n-1]")
						continue
					}
					nn, isM1 := syms.lenOf(stripConv(e))
					if !isM1 {
						r.Fail("C11-R2", c, p.Pos(in.Pos()), "mask index "+sx.ValPath(e)+" is not of the form n-1")
						continue
					}
					// (a) n is the slot's own stored length, guarded > 0
					if ip2, k2, ok := syms.listElem(stripConv(nn)); ok && k2 == 1 && ip2 == ip {
						g := lenGuarded(in, ip)
						r.Check(g, "C11-R2", c, p.Pos(in.Pos()), "probe masked with the mask of the slot's own stored length, behind a `> 0` test", "stored length of slot "+ip+" used as mask index without a `> 0` test")
						continue
					}
					// (b) n is the argument's length and the comparison is reached only when n == stored length
					cut := sx.Cut{Edges: map[sx.Edge]bool{}}
					sx.Instrs(fn, func(in2 ssa.Instruction) {
						b2, ok := in2.(*ssa.BinOp)
						if !ok || b2.Op != token.EQL {
							return
						}
						for _, q := range [][2]ssa.Value{{b2.X, b2.Y}, {b2.Y, b2.X}} {
							if ip3, k3, ok := syms.listElem(q[0]); ok && k3 == 1 && ip3 == ip && sx.ValPath(stripConv(q[1])) == sx.ValPath(stripConv(nn)) {
								for _, u := range *b2.Referrers() {
									if iff, ok := u.(*ssa.If); ok {
										cut.Edges[sx.Edge{From: iff.Block(), Idx: 0}] = true
									}
								}
							}
						}
					})
					okb := len(cut.Edges) > 0 && sx.MustPass(fn, nil, in, cut)
					r.Check(okb, "C11-R2", c, p.Pos(in.Pos()), "compared only when the slot's stored length equals the argument's length whose mask was applied", "key comparison uses mask["+sx.ValPath(e)+"] but is not restricted to slots whose stored length is "+sx.ValPath(nn))
				}
			}
		})
	}

	// ---- R3: Add records exactly once
	var flagStores []ssa.Instruction
	sx.Instrs(add, func(in ssa.Instruction) {
		if c, ok := in.(*ssa.Call); ok && sx.CalleeName(c) == "(*sync/atomic.Bool).Store" {
			flagStores = append(flagStores, in)
		}
	})
	ev := map[ssa.Instruction]bool{}
	for _, i := range addInserts {
		ev[i] = true
	}
	for _, i := range flagStores {
		ev[i] = true
	}
	w := sx.Weights{Instr: func(in ssa.Instruction) sx.Range {
		if ev[in] {
			return sx.Range{Min: 1, Max: 1}
		}
		return sx.Range{}
	}}
	res := sx.Count(add, add.Blocks[0], w, nil)
	for i, ret := range sx.Returns(add) {
		rv := returnValue(ret, 0)
		rg, _ := res.Before(ret)
		c := fmt.Sprintf("Add return #%d (%s)", i, sx.ValPath(rv))
		if sx.IsNilConst(rv) {
			r.Check(rg.Is(1), "C11-R3", c, p.Pos(ret.Pos()), "exactly one recording step on every path to this `return nil`", fmt.Sprintf("paths to this `return nil` record the range %d..%d times (3 = more): an accepted Add may be lost or duplicated", rg.Min, rg.Max))
		} else {
			r.Check(rg.Is(0), "C11-R3", c, p.Pos(ret.Pos()), "nothing recorded before an error return", fmt.Sprintf("state recorded %d..%d times on a path that returns an error", rg.Min, rg.Max))
		}
	}
	// list insert is followed by exactly one index++ ; index is written nowhere else in Add
	// (a list kept as a slice has no separate index: the append above is slot store and increment in one)
	for _, fn := range fi.AllFuncs {
		if syms.index == nil {
			break
		}
		for _, ref := range sx.FieldRefs([]*ssa.Function{fn}, syms.index) {
			fa, ok := ref.Instr.(*ssa.FieldAddr)
			if !ok || sx.IsFreshObject(ref.Base) {
				continue
			}
			for _, a := range sx.Accesses(fa) {
				if a.Kind != "write" {
					continue
				}
				c := "write of " + syms.index.Name() + " in " + fnName(fn)
				b, isB := a.Val.(*ssa.BinOp)
				inc := false
				if isB && b.Op == token.ADD {
					if k, ok := sx.ConstInt(b.Y); ok && k == 1 && sx.Origins(b.X)["field:IPv4Filter."+syms.index.Name()] {
						inc = true
					}
				}
				if fn == add && inc {
					// must be reached only after a list-slot insert
					cut := sx.Cut{Instrs: map[ssa.Instruction]bool{}}
					for _, i := range addInserts {
						if _, isSt := i.(*ssa.Store); isSt {
							cut.Instrs[i] = true
						}
					}
					r.Check(len(cut.Instrs) > 0 && sx.MustPass(fn, nil, a.Instr, cut), "C11-R3", c, p.Pos(a.Instr.Pos()), "index++ only after a slot was filled", "index incremented on a path that did not fill a list slot")
				} else if fn == remove {
					// compaction: handled by R6
					r.OK("C11-R3", c, p.Pos(a.Instr.Pos()), "list compaction in Remove (slot re-examination checked by C11-R6)")
				} else {
					r.Fail("C11-R3", c, p.Pos(a.Instr.Pos()), "list length modified outside the insert step")
				}
			}
		}
	}
	for _, i := range addInserts {
		st, ok := i.(*ssa.Store)
		if !ok || syms.index == nil {
			continue
		}
		// every return after the slot store passes an index++
		cut := sx.Cut{Instrs: map[ssa.Instruction]bool{}}
		sx.Instrs(add, func(in ssa.Instruction) {
			if s2, ok := in.(*ssa.Store); ok {
				if fa, ok := s2.Addr.(*ssa.FieldAddr); ok && sx.FieldOf(fa) == syms.index {
					cut.Instrs[in] = true
				}
			}
		})
		okAll := len(cut.Instrs) > 0
		for _, ret := range sx.Returns(add) {
			if sx.ReachInstr(add, st, ret, cut) {
				okAll = false
			}
		}
		r.Check(okAll, "C11-R3", "list insert is followed by index++", p.Pos(st.Pos()), "every path from the slot store to a return increments the list length", "a path from the slot store returns without incrementing the list length: the slot would be overwritten by the next Add")
		// …and nothing reads the list length in between: a scan (the migration) started before the increment misses the slot just filled
		stale := ""
		sx.Instrs(add, func(in ssa.Instruction) {
			ld, ok := in.(*ssa.UnOp)
			if !ok || ld.Op != token.MUL {
				return
			}
			fa, ok := ld.X.(*ssa.FieldAddr)
			if !ok || sx.FieldOf(fa) != syms.index {
				return
			}
			// the load that feeds the increment itself is not a use of the length
			onlyInc := ld.Referrers() != nil && len(*ld.Referrers()) > 0
			for _, u := range *ld.Referrers() {
				b, isB := u.(*ssa.BinOp)
				if !isB || b.Op != token.ADD || b.Referrers() == nil {
					onlyInc = false
					continue
				}
				for _, uu := range *b.Referrers() {
					if s2, isSt := uu.(*ssa.Store); !isSt || !cut.Instrs[s2] {
						onlyInc = false
					}
				}
			}
			if onlyInc {
				return
			}
			if sx.ReachInstr(add, st, in, cut) {
				stale = "the list length is read at " + p.Pos(in.Pos()) + " after the slot store at " + p.Pos(st.Pos()) + " but before it was incremented: a scan bounded by it (the migration to maps) misses the entry just stored"
			}
		})
		r.Check(stale == "", "C11-R3", "the list length is not read between a slot store and its increment", p.Pos(st.Pos()), "no use of the length on a path from the slot store to the increment", stale)
	}
	// mode is one-way
	var modeVals []string
	ctorVal := ""
	for _, ref := range sx.FieldRefs(fi.AllFuncs, syms.mode) {
		fa, ok := ref.Instr.(*ssa.FieldAddr)
		if !ok {
			continue
		}
		for _, a := range sx.Accesses(fa) {
			if a.Kind != "write" {
				continue
			}
			if sx.IsFreshObject(ref.Base) {
				ctorVal = sx.ValPath(a.Val)
				continue
			}
			modeVals = append(modeVals, sx.ValPath(a.Val)+"@"+fnName(ref.Fn))
		}
	}
	oneWay := true
	for _, mv := range modeVals {
		if strings.HasPrefix(mv, ctorVal+"@") || !strings.HasSuffix(mv, ".Add") {
			oneWay = false
		}
	}
	r.Check(oneWay && len(modeVals) > 0, "C11-R3", "mode switch is one-way", p.FuncPos(add), "mode is only ever switched away from the constructor's value ("+ctorVal+"), in Add", "mode is assigned "+strings.Join(modeVals, ",")+" (constructor value "+ctorVal+")")

	// ---- R4: validation before mutation
	for _, fn := range []*ssa.Function{add, remove} {
		checkValidation(p, r, fi, syms, fn)
	}

	// ---- R5: To4 normalisation in Contains
	{
		var conv []*ssa.Call
		sx.Instrs(contains, func(in ssa.Instruction) {
			if c, ok := in.(*ssa.Call); ok && strings.HasSuffix(sx.CalleeName(c), ".Uint32") && strings.Contains(sx.CalleeName(c), "encoding/binary") {
				conv = append(conv, c)
			} else if ok && isBigEndian32(sx.StaticCallee(c)) {
				conv = append(conv, c) // a helper of the package that spells the same conversion out
			}
		})
		// the conversion spelled out in place (a private helper seen in the view): b[0]<<24 | b[1]<<16 | b[2]<<8 | b[3]
		var inlineBases []ssa.Value
		if len(conv) == 0 {
			sx.Instrs(contains, func(in ssa.Instruction) {
				b, ok := in.(*ssa.BinOp)
				if !ok || (b.Op != token.OR && b.Op != token.ADD) {
					return
				}
				if base, ok := bigEndianTree(b); ok {
					inlineBases = append(inlineBases, base)
				}
			})
		}
		if len(conv) == 0 && len(inlineBases) == 0 {
			r.Fail("C11-R5", "Contains: address bytes converted", p.FuncPos(contains), "no binary.BigEndian.Uint32 conversion found")
		}
		for _, base := range inlineBases {
			org := sx.Origins(base)
			r.Check(org["call:(net.IP).To4"] && !org["param:ip"], "C11-R5", "Contains: bytes read derive from To4()", p.FuncPos(contains), "the 4 bytes combined come from ip.To4()", "the bytes combined derive from "+keys(org)+": a 16-byte IPv4 address would be misread or rejected")
		}
		for _, c := range conv {
			arg := c.Call.Args[len(c.Call.Args)-1]
			org := sx.Origins(arg)
			r.Check(org["call:(net.IP).To4"] && !org["param:ip"], "C11-R5", "Contains: bytes read derive from To4()", p.Pos(c.Pos()), "the 4 bytes converted come from ip.To4()", "the bytes converted derive from "+keys(org)+": a 16-byte IPv4 address would be misread or rejected")
		}
		// no rejection based on len(raw parameter)
		bad := ""
		sx.Instrs(contains, func(in ssa.Instruction) {
			c, ok := in.(*ssa.Call)
			if !ok {
				return
			}
			if b, ok := c.Call.Value.(*ssa.Builtin); ok && b.Name() == "len" {
				org := sx.Origins(c.Call.Args[0])
				if org["param:"+contains.Params[1].Name()] && !org["call:(net.IP).To4"] {
					bad = "len() of the un-normalised argument is tested at " + p.Pos(in.Pos())
				}
			}
		})
		r.Check(bad == "", "C11-R5", "Contains: no length test on the raw argument", p.FuncPos(contains), "only the normalised address is inspected", bad)
	}

	// ---- R7: the maps-mode scan of Contains covers every prefix length
	{
		nLoops := 0
		for _, hdr := range sx.LoopHeaders(contains) {
			body := sx.LoopBody(hdr)
			usesMaps := false
			var idx *ssa.Phi
			for b := range body {
				for _, in := range b.Instrs {
					if lk, ok := in.(*ssa.Lookup); ok {
						if j, ok := syms.mapIndex(lk.X); ok {
							usesMaps = true
							if ph, ok := sx.Unspill(j).(*ssa.Phi); ok {
								idx = ph
							} else if b, ok := j.(*ssa.BinOp); ok {
								if ph, ok := b.X.(*ssa.Phi); ok {
									idx = ph
								}
							}
						}
					}
				}
			}
			if !usesMaps {
				continue
			}
			nLoops++
			ok, why := false, "cannot determine the range of the scan over the per-length maps"
			if idx != nil && idx.Block() == hdr {
				var init, step int64
				haveInit, haveStep := false, false
				for _, e := range idx.Edges {
					if k, isC := sx.ConstInt(e); isC {
						init, haveInit = k, true
					}
					if b, isB := e.(*ssa.BinOp); isB && b.X == ssa.Value(idx) {
						if k, isC := sx.ConstInt(b.Y); isC {
							if b.Op == token.ADD {
								step, haveStep = k, true
							} else if b.Op == token.SUB {
								step, haveStep = -k, true
							}
						}
					}
				}
				// go/ssa rotates `range` loops: phi starts at -1 and the incremented value is tested and used
				if iff, isIf := hdr.Instrs[len(hdr.Instrs)-1].(*ssa.If); isIf && haveInit && haveStep {
					if c, isB := iff.Cond.(*ssa.BinOp); isB {
						bound, isC := sx.ConstInt(c.Y)
						if !isC {
							// len(arr[:]) of a fixed-size array
							if lc, ok := c.Y.(*ssa.Call); ok && isBuiltin(lc, "len") {
								if sl, ok := lc.Call.Args[0].(*ssa.Slice); ok && sl.Low == nil && sl.High == nil {
									if pt, ok := sl.X.Type().Underlying().(*types.Pointer); ok {
										if at, ok := pt.Elem().Underlying().(*types.Array); ok {
											bound, isC = at.Len(), true
										}
									}
								}
							}
						}
						tested := c.X
						first := init
						if b, isB := tested.(*ssa.BinOp); isB && b.X == ssa.Value(idx) {
							first = init + step // rotated loop tests i+1
						}
						if isC {
							switch {
							case step == 1 && first == 0 && c.Op == token.LSS && bound == 32:
								ok = true
							case step == 1 && first == 0 && c.Op == token.LEQ && bound == 31:
								ok = true
							case step == -1 && first == 31 && c.Op == token.GEQ && bound == 0:
								ok = true
							case step == -1 && first == 31 && c.Op == token.GTR && bound == -1:
								ok = true
							default:
								why = fmt.Sprintf("the scan runs from %d in steps of %d while index %s %d: not every one of the 32 per-length maps is consulted", first, step, c.Op, bound)
							}
						}
					}
				}
			}
			r.Check(ok, "C11-R7", "Contains: the maps-mode scan consults all 32 per-length maps", p.Pos(hdr.Instrs[0].Pos()), "index runs over 0..31", why)
		}
		if nLoops == 0 {
			r.Fail("C11-R7", "Contains: the maps-mode scan consults all 32 per-length maps", p.FuncPos(contains), "no loop over the per-length maps found in Contains")
		}
	}

	// ---- R3 (cont.): an insert into a per-length map never meets a nil map — either every element of the array is only
	// ever assigned a fresh map (and the switch creates them all), or the function that inserts tests the map for nil
	{
		mapsKey := "field:IPv4Filter." + syms.ipMaps.Name()
		var nonFresh []string
		nStores := 0
		for _, fn := range fi.AllFuncs {
			sx.Instrs(fn, func(in ssa.Instruction) {
				st, ok := in.(*ssa.Store)
				if !ok {
					return
				}
				ia, ok := st.Addr.(*ssa.IndexAddr)
				if !ok {
					return
				}
				isMaps := sx.Origins(ia.X)[mapsKey]
				if fa, ok := ia.X.(*ssa.FieldAddr); ok && sx.FieldOf(fa) == syms.ipMaps {
					isMaps = true
				}
				if !isMaps {
					return
				}
				if _, isMap := st.Val.Type().Underlying().(*types.Map); !isMap {
					return
				}
				nStores++
				if _, isMake := sx.Unspill(st.Val).(*ssa.MakeMap); !isMake {
					nonFresh = append(nonFresh, short(sx.ValPath(st.Val))+" at "+p.Pos(in.Pos()))
				}
			})
		}
		var bad []string
		for _, fn := range fi.AllFuncs {
			hasNilTest := false
			sx.Instrs(fn, func(in ssa.Instruction) {
				if b, ok := in.(*ssa.BinOp); ok && (b.Op == token.EQL || b.Op == token.NEQ) {
					for _, pr := range [][2]ssa.Value{{b.X, b.Y}, {b.Y, b.X}} {
						if !sx.IsNilConst(pr[1]) {
							continue
						}
						if _, isElem := syms.mapIndex(pr[0]); isElem || sx.Origins(pr[0])[mapsKey] {
							hasNilTest = true
						}
					}
				}
			})
			sx.Instrs(fn, func(in ssa.Instruction) {
				mu, ok := in.(*ssa.MapUpdate)
				if !ok {
					return
				}
				if _, isElem := syms.mapIndex(mu.Map); !isElem && !sx.Origins(mu.Map)[mapsKey] {
					return
				}
				if _, isMake := sx.Unspill(mu.Map).(*ssa.MakeMap); isMake {
					return
				}
				if len(nonFresh) > 0 && !hasNilTest {
					bad = append(bad, "insert at "+p.Pos(in.Pos())+" in "+fnName(fn))
				}
			})
		}
		// all maps exist once the switch happened — some loop creates one for every element on each of its iterations —
		// or each insert is itself behind a nil test / a creation of that very element
		allMade := false
		for _, fn := range fi.AllFuncs {
			sx.Instrs(fn, func(in ssa.Instruction) {
				st, ok := in.(*ssa.Store)
				if !ok {
					return
				}
				if _, isMake := sx.Unspill(st.Val).(*ssa.MakeMap); !isMake {
					return
				}
				ia, ok := st.Addr.(*ssa.IndexAddr)
				if !ok {
					return
				}
				if fa, ok := ia.X.(*ssa.FieldAddr); !ok || sx.FieldOf(fa) != syms.ipMaps {
					// …or a local array of the same type, filled completely and then assigned to the field as a whole
					al, isLocal := ia.X.(*ssa.Alloc)
					if !isLocal || !types.Identical(ptrTo(al.Type()), syms.ipMaps.Type()) {
						return
					}
				}
				h := sx.InnermostLoop(fn, in.Block())
				if h == nil || len(h.Instrs) == 0 {
					return
				}
				every := true
				for be := range sx.BackEdgesTo(h) {
					if len(be.From.Instrs) == 0 {
						continue
					}
					term := be.From.Instrs[len(be.From.Instrs)-1]
					if term != in && sx.ReachInstr(fn, h.Instrs[0], term, sx.Cut{Instrs: map[ssa.Instruction]bool{in: true}}) {
						every = false
					}
				}
				if every {
					allMade = true
				}
			})
		}
		if !allMade {
			for _, fn := range fi.AllFuncs {
				sx.Instrs(fn, func(in ssa.Instruction) {
					mu, ok := in.(*ssa.MapUpdate)
					if !ok {
						return
					}
					j, isElem := syms.mapIndex(mu.Map)
					if !isElem {
						return
					}
					jb, jk := affine(j)
					guard := sx.Cut{Edges: map[sx.Edge]bool{}, Instrs: map[ssa.Instruction]bool{}}
					sx.Instrs(fn, func(i2 ssa.Instruction) {
						switch x := i2.(type) {
						case *ssa.BinOp:
							if x.Op != token.EQL && x.Op != token.NEQ {
								return
							}
							for _, pr := range [][2]ssa.Value{{x.X, x.Y}, {x.Y, x.X}} {
								if !sx.IsNilConst(pr[1]) {
									continue
								}
								if j2, ok := syms.mapIndex(pr[0]); ok {
									if b2, k2 := affine(j2); b2 == jb && k2 == jk {
										_, nonNil := sx.NilEdges(pr[0])
										for e := range nonNil {
											guard.Edges[e] = true
										}
									}
								}
							}
						case *ssa.Store:
							if _, isMake := sx.Unspill(x.Val).(*ssa.MakeMap); !isMake {
								return
							}
							if ia, ok := x.Addr.(*ssa.IndexAddr); ok {
								if fa, ok := ia.X.(*ssa.FieldAddr); ok && sx.FieldOf(fa) == syms.ipMaps {
									if b2, k2 := affine(ia.Index); b2 == jb && k2 == jk {
										guard.Instrs[i2] = true
									}
								}
							}
						}
					})
					if (len(guard.Edges) == 0 && len(guard.Instrs) == 0) || !sx.MustPass(fn, nil, in, guard) {
						bad = append(bad, "insert at "+p.Pos(in.Pos())+" in "+fnName(fn)+" (the maps are created on demand, but this insert is not behind a nil test or a creation of its own map)")
						nonFresh = append(nonFresh, "nil: no loop creates a map for every element")
					}
				})
			}
		}
		r.Check(len(bad) == 0, "C11-R3", "map inserts never meet a nil map", "-", fmt.Sprintf("%d assignment(s) of the per-length maps, all fresh maps (or the inserting function tests for nil)", nStores), "an element of the per-length map array can be "+strings.Join(uniq(nonFresh), ", ")+" but "+strings.Join(uniq(bad), ", ")+" assigns into it without a nil test: Add panics (assignment to entry in nil map) while holding the write lock")
	}

	// ---- R6: slot copy re-examination in Remove
	{
		found := 0
		bad := ""
		sx.Instrs(remove, func(in ssa.Instruction) {
			st, ok := in.(*ssa.Store)
			if !ok {
				return
			}
			ia, ok := st.Addr.(*ssa.IndexAddr)
			if !ok {
				return
			}
			if !syms.isListBase(ia.X) {
				return
			}
			if _, _, kind := syms.pairOf(st.Val); kind != "copy" {
				return
			}
			found++
			phi, ok := ia.Index.(*ssa.Phi)
			if !ok {
				bad = "slot copy at " + p.Pos(in.Pos()) + " targets a slot that is not the scan position"
				return
			}
			hdr := phi.Block()
			for k, pred := range hdr.Preds {
				if !hdr.Dominates(pred) {
					continue
				}
				// can the store reach this back edge?
				term := pred.Instrs[len(pred.Instrs)-1]
				if (st.Block() == pred || sx.ReachInstr(remove, st, term, sx.Cut{Blocks: map[*ssa.BasicBlock]bool{hdr: true}})) && phi.Edges[k] != ssa.Value(phi) {
					bad = "after copying another entry into the scanned slot at " + p.Pos(in.Pos()) + " the scan advances (" + sx.ValPath(phi.Edges[k]) + "): the copied entry is never compared, a duplicate of the removed range survives"
				}
			}
		})
		r.Check(bad == "", "C11-R6", "Remove: copied slots are re-examined", p.FuncPos(remove), fmt.Sprintf("%d slot copies in the removal scan, each re-examined", found), bad)
		// no early exit from the removal scan
		early := ""
		for _, hdr := range sx.LoopHeaders(remove) {
			for _, b := range remove.Blocks {
				if !hdr.Dominates(b) || b == hdr {
					continue
				}
				for _, s := range b.Succs {
					if !hdr.Dominates(s) || (len(s.Instrs) > 0 && isReturnBlock(s) && s != hdr && !reaches(s, hdr)) {
						_ = s
					}
				}
			}
		}
		_ = early
	}
}

// bigEndianTree: v is x[0]<<24 | x[1]<<16 | x[2]<<8 | x[3] (as uint32, any association of | or +) for one slice x.
func bigEndianTree(v ssa.Value) (ssa.Value, bool) {
	seen := map[int64]int64{}
	var base ssa.Value
	var walk func(v ssa.Value, shift int64) bool
	walk = func(v ssa.Value, shift int64) bool {
		switch x := v.(type) {
		case *ssa.BinOp:
			switch x.Op {
			case token.OR, token.ADD:
				return walk(x.X, shift) && walk(x.Y, shift)
			case token.SHL:
				k, ok := sx.ConstInt(x.Y)
				return ok && walk(x.X, shift+k)
			}
			return false
		case *ssa.Convert:
			return walk(x.X, shift)
		case *ssa.UnOp:
			if x.Op != token.MUL {
				return false
			}
			ia, ok := x.X.(*ssa.IndexAddr)
			if !ok {
				return false
			}
			if base == nil {
				base = ia.X
			} else if ia.X != base {
				return false
			}
			k, ok := sx.ConstInt(ia.Index)
			if !ok {
				return false
			}
			if _, dup := seen[k]; dup {
				return false
			}
			seen[k] = shift
			return true
		}
		return false
	}
	if !walk(v, 0) {
		return nil, false
	}
	if len(seen) == 4 && seen[0] == 24 && seen[1] == 16 && seen[2] == 8 && seen[3] == 0 {
		return base, true
	}
	return nil, false
}

// isBigEndian32: fn(b) returns uint32(b[0])<<24 | uint32(b[1])<<16 | uint32(b[2])<<8 | uint32(b[3]) — the four bytes of
// its one byte-slice parameter in network order, each exactly once (| or +, any association).
func isBigEndian32(fn *ssa.Function) bool {
	if fn == nil || fn.Blocks == nil || len(fn.Params) != 1 || len(fn.Blocks) == 0 {
		return false
	}
	rets := sx.Returns(fn)
	if len(rets) != 1 || len(rets[0].Results) != 1 {
		return false
	}
	seen := map[int64]int64{} // byte index → shift
	var walk func(v ssa.Value, shift int64) bool
	walk = func(v ssa.Value, shift int64) bool {
		switch x := v.(type) {
		case *ssa.BinOp:
			switch x.Op {
			case token.OR, token.ADD, token.XOR:
				return walk(x.X, shift) && walk(x.Y, shift)
			case token.SHL:
				k, ok := sx.ConstInt(x.Y)
				return ok && walk(x.X, shift+k)
			}
			return false
		case *ssa.Convert:
			return walk(x.X, shift)
		case *ssa.UnOp:
			if x.Op != token.MUL {
				return false
			}
			ia, ok := x.X.(*ssa.IndexAddr)
			if !ok || sx.Unspill(ia.X) != ssa.Value(fn.Params[0]) {
				return false
			}
			k, ok := sx.ConstInt(ia.Index)
			if !ok {
				return false
			}
			if _, dup := seen[k]; dup {
				return false
			}
			seen[k] = shift
			return true
		}
		return false
	}
	if !walk(rets[0].Results[0], 0) {
		return false
	}
	return len(seen) == 4 && seen[0] == 24 && seen[1] == 16 && seen[2] == 8 && seen[3] == 0
}

func isReturnBlock(b *ssa.BasicBlock) bool {
	_, ok := b.Instrs[len(b.Instrs)-1].(*ssa.Return)
	return ok
}

func reaches(from, to *ssa.BasicBlock) bool {
	seen := map[*ssa.BasicBlock]bool{}
	var w func(b *ssa.BasicBlock) bool
	w = func(b *ssa.BasicBlock) bool {
		if b == to {
			return true
		}
		if seen[b] {
			return false
		}
		seen[b] = true
		for _, s := range b.Succs {
			if w(s) {
				return true
			}
		}
		return false
	}
	return w(from)
}

// pairComp: a component read back from a local pair variable built in this function is the value stored there.
func (s *filterSyms) pairComp(v ssa.Value) ssa.Value {
	ld, ok := v.(*ssa.UnOp)
	if !ok || ld.Op != token.MUL {
		return v
	}
	var base ssa.Value
	var k int64
	switch a := ld.X.(type) {
	case *ssa.IndexAddr:
		kk, isC := sx.ConstInt(a.Index)
		if !isC {
			return v
		}
		base, k = a.X, kk
	case *ssa.FieldAddr:
		base, k = a.X, int64(a.Field)
	default:
		return v
	}
	al, ok := base.(*ssa.Alloc)
	if !ok || k < 0 || k > 1 {
		return v
	}
	// the whole-variable load that pairOf classifies
	k0, k1, kind := s.pairOf(&ssa.UnOp{Op: token.MUL, X: al})
	if kind != "pair" {
		return v
	}
	if k == 0 {
		return k0
	}
	return k1
}

// pairOf classifies a slot value (a [2]uint32 or a two-field struct) stored into a list slot or compared with one.
func (s *filterSyms) pairOf(v ssa.Value) (k0, k1 ssa.Value, kind string) {
	if c, ok := v.(*ssa.Const); ok && c.Value == nil {
		return nil, nil, "zero"
	}
	ld, ok := v.(*ssa.UnOp)
	if !ok || ld.Op != token.MUL {
		return nil, nil, "?"
	}
	if _, isSlot := s.slotOfAddr(ld.X, 0); isSlot {
		return nil, nil, "copy"
	}
	if a, ok := ld.X.(*ssa.Alloc); ok {
		var e [2]ssa.Value
		for _, u := range *a.Referrers() {
			var k int64
			var addr ssa.Value
			switch ia := u.(type) {
			case *ssa.IndexAddr:
				kk, isC := sx.ConstInt(ia.Index)
				if !isC {
					return nil, nil, "?"
				}
				k, addr = kk, ia
			case *ssa.FieldAddr:
				k, addr = int64(ia.Field), ia
			case *ssa.Store:
				if ia.Addr == ssa.Value(a) {
					return nil, nil, "?" // assigned as a whole from something else
				}
				continue
			default:
				continue
			}
			if k < 0 || k > 1 {
				return nil, nil, "?"
			}
			for _, uu := range *addr.Referrers() {
				if st, ok := uu.(*ssa.Store); ok && st.Addr == addr {
					if e[k] != nil {
						return nil, nil, "?"
					}
					e[k] = st.Val
				}
			}
		}
		z0, z1 := e[0] == nil, e[1] == nil
		if c, ok := sx.ConstInt(orZero(e[0])); ok && c == 0 {
			z0 = true
		}
		if c, ok := sx.ConstInt(orZero(e[1])); ok && c == 0 {
			z1 = true
		}
		if z0 && z1 {
			return nil, nil, "zero"
		}
		if e[0] == nil || e[1] == nil {
			return e[0], e[1], "?"
		}
		return e[0], e[1], "pair"
	}
	return nil, nil, "?"
}

func orZero(v ssa.Value) ssa.Value {
	if v == nil {
		return ssa.NewConst(constant.MakeInt64(0), types.Typ[types.Int])
	}
	return v
}

// checkValidation: every state change in fn is reachable only through the
// "valid" edges of (bits == 32) and (len(cidr.IP) == 4); uses of the prefix
// length as an index are reachable only after the length==0 case branched off.
func checkValidation(p *core.Prog, r *core.Report, fi *filterInfo, syms *filterSyms, fn *ssa.Function) {
	var sizeCall *ssa.Call
	sx.Instrs(fn, func(in ssa.Instruction) {
		if c, ok := in.(*ssa.Call); ok && sx.CalleeName(c) == "(net.IPMask).Size" {
			sizeCall = c
		}
	})
	name := fnName(fn)
	if sizeCall == nil {
		r.Fail("C11-R4", name+": mask width is read", p.FuncPos(fn), "no call of (net.IPMask).Size found")
		return
	}
	var ones, bits ssa.Value
	for _, u := range *sizeCall.Referrers() {
		if e, ok := u.(*ssa.Extract); ok {
			if e.Index == 0 {
				ones = e
			} else {
				bits = e
			}
		}
	}
	validEdges := func(match func(b *ssa.BinOp) (isTest bool, validWhenTrue bool)) map[sx.Edge]bool {
		out := map[sx.Edge]bool{}
		sx.Instrs(fn, func(in ssa.Instruction) {
			b, ok := in.(*ssa.BinOp)
			if !ok {
				return
			}
			is, vt := match(b)
			if !is {
				return
			}
			for _, u := range *b.Referrers() {
				if iff, ok := u.(*ssa.If); ok {
					idx := 1
					if vt {
						idx = 0
					}
					out[sx.Edge{From: iff.Block(), Idx: idx}] = true
				}
			}
		})
		return out
	}
	bitsEdges := validEdges(func(b *ssa.BinOp) (bool, bool) {
		if bits == nil || b.X != bits {
			return false, false
		}
		if c, ok := sx.ConstInt(b.Y); ok && c == 32 {
			return b.Op == token.NEQ || b.Op == token.EQL, b.Op == token.EQL
		}
		return false, false
	})
	lenEdges := validEdges(func(b *ssa.BinOp) (bool, bool) {
		c, ok := b.X.(*ssa.Call)
		if !ok {
			return false, false
		}
		if bi, ok := c.Call.Value.(*ssa.Builtin); !ok || bi.Name() != "len" {
			return false, false
		}
		if !sx.Origins(c.Call.Args[0])["field:IPNet.IP"] {
			return false, false
		}
		if k, ok := sx.ConstInt(b.Y); ok && k == 4 {
			return b.Op == token.NEQ || b.Op == token.EQL, b.Op == token.EQL
		}
		return false, false
	})
	nonZeroEdges := validEdges(func(b *ssa.BinOp) (bool, bool) {
		if ones == nil || b.X != ones {
			return false, false
		}
		if c, ok := sx.ConstInt(b.Y); ok && c == 0 {
			switch b.Op {
			case token.EQL:
				return true, false
			case token.NEQ, token.GTR:
				return true, true
			}
		}
		return false, false
	})
	// state changes
	var changes []ssa.Instruction
	sx.Instrs(fn, func(in ssa.Instruction) {
		switch x := in.(type) {
		case *ssa.Call:
			if strings.HasPrefix(sx.CalleeName(x), "(*sync/atomic.") && strings.HasSuffix(sx.CalleeName(x), ".Store") {
				changes = append(changes, in)
			}
			if b, ok := x.Call.Value.(*ssa.Builtin); ok && b.Name() == "delete" {
				changes = append(changes, in)
			}
			if sx.CalleeName(x) == "(*sync.RWMutex).Lock" {
				changes = append(changes, in) // everything under the lock
			}
		case *ssa.MapUpdate:
			changes = append(changes, in)
		}
	})
	okBits, okLen := len(bitsEdges) > 0, len(lenEdges) > 0
	for _, ch := range changes {
		if !sx.MustPass(fn, nil, ch, sx.Cut{Edges: bitsEdges}) {
			okBits = false
		}
		if !sx.MustPass(fn, nil, ch, sx.Cut{Edges: lenEdges}) {
			okLen = false
		}
	}
	r.Check(okBits, "C11-R4", name+": no state change before the mask-width test", p.FuncPos(fn), fmt.Sprintf("%d state-changing steps, all behind bits == 32", len(changes)), "a state change (atomic store / locked update) is reachable without passing the `bits == 32` test: an IPv6 or non-canonical mask would modify the filter")
	r.Check(okLen, "C11-R4", name+": no state change before the address-length test", p.FuncPos(fn), "all state changes behind len(IP) == 4", "a state change is reachable without passing the `len(cidr.IP) == 4` test")
	// the /0 case toggles only the match-all flag: every locked update lies behind the `ones != 0` edge
	okZero, nLock := true, 0
	sx.Instrs(fn, func(in ssa.Instruction) {
		if c, ok := in.(*ssa.Call); ok && (sx.CalleeName(c) == "(*sync.RWMutex).Lock" || sx.CalleeName(c) == "(*sync.Mutex).Lock") {
			nLock++
			if len(nonZeroEdges) == 0 || !sx.MustPass(fn, nil, in, sx.Cut{Edges: nonZeroEdges}) {
				okZero = false
			}
		}
	})
	r.Check(okZero, "C11-R4", name+": the /0 case changes nothing but the match-all flag", p.FuncPos(fn), fmt.Sprintf("%d locked update(s), all behind ones != 0", nLock), "the list/maps are modified on the path that handles 0.0.0.0/0: toggling match-all would add, drop or reset specific ranges")
	// index uses of ones-1
	okIdx := true
	nIdx := 0
	sx.Instrs(fn, func(in ssa.Instruction) {
		b, ok := in.(*ssa.BinOp)
		if !ok || b.Op != token.SUB || b.X != ones {
			return
		}
		nIdx++
		if !sx.MustPass(fn, nil, in, sx.Cut{Edges: nonZeroEdges}) {
			okIdx = false
		}
	})
	r.Check(okIdx && len(nonZeroEdges) > 0, "C11-R4", name+": prefix length used as index only when non-zero", p.FuncPos(fn), fmt.Sprintf("%d uses of ones-1, all after the /0 case branched off", nIdx), "ones-1 is computed on a path where ones may be 0 (index -1)")
	_ = fi
	_ = syms
}
