package props

import (
	"fmt"
	"go/ast"
	"go/token"
	"go/types"
	"strings"

	"golang.org/x/tools/go/ssa"

	"glbverif/checker/core"
	"glbverif/checker/sx"
	"glbverif/checker/zones"
)

type zoneTarget struct {
	Fn     *ssa.Function
	Assume []zones.Assumption
}

// fieldStores: fields a module function may store to (transitively through static and VTA-resolved calls).
var fieldStoreCache = map[*ssa.Function]map[*types.Var]bool{}

func mayStoreFields(p *core.Prog, fn *ssa.Function, depth int) (map[*types.Var]bool, bool) {
	if m, ok := fieldStoreCache[fn]; ok {
		return m, m == nil
	}
	out := map[*types.Var]bool{}
	fieldStoreCache[fn] = out
	unknown := false
	if fn.Blocks == nil {
		// no source: standard library code cannot name the module's struct fields; reflection-based writers are listed
		switch sx.FuncName(fn) {
		case "encoding/json.Unmarshal", "(*encoding/json.Decoder).Decode":
			fieldStoreCache[fn] = nil
			return nil, true
		}
		return out, false
	}
	sx.Instrs(fn, func(in ssa.Instruction) {
		switch x := in.(type) {
		case *ssa.Store:
			if fa, ok := x.Addr.(*ssa.FieldAddr); ok {
				if f := sx.FieldOf(fa); f != nil {
					out[f] = true
				}
			}
		case ssa.CallInstruction:
			if depth > 8 {
				unknown = true
				return
			}
			if _, isB := x.Common().Value.(*ssa.Builtin); isB {
				return
			}
			callees := p.Callees(x)
			if len(callees) == 0 && !x.Common().IsInvoke() && sx.StaticCallee(x) == nil {
				// dynamic call of a function value: VTA found no target
				unknown = true
				return
			}
			for _, c := range callees {
				m, all := mayStoreFields(p, c, depth+1)
				if all {
					unknown = true
				}
				for f := range m {
					out[f] = true
				}
			}
		}
	})
	if unknown {
		fieldStoreCache[fn] = nil
		return nil, true
	}
	return out, false
}

// sourceExpr renders the index/slice expression at an SSA instruction from the syntax tree.
func sourceExpr(p *core.Prog, fn *ssa.Function, in ssa.Instruction) string {
	root := rootFn(fn)
	syn := root.Syntax()
	if syn == nil {
		return in.String()
	}
	pos := in.Pos()
	found := ""
	ast.Inspect(syn, func(n ast.Node) bool {
		switch x := n.(type) {
		case *ast.IndexExpr:
			if x.Lbrack == pos {
				found = types.ExprString(x)
			}
		case *ast.SliceExpr:
			if x.Lbrack == pos {
				found = types.ExprString(x)
			}
		}
		return found == ""
	})
	if found == "" {
		// range loops and compiler-generated indexing have no bracket position
		return strings.TrimSpace(in.String())
	}
	return found
}

// runZones proves every index/slice expression of the target functions in bounds.
func runZones(p *core.Prog, r *core.Report, rule string, targets []zoneTarget) {
	totalVars, totalNodes := 0, 0
	for _, tg := range targets {
		if tg.Fn == nil {
			r.Fail(rule, "zone target", "-", "function not found")
			continue
		}
		for _, fn := range sx.WithClosures(tg.Fn) {
			a := zones.New(fn)
			a.Assume = tg.Assume
			cur := fn
			a.MayStore = func(call ssa.CallInstruction) (map[*types.Var]bool, bool) {
				if _, isB := call.Common().Value.(*ssa.Builtin); isB {
					return nil, false
				}
				callees := p.Callees(call)
				{
					// a standard-library function that is handed only plain values (strings, numbers, byte slices) cannot
					// reach the module's objects: strconv.ParseBool(s), utf8.RuneLen(r), …
					if sc := sx.StaticCallee(call); sc != nil && !p.InModule(sc) && sc.Signature.Recv() == nil {
						plain := true
						for _, a := range call.Common().Args {
							switch t := a.Type().Underlying().(type) {
							case *types.Basic:
							case *types.Slice:
								if _, isB := t.Elem().Underlying().(*types.Basic); !isB {
									plain = false
								}
							default:
								plain = false
							}
						}
						if plain {
							return nil, false
						}
					}
				}
				if len(callees) == 0 {
					// unknown code (a user's handler): it can write exported fields through the pointers it
					// receives, and can call any module function except re-entering the analysed function on
					// the same (exclusively owned) object
					return unknownCalleeStores(p, cur), false
				}
				out := map[*types.Var]bool{}
				for _, c := range callees {
					m, all := mayStoreFields(p, c, 0)
					if all {
						return unknownCalleeStores(p, cur), false
					}
					for f := range m {
						out[f] = true
					}
				}
				return out, false
			}
			obls := a.Run()
			totalVars += a.Stats.Vars
			totalNodes += a.Stats.Nodes
			seen := map[string]int{}
			for _, o := range obls {
				expr := sourceExpr(p, fn, o.Instr)
				seen[expr]++
				c := fmt.Sprintf("%s: %s %s", fnName(fn), o.What, expr)
				if seen[expr] > 1 {
					c += fmt.Sprintf(" #%d", seen[expr])
				}
				if o.Proved {
					r.OK(rule, c, p.Pos(o.Instr.Pos()), fmt.Sprintf("in bounds in all %d abstract states (zones, first-iteration partitioning)", o.Nodes))
				} else {
					r.Fail(rule, c, p.Pos(o.Instr.Pos()), "cannot be proved in bounds for every input: "+o.Witness)
				}
			}
			if len(obls) == 0 {
				r.Note("%s: no index or slice expression in %s", rule, fnName(fn))
			}
		}
	}
	r.Extra["zones_"+rule] = map[string]any{"variables": totalVars, "abstract_nodes": totalNodes}
	_ = token.NoPos
}

func zoneTargetsC10(p *core.Prog, c *cfgInfo) []zoneTarget {
	var out []zoneTarget
	// Parse and every method of FlagSet reachable from it (the scanner)
	for f := range c.FromP {
		if f.Parent() != nil {
			continue
		}
		if f == c.Parse || (f.Signature.Recv() != nil && types.Identical(ptrTo(f.Signature.Recv().Type()), c.FlagSet)) {
			out = append(out, zoneTarget{Fn: f})
		}
	}
	sortTargets(out)
	return out
}

func sortTargets(ts []zoneTarget) {
	for i := 0; i < len(ts); i++ {
		for j := i + 1; j < len(ts); j++ {
			if ts[j].Fn.String() < ts[i].Fn.String() {
				ts[i], ts[j] = ts[j], ts[i]
			}
		}
	}
}

var unknownStoreCache = map[*ssa.Function]map[*types.Var]bool{}

// unknownCalleeStores: fields that code outside our view may store to: every exported field, and every
// field stored by some module function other than cur (and its closures).
func unknownCalleeStores(p *core.Prog, cur *ssa.Function) map[*types.Var]bool {
	if m, ok := unknownStoreCache[cur]; ok {
		return m
	}
	out := map[*types.Var]bool{}
	for _, fn := range p.ModuleFuncs() {
		if rootFn(fn) == rootFn(cur) {
			continue
		}
		// a helper that only the analysed function calls is part of it (its code is expanded in the analysed view)
		if onlyCalledFrom(p, rootFn(fn), map[*ssa.Function]bool{rootFn(cur): true}) {
			continue
		}
		sx.Instrs(fn, func(in ssa.Instruction) {
			if st, ok := in.(*ssa.Store); ok {
				if fa, ok := st.Addr.(*ssa.FieldAddr); ok {
					if f := sx.FieldOf(fa); f != nil && !sx.IsFreshObject(fa.X) {
						out[f] = true
					}
				}
			}
		})
	}
	// exported fields of module structs
	for _, pk := range p.Pkgs {
		sc := pk.Types.Scope()
		for _, nm := range sc.Names() {
			if tn, ok := sc.Lookup(nm).(*types.TypeName); ok {
				if st, ok := tn.Type().Underlying().(*types.Struct); ok {
					for i := 0; i < st.NumFields(); i++ {
						if st.Field(i).Exported() {
							out[st.Field(i)] = true
						}
					}
				}
			}
		}
	}
	unknownStoreCache[cur] = out
	return out
}
