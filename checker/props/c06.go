package props

import (
	"fmt"
	"go/token"
	"go/types"
	"strings"

	"golang.org/x/tools/go/ssa"

	"glbverif/checker/core"
	"glbverif/checker/sx"
)

func init() { register("C06", "tasklane", runC06) }

func runC06(p *core.Prog, r *core.Report) {
	r.Rule("C06-R1", "channel roles: only PushTask sends on the buffered queues, only the queue goroutine receives from them and sends on the hand-over channels, only the worker goroutine receives from those; no close; len() is the only other use; a lane channel is never handed to code outside the inlined view; the channel fields and list elements are assigned only in the constructor (decided on the package's inlined views)", 10)
	r.Rule("C06-R2", "PushTask: every path returning the constant nil took exactly one enqueue arm; every path returning anything else took none", 2)
	r.Rule("C06-R3", "queue goroutine, per loop iteration: exactly one receive from the buffered queue and then exactly one hand-over send of that very value before the next iteration; at most one on paths that leave the loop; the goroutine returns only on a path through a `<-ctx.Done()` arm", 3)
	r.Rule("C06-R4", "worker goroutine, per loop iteration: exactly one receive arm was taken on every path to Start, the receiver of Start is the value received in this iteration, exactly one Start per iteration; Start is invoked nowhere else and never in a new goroutine; the goroutine returns only on a path through a `<-ctx.Done()` arm", 4)
	r.NotDecided = append(r.NotDecided, "liveness: that an accepted task is eventually started while the context is live (needs fair scheduling); only its structural precondition is checked in C08-R2")
	r.Trusted = append(r.Trusted, "Go channel semantics: a value sent once is received exactly once", "go/ssa lowering of select (index test chain)")

	t := resolveTaskLane(p)
	if !t.anchors(r) {
		return
	}

	// ---- R1 (on the package's inlined views: an operation in a helper is judged as part of each function that calls the helper)
	allowed := func(role, dir string, actor string) (bool, string) {
		switch role + "/" + dir {
		case "buffered/send":
			return actor == "push", "PushTask"
		case "buffered/recv":
			return actor == "queue", "the queue goroutine"
		case "blocking/send", "shared/send":
			return actor == "queue", "the queue goroutine"
		case "blocking/recv", "shared/recv":
			return actor == "worker", "the worker goroutine"
		}
		return false, "nobody"
	}
	n := map[string]int{}
	seenUse := map[string]bool{}
	use := func(root *ssa.Function, in ssa.Instruction, ch ssa.Value, dir string) {
		role := t.chanRole(ch)
		if role != "buffered" && role != "blocking" && role != "shared" {
			return
		}
		actor := t.actor(in.Parent(), root)
		// the same source operation seen for the same actor in several views (a closure of the constructor and the body's own view) is one obligation
		dk := fmt.Sprintf("%p/%s/%s/%s", sx.OrigInstr(in), actor, dir, sx.ValPath(ch))
		if seenUse[dk] {
			return
		}
		seenUse[dk] = true
		ok, who := allowed(role, dir, actor)
		key := fmt.Sprintf("%s %s in %s", dir, role, fnName(root))
		n[key]++
		r.Check(ok, "C06-R1", fmt.Sprintf("%s #%d", key, n[key]), p.Pos(in.Pos()), "role respected", fmt.Sprintf("%s on a %s channel in %s (code of %s): only %s may do that — a second %s breaks exactly-once hand-over", dir, role, fnName(root), fnName(sx.SourceFunc(in)), who, map[string]string{"send": "producer", "recv": "consumer"}[dir]))
	}
	isLane := func(v ssa.Value) (string, bool) {
		if _, isChan := v.Type().Underlying().(*types.Chan); !isChan {
			return "", false
		}
		role := t.chanRole(v)
		return role, role == "buffered" || role == "blocking" || role == "shared"
	}
	for _, v := range t.Views {
		for _, fn := range sx.WithClosures(v.Fn) {
			sx.Instrs(fn, func(in ssa.Instruction) {
				switch x := in.(type) {
				case *ssa.Select:
					for _, st := range x.States {
						d := "recv"
						if st.Dir == types.SendOnly {
							d = "send"
						}
						use(v.Root, in, st.Chan, d)
					}
				case *ssa.Send:
					use(v.Root, in, x.Chan, "send")
				case *ssa.UnOp:
					if x.Op == token.ARROW {
						use(v.Root, in, x.X, "recv")
					}
				case *ssa.Range:
					if _, isChan := x.X.Type().Underlying().(*types.Chan); isChan {
						use(v.Root, in, x.X, "recv")
					}
				}
				// a lane channel handed to a callee that is not expanded here (or stored, or captured) leaves the view: nobody checks what is done with it
				if c, ok := in.(ssa.CallInstruction); ok {
					b, isBuiltin := c.Common().Value.(*ssa.Builtin)
					for _, a := range sx.Args(c) {
						role, lane := isLane(a)
						if !lane {
							continue
						}
						if isBuiltin && (b.Name() == "len" || b.Name() == "cap") {
							continue
						}
						// the go statement (or wrapper call) that starts a lane goroutine hands it its channels: the body is
						// analysed with its parameters bound to exactly these arguments
						if g, isGo := in.(*ssa.Go); isGo && t.GoRole[g] != "" {
							continue
						}
						what := sx.CalleeName(c)
						r.Fail("C06-R1", "lane channel passed to "+short(what)+" in "+fnName(v.Root), p.Pos(in.Pos()), "a "+role+" channel is passed to "+short(what)+" (close, or a function this analysis does not expand): its use there is not covered by the role rule")
					}
				}
				if st, ok := in.(*ssa.Store); ok {
					if role, lane := isLane(st.Val); lane {
						// installing the channel object in its own lane field while the lane is built is not a copy
						installs := false
						if _, isMade := t.resolveChan(st.Val).(*ssa.MakeChan); isMade && sameFn(v.Root, t.Ctor) {
							isLaneField := func(f *types.Var) bool { return f != nil && (f == t.Buffered || f == t.Blocking || f == t.Shared) }
							switch a := st.Addr.(type) {
							case *ssa.FieldAddr:
								installs = isLaneField(sx.FieldOf(a))
							case *ssa.IndexAddr:
								for _, f := range []*types.Var{t.Buffered, t.Blocking} {
									if f != nil && sx.Origins(a.X)[t.fieldKey(f)] {
										installs = true
									}
								}
							}
						}
						if _, isLocal := st.Addr.(*ssa.Alloc); !isLocal && !installs {
							r.Fail("C06-R1", "lane channel stored in "+fnName(v.Root), p.Pos(in.Pos()), "a "+role+" channel is copied into "+sx.AddrPath(st.Addr)+": uses through the copy are not covered by the role rule")
						}
					}
				}
			})
		}
	}
	// field and element immutability
	var viewFns []*ssa.Function
	for _, v := range t.Views {
		viewFns = append(viewFns, sx.WithClosures(v.Fn)...)
	}
	seenW := map[ssa.Instruction]bool{}
	for _, f := range []*types.Var{t.Buffered, t.Blocking, t.Shared} {
		for _, ref := range sx.FieldRefs(viewFns, f) {
			fa, ok := ref.Instr.(*ssa.FieldAddr)
			if !ok {
				continue
			}
			for _, a := range sx.Accesses(fa) {
				if a.Kind != "read" && seenW[sx.OrigInstr(a.Instr)] && !sameFn(rootFn(ref.Fn), t.Ctor) {
					continue // the same source statement, already judged in another view
				}
				switch a.Kind {
				case "write":
					seenW[sx.OrigInstr(a.Instr)] = true
					fresh := sx.IsFreshObject(ref.Base)
					if ia, isElem := ref.Base.(*ssa.IndexAddr); isElem && !fresh {
						// an element of the slice the constructor has just made and not yet published
						if _, made := sx.Unspill(ia.X).(*ssa.MakeSlice); made {
							fresh = true
						}
					}
					r.Check(sameFn(rootFn(ref.Fn), t.Ctor) && fresh, "C06-R1", f.Name()+" assigned in "+fnName(ref.Fn), p.Pos(a.Instr.Pos()), "constructor, before publication", "channel field reassigned after construction")
				case "elem-write":
					seenW[sx.OrigInstr(a.Instr)] = true
					// filling the list in place is construction when it happens in the constructor on the fresh object
					if sameFn(rootFn(ref.Fn), t.Ctor) && sx.IsFreshObject(ref.Base) {
						r.OK("C06-R1", "element of "+f.Name()+" assigned in "+fnName(ref.Fn), p.Pos(a.Instr.Pos()), "constructor fills the list of the fresh object before publication")
					} else {
						r.Fail("C06-R1", "element of "+f.Name()+" assigned in "+fnName(ref.Fn), p.Pos(a.Instr.Pos()), "a lane's channel is replaced after construction")
					}
				case "addr-escape":
					r.Fail("C06-R1", "address of "+f.Name()+" escapes in "+fnName(ref.Fn), p.Pos(a.Instr.Pos()), "channel field address escapes")
				}
			}
		}
	}

	// ---- R2
	{
		sendArms, bad := t.armEdges(t.Push, func(sel *ssa.Select, a sx.Arm) bool {
			return a.State != nil && a.State.Dir == types.SendOnly && t.chanRole(a.State.Chan) == "buffered"
		})
		_ = bad
		// a select whose arms cannot be told apart in the control flow (all arms fall through to the same code without an
		// index test) may or may not have enqueued: it counts as 0..1
		fuzzy := map[ssa.Instruction]bool{}
		sx.Instrs(t.Push, func(in ssa.Instruction) {
			sel, ok := in.(*ssa.Select)
			if !ok {
				return
			}
			if _, okArms := sx.SelectArms(sel); okArms {
				return
			}
			for _, st := range sel.States {
				if st.Dir == types.SendOnly && t.chanRole(st.Chan) == "buffered" {
					fuzzy[in] = true
				}
			}
		})
		w := sx.Weights{Edge: edgeWeight(sendArms), Instr: func(in ssa.Instruction) sx.Range {
			if s, ok := in.(*ssa.Send); ok && t.chanRole(s.Chan) == "buffered" {
				return sx.Range{Min: 1, Max: 1}
			}
			if fuzzy[in] {
				return sx.Range{Min: 0, Max: 1}
			}
			return sx.Range{}
		}}
		res := sx.Count(t.Push, t.Push.Blocks[0], w, nil)
		nCase := 0
		judge := func(rv ssa.Value, rg sx.Range, pos string, at ssa.Instruction) {
			nCase++
			c := fmt.Sprintf("PushTask result #%d (%s)", nCase, short(sx.ValPath(rv)))
			// nil as a constant, or a value that every path to here has tested to be nil (`err := ctx.Err(); if err == nil { … }`)
			knownNil := sx.IsNilConst(rv)
			if !knownNil && at != nil {
				if isNil, _ := sx.NilEdges(rv); len(isNil) > 0 && sx.MustPass(t.Push, nil, at, sx.Cut{Edges: isNil}) {
					knownNil = true
				}
			}
			if knownNil {
				r.Check(rg.Is(1), "C06-R2", c, pos, "nil only after exactly one enqueue", "nil is returned on a path that enqueued "+rangeStr(rg)+" times: the caller is told the task was accepted although it was not (or was enqueued twice)")
			} else {
				r.Check(rg.Is(0), "C06-R2", c, pos, "error result without enqueue", "a possibly non-nil error is returned on a path that enqueued the task "+rangeStr(rg)+" times: a rejected task would still be started")
			}
		}
		for _, ret := range sx.Returns(t.Push) {
			// a result merged from several paths (single-return style, nested merges) is judged per incoming path
			for _, rc := range retCases(ret, 0) {
				rg, _ := res.Before(rc.At)
				if rc.To != nil {
					pred := rc.At.Block()
					for si, sb := range pred.Succs {
						if sb == rc.To && sendArms[sx.Edge{From: pred, Idx: si}] {
							rg = rg.Add(sx.Range{Min: 1, Max: 1})
						}
					}
				}
				judge(rc.Val, rg, p.Pos(ret.Pos()), rc.At)
			}
		}
	}

	// ---- R3 (stated about rounds: from one receive arm to the next, however the loop is written)
	{
		R := t.recvArms(t.Queue, "buffered")
		sendArms, _ := t.armEdges(t.Queue, func(sel *ssa.Select, a sx.Arm) bool {
			if a.State == nil || a.State.Dir != types.SendOnly {
				return false
			}
			role := t.chanRole(a.State.Chan)
			return role == "blocking" || role == "shared"
		})
		if len(R) == 0 || len(sendArms) == 0 {
			r.Unknown("C06-R3", "queue goroutine: hand-over selects", p.FuncPos(t.Queue), "the receive from the buffered queue or the hand-over sends are not select arms in the queue goroutine's view: the hand-over rule cannot follow them")
		}
		w := sx.Weights{Edge: edgeWeight(sendArms), Instr: func(in ssa.Instruction) sx.Range {
			if sd, ok := in.(*ssa.Send); ok {
				if role := t.chanRole(sd.Chan); role == "blocking" || role == "shared" {
					return sx.Range{Min: 1, Max: 1}
				}
			}
			return sx.Range{}
		}}
		why := roundDiscipline(p, t.Queue, R, w, "the held task is handed over")
		r.Check(why == "", "C06-R3", "queue goroutine: one receive and one hand-over per iteration", p.FuncPos(t.Queue), "no hand-over before the first receive, exactly one between two consecutive receives, at most one after the last", why+" (a task is dropped or duplicated)")
		nSend := 0
		why2 := t.usesLastReceived(t.Queue, R, func(in ssa.Instruction) []ssa.Value {
			var out []ssa.Value
			switch x := in.(type) {
			case *ssa.Select:
				for _, st := range x.States {
					if st.Dir == types.SendOnly {
						nSend++
						out = append(out, st.Send)
					}
				}
			case *ssa.Send:
				nSend++
				out = append(out, x.X)
			}
			return out
		})
		r.Check(why2 == "" && nSend > 0, "C06-R3", "queue goroutine: the value handed over is the value just received", p.FuncPos(t.Queue), "every send arm forwards, along every path, the value of the receive that opened the round", why2)
	}

	// ---- R3/R4: a lane goroutine ends only because the context is done. Any other exit (a sentinel value, an
	// error shortcut) strands every task accepted afterwards: the buffer still takes them, nobody starts them.
	for _, g := range []struct {
		fn   *ssa.Function
		rule string
		who  string
	}{{t.Queue, "C06-R3", "queue goroutine"}, {t.WorkerLoop, "C06-R4", "worker goroutine"}} {
		doneEdges, _ := t.armEdges(g.fn, func(sel *ssa.Select, a sx.Arm) bool {
			return a.State != nil && a.State.Dir == types.RecvOnly && t.chanRole(a.State.Chan) == "done"
		})
		sx.Instrs(g.fn, func(in ssa.Instruction) {
			c, ok := in.(*ssa.Call)
			if !ok || sx.CalleeName(c) != "(context.Context).Err" || !sx.Origins(c.Call.Value)[t.fieldKey(t.Ctx)] {
				return
			}
			_, nonNil := sx.NilEdges(c)
			for e := range nonNil {
				doneEdges[e] = true
			}
		})
		// a defensive `if index < 0 || index >= len(list) { return }` on the lane index is dead: the constructor starts the
		// goroutine from a counted loop over exactly that many lanes
		sx.Instrs(g.fn, func(in ssa.Instruction) {
			b, ok := in.(*ssa.BinOp)
			if !ok || b.Referrers() == nil {
				return
			}
			prm, ok := sx.Unspill(b.X).(*ssa.Parameter)
			if !ok {
				return
			}
			arg, bound := t.bind[prm], ssa.Value(nil)
			if arg == nil {
				return
			}
			// the argument is the counter of a counted loop in the constructor
			var iter *ssa.Phi
			switch x := sx.Unspill(arg).(type) {
			case *ssa.Phi:
				iter = x
			case *ssa.BinOp: // rotated range loops hand on phi+1
				if ph, ok := x.X.(*ssa.Phi); ok {
					iter = ph
				}
			}
			if iter == nil {
				return
			}
			h := iter.Block()
			if len(h.Succs) > 0 && h.Succs[0] != h {
				if hh := sx.InnermostLoop(t.Ctor, h); hh != nil {
					h = hh
				}
			}
			tb, ok := sx.LoopTrip(h)
			if !ok {
				return
			}
			bound = t.canonCount(tb)
			deadTrue := false
			switch {
			case b.Op == token.LSS:
				if k, isC := sx.ConstInt(b.Y); isC && k == 0 {
					deadTrue = true // index < 0
				}
			case b.Op == token.GEQ:
				if t.canonCount(b.Y) == bound {
					deadTrue = true // index >= number of lanes
				}
			}
			if !deadTrue {
				return
			}
			for _, u := range *b.Referrers() {
				if iff, ok := u.(*ssa.If); ok {
					doneEdges[sx.Edge{From: iff.Block(), Idx: 0}] = true
				}
			}
		})
		okExit, where := true, ""
		for _, ret := range sx.Returns(g.fn) {
			if sx.ReachInstr(g.fn, nil, ret, sx.Cut{Edges: doneEdges}) {
				okExit, where = false, p.Pos(ret.Pos())
			}
		}
		r.Check(okExit, g.rule, g.who+": ends only when the context is done", p.FuncPos(g.fn), "every path to a return passes a `<-ctx.Done()` arm", "the "+g.who+" can return (at "+where+") on a path that took no `<-ctx.Done()` arm — e.g. on a sentinel task value: tasks accepted afterwards are never started")
	}
	if t.WorkerLoop != t.Worker {
		// the worker body drives a per-run frame (`for tl.run(i) {}`): it ends only after that frame returned, and the frame returns only on cancellation (above)
		cut := sx.Cut{Instrs: map[ssa.Instruction]bool{}}
		sx.Instrs(t.Worker, func(in ssa.Instruction) {
			if c, ok := in.(*ssa.Call); ok && sameFn(sx.StaticCallee(c), t.WorkerLoop) {
				cut.Instrs[in] = true
			}
		})
		okW := len(cut.Instrs) > 0
		for _, ret := range sx.Returns(t.Worker) {
			if sx.ReachInstr(t.Worker, nil, ret, cut) {
				okW = false
			}
		}
		r.Check(okW, "C06-R4", "worker goroutine: ends only after its task loop ended", p.FuncPos(t.Worker), "every return follows a return of "+fnName(t.WorkerLoop), "the worker body can return without its task loop ("+fnName(t.WorkerLoop)+") having ended")
	}

	// ---- R4 (rounds again: from one task receive to the next)
	{
		w := t.WorkerLoop // the function that holds the task loop
		sites := t.startSites(w)
		R := t.recvArms(w, "blocking|shared|buffered")
		if len(sites) == 0 {
			r.Fail("C06-R4", "worker goroutine loop / Start site", p.FuncPos(w), "no call reaching Task.Start found in the worker's view")
		} else if len(R) == 0 {
			r.Unknown("C06-R4", "worker goroutine: task receives", p.FuncPos(w), "the receives of tasks are not select arms in the worker's view: the per-task rule cannot follow them")
		} else {
			isSite := map[ssa.Instruction]bool{}
			for _, s := range sites {
				isSite[s.(ssa.Instruction)] = true
			}
			wt := sx.Weights{Instr: func(in ssa.Instruction) sx.Range {
				if isSite[in] {
					return sx.Range{Min: 1, Max: 1}
				}
				return sx.Range{}
			}}
			why := roundDiscipline(p, w, R, wt, "Start is called")
			for i, s := range sites {
				r.Check(why == "", "C06-R4", fmt.Sprintf("worker: exactly one task received on every path to Start site #%d", i), p.Pos(s.Pos()), "no Start before the first receive, exactly one between two consecutive receives", why+": a stale task from an earlier round (or a nil task) would be started, or a received task never is")
			}
			r.Check(why == "", "C06-R4", "worker: exactly one Start per iteration", p.FuncPos(w), "each received task is started once before the next is received", why)
			// receiver identity: the task Start runs on is, along every path, the one received last
			okID, whyID := true, ""
			operands := func(in ssa.Instruction) []ssa.Value {
				if !isSite[in] {
					return nil
				}
				c := in.(ssa.CallInstruction)
				if t.isStart(c) {
					return []ssa.Value{c.Common().Value}
				}
				callee := sx.StaticCallee(c)
				if callee == nil {
					okID, whyID = false, "Start is reached through a dynamic call at "+p.Pos(in.Pos())
					return nil
				}
				var out []ssa.Value
				found := false
				for _, f := range sx.WithClosures(callee) {
					sx.Instrs(f, func(i2 ssa.Instruction) {
						c2, ok := i2.(ssa.CallInstruction)
						if !ok || !t.isStart(c2) {
							return
						}
						found = true
						recv := c2.Common().Value
						switch x := sx.Unspill(recv).(type) {
						case *ssa.Parameter:
							if f != callee {
								okID, whyID = false, "Start in "+fnName(f)+" runs on a parameter of a nested function"
								return
							}
							args := sx.Args(c)
							for i, fp := range callee.Params {
								if fp == x && i < len(args) {
									out = append(out, args[i])
								}
							}
						default:
							// a captured variable of the worker: its cell in the worker's frame
							if cell := cellOf(recv); cell != nil {
								out = append(out, cell)
							} else {
								okID, whyID = false, "receiver of Start ("+sx.ValPath(recv)+") in "+fnName(f)+" cannot be followed to the worker's received task"
							}
						}
					})
				}
				if !found {
					okID, whyID = false, "Start is reached through "+fnName(callee)+" but not called in it (or its closures) directly"
				}
				return out
			}
			if why3 := t.usesLastReceived(w, R, operands); why3 != "" {
				okID, whyID = false, why3
			}
			r.Check(okID, "C06-R4", "worker: Start runs on the task received in this iteration", p.FuncPos(w), "the receiver of Start is, along every path, the task of the receive that opened the round", whyID)
		}
		// who may call Start
		wreach := reachableFrom(p, t.Worker)
		okWho := true
		var where []string
		for _, fn := range p.ModuleFuncs() {
			sx.Instrs(fn, func(in ssa.Instruction) {
				c, ok := in.(ssa.CallInstruction)
				if !ok || !t.isStart(c) {
					return
				}
				if _, isGo := c.(*ssa.Go); isGo || !wreach[fn] || !onlyCalledFrom(p, fn, map[*ssa.Function]bool{t.Worker: true}) {
					okWho = false
					where = append(where, fnName(fn)+" at "+p.Pos(in.Pos()))
				}
			})
		}
		for f := range wreach {
			sx.Instrs(f, func(in ssa.Instruction) {
				if _, isGo := in.(*ssa.Go); isGo {
					okWho = false
					where = append(where, "go statement in "+fnName(f)+" at "+p.Pos(in.Pos()))
				}
			})
		}
		// inside the recovering frame nothing handles the task before Start: whatever panics there (a map or sync.Map
		// keyed by the task — task types need not be hashable —, a type assertion, a method of the task) is swallowed by
		// the frame's recover and the accepted task is silently skipped
		for _, f := range viewFuncs(p, t.Worker) {
			f := f
			sx.Instrs(f, func(in ssa.Instruction) {
				c, ok := in.(ssa.CallInstruction)
				if !ok || !t.isStart(c) || !c.Common().IsInvoke() {
					return
				}
				task := sx.Unspill(c.Common().Value)
				var def *ssa.Defer
				sx.Instrs(f, func(i2 ssa.Instruction) {
					d, ok := i2.(*ssa.Defer)
					if !ok {
						return
					}
					callee := sx.StaticCallee(d)
					if callee == nil {
						return
					}
					sx.Instrs(callee, func(i3 ssa.Instruction) {
						if cc, ok := i3.(ssa.CallInstruction); ok && isBuiltin(cc, "recover") && sx.MustPass(f, nil, in, sx.Cut{Instrs: map[ssa.Instruction]bool{d: true}}) {
							def = d
						}
					})
				})
				if def == nil {
					return // no recovering frame here: C14-R1 reports that
				}
				early := ""
				sx.WalkFrom(f, def, sx.Cut{Instrs: map[ssa.Instruction]bool{in: true}}, func(i2 ssa.Instruction) bool {
					if i2 == ssa.Instruction(def) || i2 == in {
						return true
					}
					uses := false
					for _, op := range i2.Operands(nil) {
						if op == nil || *op == nil {
							continue
						}
						v := *op
						for {
							if mi, ok := v.(*ssa.MakeInterface); ok {
								v = mi.X
							} else if ci, ok := v.(*ssa.ChangeInterface); ok {
								v = ci.X
							} else {
								break
							}
						}
						// the same variable read again is the same task
						if sx.Unspill(v) == task || (types.Identical(v.Type(), task.Type()) && sx.ValPath(sx.Unspill(v)) == sx.ValPath(task)) {
							uses = true
						}
					}
					if !uses {
						return true
					}
					switch x := i2.(type) {
					case ssa.CallInstruction:
						if _, isD := x.(*ssa.Defer); isD {
							return true // runs after Start
						}
						if _, isB := x.Common().Value.(*ssa.Builtin); !isB && early == "" {
							early = "call " + short(sx.CalleeName(x)) + " at " + p.Pos(i2.Pos())
						}
					case *ssa.MapUpdate, *ssa.Lookup, *ssa.TypeAssert:
						if ta, isTA := x.(*ssa.TypeAssert); !isTA || !ta.CommaOk {
							early = "operation on the task at " + p.Pos(i2.Pos())
						}
					case *ssa.MakeInterface:
						// boxing alone is harmless; what receives the box is judged where it is used
					}
					return true
				})
				r.Check(early == "", "C06-R4", "recovering frame in "+fnName(f)+": nothing handles the task before Start", p.Pos(in.Pos()), "between the deferred recover and Start the task is only started", "before Start the recovering frame hands the task to "+early+": if that panics (an unhashable task type used as a key, a failing assertion) the frame's recover swallows it and the accepted task never starts")
			})
		}
		r.Check(okWho, "C06-R4", "Task.Start is invoked only synchronously inside the worker goroutine", p.FuncPos(t.Worker), "single call site, no go statement reachable from the worker body", "Start can be reached outside the worker's synchronous loop: "+strings.Join(where, ", "))
	}
}

// receivedInLoop: v is the value extracted from a select (or bare receive)
// located inside the loop with header hdr whose matching state receives from a
// channel of one of the given roles.
func receivedInLoop(t *tlInfo, v ssa.Value, hdr *ssa.BasicBlock, roles string) bool {
	v = sx.Unspill(v)
	switch x := v.(type) {
	case *ssa.Phi:
		// merged from several receive arms: every incoming value must be a fresh receive of this iteration
		// (a phi at the loop header would carry a value over from the previous iteration)
		if x.Block() == hdr || len(x.Edges) == 0 {
			return false
		}
		for _, e := range x.Edges {
			if !receivedInLoop(t, e, hdr, roles) {
				return false
			}
		}
		return true
	case *ssa.Extract:
		sel, ok := x.Tuple.(*ssa.Select)
		if !ok || !hdr.Dominates(sel.Block()) {
			return false
		}
		// recv values follow (index, ok): the k-th receive state is at tuple index 2+k
		k := 0
		for _, st := range sel.States {
			if st.Dir != types.RecvOnly {
				continue
			}
			if 2+k == x.Index {
				return strings.Contains(roles, t.chanRole(st.Chan))
			}
			k++
		}
	case *ssa.UnOp:
		if x.Op == token.ARROW && hdr.Dominates(x.Block()) {
			return strings.Contains(roles, t.chanRole(x.X))
		}
	}
	return false
}

// cellOf returns the local variable cell a value is loaded from (following a
// free variable to the enclosing function's cell).
func cellOf(v ssa.Value) *ssa.Alloc {
	u, ok := v.(*ssa.UnOp)
	if !ok || u.Op != token.MUL {
		return nil
	}
	switch a := u.X.(type) {
	case *ssa.Alloc:
		return a
	case *ssa.FreeVar:
		b := sx.FreeVarBinding(a)
		for b != nil {
			switch bb := b.(type) {
			case *ssa.Alloc:
				return bb
			case *ssa.FreeVar:
				b = sx.FreeVarBinding(bb)
				continue
			}
			break
		}
	}
	return nil
}
