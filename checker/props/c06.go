package props

import (
	"fmt"
	"go/token"
	"go/types"
	"strings"

	"golang.org/x/tools/go/ssa"

	"glbverif/checker/core"
	"glbverif/checker/sx"
)

func init() { register("C06", "tasklane", runC06) }

func runC06(p *core.Prog, r *core.Report) {
	r.Rule("C06-R1", "channel roles: only PushTask sends on the buffered queues, only the queue goroutine receives from them and sends on the hand-over channels, only the worker goroutine receives from those; no close; len() is the only other use; a lane channel is never handed to code outside the inlined view; the channel fields and list elements are assigned only in the constructor (decided on the package's inlined views)", 10)
	r.Rule("C06-R2", "PushTask: every path returning the constant nil took exactly one enqueue arm; every path returning anything else took none", 2)
	r.Rule("C06-R3", "queue goroutine, per loop iteration: exactly one receive from the buffered queue and then exactly one hand-over send of that very value before the next iteration; at most one on paths that leave the loop; the goroutine returns only on a path through a `<-ctx.Done()` arm", 3)
	r.Rule("C06-R4", "worker goroutine, per loop iteration: exactly one receive arm was taken on every path to Start, the receiver of Start is the value received in this iteration, exactly one Start per iteration; Start is invoked nowhere else and never in a new goroutine; the goroutine returns only on a path through a `<-ctx.Done()` arm", 4)
	r.NotDecided = append(r.NotDecided, "liveness: that an accepted task is eventually started while the context is live (needs fair scheduling); only its structural precondition is checked in C08-R2")
	r.Trusted = append(r.Trusted, "Go channel semantics: a value sent once is received exactly once", "go/ssa lowering of select (index test chain)")

	t := resolveTaskLane(p)
	if !t.anchors(r) {
		return
	}

	// ---- R1 (on the package's inlined views: an operation in a helper is judged as part of each function that calls the helper)
	allowed := func(role, dir string, root *ssa.Function) (bool, string) {
		switch role + "/" + dir {
		case "buffered/send":
			return sameFn(root, t.Push), "PushTask"
		case "buffered/recv":
			return sameFn(root, t.Queue), "the queue goroutine"
		case "blocking/send", "shared/send":
			return sameFn(root, t.Queue), "the queue goroutine"
		case "blocking/recv", "shared/recv":
			return sameFn(root, t.Worker), "the worker goroutine"
		}
		return false, "nobody"
	}
	n := map[string]int{}
	use := func(root *ssa.Function, in ssa.Instruction, ch ssa.Value, dir string) {
		role := t.chanRole(ch)
		if role != "buffered" && role != "blocking" && role != "shared" {
			return
		}
		ok, who := allowed(role, dir, root)
		key := fmt.Sprintf("%s %s in %s", dir, role, fnName(root))
		n[key]++
		r.Check(ok, "C06-R1", fmt.Sprintf("%s #%d", key, n[key]), p.Pos(in.Pos()), "role respected", fmt.Sprintf("%s on a %s channel in %s (code of %s): only %s may do that — a second %s breaks exactly-once hand-over", dir, role, fnName(root), fnName(sx.SourceFunc(in)), who, map[string]string{"send": "producer", "recv": "consumer"}[dir]))
	}
	isLane := func(v ssa.Value) (string, bool) {
		if _, isChan := v.Type().Underlying().(*types.Chan); !isChan {
			return "", false
		}
		role := t.chanRole(v)
		return role, role == "buffered" || role == "blocking" || role == "shared"
	}
	for _, v := range t.Views {
		for _, fn := range sx.WithClosures(v.Fn) {
			sx.Instrs(fn, func(in ssa.Instruction) {
				switch x := in.(type) {
				case *ssa.Select:
					for _, st := range x.States {
						d := "recv"
						if st.Dir == types.SendOnly {
							d = "send"
						}
						use(v.Root, in, st.Chan, d)
					}
				case *ssa.Send:
					use(v.Root, in, x.Chan, "send")
				case *ssa.UnOp:
					if x.Op == token.ARROW {
						use(v.Root, in, x.X, "recv")
					}
				case *ssa.Range:
					if _, isChan := x.X.Type().Underlying().(*types.Chan); isChan {
						use(v.Root, in, x.X, "recv")
					}
				}
				// a lane channel handed to a callee that is not expanded here (or stored, or captured) leaves the view: nobody checks what is done with it
				if c, ok := in.(ssa.CallInstruction); ok {
					b, isBuiltin := c.Common().Value.(*ssa.Builtin)
					for _, a := range sx.Args(c) {
						role, lane := isLane(a)
						if !lane {
							continue
						}
						if isBuiltin && (b.Name() == "len" || b.Name() == "cap") {
							continue
						}
						what := sx.CalleeName(c)
						r.Fail("C06-R1", "lane channel passed to "+short(what)+" in "+fnName(v.Root), p.Pos(in.Pos()), "a "+role+" channel is passed to "+short(what)+" (close, or a function this analysis does not expand): its use there is not covered by the role rule")
					}
				}
				if st, ok := in.(*ssa.Store); ok {
					if role, lane := isLane(st.Val); lane {
						if _, isLocal := st.Addr.(*ssa.Alloc); !isLocal {
							r.Fail("C06-R1", "lane channel stored in "+fnName(v.Root), p.Pos(in.Pos()), "a "+role+" channel is copied into "+sx.AddrPath(st.Addr)+": uses through the copy are not covered by the role rule")
						}
					}
				}
			})
		}
	}
	// field and element immutability
	var viewFns []*ssa.Function
	for _, v := range t.Views {
		viewFns = append(viewFns, sx.WithClosures(v.Fn)...)
	}
	seenW := map[ssa.Instruction]bool{}
	for _, f := range []*types.Var{t.Buffered, t.Blocking, t.Shared} {
		for _, ref := range sx.FieldRefs(viewFns, f) {
			fa, ok := ref.Instr.(*ssa.FieldAddr)
			if !ok {
				continue
			}
			for _, a := range sx.Accesses(fa) {
				if a.Kind != "read" && seenW[sx.OrigInstr(a.Instr)] && !sameFn(rootFn(ref.Fn), t.Ctor) {
					continue // the same source statement, already judged in another view
				}
				switch a.Kind {
				case "write":
					seenW[sx.OrigInstr(a.Instr)] = true
					r.Check(sameFn(rootFn(ref.Fn), t.Ctor) && sx.IsFreshObject(ref.Base), "C06-R1", f.Name()+" assigned in "+fnName(ref.Fn), p.Pos(a.Instr.Pos()), "constructor, before publication", "channel field reassigned after construction")
				case "elem-write":
					seenW[sx.OrigInstr(a.Instr)] = true
					// filling the list in place is construction when it happens in the constructor on the fresh object
					if sameFn(rootFn(ref.Fn), t.Ctor) && sx.IsFreshObject(ref.Base) {
						r.OK("C06-R1", "element of "+f.Name()+" assigned in "+fnName(ref.Fn), p.Pos(a.Instr.Pos()), "constructor fills the list of the fresh object before publication")
					} else {
						r.Fail("C06-R1", "element of "+f.Name()+" assigned in "+fnName(ref.Fn), p.Pos(a.Instr.Pos()), "a lane's channel is replaced after construction")
					}
				case "addr-escape":
					r.Fail("C06-R1", "address of "+f.Name()+" escapes in "+fnName(ref.Fn), p.Pos(a.Instr.Pos()), "channel field address escapes")
				}
			}
		}
	}

	// ---- R2
	{
		sendArms, bad := t.armEdges(t.Push, func(sel *ssa.Select, a sx.Arm) bool {
			return a.State != nil && a.State.Dir == types.SendOnly && t.chanRole(a.State.Chan) == "buffered"
		})
		_ = bad
		// a select whose arms cannot be told apart in the control flow (all arms fall through to the same code without an
		// index test) may or may not have enqueued: it counts as 0..1
		fuzzy := map[ssa.Instruction]bool{}
		sx.Instrs(t.Push, func(in ssa.Instruction) {
			sel, ok := in.(*ssa.Select)
			if !ok {
				return
			}
			if _, okArms := sx.SelectArms(sel); okArms {
				return
			}
			for _, st := range sel.States {
				if st.Dir == types.SendOnly && t.chanRole(st.Chan) == "buffered" {
					fuzzy[in] = true
				}
			}
		})
		w := sx.Weights{Edge: edgeWeight(sendArms), Instr: func(in ssa.Instruction) sx.Range {
			if s, ok := in.(*ssa.Send); ok && t.chanRole(s.Chan) == "buffered" {
				return sx.Range{Min: 1, Max: 1}
			}
			if fuzzy[in] {
				return sx.Range{Min: 0, Max: 1}
			}
			return sx.Range{}
		}}
		res := sx.Count(t.Push, t.Push.Blocks[0], w, nil)
		nCase := 0
		judge := func(rv ssa.Value, rg sx.Range, pos string) {
			nCase++
			c := fmt.Sprintf("PushTask result #%d (%s)", nCase, short(sx.ValPath(rv)))
			if sx.IsNilConst(rv) {
				r.Check(rg.Is(1), "C06-R2", c, pos, "nil only after exactly one enqueue", "nil is returned on a path that enqueued "+rangeStr(rg)+" times: the caller is told the task was accepted although it was not (or was enqueued twice)")
			} else {
				r.Check(rg.Is(0), "C06-R2", c, pos, "error result without enqueue", "a possibly non-nil error is returned on a path that enqueued the task "+rangeStr(rg)+" times: a rejected task would still be started")
			}
		}
		for _, ret := range sx.Returns(t.Push) {
			rv := returnValue(ret, 0)
			// a result merged from several paths is judged per incoming path
			if ph, ok := rv.(*ssa.Phi); ok {
				for k, e := range ph.Edges {
					pred := ph.Block().Preds[k]
					term := pred.Instrs[len(pred.Instrs)-1]
					rg, _ := res.Before(term)
					for si, sb := range pred.Succs {
						if sb == ph.Block() && sendArms[sx.Edge{From: pred, Idx: si}] {
							rg = rg.Add(sx.Range{Min: 1, Max: 1})
						}
					}
					judge(e, rg, p.Pos(ret.Pos()))
				}
				continue
			}
			rg, _ := res.Before(ret)
			judge(rv, rg, p.Pos(ret.Pos()))
		}
	}

	// ---- R3
	{
		hdr := outerLoop(t.Queue)
		if hdr == nil {
			r.Fail("C06-R3", "queue goroutine loop", p.FuncPos(t.Queue), "no loop found")
		} else {
			back := sx.BackEdgesTo(hdr)
			recvArms, _ := t.armEdges(t.Queue, func(sel *ssa.Select, a sx.Arm) bool {
				return a.State != nil && a.State.Dir == types.RecvOnly && t.chanRole(a.State.Chan) == "buffered"
			})
			sendArms, _ := t.armEdges(t.Queue, func(sel *ssa.Select, a sx.Arm) bool {
				if a.State == nil || a.State.Dir != types.SendOnly {
					return false
				}
				role := t.chanRole(a.State.Chan)
				return role == "blocking" || role == "shared"
			})
			if len(recvArms) == 0 || len(sendArms) == 0 {
				r.Unknown("C06-R3", "queue goroutine: hand-over selects", p.FuncPos(t.Queue), "the receive from the buffered queue or the hand-over sends are not select arms of the goroutine body itself (moved into helpers?): the per-iteration rule cannot follow them")
			}
			rc := sx.Count(t.Queue, hdr, sx.Weights{Edge: edgeWeight(recvArms)}, back)
			sc := sx.Count(t.Queue, hdr, sx.Weights{Edge: edgeWeight(sendArms)}, back)
			okIter := len(rc.BackEdges) > 0
			detail := ""
			for e, rg := range rc.BackEdges {
				if !rg.Is(1) {
					okIter = false
					detail += fmt.Sprintf("an iteration ending at block %d received %s tasks; ", e.From.Index, rangeStr(rg))
				}
			}
			for e, rg := range sc.BackEdges {
				if !rg.Is(1) {
					okIter = false
					detail += fmt.Sprintf("an iteration ending at block %d handed over %s times (a task is dropped or duplicated); ", e.From.Index, rangeStr(rg))
				}
			}
			r.Check(okIter, "C06-R3", "queue goroutine: one receive and one hand-over per iteration", p.Pos(hdr.Instrs[0].Pos()), "every path around the loop takes exactly one receive arm and exactly one send arm", detail)
			okExit := true
			for _, ret := range sx.Returns(t.Queue) {
				if rg, ok := sc.Before(ret); ok && rg.Max > 1 {
					okExit = false
				}
				if rg, ok := rc.Before(ret); ok && rg.Max > 1 {
					okExit = false
				}
			}
			r.Check(okExit, "C06-R3", "queue goroutine: at most one hand-over on exit paths", p.FuncPos(t.Queue), "paths leaving the loop send at most once", "a path leaving the loop can hand the held task over more than once")
			// identity of the forwarded value
			okID, why := true, ""
			nSend := 0
			sx.Instrs(t.Queue, func(in ssa.Instruction) {
				sel, ok := in.(*ssa.Select)
				if !ok {
					return
				}
				for _, st := range sel.States {
					if st.Dir != types.SendOnly {
						continue
					}
					nSend++
					if !receivedInLoop(t, st.Send, hdr, "buffered") {
						okID = false
						why = "the value sent at " + p.Pos(sel.Pos()) + " (" + sx.ValPath(st.Send) + ") is not the value received from the buffered queue in this iteration"
					}
				}
			})
			r.Check(okID && nSend > 0, "C06-R3", "queue goroutine: the value handed over is the value just received", p.FuncPos(t.Queue), fmt.Sprintf("%d send arms forward the SSA value extracted from this iteration's receive", nSend), why)
		}
	}

	// ---- R3/R4: a lane goroutine ends only because the context is done. Any other exit (a sentinel value, an
	// error shortcut) strands every task accepted afterwards: the buffer still takes them, nobody starts them.
	for _, g := range []struct {
		fn   *ssa.Function
		rule string
		who  string
	}{{t.Queue, "C06-R3", "queue goroutine"}, {t.Worker, "C06-R4", "worker goroutine"}} {
		doneEdges, _ := t.armEdges(g.fn, func(sel *ssa.Select, a sx.Arm) bool {
			return a.State != nil && a.State.Dir == types.RecvOnly && t.chanRole(a.State.Chan) == "done"
		})
		sx.Instrs(g.fn, func(in ssa.Instruction) {
			c, ok := in.(*ssa.Call)
			if !ok || sx.CalleeName(c) != "(context.Context).Err" || !sx.Origins(c.Call.Value)[t.fieldKey(t.Ctx)] {
				return
			}
			_, nonNil := sx.NilEdges(c)
			for e := range nonNil {
				doneEdges[e] = true
			}
		})
		okExit, where := true, ""
		for _, ret := range sx.Returns(g.fn) {
			if sx.ReachInstr(g.fn, nil, ret, sx.Cut{Edges: doneEdges}) {
				okExit, where = false, p.Pos(ret.Pos())
			}
		}
		r.Check(okExit, g.rule, g.who+": ends only when the context is done", p.FuncPos(g.fn), "every path to a return passes a `<-ctx.Done()` arm", "the "+g.who+" can return (at "+where+") on a path that took no `<-ctx.Done()` arm — e.g. on a sentinel task value: tasks accepted afterwards are never started")
	}

	// ---- R4
	{
		hdr := outerLoop(t.Worker)
		sites := t.startSites(t.Worker)
		if hdr == nil || len(sites) == 0 {
			r.Fail("C06-R4", "worker goroutine loop / Start site", p.FuncPos(t.Worker), "no loop or no call reaching Task.Start found")
		} else {
			back := sx.BackEdgesTo(hdr)
			recvArms, _ := t.armEdges(t.Worker, func(sel *ssa.Select, a sx.Arm) bool {
				if a.State == nil || a.State.Dir != types.RecvOnly {
					return false
				}
				role := t.chanRole(a.State.Chan)
				return role == "blocking" || role == "shared" || role == "buffered"
			})
			if len(recvArms) == 0 {
				r.Unknown("C06-R4", "worker goroutine: task receives", p.FuncPos(t.Worker), "the receives of tasks are not select arms of the worker body itself (moved into helpers?): the per-iteration rule cannot follow them")
			}
			rc := sx.Count(t.Worker, hdr, sx.Weights{Edge: edgeWeight(recvArms)}, back)
			for i, s := range sites {
				rg, ok := rc.Before(s.(ssa.Instruction))
				r.Check(ok && rg.Is(1), "C06-R4", fmt.Sprintf("worker: exactly one task received on every path to Start site #%d", i), p.Pos(s.Pos()), "one receive arm on every path from the loop head", "Start is reachable in an iteration that received "+rangeStr(rg)+" tasks: a stale task from an earlier iteration (or a nil task) would be started")
			}
			isSite := map[ssa.Instruction]bool{}
			for _, s := range sites {
				isSite[s.(ssa.Instruction)] = true
			}
			stc := sx.Count(t.Worker, hdr, sx.Weights{Instr: func(in ssa.Instruction) sx.Range {
				if isSite[in] {
					return sx.Range{Min: 1, Max: 1}
				}
				return sx.Range{}
			}}, back)
			okOne := len(stc.BackEdges) > 0
			for _, rg := range stc.BackEdges {
				if !rg.Is(1) {
					okOne = false
				}
			}
			r.Check(okOne, "C06-R4", "worker: exactly one Start per iteration", p.Pos(hdr.Instrs[0].Pos()), "each trip around the loop calls Start once", "an iteration can call Start zero or several times for one received task")
			// receiver identity: the Start calls inside the worker's view (incl. its closures), and inside a
			// callee that stays a call (the per-task frame with the deferred recover) judged at the call's argument
			okID, why := true, ""
			type startAt struct {
				recv ssa.Value
			}
			var starts []startAt
			for _, f := range sx.WithClosures(t.Worker) {
				sx.Instrs(f, func(in ssa.Instruction) {
					if c, ok := in.(ssa.CallInstruction); ok && t.isStart(c) {
						starts = append(starts, startAt{c.Common().Value})
					}
				})
			}
			for _, s := range sites {
				callee := sx.StaticCallee(s)
				if t.isStart(s) || callee == nil || callee.Parent() != nil {
					continue // a direct Start, or a closure of the view (both collected above)
				}
				found := false
				for _, f := range sx.WithClosures(callee) {
					sx.Instrs(f, func(in ssa.Instruction) {
						c, ok := in.(ssa.CallInstruction)
						if !ok || !t.isStart(c) {
							return
						}
						found = true
						prm, isP := sx.Unspill(c.Common().Value).(*ssa.Parameter)
						if !isP || f != callee {
							okID, why = false, "Start in "+fnName(f)+" runs on "+sx.ValPath(c.Common().Value)+", which is not the task passed in by the worker"
							return
						}
						args := sx.Args(s)
						for i, fp := range callee.Params {
							if fp == prm && i < len(args) {
								starts = append(starts, startAt{args[i]})
							}
						}
					})
				}
				if !found {
					okID, why = false, "Start is reached through "+fnName(callee)+" but not called in it directly: the task it runs on cannot be followed"
				}
			}
			if len(starts) == 0 {
				okID, why = false, "no Start call found in the worker's view"
			}
			for _, sa := range starts {
				recv := sa.recv
				if receivedInLoop(t, recv, hdr, "blocking|shared") {
					continue
				}
				// through a cell declared outside the loop
				cell := cellOf(recv)
				if cell == nil {
					okID, why = false, "receiver of Start ("+sx.ValPath(recv)+") is not a value received in the loop"
					continue
				}
				stores, complete := sx.CellStores(cell)
				cut := sx.Cut{Instrs: map[ssa.Instruction]bool{}}
				if !complete {
					okID, why = false, "the task variable escapes"
				}
				for _, sv := range stores {
					if !receivedInLoop(t, sv, hdr, "blocking|shared") {
						okID, why = false, "the task variable is assigned "+sx.ValPath(sv)+", which is not a value received in this iteration"
					}
				}
				sx.Instrs(t.Worker, func(i2 ssa.Instruction) {
					if st, ok := i2.(*ssa.Store); ok && st.Addr == ssa.Value(cell) {
						cut.Instrs[i2] = true
					}
				})
				for _, s := range sites {
					if sx.ReachInstr(t.Worker, hdr.Instrs[0], s.(ssa.Instruction), cut) && hdr.Instrs[0] != s.(ssa.Instruction) {
						okID, why = false, "Start site at "+p.Pos(s.Pos())+" is reachable from the loop head without assigning the task variable: the task of a previous iteration would be started again"
					}
				}
			}
			r.Check(okID, "C06-R4", "worker: Start runs on the task received in this iteration", p.FuncPos(t.Worker), "receiver is (a variable always assigned from) this iteration's receive", why)
		}
		// who may call Start
		wreach := reachableFrom(p, t.Worker)
		okWho := true
		var where []string
		for _, fn := range p.ModuleFuncs() {
			sx.Instrs(fn, func(in ssa.Instruction) {
				c, ok := in.(ssa.CallInstruction)
				if !ok || !t.isStart(c) {
					return
				}
				if _, isGo := c.(*ssa.Go); isGo || !wreach[fn] || !onlyCalledFrom(p, fn, map[*ssa.Function]bool{t.Worker: true}) {
					okWho = false
					where = append(where, fnName(fn)+" at "+p.Pos(in.Pos()))
				}
			})
		}
		for f := range wreach {
			sx.Instrs(f, func(in ssa.Instruction) {
				if _, isGo := in.(*ssa.Go); isGo {
					okWho = false
					where = append(where, "go statement in "+fnName(f)+" at "+p.Pos(in.Pos()))
				}
			})
		}
		r.Check(okWho, "C06-R4", "Task.Start is invoked only synchronously inside the worker goroutine", p.FuncPos(t.Worker), "single call site, no go statement reachable from the worker body", "Start can be reached outside the worker's synchronous loop: "+strings.Join(where, ", "))
	}
}

// receivedInLoop: v is the value extracted from a select (or bare receive)
// located inside the loop with header hdr whose matching state receives from a
// channel of one of the given roles.
func receivedInLoop(t *tlInfo, v ssa.Value, hdr *ssa.BasicBlock, roles string) bool {
	v = sx.Unspill(v)
	switch x := v.(type) {
	case *ssa.Phi:
		// merged from several receive arms: every incoming value must be a fresh receive of this iteration
		// (a phi at the loop header would carry a value over from the previous iteration)
		if x.Block() == hdr || len(x.Edges) == 0 {
			return false
		}
		for _, e := range x.Edges {
			if !receivedInLoop(t, e, hdr, roles) {
				return false
			}
		}
		return true
	case *ssa.Extract:
		sel, ok := x.Tuple.(*ssa.Select)
		if !ok || !hdr.Dominates(sel.Block()) {
			return false
		}
		// recv values follow (index, ok): the k-th receive state is at tuple index 2+k
		k := 0
		for _, st := range sel.States {
			if st.Dir != types.RecvOnly {
				continue
			}
			if 2+k == x.Index {
				return strings.Contains(roles, t.chanRole(st.Chan))
			}
			k++
		}
	case *ssa.UnOp:
		if x.Op == token.ARROW && hdr.Dominates(x.Block()) {
			return strings.Contains(roles, t.chanRole(x.X))
		}
	}
	return false
}

// cellOf returns the local variable cell a value is loaded from (following a
// free variable to the enclosing function's cell).
func cellOf(v ssa.Value) *ssa.Alloc {
	u, ok := v.(*ssa.UnOp)
	if !ok || u.Op != token.MUL {
		return nil
	}
	switch a := u.X.(type) {
	case *ssa.Alloc:
		return a
	case *ssa.FreeVar:
		b := sx.FreeVarBinding(a)
		for b != nil {
			switch bb := b.(type) {
			case *ssa.Alloc:
				return bb
			case *ssa.FreeVar:
				b = sx.FreeVarBinding(bb)
				continue
			}
			break
		}
	}
	return nil
}
