package props

import (
	"fmt"
	"go/token"
	"go/types"
	"sort"
	"strings"

	"golang.org/x/tools/go/ssa"

	"glbverif/checker/core"
	"glbverif/checker/sx"
)

func init() { register("C02", "logger", runC02) }

// isOutWrite: an invoke of Write on a value loaded from the handler's destination field.
func isOutWrite(c ssa.CallInstruction, h *handlerInfo) bool {
	cc := c.Common()
	if !cc.IsInvoke() || cc.Method.Name() != "Write" {
		return false
	}
	return sx.Origins(cc.Value)["field:"+h.Name+"."+h.Out.Name()]
}

// writeSummary: range of destination writes over all normal paths of fn (interprocedural, static calls).
func writeSummary(p *core.Prog, fn *ssa.Function, h *handlerInfo, memo map[*ssa.Function]*sx.Range, closureWrites *[]string) sx.Range {
	if r, ok := memo[fn]; ok {
		if r == nil {
			return sx.Range{Min: 0, Max: sx.Sat} // recursion
		}
		return *r
	}
	memo[fn] = nil
	w := sx.Weights{Instr: func(in ssa.Instruction) sx.Range {
		c, ok := in.(ssa.CallInstruction)
		if !ok {
			return sx.Range{}
		}
		if _, isGo := c.(*ssa.Go); isGo {
			return sx.Range{}
		}
		if isOutWrite(c, h) {
			return sx.Range{Min: 1, Max: 1}
		}
		if callee := sx.StaticCallee(c); callee != nil && p.InModule(callee) && callee.Blocks != nil {
			return writeSummary(p, callee, h, memo, closureWrites)
		}
		return sx.Range{}
	}}
	res := sx.Count(fn, fn.Blocks[0], w, nil)
	total := sx.Range{Min: sx.Sat, Max: 0}
	n := 0
	for _, ret := range sx.Returns(fn) {
		if r, ok := res.Before(ret); ok {
			total = total.Join(r)
			n++
		}
	}
	if n == 0 {
		total = sx.Range{}
	}
	// writes inside closures that are not called directly are not counted: report them
	for _, a := range fn.AnonFuncs {
		direct := false
		sx.Instrs(fn, func(in ssa.Instruction) {
			if c, ok := in.(ssa.CallInstruction); ok && sx.StaticCallee(c) == a {
				direct = true
			}
		})
		if direct {
			continue
		}
		for _, cf := range sx.WithClosures(a) {
			sx.Instrs(cf, func(in ssa.Instruction) {
				if c, ok := in.(ssa.CallInstruction); ok && isOutWrite(c, h) {
					*closureWrites = append(*closureWrites, p.Pos(in.Pos()))
				}
			})
		}
	}
	memo[fn] = &total
	return total
}

func runC02(p *core.Prog, r *core.Report) {
	r.Rule("C02-R1", "exactly one Write on the destination field on every normal path of Handle; the destination field is touched nowhere else except constructor/clone copies", 6)
	r.Rule("C02-R2", "the Write happens while the handler's mutex is held (must-lockset); every handler created by a derivation method inherits the receiver's mutex; only root constructors allocate a mutex", 9)
	r.Rule("C02-R3", "every call of Handler.Handle outside the handlers is guarded by Enabled(level) of the same handler with the level that goes into the record", 5)
	r.Rule("C02-R5", "outside the mutex Handle writes only memory private to the call: no store through the receiver, no append into a slice owned by the receiver (its spare capacity is shared), no call that does (same analysis as C03-R1, read for concurrency)", 3)
	ma2 := newMutAnalysis(p)
	r.Rule("C02-R4", "the line buffer is private to one Handle call (never stored, sent, returned or given to a goroutine), released exactly once, truncated to length 0 on every path into the pool; the slice written is that buffer", 9)
	r.NotDecided = append(r.NotDecided,
		"that the destination io.Writer does not retain or modify the slice (io.Writer contract)",
		"that every record appears exactly once presumes the destination's Write returns")
	r.Trusted = append(r.Trusted, "sync.Mutex mutual exclusion", "sync.Pool: an object obtained by Get is exclusively owned until Put", "go/ssa construction and the Go type checker")

	hs := logHandlers(p)
	r.Anchor("handlers", fmt.Sprint(len(hs)))
	if len(hs) < 3 {
		r.Fail("C02-R1", "anchor-shrunk handlers", "-", fmt.Sprintf("found %d types implementing logger.Handler, expected at least 3", len(hs)))
	}
	allMethods := map[*ssa.Function]bool{}
	for _, h := range hs {
		for _, m := range h.Methods {
			allMethods[m] = true
		}
	}
	var methodRoots []*ssa.Function
	for m := range allMethods {
		methodRoots = append(methodRoots, m)
	}
	derivation := reachableFrom(p, methodRoots...)

	for _, h := range hs {
		if h.Out == nil || h.Mu == nil {
			r.Fail("C02-R1", h.Name+": fields", "-", "handler has no io.Writer destination field or no mutex field")
			continue
		}
		handle := h.Methods["Handle"]
		if handle == nil {
			r.Fail("C02-R1", h.Name+".Handle", "-", "no Handle method with a body")
			continue
		}
		// ---- R1: exactly one write
		var closureWrites []string
		sum := writeSummary(p, handle, h, map[*ssa.Function]*sx.Range{}, &closureWrites)
		r.Check(sum.Is(1) && len(closureWrites) == 0, "C02-R1", h.Name+".Handle: writes per record", p.FuncPos(handle),
			"every normal path performs exactly 1 Write on "+h.Out.Name(),
			fmt.Sprintf("number of Write calls on %s over the paths of Handle is in [%d,%d] (3 = more), writes inside closures: %v", h.Out.Name(), sum.Min, sum.Max, closureWrites))

		// who-may-touch the destination field
		handleFns := map[*ssa.Function]bool{handle: true}
		for _, ref := range sx.FieldRefs(p.ModuleFuncs(), h.Out) {
			c := fmt.Sprintf("%s.%s used in %s", h.Name, h.Out.Name(), fnName(ref.Fn))
			problems := checkOutUses(p, ref, h, handleFns)
			r.Check(len(problems) == 0, "C02-R1", c, p.Pos(ref.Instr.Pos()), "constructor/clone copy or the Write inside Handle", fmt.Sprint(problems))
		}

		// ---- R2: serialised
		locksets := map[*ssa.Function]map[ssa.Instruction]sx.Lockset{}
		for fn := range reachableFrom(p, handle) {
			sx.Instrs(fn, func(in ssa.Instruction) {
				c, ok := in.(ssa.CallInstruction)
				if !ok || !isOutWrite(c, h) {
					return
				}
				ls, ok := locksets[fn]
				if !ok {
					ls = sx.Locksets(fn)
					locksets[fn] = ls
				}
				held := false
				var heldKeys []string
				for k := range ls[in] {
					heldKeys = append(heldKeys, k)
					if len(k) > len(h.Mu.Name())+3 && k[len(k)-2:] == ":W" && hasSuffixField(k[:len(k)-2], h.Mu.Name()) {
						held = true
					}
				}
				if !held && fn != handle {
					// lock may be held by the caller: require it at every call site up to Handle
					held = lockHeldAtCallers(p, fn, h, handle, locksets, 0)
				}
				r.Check(held, "C02-R2", fmt.Sprintf("%s: Write in %s under %s", h.Name, fnName(fn), h.Mu.Name()), p.Pos(in.Pos()),
					"must-held lockset at the Write contains the handler's mutex", fmt.Sprintf("Write on the destination without holding %s (held: %v)", h.Mu.Name(), heldKeys))
			})
		}
		// the lock is released on every path (a leaked lock silences every logger of the family)
		for fn := range reachableFrom(p, handle) {
			locks, unlocks, deferred := map[ssa.Instruction]bool{}, map[ssa.Instruction]bool{}, false
			sx.Instrs(fn, func(in ssa.Instruction) {
				c, ok := in.(ssa.CallInstruction)
				if !ok {
					return
				}
				n := sx.CalleeName(c)
				args := sx.Args(c)
				if len(args) == 0 || !hasSuffixField(sx.MutexKey(args[0]), h.Mu.Name()) {
					return
				}
				switch n {
				case "(*sync.Mutex).Lock":
					locks[in] = true
				case "(*sync.Mutex).Unlock":
					if _, isD := c.(*ssa.Defer); isD {
						deferred = true
						// the defer must follow the Lock on every path: checked below as "registered before any return"
						unlocks[in] = true
					} else {
						unlocks[in] = true
					}
				}
			})
			if len(locks) == 0 {
				continue
			}
			okRel := len(unlocks) > 0
			why := "the mutex is locked but never unlocked"
			for l := range locks {
				for _, ret := range sx.Returns(fn) {
					if sx.ReachInstr(fn, l, ret, sx.Cut{Instrs: unlocks}) {
						okRel = false
						why = "a return at " + p.Pos(ret.Pos()) + " is reachable after Lock without Unlock (e.g. the write-error path): the shared mutex stays locked and every later record of every derived logger blocks forever"
					}
				}
			}
			_ = deferred
			r.Check(okRel, "C02-R2", fmt.Sprintf("%s: %s released on every path of %s", h.Name, h.Mu.Name(), fnName(fn)), p.FuncPos(fn), "every return after Lock passes an Unlock (or its defer)", why)
		}
		if _, isPtr := h.Mu.Type().(*types.Pointer); !isPtr {
			r.Fail("C02-R2", h.Name+"."+h.Mu.Name()+" is shared by pointer", "-", "the mutex field is a value: every clone would get its own copy")
		} else {
			r.OK("C02-R2", h.Name+"."+h.Mu.Name()+" is shared by pointer", "-", "field type "+h.Mu.Type().String())
		}
		// stores to the mutex field
		for _, ref := range sx.FieldRefs(p.ModuleFuncs(), h.Mu) {
			fa, ok := ref.Instr.(*ssa.FieldAddr)
			if !ok {
				continue
			}
			for _, acc := range sx.Accesses(fa) {
				if acc.Kind != "write" {
					continue
				}
				c := fmt.Sprintf("%s.%s assigned in %s", h.Name, h.Mu.Name(), fnName(ref.Fn))
				org := sx.Origins(acc.Val)
				switch {
				case org["field:"+h.Name+"."+h.Mu.Name()] && len(org) == 1:
					r.OK("C02-R2", c, p.Pos(acc.Instr.Pos()), "inherits the mutex of another "+h.Name)
				case org["alloc"] && len(org) == 1:
					if derivation[ref.Fn] {
						r.Fail("C02-R2", c, p.Pos(acc.Instr.Pos()), "a fresh mutex is allocated in a function reachable from handler methods ("+fnName(ref.Fn)+"): derived handlers would not serialise with their root")
					} else if !sx.IsFreshObject(fa.X) {
						r.Fail("C02-R2", c, p.Pos(acc.Instr.Pos()), "the mutex of an already published handler is replaced")
					} else {
						r.OK("C02-R2", c, p.Pos(acc.Instr.Pos()), "root constructor allocates the mutex (not reachable from any handler method)")
					}
				default:
					r.Fail("C02-R2", c, p.Pos(acc.Instr.Pos()), "mutex assigned from "+keys(org)+": neither the receiver's mutex nor a root constructor's fresh one")
				}
			}
		}
		// every handler object created inside derivation code gets a mutex
		for fn := range derivation {
			sx.Instrs(fn, func(in ssa.Instruction) {
				a, ok := in.(*ssa.Alloc)
				if !ok || !types.Identical(ptrTo(a.Type()), h.Named) {
					return
				}
				set := false
				for _, rr := range *a.Referrers() {
					switch x := rr.(type) {
					case *ssa.FieldAddr:
						if sx.FieldOf(x) == h.Mu {
							for _, acc := range sx.Accesses(x) {
								if acc.Kind == "write" {
									set = true
								}
							}
						}
					case *ssa.Store:
						if x.Addr == a { // whole-struct copy
							set = true
						}
					}
				}
				r.Check(set, "C02-R2", fmt.Sprintf("%s created in %s gets a mutex", h.Name, fnName(fn)), p.Pos(a.Pos()), "mutex field initialised", "handler object created without initialising "+h.Mu.Name())
			})
		}

		// ---- R4: private buffer in Handle
		checkPrivateBuffers(p, r, h, handle)
		// ---- R5: what Handle writes to besides that buffer is not shared with a concurrent Handle call either
		if len(handle.Params) > 0 {
			var bad []string
			for _, f := range ma2.analyse(handle, map[ssa.Value]string{handle.Params[0]: tPtr}) {
				bad = append(bad, f.msg+" at "+f.pos)
			}
			// …nor memory shared by the whole package: a package-level variable that code reachable from Handle stores to,
			// or hands (itself or its address) to a method or function — a shared scratch buffer, encoder, cache. Pools and
			// atomics are made for that; tables that are only indexed are not touched here.
			{
				var glob []string
				scope := map[*ssa.Function]bool{}
				for fn := range reachableFrom(p, handle) {
					scope[fn] = true
				}
				// …and the inlined view of Handle: a getter that returns the address of a package variable is seen in place
				for _, fn := range viewFuncs(p, p.Inl(handle)) {
					scope[fn] = true
				}
				for fn := range scope {
					if rootFn(fn).Pkg != handle.Pkg {
						continue
					}
					// code that runs with the handler's mutex held is serialised
					locks := sx.Locksets(fn)
					sx.Instrs(fn, func(in ssa.Instruction) {
						if len(locks[in]) > 0 {
							return
						}
						isShared := func(v ssa.Value) *ssa.Global {
							v = sx.Unspill(v)
							if ld, ok := v.(*ssa.UnOp); ok && ld.Op == token.MUL {
								v = ld.X
							}
							if fa, ok := v.(*ssa.FieldAddr); ok {
								v = fa.X
							}
							g, ok := v.(*ssa.Global)
							if !ok || g.Pkg != handle.Pkg {
								return nil
							}
							if isSyncType(ptrTo(g.Type())) {
								return nil
							}
							if n, ok := ptrTo(g.Type()).(*types.Named); ok && n.Obj().Pkg() != nil && n.Obj().Pkg().Path() == "sync" {
								return nil
							}
							// documented as safe for concurrent use and without per-call state
							gt := ptrTo(g.Type())
							if pt := ptrTo(gt); pt != nil {
								gt = pt
							}
							switch gt.String() {
							case "strings.Replacer", "regexp.Regexp", "time.Location":
								return nil
							}
							return g
						}
						switch x := in.(type) {
						case *ssa.Store:
							if fn.Name() == "init" {
								return
							}
							if g := isShared(x.Addr); g != nil {
								glob = append(glob, "store to package variable "+g.Name()+" in "+fnName(fn)+" at "+p.Pos(in.Pos()))
							}
						case ssa.CallInstruction:
							cc := x.Common()
							if _, isB := cc.Value.(*ssa.Builtin); isB {
								return
							}
							for _, a := range sx.Args(x) {
								if pt := ptrTo(a.Type()); pt == nil && !types.IsInterface(a.Type()) {
									continue // passed by value: a copy
								}
								if g := isShared(a); g != nil {
									glob = append(glob, "package variable "+g.Name()+" is handed to "+short(sx.CalleeName(x))+" in "+fnName(fn)+" at "+p.Pos(in.Pos()))
									continue
								}
								// …or reaches the call through a helper's result (`func (h) prefix() *[]byte { return &rootPrefix }`)
								if ptrTo(a.Type()) != nil {
									for o := range sx.Origins(a) {
										if !strings.HasPrefix(o, "global:") {
											continue
										}
										if gm, ok := handle.Pkg.Members[strings.TrimPrefix(o, "global:")].(*ssa.Global); ok {
											if g := isShared(gm); g != nil {
												glob = append(glob, "package variable "+g.Name()+" reaches "+short(sx.CalleeName(x))+" as a pointer in "+fnName(fn)+" at "+p.Pos(in.Pos()))
											}
										}
									}
								}
							}
						}
					})
				}
				sort.Strings(glob)
				r.Check(len(glob) == 0, "C02-R5", h.Name+".Handle uses no package-level scratch state outside the mutex", p.FuncPos(handle), "no store to, and no call on, a package-level variable other than pools and atomics", "the line is formatted before the output mutex is taken, so concurrent Handle calls run this at the same time: "+strings.Join(uniq(glob), "; ")+" — one record's bytes end up in another record's line")
			}
			r.Check(len(bad) == 0, "C02-R5", h.Name+".Handle writes no memory owned by the handler", p.FuncPos(handle), "no store, in-place append or mutating call reaches memory reachable from the receiver (scratch space comes from a pool or is local)", "concurrent Handle calls of this handler (and of the handlers derived from it) run this unlocked and would write the same memory: "+strings.Join(uniq(bad), "; "))
		}
	}

	// ---- R3 (converse): an exported Logger method loses a record only through Enabled(level) == false
	if lg := p.Named("logger", "Logger"); lg != nil {
		reachesHandle := func(fn *ssa.Function) bool {
			hit := false
			for f := range reachableFrom(p, fn) {
				sx.Instrs(f, func(in ssa.Instruction) {
					if c, ok := in.(ssa.CallInstruction); ok && c.Common().IsInvoke() && c.Common().Method.Name() == "Handle" {
						hit = true
					}
				})
			}
			return hit
		}
		ms := p.SSA.MethodSets.MethodSet(types.NewPointer(lg))
		for i := 0; i < ms.Len(); i++ {
			m := p.SSA.MethodValue(ms.At(i))
			if m == nil || m.Blocks == nil || m.Synthetic != "" || !reachesHandle(m) {
				continue
			}
			if !ms.At(i).Obj().Exported() {
				continue // not an entry point: judged as part of the exported methods that call it (Handle calls in it are gated by C02-R3)
			}
			if len(m.AnonFuncs) > 0 {
				continue // Relay: records are written from deferred closures; covered by C15
			}
			hasDeferredLog := false
			sx.Instrs(m, func(in ssa.Instruction) {
				if d, ok := in.(*ssa.Defer); ok {
					if callee := sx.StaticCallee(d); callee != nil && reachesHandle(callee) {
						hasDeferredLog = true
					}
				}
			})
			if hasDeferredLog {
				continue // Relay with its closures turned into methods: same reason
			}
			m = p.Inl(m) // the private helpers (log, logf, logAttrs) are judged in place
			cut := sx.Cut{Instrs: map[ssa.Instruction]bool{}, Edges: map[sx.Edge]bool{}}
			sx.Instrs(m, func(in ssa.Instruction) {
				c, ok := in.(ssa.CallInstruction)
				if !ok {
					return
				}
				if c.Common().IsInvoke() {
					switch c.Common().Method.Name() {
					case "Handle":
						cut.Instrs[in] = true
					case "Enabled":
						if call, ok := in.(*ssa.Call); ok {
							for _, e := range enabledEdges(call) {
								cut.Edges[sx.Edge{From: e.From, Idx: 1 - e.Idx}] = true // the disabled edge
							}
						}
					}
					return
				}
				if callee := sx.StaticCallee(c); callee != nil && p.InModule(callee) && reachesHandle(callee) {
					cut.Instrs[in] = true
				}
			})
			ok := true
			for _, ret := range sx.Returns(m) {
				if sx.ReachInstr(m, nil, ret, cut) {
					ok = false
				}
			}
			// panics/exits after logging are fine; a method with no return at all (Fatal) must still reach the log call
			r.Check(ok, "C02-R3", "Logger."+ms.At(i).Obj().Name()+" drops a record only when its level is disabled", p.FuncPos(m), "every return lies behind the log call or behind Enabled(level) == false", "Logger."+ms.At(i).Obj().Name()+" can return without logging for a reason other than Enabled(level) == false (e.g. a shortcut on IsDebug()): a record at an enabled level causes no Write")
		}
	}

	// ---- R3: level gate at every Handler.Handle call outside handlers
	hIface := p.Named("logger", "Handler")
	// judged on the logger package's inlined views (a Handle call in a private helper is gated by what its callers
	// tested) and on every other function of the module
	var gateFns []*ssa.Function
	for _, fn := range p.ModuleFuncs() {
		if rootFn(fn).Pkg != p.SPkgs["logger"] {
			gateFns = append(gateFns, fn)
		}
	}
	for _, v := range pkgViews(p, "logger") {
		gateFns = append(gateFns, sx.WithClosures(v.Fn)...)
	}
	for _, fn := range gateFns {
		fn := fn
		if allMethods[rootFn(fn)] {
			continue
		}
		sx.Instrs(fn, func(in ssa.Instruction) {
			c, ok := in.(ssa.CallInstruction)
			if !ok || !c.Common().IsInvoke() || c.Common().Method.Name() != "Handle" || !types.Identical(c.Common().Value.Type(), hIface) {
				return
			}
			if allMethods[rootFn(sx.SourceFunc(in))] {
				return // a handler's own code expanded into a caller
			}
			construct := "Handle call in " + fnName(fn) + " #" + recordTag(c)
			ok2, detail := levelGated(p, fn, c)
			r.Check(ok2, "C02-R3", construct, p.Pos(in.Pos()), detail, detail)
		})
	}
	// the threshold the gate compares with is the one the caller asked for: the level field of Options is assigned the
	// constructor's parameter itself (a clamp into the named levels turns "above Fatal = off" into Fatal)
	if opts := p.Named("logger", "Options"); opts != nil {
		for _, f := range structFields(opts) {
			if !strings.HasSuffix(f.Type().String(), "log/slog.Level") {
				continue
			}
			n := 0
			var bad []string
			for _, ref := range sx.FieldRefs(p.PkgFuncs("logger"), f) {
				fa, ok := ref.Instr.(*ssa.FieldAddr)
				if !ok {
					continue
				}
				for _, a := range sx.Accesses(fa) {
					if a.Kind != "write" {
						continue
					}
					n++
					if _, isParam := sx.Unspill(a.Val).(*ssa.Parameter); !isParam {
						bad = append(bad, "Options."+f.Name()+" is assigned "+short(sx.ValPath(a.Val))+" in "+fnName(ref.Fn)+" at "+p.Pos(a.Instr.Pos()))
					}
				}
			}
			r.Check(len(bad) == 0 && n > 0, "C02-R3", "the threshold is the level the constructor was given", "-", fmt.Sprintf("%d assignment(s) of Options.%s, each the parameter itself", n, f.Name()), strings.Join(bad, "; ")+": records are gated against a level the caller did not ask for")
		}
	}
}

func hasSuffixField(path, field string) bool {
	return len(path) > len(field) && path[len(path)-len(field)-1:] == "."+field
}

func lockHeldAtCallers(p *core.Prog, fn *ssa.Function, h *handlerInfo, handle *ssa.Function, cache map[*ssa.Function]map[ssa.Instruction]sx.Lockset, depth int) bool {
	if depth > 6 {
		return false
	}
	cs := staticCalls(p).callers[fn]
	if len(cs) == 0 {
		return false
	}
	for _, c := range cs {
		ls, ok := cache[c.Caller]
		if !ok {
			ls = sx.Locksets(c.Caller)
			cache[c.Caller] = ls
		}
		held := false
		for k := range ls[c.Instr] {
			if len(k) > 2 && k[len(k)-2:] == ":W" && hasSuffixField(k[:len(k)-2], h.Mu.Name()) {
				held = true
			}
		}
		if !held {
			if c.Caller == handle || !lockHeldAtCallers(p, c.Caller, h, handle, cache, depth+1) {
				return false
			}
		}
	}
	return true
}

// checkOutUses: the destination field may only be (a) initialised in a fresh
// object, (b) copied into the same field of another handler object, (c) passed
// to a module function whose parameter is used likewise, (d) the receiver of
// the Write inside Handle (or helpers only called from Handle).
func checkOutUses(p *core.Prog, ref sx.FieldRef, h *handlerInfo, handleFns map[*ssa.Function]bool) []string {
	var problems []string
	var useVal func(v ssa.Value, fn *ssa.Function, depth int)
	useVal = func(v ssa.Value, fn *ssa.Function, depth int) {
		if depth > 5 || v.Referrers() == nil {
			return
		}
		for _, rr := range *v.Referrers() {
			switch x := rr.(type) {
			case *ssa.Store:
				if fa, ok := x.Addr.(*ssa.FieldAddr); ok && x.Val == v && sx.FieldOf(fa) != nil && typeIs(sx.FieldOf(fa).Type(), "io", "Writer") {
					continue // copied into a handler's destination field
				}
				if _, ok := x.Addr.(*ssa.Alloc); ok {
					continue
				}
				problems = append(problems, "destination writer stored to "+sx.AddrPath(x.Addr)+" at "+p.Pos(x.Pos()))
			case ssa.CallInstruction:
				cc := x.Common()
				if cc.IsInvoke() && cc.Value == v {
					if cc.Method.Name() == "Write" && onlyCalledFrom(p, fn, handleFns) {
						continue
					}
					problems = append(problems, fmt.Sprintf("destination writer's %s called in %s at %s (outside Handle)", cc.Method.Name(), fnName(fn), p.Pos(x.Pos())))
					continue
				}
				callee := sx.StaticCallee(x)
				if callee != nil && p.InModule(callee) {
					for i, a := range sx.Args(x) {
						if a == v && i < len(callee.Params) {
							useVal(callee.Params[i], callee, depth+1)
						}
					}
					continue
				}
				problems = append(problems, "destination writer passed to "+sx.CalleeName(x)+" at "+p.Pos(x.Pos()))
			case *ssa.Phi:
				useVal(x, fn, depth+1)
			case *ssa.DebugRef:
			case *ssa.Return:
				problems = append(problems, "destination writer returned from "+fnName(fn)+" at "+p.Pos(x.Pos()))
			default:
				problems = append(problems, "destination writer used by "+rr.String()+" at "+p.Pos(rr.Pos()))
			}
		}
	}
	switch x := ref.Instr.(type) {
	case *ssa.FieldAddr:
		for _, acc := range sx.Accesses(x) {
			switch acc.Kind {
			case "write":
				if !sx.IsFreshObject(x.X) {
					problems = append(problems, "destination of a published handler reassigned at "+p.Pos(acc.Instr.Pos()))
				}
			case "read":
				useVal(acc.Val, ref.Fn, 0)
			default:
				problems = append(problems, acc.Kind+" at "+p.Pos(acc.Instr.Pos()))
			}
		}
	case *ssa.Field:
		useVal(x, ref.Fn, 0)
	}
	return problems
}

func recordTag(c ssa.CallInstruction) string {
	// distinguish several Handle calls in one function by the constant strings of their record
	return fmt.Sprint(callOrdinal(c))
}

func callOrdinal(c ssa.CallInstruction) int {
	n := 0
	found := -1
	sx.Instrs(c.Parent(), func(in ssa.Instruction) {
		if cc, ok := in.(ssa.CallInstruction); ok && cc.Common().IsInvoke() && cc.Common().Method.Name() == c.Common().Method.Name() {
			if in == c.(ssa.Instruction) {
				found = n
			}
			n++
		}
	})
	return found
}

// levelGated: the Handle call is reachable only through the enabled edge of an
// `Enabled(level)` test on the same handler, and the record passed was built
// by slog.NewRecord with that same level.
func levelGated(p *core.Prog, fn *ssa.Function, handle ssa.CallInstruction) (bool, string) {
	recv := sx.ValPath(handle.Common().Value)
	var recLevel ssa.Value
	// record argument -> NewRecord call
	if len(handle.Common().Args) >= 2 {
		recLevel = newRecordLevel(handle.Common().Args[1])
	}
	if recLevel == nil {
		return false, "cannot find the slog.NewRecord call that builds the record passed to Handle"
	}
	var msgs []string
	gated := false
	sx.Instrs(fn, func(in ssa.Instruction) {
		e, ok := in.(*ssa.Call)
		if !ok || !e.Call.IsInvoke() || e.Call.Method.Name() != "Enabled" {
			return
		}
		if sx.ValPath(e.Call.Value) != recv {
			return
		}
		if !sameValue(e.Call.Args[0], recLevel) {
			msgs = append(msgs, fmt.Sprintf("Enabled(%s) at %s tests a different level than the record's (%s)", sx.ValPath(e.Call.Args[0]), p.Pos(e.Pos()), sx.ValPath(recLevel)))
			return
		}
		// find the branch on e (possibly negated)
		for _, edge := range enabledEdges(e) {
			cut := sx.Cut{Edges: map[sx.Edge]bool{}}
			// cutting the enabled edge must make Handle unreachable
			cut.Edges[edge] = true
			if sx.MustPass(fn, nil, handle.(ssa.Instruction), cut) {
				gated = true
			}
		}
	})
	if gated {
		// the level that is gated and recorded is the one the caller gave (a parameter) or a constant of the method — not
		// a level computed from it (rounded, clamped, mapped): that would let a record below the threshold through
		switch x := sx.Unspill(recLevel).(type) {
		case *ssa.Parameter, *ssa.Const:
		case *ssa.Convert:
			if _, isP := sx.Unspill(x.X).(*ssa.Parameter); !isP {
				if _, isC := x.X.(*ssa.Const); !isC {
					return false, "the level tested and recorded is " + sx.ValPath(recLevel) + ", computed from the caller's level rather than the level itself: a level just below the threshold can be turned into one that passes it"
				}
			}
		default:
			return false, "the level tested and recorded is " + sx.ValPath(recLevel) + ", computed from the caller's level rather than the level itself: a level just below the threshold can be turned into one that passes it"
		}
		return true, "reachable only through the true edge of " + recv + ".Enabled(" + sx.ValPath(recLevel) + ")"
	}
	if len(msgs) > 0 {
		return false, fmt.Sprint(msgs)
	}
	return false, "Handle is reachable without passing the enabled edge of " + recv + ".Enabled(" + sx.ValPath(recLevel) + ")"
}

// enabledEdges returns the CFG edges taken when the bool call result is true.
func enabledEdges(e *ssa.Call) []sx.Edge {
	var out []sx.Edge
	var follow func(v ssa.Value, neg bool)
	follow = func(v ssa.Value, neg bool) {
		if v.Referrers() == nil {
			return
		}
		for _, rr := range *v.Referrers() {
			switch x := rr.(type) {
			case *ssa.If:
				idx := 0
				if neg {
					idx = 1
				}
				out = append(out, sx.Edge{From: x.Block(), Idx: idx})
			case *ssa.UnOp:
				if x.Op == token.NOT {
					follow(x, !neg)
				}
			}
		}
	}
	follow(e, false)
	return out
}

func newRecordLevel(rec ssa.Value) ssa.Value {
	seen := map[ssa.Value]bool{}
	var find func(v ssa.Value) ssa.Value
	find = func(v ssa.Value) ssa.Value {
		if v == nil || seen[v] {
			return nil
		}
		seen[v] = true
		switch x := v.(type) {
		case *ssa.Call:
			if sx.CalleeName(x) == "log/slog.NewRecord" && len(x.Call.Args) >= 2 {
				return x.Call.Args[1]
			}
		case *ssa.UnOp:
			if x.Op == token.MUL {
				if a, ok := x.X.(*ssa.Alloc); ok {
					st, _ := sx.CellStores(a)
					for _, s := range st {
						if r := find(s); r != nil {
							return r
						}
					}
				}
			}
		case *ssa.Phi:
			for _, e := range x.Edges {
				if r := find(e); r != nil {
					return r
				}
			}
		}
		return nil
	}
	return find(rec)
}

func sameValue(a, b ssa.Value) bool {
	a, b = sx.Unspill(a), sx.Unspill(b)
	if a == b {
		return true
	}
	ca, ok1 := a.(*ssa.Const)
	cb, ok2 := b.(*ssa.Const)
	if ok1 && ok2 && ca.Value != nil && cb.Value != nil {
		return ca.Value.ExactString() == cb.Value.ExactString() && types.Identical(ca.Type(), cb.Type())
	}
	return false
}

// ---- R4 ----

// poolGetters: module functions whose result derives from (*sync.Pool).Get;
// poolReleasers: module functions that hand a parameter to (*sync.Pool).Put.
func poolFuncs(p *core.Prog, rel string) (getters, releasers map[*ssa.Function]bool) {
	getters, releasers = map[*ssa.Function]bool{}, map[*ssa.Function]bool{}
	for _, fn := range p.PkgFuncs(rel) {
		for _, ret := range sx.Returns(fn) {
			for _, res := range ret.Results {
				if sx.Origins(res)["call:(*sync.Pool).Get"] {
					getters[fn] = true
				}
			}
		}
		sx.Instrs(fn, func(in ssa.Instruction) {
			if c, ok := in.(ssa.CallInstruction); ok && sx.CalleeName(c) == "(*sync.Pool).Put" {
				for _, a := range c.Common().Args {
					for o := range sx.Origins(a) {
						if len(o) > 6 && o[:6] == "param:" {
							releasers[fn] = true
						}
					}
				}
			}
		})
	}
	for g := range getters {
		getterFns[g] = true
	}
	return
}

func checkPrivateBuffers(p *core.Prog, r *core.Report, h *handlerInfo, handle *ssa.Function) {
	getters, releasers := poolFuncs(p, "logger")
	// the reference tree has two pools (line buffers, group prefixes); one pool serving both, or one releaser shared by
	// both, is as good — what must exist is the pool the written buffer comes from (checked below per Write)
	if len(getters) < 1 || len(releasers) < 1 {
		r.Fail("C02-R4", "anchor-shrunk pool functions", "-", fmt.Sprintf("found %d pool getters / %d releasers in package logger, expected at least 1/1", len(getters), len(releasers)))
	}
	// releasers truncate on every path into the pool
	for rel := range releasers {
		construct := "pool release " + fnName(rel) + " truncates"
		ok, detail := releaserTruncates(p, rel)
		// report once per handler is redundant: key by function only
		if h == nil || true {
			r.Check(ok, "C02-R4", construct+" ("+h.Name+")", p.FuncPos(rel), detail, detail)
		}
	}
	// every getter call in functions reachable from the handler's methods is private and released once
	var roots []*ssa.Function
	for _, m := range h.Methods {
		roots = append(roots, m)
	}
	writeBufOK := false
	for fn := range reachableFrom(p, roots...) {
		sx.Instrs(fn, func(in ssa.Instruction) {
			call, ok := in.(*ssa.Call)
			if !ok {
				return
			}
			callee := sx.StaticCallee(call)
			if callee == nil || !getters[callee] {
				return
			}
			if getters[fn] {
				// wrapper getter (e.g. prefix()): checked at its own call sites
				return
			}
			construct := fmt.Sprintf("%s: buffer from %s in %s", h.Name, fnName(callee), fnName(fn))
			e := newEscaper(p)
			e.ptr(call)
			r.Check(len(e.problems) == 0, "C02-R4", construct+" is private", p.Pos(call.Pos()), "never stored, returned, sent or shared with a goroutine", fmt.Sprint(e.problems))
			ok2, detail := releasedOnce(p, fn, call, releasers)
			r.Check(ok2, "C02-R4", construct+" released exactly once", p.Pos(call.Pos()), detail, detail)
		})
	}
	// the slice written is the pooled buffer's current contents
	for fn := range reachableFrom(p, handle) {
		sx.Instrs(fn, func(in ssa.Instruction) {
			c, ok := in.(ssa.CallInstruction)
			if !ok || !isOutWrite(c, h) {
				return
			}
			org := sx.Origins(c.Common().Args[0])
			for g := range getters {
				if org["call:"+sx.FuncName(g)] && len(org) == 1 {
					writeBufOK = true
				}
			}
			// the Write may sit in a helper that receives the buffer: then every caller must pass the pooled buffer
			if !writeBufOK && len(org) == 1 {
				for i, prm := range fn.Params {
					if !org["param:"+prm.Name()] {
						continue
					}
					sites := staticCalls(p).callers[fn]
					all := len(sites) > 0
					for _, cs := range sites {
						args := sx.Args(cs.Instr)
						ok := false
						if i < len(args) {
							ao := sx.Origins(args[i])
							for g := range getters {
								if ao["call:"+sx.FuncName(g)] && len(ao) == 1 {
									ok = true
								}
							}
						}
						if !ok {
							all = false
						}
					}
					if all {
						writeBufOK = true
					}
				}
			}
			r.Check(writeBufOK, "C02-R4", h.Name+": Write argument is the pooled line buffer", p.Pos(in.Pos()), "argument derives only from the buffer obtained in this call", "Write argument derives from "+keys(org))
		})
	}
}

// releaserTruncates: on every path to Pool.Put(param) the last store through
// param is `*param = (*param)[:0]`.
func releaserTruncates(p *core.Prog, fn *ssa.Function) (bool, string) {
	var puts []ssa.Instruction
	trunc := map[ssa.Instruction]bool{}
	var dirty []ssa.Instruction
	isParamPtr := func(v ssa.Value) bool {
		for o := range sx.Origins(v) {
			if len(o) > 6 && o[:6] == "param:" {
				return true
			}
		}
		_, ok := sx.Unspill(v).(*ssa.Parameter)
		return ok
	}
	sx.Instrs(fn, func(in ssa.Instruction) {
		switch x := in.(type) {
		case ssa.CallInstruction:
			if sx.CalleeName(x) == "(*sync.Pool).Put" {
				puts = append(puts, in)
			}
		case *ssa.Store:
			if _, ok := sx.Unspill(x.Addr).(*ssa.Parameter); ok && isParamPtr(x.Addr) {
				if sl, ok := x.Val.(*ssa.Slice); ok {
					if hi, isC := sx.ConstInt(sl.High); isC && hi == 0 && sl.Low == nil {
						trunc[in] = true
						return
					}
				}
				dirty = append(dirty, in)
			}
		}
	})
	if len(puts) == 0 {
		return false, "no Pool.Put found"
	}
	cut := sx.Cut{Instrs: trunc}
	for _, put := range puts {
		if !sx.MustPass(fn, nil, put, cut) {
			return false, "a path reaches Pool.Put at " + p.Pos(put.Pos()) + " without `*buf = (*buf)[:0]`: a recycled buffer would carry stale bytes"
		}
		for _, d := range dirty {
			if sx.ReachInstr(fn, d, put, cut) {
				return false, "store at " + p.Pos(d.Pos()) + " can reach Pool.Put without a later truncation to length 0"
			}
		}
	}
	return true, "every path into Pool.Put passes a truncation to length 0 that is the last store through the buffer pointer"
}

// releasedOnce: after the getter call G, neither a return of the function nor
// a second execution of G is reachable without passing the release of G's value;
// a deferred release dominating all exits is accepted.
func releasedOnce(p *core.Prog, fn *ssa.Function, g *ssa.Call, releasers map[*ssa.Function]bool) (bool, string) {
	rel := map[ssa.Instruction]bool{}
	deferred := false
	nDefer := 0
	sx.Instrs(fn, func(in ssa.Instruction) {
		c, ok := in.(ssa.CallInstruction)
		if !ok {
			return
		}
		callee := sx.StaticCallee(c)
		if callee == nil || !releasers[callee] {
			return
		}
		uses := false
		for _, a := range sx.Args(c) {
			if sx.Unspill(a) == ssa.Value(g) {
				uses = true
			}
		}
		if !uses {
			return
		}
		if _, isDefer := c.(*ssa.Defer); isDefer {
			nDefer++
			if c.Block() == g.Block() || c.Block().Dominates(g.Block()) || g.Block().Dominates(c.Block()) {
				deferred = true
			}
			rel[in] = true
		} else {
			rel[in] = true
		}
	})
	if len(rel) == 0 {
		return false, "buffer obtained from the pool is never released"
	}
	cut := sx.Cut{Instrs: rel}
	// second acquisition without release (loops)
	if sx.ReachInstr(fn, g, g, cut) {
		return false, "the buffer can be re-acquired in a loop without releasing the previous one"
	}
	for _, ret := range sx.Returns(fn) {
		if sx.ReachInstr(fn, g, ret, cut) {
			return false, "a return at " + p.Pos(ret.Pos()) + " is reachable without releasing the buffer"
		}
	}
	// at most once: from one release no other release of the same value is reachable without re-acquisition
	for a := range rel {
		for b := range rel {
			if a != b && sx.ReachInstr(fn, a, b, sx.Cut{Instrs: map[ssa.Instruction]bool{g: true}}) {
				return false, "the buffer can be released twice (" + p.Pos(a.Pos()) + " then " + p.Pos(b.Pos()) + ")"
			}
		}
	}
	// nothing uses the buffer after an explicit release: the pool may hand it to another goroutine at once (a slice
	// header copied before the release — `line := *buf` — still points into the recycled array)
	for a := range rel {
		if _, isDefer := a.(*ssa.Defer); isDefer {
			continue
		}
		late := ""
		sx.WalkFrom(fn, a, sx.Cut{Instrs: map[ssa.Instruction]bool{g: true}}, func(in ssa.Instruction) bool {
			if in == a {
				return true
			}
			c, ok := in.(ssa.CallInstruction)
			if !ok {
				return true
			}
			for _, arg := range sx.Args(c) {
				org := sx.Origins(arg)
				if org["call:"+sx.FuncName(sx.StaticCallee(g))] {
					late = short(sx.CalleeName(c)) + " at " + p.Pos(in.Pos())
				}
			}
			return true
		})
		if late != "" {
			return false, "the buffer's bytes are still used after it went back to the pool at " + p.Pos(a.Pos()) + " (" + late + "): another goroutine can obtain the buffer and format its own record over the line being written"
		}
	}
	if deferred {
		return true, "released by a deferred call registered right after acquisition"
	}
	return true, "released on every path before return / re-acquisition"
}
