package props

import (
	"fmt"
	"go/token"
	"go/types"
	"os"
	"sort"
	"strings"

	"golang.org/x/tools/go/ssa"

	"glbverif/checker/core"
	"glbverif/checker/sx"
)

func init() {
	register("C09", "config", runC09)
}

type cfgInfo struct {
	p        *core.Prog
	FlagSet  *types.Named
	Flag     *types.Named
	ValueI   *types.Named
	Parse    *ssa.Function // inlined view of (*FlagSet).Parse: its private helpers are seen in place
	ParseSrc *ssa.Function
	ViewFns  []*ssa.Function // the view, its closures and the views of callees it still calls
	NewSet   *ssa.Function
	Fns      []*ssa.Function
	FromP    map[*ssa.Function]bool // reachable from Parse
	JSONStep []*ssa.Function        // callees of Parse that reach the JSON decoder (kept as calls in the view)
	problems []string
}

func resolveConfig(p *core.Prog) *cfgInfo {
	c := &cfgInfo{p: p}
	c.FlagSet, c.Flag, c.ValueI = p.Named("config", "FlagSet"), p.Named("config", "Flag"), p.Named("config", "Value")
	c.Parse = p.Method("config", "FlagSet", "Parse")
	c.NewSet = p.Func("config", "NewFlagSet")
	if c.FlagSet == nil || c.Flag == nil || c.ValueI == nil || c.Parse == nil || c.NewSet == nil {
		c.problems = append(c.problems, "FlagSet / Flag / Value / (*FlagSet).Parse / NewFlagSet not found")
		return c
	}
	c.Fns = p.PkgFuncs("config")
	c.FromP = reachableFrom(p, c.Parse)
	c.ParseSrc = c.Parse
	// the JSON step stays a call in the view: "after the JSON step" is a statement about that call, whether or not a
	// document was found; everything else Parse calls in its package is expanded
	var keep []*ssa.Function
	for _, callee := range staticCalls(p).callees[c.ParseSrc] {
		if !p.InModule(callee) {
			continue
		}
		for f := range reachableFrom(p, callee) {
			sx.Instrs(f, func(in ssa.Instruction) {
				if cc, ok := in.(ssa.CallInstruction); ok {
					if n := sx.CalleeName(cc); n == "encoding/json.Unmarshal" || n == "(*encoding/json.Decoder).Decode" {
						keep = append(keep, callee)
					}
				}
			})
		}
	}
	// Parse may be split into stages (`readSources(); applyOverrides()`): the JSON step is then the function further down
	// that reads the document itself (os.ReadFile / os.Open) and reaches the decoder, not the stage that calls it
	{
		reaches := func(fn *ssa.Function) bool {
			hit := false
			for f := range reachableFrom(p, fn) {
				sx.Instrs(f, func(in ssa.Instruction) {
					if cc, ok := in.(ssa.CallInstruction); ok {
						if n := sx.CalleeName(cc); n == "encoding/json.Unmarshal" || n == "(*encoding/json.Decoder).Decode" {
							hit = true
						}
					}
				})
			}
			return hit
		}
		var readers []*ssa.Function
		seenR := map[*ssa.Function]bool{}
		for _, k := range keep {
			for f := range reachableFrom(p, k) {
				if seenR[f] || f.Parent() != nil || !p.InModule(f) || f.Pkg != c.ParseSrc.Pkg || !reaches(f) {
					continue
				}
				reads := false
				sx.Instrs(f, func(in ssa.Instruction) {
					if cc, ok := in.(ssa.CallInstruction); ok {
						switch sx.CalleeName(cc) {
						case "os.ReadFile", "os.Open", "io.ReadAll":
							reads = true
						}
					}
				})
				if reads {
					seenR[f] = true
					readers = append(readers, f)
				}
			}
		}
		if len(readers) == 1 {
			keep = readers
		}
	}
	c.JSONStep = keep
	c.Parse = p.Inl(c.ParseSrc, keep...)
	c.ViewFns = viewFuncs(p, c.Parse)
	for _, f := range c.ViewFns {
		c.FromP[f] = true
	}
	return c
}

func (c *cfgInfo) isSet(call ssa.CallInstruction) bool {
	cc := call.Common()
	if cc.IsInvoke() {
		return cc.Method.Name() == "Set" && types.Identical(cc.Value.Type(), c.ValueI) || cc.Method.Name() == "Set" && implementsValue(cc.Value.Type(), c.ValueI)
	}
	// static call of a concrete Set method
	if f := sx.StaticCallee(call); f != nil && f.Name() == "Set" && f.Signature.Recv() != nil && implementsValue(f.Signature.Recv().Type(), c.ValueI) {
		return true
	}
	return false
}

func implementsValue(t types.Type, v *types.Named) bool {
	iface, ok := v.Underlying().(*types.Interface)
	if !ok {
		return false
	}
	return types.Implements(t, iface)
}

// setSource classifies where the text given to Set comes from.
func setSource(call ssa.CallInstruction) string {
	args := call.Common().Args
	arg := args[len(args)-1]
	org := sx.Origins(arg)
	switch {
	case org["field:Flag.ArgValue"]:
		return "cli"
	case org["field:Flag.EnvValue"]:
		return "env"
	}
	for o := range org {
		if strings.HasPrefix(o, "const:") {
			return "const " + strings.TrimPrefix(o, "const:")
		}
		if strings.HasPrefix(o, "param:") {
			return "param " + strings.TrimPrefix(o, "param:")
		}
	}
	return "other " + keys(org)
}

// fieldNilEdges: CFG edges of fn on which a load of field `key` was found nil / non-nil.
func fieldNilEdges(fn *ssa.Function, key string) (isNil, nonNil map[sx.Edge]bool) {
	isNil, nonNil = map[sx.Edge]bool{}, map[sx.Edge]bool{}
	sx.Instrs(fn, func(in ssa.Instruction) {
		b, ok := in.(*ssa.BinOp)
		if !ok || (b.Op != token.EQL && b.Op != token.NEQ) {
			return
		}
		var v ssa.Value
		switch {
		case sx.IsNilConst(b.Y):
			v = b.X
		case sx.IsNilConst(b.X):
			v = b.Y
		default:
			return
		}
		if org := sx.Origins(v); !org[key] || len(org) != 1 {
			return
		}
		for _, u := range *b.Referrers() {
			if iff, ok := u.(*ssa.If); ok {
				t, f := sx.Edge{From: iff.Block(), Idx: 0}, sx.Edge{From: iff.Block(), Idx: 1}
				if b.Op == token.EQL {
					isNil[t], nonNil[f] = true, true
				} else {
					nonNil[t], isNil[f] = true, true
				}
			}
		}
	})
	return
}

// afterJSONStep: every path of the Parse view from its entry to `at` passes the JSON step, where a path on which the
// step found no document to apply counts as having passed it (there is nothing a later source could be overwritten by).
func afterJSONStep(p *core.Prog, c *cfgInfo, at ssa.Instruction, jsonCut sx.Cut) bool {
	return sx.MustPass(c.Parse, nil, at, jsonCut)
}

func runC09(p *core.Prog, r *core.Report) {
	r.Rule("C09-R1", "application order: in everything Parse runs, a Value.Set happens only after the JSON step — except the config-path flag, from its command-line text only; defaults are applied only from NewFlagSet", 3)
	r.Rule("C09-R2", "cli beats env, silence writes nothing: Set from the environment text is reachable only when the command-line text is nil; every Set is reachable only when its own source pointer is non-nil; ArgValue/EnvValue are assigned only addresses of fresh strings", 4)
	r.Rule("C09-R3", "aliasing: the Value built for a field is a pointer conversion of the field's own address (reflect Addr().Interface()); the JSON step's target is the pointer given to NewFlagSet", 2)
	r.Rule("C09-R4", "sibling agreement of the Value.Set implementations: *v is assigned on every path; a parser runs only for non-empty text; the empty path assigns the zero value; the parser's error is returned; the type switch that builds Values covers every Value type", 9)
	r.Rule("C09-R5", "JSON carrier choice: the environment carrier is consulted only when the config path is empty", 1)
	r.Rule("C09-R6", "presence, not content: an environment value is recorded iff os.LookupEnv reports the variable present (an empty value still counts as mentioned)", 1)
	r.Rule("C09-R7", "the environment name of a nested field keeps a '_' separator between the group path and the field name", 0)
	r.Rule("C09-R8", "no package-level state: code reachable from NewFlagSet / Parse stores nothing into package variables of config (no memo, cache or shared scratch value survives from one FlagSet to the next)", 1)
	r.NotDecided = append(r.NotDecided, "the textual mappings: env-var spelling via strutil.Underscore, JSON key matching, what each strconv parser accepts")
	r.Trusted = append(r.Trusted, "encoding/json.Unmarshal leaves fields absent from the document untouched", "reflect.Value.Addr().Interface() yields a pointer to the field itself", "os.LookupEnv distinguishes unset from empty", "go/ssa")

	c := resolveConfig(p)
	if len(c.problems) > 0 {
		r.Fail("ANCHOR", "config", "-", strings.Join(c.problems, "; "))
		return
	}
	// JSON step: call in Parse whose callee reaches encoding/json.Unmarshal
	reachesJSON := func(fn *ssa.Function) bool {
		hit := false
		for f := range reachableFrom(p, fn) {
			sx.Instrs(f, func(in ssa.Instruction) {
				if cc, ok := in.(ssa.CallInstruction); ok {
					n := sx.CalleeName(cc)
					if n == "encoding/json.Unmarshal" || n == "(*encoding/json.Decoder).Decode" {
						hit = true
					}
				}
			})
		}
		return hit
	}
	// the JSON step: in the view, the decoder call itself (or a module callee that was not expanded and reaches it)
	jsonCut := sx.Cut{Instrs: map[ssa.Instruction]bool{}}
	sx.Instrs(c.Parse, func(in ssa.Instruction) {
		if cc, ok := in.(*ssa.Call); ok {
			n := sx.CalleeName(cc)
			if n == "encoding/json.Unmarshal" || n == "(*encoding/json.Decoder).Decode" {
				jsonCut.Instrs[in] = true
			}
			if callee := sx.StaticCallee(cc); callee != nil && p.InModule(callee) && reachesJSON(callee) {
				jsonCut.Instrs[in] = true
			}
		}
	})
	if len(jsonCut.Instrs) == 0 {
		r.Fail("C09-R1", "Parse: JSON step", p.FuncPos(c.Parse), "no call in Parse reaches encoding/json.Unmarshal")
		return
	}
	// a Set behind the JSON step: the step either ran or was skipped because no document was given; both are "after"
	// in the sense of the rule only if every path to the Set passed the point where the document is applied. A path on
	// which no document exists passes no decoder call: those paths are cut at the carrier's "nothing found" exits below.

	// ---- R1 / R2: every Set reachable from Parse
	nSet := 0
	fl := c.ViewFns
	for _, fn := range fl {
		sx.Instrs(fn, func(in ssa.Instruction) {
			call, ok := in.(ssa.CallInstruction)
			if !ok || !c.isSet(call) {
				return
			}
			nSet++
			src := setSource(call)
			construct := fmt.Sprintf("Set #%d in %s (text from %s)", nSet, fnName(fn), src)
			afterJSON := fn == c.Parse && afterJSONStep(p, c, in, jsonCut)
			if fn != c.Parse {
				// a helper: every call chain from Parse to it must start after the JSON step
				var after func(f *ssa.Function, depth int) bool
				after = func(f *ssa.Function, depth int) bool {
					if depth > 4 {
						return false
					}
					// call sites of f among the functions of the view
					found := false
					for _, g := range c.ViewFns {
						okAll := true
						sx.Instrs(g, func(i2 ssa.Instruction) {
							cs, isCall := i2.(ssa.CallInstruction)
							if !isCall || !sameFn(sx.StaticCallee(cs), f) {
								return
							}
							found = true
							if g == c.Parse {
								if !afterJSONStep(p, c, i2, jsonCut) {
									okAll = false
								}
							} else if !after(rootFn(g), depth+1) {
								okAll = false
							}
						})
						if !okAll {
							return false
						}
					}
					return found
				}
				afterJSON = after(fn, 0)
			}
			if afterJSON {
				r.OK("C09-R1", construct, p.Pos(in.Pos()), "runs after the JSON step")
			} else {
				// exception: the config-path flag from cli text
				recvOrg := sx.Origins(sx.Args(call)[0])
				isCfgFlag := false
				// receiver loaded from the Flag found by flagMap[<const>]
				sx.Instrs(fn, func(i2 ssa.Instruction) {
					if lk, ok := i2.(*ssa.Lookup); ok && lk.CommaOk {
						if _, isC := sx.ConstString(lk.Index); isC && flagMapField(c.FlagSet) != nil && sx.Origins(lk.X)["field:FlagSet."+flagMapField(c.FlagSet).Name()] {
							// the Set receiver's Flag derives from this lookup
							if fa, ok := valueFieldBase(sx.Args(call)[0]); ok {
								if e, ok := fa.(*ssa.Extract); ok && e.Tuple == ssa.Value(lk) {
									isCfgFlag = true
								}
							}
						}
					}
				})
				_ = recvOrg
				okEx := fn == c.Parse && isCfgFlag && src == "cli"
				_ = okEx
				r.Check(okEx, "C09-R1", construct, p.Pos(in.Pos()), "the config-path flag, from its command-line text, before the JSON step (needed to find the file)", "a value is written into the user's struct before the JSON step (text from "+src+"): the JSON document — or a later, lower-priority source — overwrites it, so the higher-priority source loses")
			}
			// R2 guards (for sets driven by cli/env text). The text pointer may be chosen by a helper
			// (`src := flag.textSource()`): then it is a phi of the two source pointers and each incoming edge is judged
			// as its own case — the presence test may be on the merged pointer, the "cli is silent" test must hold on the
			// edge that brings the environment pointer
			type srcCase struct {
				src string
				at  ssa.Instruction
				via *sx.Edge // the edge into the merge block (nil when the text is not merged)
			}
			holds := func(cs srcCase, edges map[sx.Edge]bool) bool {
				if len(edges) == 0 {
					return false
				}
				if cs.via != nil && edges[*cs.via] {
					return true
				}
				return sx.MustPass(fn, nil, cs.at, sx.Cut{Edges: edges})
			}
			cases := []srcCase{{src, in, nil}}
			var merged *ssa.Phi
			{
				args := call.Common().Args
				if ld, ok := args[len(args)-1].(*ssa.UnOp); ok && ld.Op == token.MUL {
					if ph, ok := ld.X.(*ssa.Phi); ok {
						merged = ph
						cases = nil
						for k, e := range ph.Edges {
							org := sx.Origins(e)
							cls := "other " + keys(org)
							switch {
							case org["field:Flag.ArgValue"] && len(org) == 1:
								cls = "cli"
							case org["field:Flag.EnvValue"] && len(org) == 1:
								cls = "env"
							}
							pred := ph.Block().Preds[k]
							var via *sx.Edge
							for si, sb := range pred.Succs {
								if sb == ph.Block() {
									via = &sx.Edge{From: pred, Idx: si}
								}
							}
							cases = append(cases, srcCase{cls, pred.Instrs[len(pred.Instrs)-1], via})
						}
					}
				}
			}
			present := func(key string) map[sx.Edge]bool {
				_, nonNil := fieldNilEdges(fn, key)
				if merged != nil {
					_, nn := sx.NilEdges(merged)
					for e := range nn {
						nonNil[e] = true
					}
				}
				return nonNil
			}
			// the presence test made on the merged pointer, between the merge and the Set (`if text == nil { continue }`)
			mergedPresent := func() bool {
				if merged == nil {
					return false
				}
				_, nn := sx.NilEdges(merged)
				return len(nn) > 0 && sx.MustPass(fn, nil, in, sx.Cut{Edges: nn})
			}
			for _, cs := range cases {
				switch cs.src {
				case "cli":
					nonNil := present("field:Flag.ArgValue")
					r.Check(holds(cs, nonNil) || mergedPresent(), "C09-R2", construct+": only when the cli text is present", p.Pos(in.Pos()), "behind ArgValue != nil", "Set from the command-line text is reachable when ArgValue is nil")
				case "env":
					nonNil := present("field:Flag.EnvValue")
					argNil, _ := fieldNilEdges(fn, "field:Flag.ArgValue")
					r.Check(holds(cs, nonNil) || mergedPresent(), "C09-R2", construct+": only when the env text is present", p.Pos(in.Pos()), "behind EnvValue != nil", "Set from the environment text is reachable when EnvValue is nil")
					r.Check(holds(cs, argNil), "C09-R2", construct+": only when the cli is silent", p.Pos(in.Pos()), "behind ArgValue == nil", "Set from the environment text is reachable although a command-line value exists: env would override cli")
				default:
					if merged != nil {
						r.Fail("C09-R2", construct+": merged text source", p.Pos(in.Pos()), "the text given to Set is chosen among "+cs.src+": neither the command-line nor the environment text")
					}
				}
			}
		})
	}
	// converse of the guards: when the command line mentions a flag, its text is applied on every path that moves on to
	// the next flag (an early `continue` for "unchanged" text would let a lower-priority source win)
	for _, fn := range fl {
		_, cliNonNil := fieldNilEdges(fn, "field:Flag.ArgValue")
		if len(cliNonNil) == 0 {
			continue
		}
		cut := sx.Cut{Instrs: map[ssa.Instruction]bool{}}
		sx.Instrs(fn, func(in ssa.Instruction) {
			if call, ok := in.(ssa.CallInstruction); ok && c.isSet(call) && setSource(call) == "cli" {
				cut.Instrs[in] = true
			}
		})
		if len(cut.Instrs) == 0 {
			continue
		}
		// the loop over the flags: the one around a cli-driven Set (the config-path flag's own Set, before the JSON step,
		// is not in a loop) — chosen independently of map order
		var hdr *ssa.BasicBlock
		for in := range cut.Instrs {
			if h := sx.InnermostLoop(fn, in.Block()); h != nil && (hdr == nil || h.Index < hdr.Index) {
				hdr = h
			}
		}
		ok := true
		baseCut := cut
		for e := range cliNonNil {
			tb := e.To()
			if len(tb.Instrs) == 0 {
				continue
			}
			first := tb.Instrs[0]
			if baseCut.Instrs[first] {
				continue
			}
			// a pointer merged in the target block from the command-line text over this very edge is non-nil on the paths
			// that start here: its `== nil` edges are not taken (`text := ArgValue; if text == nil { text = EnvValue }; if
			// text == nil { continue }`)
			cut := sx.Cut{Instrs: baseCut.Instrs, Edges: map[sx.Edge]bool{}}
			for _, in := range tb.Instrs {
				ph, isPhi := in.(*ssa.Phi)
				if !isPhi {
					break
				}
				for k, pred := range tb.Preds {
					if pred == e.From {
						if org := sx.Origins(ph.Edges[k]); len(org) == 1 && org["field:Flag.ArgValue"] {
							isNil, _ := sx.NilEdges(ph)
							for ne := range isNil {
								cut.Edges[ne] = true
							}
						}
					}
				}
			}
			// from the "cli text present" edge: the next iteration / a nil return must not be reachable without the Set
			if hdr != nil {
				for be := range sx.BackEdgesTo(hdr) {
					if cut.Edges[be] {
						continue // this way back to the loop head is the pointer's `== nil` edge: not taken on these paths
					}
					term := be.From.Instrs[len(be.From.Instrs)-1]
					if first == term || sx.ReachInstr(fn, first, term, cut) {
						ok = false
					}
				}
			} else {
				for _, ret := range sx.Returns(fn) {
					if sx.IsNilConst(returnValue(ret, 0)) && sx.ReachInstr(fn, first, ret, cut) {
						ok = false
					}
				}
			}
		}
		r.Check(ok, "C09-R2", "a flag mentioned on the command line is always applied (in "+fnName(fn)+")", p.FuncPos(fn), "no path from `ArgValue != nil` moves on without Set(*ArgValue)", "a path skips Set although the command line mentions the flag (e.g. text equal to the cached default): the JSON or environment value survives a higher-priority source")
	}

	// an explicit empty command-line value is a value (it must win over env / file / default like any other)
	inlineValueRule(p, r, c, "C09-R2")

	// defaults only from NewFlagSet
	for _, fn := range c.Fns {
		sx.Instrs(fn, func(in ssa.Instruction) {
			call, ok := in.(ssa.CallInstruction)
			if !ok || !c.isSet(call) || c.FromP[fn] {
				return
			}
			fromNew := reachableFrom(p, c.NewSet)[fn]
			r.Check(fromNew, "C09-R1", "Set in "+fnName(fn)+" (text from "+setSource(call)+") runs at NewFlagSet time", p.Pos(in.Pos()), "defaults are applied while the FlagSet is built", "a Set outside Parse and NewFlagSet")
		})
	}
	// ArgValue / EnvValue writers
	for _, fname := range []string{"ArgValue", "EnvValue"} {
		f := fieldByName(c.Flag, fname)
		if f == nil {
			r.Fail("C09-R2", "Flag."+fname, "-", "field not found")
			continue
		}
		for _, ref := range sx.FieldRefs(p.ModuleFuncs(), f) {
			fa, ok := ref.Instr.(*ssa.FieldAddr)
			if !ok {
				continue
			}
			for _, a := range sx.Accesses(fa) {
				if a.Kind != "write" {
					continue
				}
				// one fresh local, or one of several merged at the assignment (a nil alternative records nothing)
				okW, nFresh := c.FromP[ref.Fn], 0
				for _, lf := range leaves(a.Val) {
					if cst, isC := lf.(*ssa.Const); isC && cst.IsNil() {
						continue
					}
					if al, isAlloc := lf.(*ssa.Alloc); isAlloc && al.Heap {
						nFresh++
						continue
					}
					okW = false
				}
				okW = okW && nFresh > 0
				r.Check(okW, "C09-R2", "Flag."+fname+" assigned in "+fnName(ref.Fn), p.Pos(a.Instr.Pos()), "address of a fresh string, while parsing", "Flag."+fname+" is assigned "+sx.ValPath(a.Val)+": not the address of a fresh string captured during Parse")
			}
		}
	}

	// ---- R1 (converse): Parse does not report success before the sources were applied — every return that can carry a
	// nil error lies behind the loop that hands the command-line / environment text to every flag
	{
		hdrs := map[*ssa.BasicBlock]bool{}
		sx.Instrs(c.Parse, func(in ssa.Instruction) {
			call, ok := in.(ssa.CallInstruction)
			if !ok || !c.isSet(call) {
				return
			}
			if h := sx.InnermostLoop(c.Parse, in.Block()); h != nil {
				hdrs[h] = true
			}
		})
		var bad []string
		n := 0
		for _, ret := range sx.Returns(c.Parse) {
			if len(ret.Results) == 0 {
				continue
			}
			// `if err != nil { return err }`: whatever err merges, this return carries an error
			if _, nn := sx.NilEdges(returnValue(ret, len(ret.Results)-1)); len(nn) > 0 && sx.MustPass(c.Parse, nil, ret, sx.Cut{Edges: nn}) {
				continue
			}
			for _, rc := range retCases(ret, len(ret.Results)-1) {
				// a value that is known to be an error here: errors.New / fmt.Errorf, or a call result behind its own != nil edge
				v := sx.Unspill(rc.Val)
				allErr := true
				for _, lf := range leaves(v) {
					switch x := sx.Unspill(lf).(type) {
					case *ssa.Call:
						if nm := sx.CalleeName(x); nm != "errors.New" && nm != "fmt.Errorf" {
							allErr = false
						}
					case *ssa.MakeInterface:
					default:
						allErr = false
					}
				}
				if allErr {
					continue
				}
				if !sx.IsNilConst(v) {
					_, nonNil := sx.NilEdges(v)
					if len(nonNil) > 0 && sx.MustPass(c.Parse, nil, rc.At, sx.Cut{Edges: nonNil}) {
						continue
					}
					// the value arrives over its own `!= nil` edge
					viaOwn := false
					if rc.To != nil {
						for e := range nonNil {
							if e.From == rc.At.Block() && e.To() == rc.To {
								viaOwn = true
							}
						}
					}
					if viaOwn {
						continue
					}
					// the value is merged with others and the merged value is tested: `err = stage(); if err != nil { return err }`
					// where other (constant) errors jump to the same return directly
					guarded := false
					if v.Referrers() != nil {
						for _, u := range *v.Referrers() {
							ph, ok := u.(*ssa.Phi)
							if !ok {
								continue
							}
							_, nn := sx.NilEdges(ph)
							for e := range nn {
								if e.From == ph.Block() && (e.To() == ret.Block() || (len(e.To().Succs) == 1 && e.To().Succs[0] == ret.Block())) {
									guarded = true
								}
							}
						}
					}
					if guarded {
						continue
					}
				}
				n++
				if os.Getenv("GLB_C09_DEBUG") != "" {
					fmt.Fprintf(os.Stderr, "C09 ret case: ret block %d val %s at block %d\n", ret.Block().Index, v.Name(), rc.At.Block().Index)
					c.Parse.WriteTo(os.Stderr)
				}
				if len(hdrs) == 0 || !sx.MustPass(c.Parse, nil, rc.At, sx.Cut{Blocks: hdrs}) {
					bad = append(bad, "the return at "+p.Pos(ret.Pos())+" can report success (error value "+short(sx.ValPath(v))+") on a path that never entered the loop applying the command-line and environment text")
				}
			}
		}
		r.Check(len(bad) == 0 && n > 0 && len(hdrs) > 0, "C09-R1", "Parse succeeds only after the sources were applied to every flag", p.FuncPos(c.Parse), fmt.Sprintf("%d possibly-nil return(s), all behind the apply loop", n), strings.Join(uniq(bad), "; ")+": fields keep their defaults although the command line, the environment or the JSON document mention them")
	}

	// convenience entry points (FromCommandLine): an exported function that builds a FlagSet and reports success has
	// parsed it — no shortcut (no arguments given, say) may skip Parse, which is also what applies environment and file
	for _, fn := range p.PkgFuncs("config") {
		if fn.Parent() != nil || fn.Blocks == nil || fn.Object() == nil || !fn.Object().Exported() || sameFn(fn, c.NewSet) || fn.Signature.Recv() != nil {
			continue
		}
		var parses []ssa.Instruction
		builds := false
		sx.Instrs(fn, func(in ssa.Instruction) {
			if call, ok := in.(ssa.CallInstruction); ok {
				if callee := sx.StaticCallee(call); callee != nil {
					if sameFn(callee, c.NewSet) {
						builds = true
					}
					if sameFn(callee, c.ParseSrc) {
						parses = append(parses, in)
					}
				}
			}
		})
		res := fn.Signature.Results()
		if !builds || res.Len() == 0 || res.At(res.Len()-1).Type().String() != "error" {
			continue
		}
		cut := sx.Cut{Instrs: map[ssa.Instruction]bool{}}
		for _, in := range parses {
			cut.Instrs[in] = true
		}
		var bad []string
		n := 0
		for _, ret := range sx.Returns(fn) {
			for _, rc := range retCases(ret, res.Len()-1) {
				if cst, isC := rc.Val.(*ssa.Const); !isC || !cst.IsNil() {
					continue
				}
				n++
				if len(parses) == 0 || !sx.MustPass(fn, nil, rc.At, cut) {
					bad = append(bad, "the return at "+p.Pos(ret.Pos())+" reports success on a path that never called Parse")
				}
			}
		}
		r.Check(len(bad) == 0, "C09-R1", fnName(fn)+" reports success only after Parse", p.FuncPos(fn), fmt.Sprintf("%d success return(s), all behind the call of Parse", n), strings.Join(uniq(bad), "; ")+": environment variables and the configuration file are ignored on that path, every field keeps its tag default")
	}

	// ---- R7 (state): what a FlagSet decides depends on its own struct, arguments, environment and file only — code
	// reachable from NewFlagSet / Parse keeps nothing in package-level variables between FlagSets (a memo of env names, a
	// shared scratch value): no store to a package variable of config, no Store/Swap/Delete on a package-level sync.Map
	{
		var stateful []string
		scope := map[*ssa.Function]bool{}
		for _, root := range []*ssa.Function{c.NewSet, c.ParseSrc} {
			for f := range reachableFrom(p, root) {
				if p.InModule(rootFn(f)) {
					scope[f] = true
				}
			}
		}
		inMod := func(g *ssa.Global) bool {
			return g.Pkg != nil && p.Pkgs != nil && strings.HasPrefix(g.Pkg.Pkg.Path(), c.ParseSrc.Pkg.Pkg.Path()[:strings.LastIndex(c.ParseSrc.Pkg.Pkg.Path(), "/")])
		}
		// package variables that hold a once-only memo (`var home = sync.OnceValues(os.UserHomeDir)`)
		memo := map[*ssa.Global]string{}
		for _, sp := range p.SPkgs {
			f := sp.Func("init")
			if f == nil {
				continue
			}
			sx.Instrs(f, func(in ssa.Instruction) {
				st, ok := in.(*ssa.Store)
				if !ok {
					return
				}
				g, ok := st.Addr.(*ssa.Global)
				if !ok {
					return
				}
				for o := range sx.Origins(st.Val) {
					if strings.HasPrefix(o, "call:sync.Once") {
						memo[g] = strings.TrimPrefix(o, "call:")
					}
				}
			})
		}
		for f := range scope {
			if f.Name() == "init" {
				continue
			}
			sx.Instrs(f, func(in ssa.Instruction) {
				switch x := in.(type) {
				case *ssa.UnOp:
					if g, ok := x.X.(*ssa.Global); ok && x.Op == token.MUL && memo[g] != "" {
						stateful = append(stateful, "package variable "+g.Name()+" is a "+memo[g]+" memo, used in "+fnName(f)+" at "+p.Pos(in.Pos())+" (what it computed for the first Parse — from the environment of that moment — is served to every later one)")
					}
				case *ssa.Store:
					a := x.Addr
					if fa, ok := a.(*ssa.FieldAddr); ok {
						a = fa.X
					}
					if ia, ok := a.(*ssa.IndexAddr); ok {
						a = ia.X
					}
					if g, ok := a.(*ssa.Global); ok && inMod(g) {
						stateful = append(stateful, "store to package variable "+g.Name()+" in "+fnName(f)+" at "+p.Pos(in.Pos()))
					}
				case ssa.CallInstruction:
					n := sx.CalleeName(x)
					if n == "(*sync.Once).Do" {
						if args := sx.Args(x); len(args) > 0 {
							if g, ok := args[0].(*ssa.Global); ok && inMod(g) {
								stateful = append(stateful, "sync.Once on package variable "+g.Name()+" in "+fnName(f)+" at "+p.Pos(in.Pos()))
							}
						}
					}
					if strings.HasPrefix(n, "(*sync.Map).") && !strings.HasSuffix(n, ".Load") && !strings.HasSuffix(n, ".Range") {
						if args := sx.Args(x); len(args) > 0 {
							if g, ok := args[0].(*ssa.Global); ok && inMod(g) {
								stateful = append(stateful, short(n)+" on package variable "+g.Name()+" in "+fnName(f)+" at "+p.Pos(in.Pos()))
							}
						}
					}
				case *ssa.MapUpdate:
					if ld, ok := x.Map.(*ssa.UnOp); ok {
						if g, ok := ld.X.(*ssa.Global); ok && inMod(g) {
							stateful = append(stateful, "insert into package-level map "+g.Name()+" in "+fnName(f)+" at "+p.Pos(in.Pos()))
						}
					}
				}
			})
		}
		sort.Strings(stateful)
		r.Check(len(stateful) == 0, "C09-R8", "building and parsing a FlagSet keeps no package-level state", p.FuncPos(c.NewSet), "no store to, insert into or sync.Map update of a package variable from NewFlagSet / Parse", strings.Join(uniq(stateful), "; ")+": a later FlagSet (another struct that embeds the same type, another prefix) inherits what an earlier one left there — e.g. environment names computed for a different field path")
	}

	// ---- R3
	{
		var builder *ssa.Function
		for _, fn := range c.Fns {
			sx.Instrs(fn, func(in ssa.Instruction) {
				if cc, ok := in.(*ssa.Call); ok && sx.CalleeName(cc) == "(reflect.Value).Interface" {
					if a, ok := cc.Call.Args[0].(*ssa.Call); ok && sx.CalleeName(a) == "(reflect.Value).Addr" {
						builder = fn
					}
				}
			})
		}
		if builder == nil {
			r.Fail("C09-R3", "Value builder", "-", "no function converts reflect Addr().Interface() into a Value")
		} else {
			builder = p.Inl(builder) // a helper holding the type switch is seen in place
			okAll, n := true, 0
			why := ""
			sx.Instrs(builder, func(in ssa.Instruction) {
				mi, ok := in.(*ssa.MakeInterface)
				if !ok || !types.Identical(mi.Type(), c.ValueI) {
					return
				}
				n++
				org := sx.Origins(mi.X)
				if !(org["call:(reflect.Value).Interface"] && len(org) == 1) {
					okAll = false
					why = "a Value is built from " + keys(org) + " at " + p.Pos(mi.Pos()) + ", not from the field's own address: Set would write a copy"
				}
			})
			// the tag default is handed to every Value built for a struct field before the Value is installed in its Flag
			// (an empty default means the zero value, not "whatever the field held") — whether the builder does it or its
			// caller: judged on the package's views, where the builder is seen in place
			{
				valueF := fieldByName(c.Flag, "Value")
				okDef, nInst := true, 0
				whyDef := ""
				var vfns []*ssa.Function
				for _, v := range pkgViews(p, "config") {
					vfns = append(vfns, sx.WithClosures(v.Fn)...)
				}
				seenSt := map[ssa.Instruction]bool{}
				for _, fn := range vfns {
					fn := fn
					cutS := sx.Cut{Instrs: map[ssa.Instruction]bool{}}
					sx.Instrs(fn, func(in ssa.Instruction) {
						if call, ok := in.(ssa.CallInstruction); ok && c.isSet(call) {
							cutS.Instrs[in] = true
						}
					})
					sx.Instrs(fn, func(in ssa.Instruction) {
						st, ok := in.(*ssa.Store)
						if !ok || valueF == nil {
							return
						}
						fa, ok := st.Addr.(*ssa.FieldAddr)
						if !ok || sx.FieldOf(fa) != valueF || !sx.Origins(st.Val)["call:(reflect.Value).Interface"] {
							return
						}
						if o := sx.OrigInstr(in); seenSt[o] {
							return
						} else {
							seenSt[o] = true
						}
						nInst++
						if len(cutS.Instrs) == 0 || !sx.MustPass(fn, nil, in, cutS) {
							okDef = false
							whyDef = "the Value installed in a Flag at " + p.Pos(in.Pos()) + " (in " + fnName(fn) + ") can get there without Set(default) having been called"
						}
					})
				}
				r.Check(okDef && nInst > 0, "C09-R4", "the tag default is applied to every field Value before it is installed", p.FuncPos(builder), fmt.Sprintf("%d installation(s) of a field Value into a Flag, each behind value.Set(default)", nInst), whyDef+" (e.g. when the default is empty): the field keeps whatever the caller's struct held, not the zero value the empty default stands for")
			}
			r.Check(okAll && n > 0, "C09-R3", "Values alias the struct fields", p.FuncPos(builder), fmt.Sprintf("%d Value constructions, each a pointer conversion of v.Addr().Interface()", n), why)
			// R4 (coverage of the type switch): every type implementing Value (pointer receiver) is produced here
			produced := map[string]bool{}
			sx.Instrs(builder, func(in ssa.Instruction) {
				if mi, ok := in.(*ssa.MakeInterface); ok && types.Identical(mi.Type(), c.ValueI) {
					produced[mi.X.Type().String()] = true
				}
			})
			scope := p.Pkgs["config"].Types.Scope()
			var missing []string
			for _, nm := range scope.Names() {
				tn, ok := scope.Lookup(nm).(*types.TypeName)
				if !ok || types.IsInterface(tn.Type()) {
					continue
				}
				pt := types.NewPointer(tn.Type())
				if implementsValue(pt, c.ValueI) && !produced[pt.String()] {
					missing = append(missing, nm)
				}
			}
			r.Check(len(missing) == 0, "C09-R4", "the Value builder covers every Value type", p.FuncPos(builder), fmt.Sprintf("%d Value types, all produced by the type switch", len(produced)), "Value types never produced by the builder: "+strings.Join(missing, ", "))
		}
		// JSON target
		ptr := fieldByName(c.FlagSet, "ptr")
		if ptr == nil {
			// by role: the interface-typed field of FlagSet that NewFlagSet fills from its first parameter
			for _, f := range structFields(c.FlagSet) {
				if !types.IsInterface(f.Type()) {
					continue
				}
				for _, ref := range sx.FieldRefs([]*ssa.Function{p.Inl(c.NewSet)}, f) {
					if fa, ok := ref.Instr.(*ssa.FieldAddr); ok {
						for _, a := range sx.Accesses(fa) {
							if a.Kind == "write" && sx.Origins(a.Val)["param:"+c.NewSet.Params[0].Name()] {
								ptr = f
							}
						}
					}
				}
			}
		}
		okPtr := ptr != nil
		why := "field FlagSet.ptr not found"
		if ptr != nil {
			for _, ref := range sx.FieldRefs(p.ModuleFuncs(), ptr) {
				fa, ok := ref.Instr.(*ssa.FieldAddr)
				if !ok {
					continue
				}
				for _, a := range sx.Accesses(fa) {
					if a.Kind == "write" {
						org := sx.Origins(a.Val)
						if !sameFn(rootFn(ref.Fn), c.NewSet) || !org["param:"+c.NewSet.Params[0].Name()] {
							okPtr, why = false, "FlagSet.ptr assigned from "+keys(org)+" in "+fnName(ref.Fn)
						}
					}
				}
			}
			for f := range c.FromP {
				sx.Instrs(f, func(in ssa.Instruction) {
					if cc, ok := in.(*ssa.Call); ok && (sx.CalleeName(cc) == "encoding/json.Unmarshal" || strings.HasSuffix(sx.CalleeName(cc), "config.JsonUnmarshal")) {
						tgt := cc.Call.Args[len(cc.Call.Args)-1]
						org := sx.Origins(tgt)
						if f != p.Func("config", "JsonUnmarshal") && !org["field:FlagSet."+ptr.Name()] {
							okPtr, why = false, "the JSON step unmarshals into "+keys(org)+", not into the struct given to NewFlagSet"
						}
					}
				})
			}
		}
		// …and reads the document as it was given: the bytes handed to the decoder come from the file or from the decoded
		// environment carrier and from nowhere else (no expansion, templating or rewriting in between)
		if len(c.JSONStep) > 0 {
			jv := p.Inl(c.JSONStep[0])
			okDoc, nDec := true, 0
			whyDoc := ""
			sx.Instrs(jv, func(in ssa.Instruction) {
				cc, ok := in.(*ssa.Call)
				if !ok || len(cc.Call.Args) < 2 {
					return
				}
				if n := sx.CalleeName(cc); n != "encoding/json.Unmarshal" && !strings.HasSuffix(n, "config.JsonUnmarshal") {
					return
				}
				nDec++
				for o := range sx.Origins(cc.Call.Args[0]) {
					if !strings.HasPrefix(o, "call:") {
						continue
					}
					switch strings.TrimPrefix(o, "call:") {
					case "os.ReadFile", "io.ReadAll", "(*encoding/base64.Encoding).DecodeString", "(*encoding/base64.Encoding).Decode", "(*encoding/base64.Encoding).AppendDecode", "bytes.TrimSpace", "(*bytes.Buffer).Bytes":
					default:
						okDoc = false
						whyDoc = "the bytes given to the JSON decoder at " + p.Pos(cc.Pos()) + " pass through " + strings.TrimPrefix(o, "call:") + ": the document applied is not the one the file / " + "the environment carrier holds"
					}
				}
			})
			if nDec > 0 {
				r.Check(okDoc, "C09-R3", "the JSON step decodes the document as given", p.FuncPos(jv), "decoder input comes from os.ReadFile / base64 decoding only", whyDoc+" (e.g. `$`-sequences in string values are expanded: the field gets neither the JSON value nor anything a higher-priority source said)")
			}
		}
		r.Check(okPtr, "C09-R3", "the JSON step writes the struct given to NewFlagSet", p.FuncPos(c.NewSet), "FlagSet.ptr is NewFlagSet's argument and the only JSON target", why)
	}

	// ---- R4: sibling Set implementations
	{
		scope := p.Pkgs["config"].Types.Scope()
		for _, nm := range scope.Names() {
			tn, ok := scope.Lookup(nm).(*types.TypeName)
			if !ok || types.IsInterface(tn.Type()) || !implementsValue(types.NewPointer(tn.Type()), c.ValueI) {
				continue
			}
			set := p.Method("config", nm, "Set")
			if set == nil {
				continue
			}
			checkSetSibling(p, r, nm, p.Inl(set))
		}
	}

	// ---- R5
	{
		var pj *ssa.Function
		if len(c.JSONStep) > 0 {
			pj = p.Inl(c.JSONStep[0]) // the JSON step with its own helpers expanded
		}
		if pj == nil {
			r.Fail("C09-R5", "JSON carrier function", "-", "not found")
		} else {
			emptyEdges := map[sx.Edge]bool{}
			sx.Instrs(pj, func(in ssa.Instruction) {
				b, ok := in.(*ssa.BinOp)
				if !ok || (b.Op != token.EQL && b.Op != token.NEQ) {
					return
				}
				if s, isC := sx.ConstString(b.Y); !isC || s != "" {
					return
				}
				org := sx.Origins(b.X)
				okSrc := false
				for o := range org {
					if strings.Contains(o, "stringValue") {
						okSrc = true
					}
					// the string-kinded Value field of the FlagSet that backs the built-in -config flag (whatever it is called)
					for _, f := range structFields(c.FlagSet) {
						if bt, isB := f.Type().Underlying().(*types.Basic); isB && bt.Kind() == types.String && o == "field:"+c.FlagSet.Obj().Name()+"."+f.Name() {
							okSrc = true
						}
					}
				}
				if !okSrc {
					return
				}
				for _, u := range *b.Referrers() {
					if iff, ok := u.(*ssa.If); ok {
						idx := 0
						if b.Op == token.NEQ {
							idx = 1
						}
						emptyEdges[sx.Edge{From: iff.Block(), Idx: idx}] = true
					}
				}
			})
			n := 0
			okAll := true
			sx.Instrs(pj, func(in ssa.Instruction) {
				if cc, ok := in.(*ssa.Call); ok && (sx.CalleeName(cc) == "os.LookupEnv" || sx.CalleeName(cc) == "os.Getenv") {
					n++
					if len(emptyEdges) == 0 || !sx.MustPass(pj, nil, in, sx.Cut{Edges: emptyEdges}) {
						okAll = false
					}
				}
			})
			r.Check(okAll && n > 0, "C09-R5", fnName(pj)+": env carrier only when no config path", p.FuncPos(pj), "the environment carrier is read only on the path where the config path is empty", "the CFG_CONFIG_B64 carrier is consulted although -config names a file (or the emptiness test was not found)")
		}
	}

	// ---- R7: env names of nested fields keep a separator between the group path and the field name
	{
		envF := fieldByName(c.Flag, "Env")
		n := 0
		var r7Fns []*ssa.Function // the package's inlined views: a flag-building helper is seen inside the recursive walker
		for _, v := range pkgViews(p, "config") {
			r7Fns = append(r7Fns, sx.WithClosures(v.Fn)...)
		}
		for _, fn := range r7Fns {
			fn := fn
			for _, ref := range sx.FieldRefs([]*ssa.Function{fn}, envF) {
				fa, ok := ref.Instr.(*ssa.FieldAddr)
				if !ok {
					continue
				}
				for _, a := range sx.Accesses(fa) {
					if a.Kind != "write" {
						continue
					}
					call, ok := a.Val.(*ssa.Call)
					if !ok || len(call.Call.Args) == 0 {
						continue
					}
					parts := concatParts(call.Call.Args[0])
					// which part is the group path parameter, which the field name?
					gi, fi := -1, -1
					var groupParam *ssa.Parameter
					for i, pt := range parts {
						if prm, ok := pt.(*ssa.Parameter); ok && isStringT(prm.Type()) {
							gi, groupParam = i, prm
						}
						if sx.Origins(pt)["field:StructField.Name"] {
							fi = i
						}
					}
					if gi < 0 || fi < 0 || groupParam == nil {
						continue
					}
					n++
					// separator either at the use site between group and field name, or at the end of the group argument of the recursive call
					sepHere := false
					for i := gi + 1; i < fi; i++ {
						if s, ok := sx.ConstString(parts[i]); ok && strings.Contains(s, "_") {
							sepHere = true
						}
					}
					sepRec, nRec := true, 0
					sx.Instrs(fn, func(in ssa.Instruction) {
						rc, ok := in.(*ssa.Call)
						if !ok || !sameFn(sx.StaticCallee(rc), fn) {
							return
						}
						for i, prm := range fn.Params {
							if prm != groupParam || i >= len(rc.Call.Args) {
								continue
							}
							nRec++
							ps := concatParts(rc.Call.Args[i])
							last := ps[len(ps)-1]
							if s, ok := sx.ConstString(last); !ok || !strings.HasSuffix(s, "_") {
								sepRec = false
							}
						}
					})
					ok2 := sepHere || (nRec > 0 && sepRec)
					r.Check(ok2, "C09-R7", "env name keeps '_' between the nested struct's name and the field name (in "+fnName(fn)+")", p.Pos(a.Instr.Pos()), "separator present", "the group path handed to nested structs does not end with '_' (and none is inserted when the name is built): `DB` + `URL` becomes CFG_DBURL instead of CFG_DB_URL, so the documented variable is never read")
				}
			}
		}
		if n == 0 {
			r.Note("C09-R7: env name construction not recognised (no concatenation of a group parameter and the field name)")
		}
	}

	// ---- R6
	{
		ev := fieldByName(c.Flag, "EnvValue")
		n := 0
		for _, ref := range sx.FieldRefs(c.Fns, ev) {
			fa, ok := ref.Instr.(*ssa.FieldAddr)
			if !ok {
				continue
			}
			for _, a := range sx.Accesses(fa) {
				if a.Kind != "write" {
					continue
				}
				n++
				al, isAlloc := a.Val.(*ssa.Alloc)
				okSrc, okPresence := false, false
				var lookup *ssa.Call
				var rewritten []string // other values stored into the recorded string: the text is no longer verbatim
				if isAlloc {
					st, _ := sx.CellStores(al)
					for _, s := range st {
						if e, ok := s.(*ssa.Extract); ok && e.Index == 0 {
							if cc, ok := e.Tuple.(*ssa.Call); ok && (sx.CalleeName(cc) == "os.LookupEnv" || sx.CalleeName(cc) == "syscall.Getenv") {
								okSrc, lookup = true, cc
								continue
							}
						}
						rewritten = append(rewritten, sx.ValPath(s))
					}
				}
				why := "the recorded environment text does not come from os.LookupEnv (os.Getenv cannot tell an empty variable from an unset one: an empty CFG_* value would not count as mentioned and would not reset the field to its zero value)"
				if okSrc {
					// reachable only through ok == true, and from both outcomes of any test on the text itself
					cut := sx.Cut{Edges: map[sx.Edge]bool{}}
					for _, u := range *lookup.Referrers() {
						if e, ok := u.(*ssa.Extract); ok && e.Index == 1 {
							for _, uu := range *e.Referrers() {
								if iff, ok := uu.(*ssa.If); ok {
									cut.Edges[sx.Edge{From: iff.Block(), Idx: 0}] = true
								}
							}
						}
					}
					okPresence = len(cut.Edges) > 0 && sx.MustPass(ref.Fn, nil, a.Instr, cut)
					why = "the environment text is recorded on a path that does not depend on LookupEnv's presence result"
					// content tests
					sx.Instrs(ref.Fn, func(in ssa.Instruction) {
						b, ok := in.(*ssa.BinOp)
						if !ok || (b.Op != token.EQL && b.Op != token.NEQ) {
							return
						}
						for _, side := range []ssa.Value{b.X, b.Y} {
							for _, lf := range leaves(side) {
								if e, ok := lf.(*ssa.Extract); ok && e.Tuple == ssa.Value(lookup) && e.Index == 0 {
									for _, u := range *b.Referrers() {
										if iff, ok := u.(*ssa.If); ok {
											for idx := 0; idx < 2; idx++ {
												if sx.MustPass(ref.Fn, nil, a.Instr, sx.Cut{Edges: map[sx.Edge]bool{{From: iff.Block(), Idx: idx}: true}}) {
													okPresence = false
													why = "recording the environment text depends on a test of its content at " + p.Pos(in.Pos())
												}
											}
										}
									}
								}
							}
						}
					})
				}
				r.Check(okSrc && okPresence, "C09-R6", "EnvValue recorded iff the variable is present (in "+fnName(ref.Fn)+")", p.Pos(a.Instr.Pos()), "text from os.LookupEnv, recorded exactly when ok is true", why)
				if okSrc {
					sort.Strings(rewritten)
					r.Check(len(rewritten) == 0, "C09-R6", "EnvValue is the environment text verbatim (in "+fnName(ref.Fn)+")", p.Pos(a.Instr.Pos()), "the recorded string is assigned only the result of os.LookupEnv", "the recorded string is also assigned "+strings.Join(rewritten, ", ")+": a field whose winning source is the environment no longer holds the variable's value as given (trimmed, unquoted, expanded or replaced text)")
				}
			}
		}
		if n == 0 {
			r.Fail("C09-R6", "EnvValue is recorded", "-", "no assignment of Flag.EnvValue found")
		}
	}
}

// valueFieldBase: for a Set receiver loaded as `flag.Value`, return the *Flag value.
func valueFieldBase(recv ssa.Value) (ssa.Value, bool) {
	u, ok := recv.(*ssa.UnOp)
	if !ok || u.Op != token.MUL {
		return nil, false
	}
	fa, ok := u.X.(*ssa.FieldAddr)
	if !ok {
		return nil, false
	}
	return sx.Unspill(fa.X), true
}

var parserFns = map[string]string{
	"strconv.ParseBool": "bool", "strconv.ParseInt": "int", "strconv.ParseUint": "uint", "strconv.ParseFloat": "float",
	"time.ParseDuration": "duration", "(*encoding/base64.Encoding).DecodeString": "bytes", "strconv.Atoi": "int",
}

// parserName: the parser a call invokes — statically, or through a function value that is a constant of the program
// (a parser handed to a shared helper, a method value).
func parserName(c ssa.CallInstruction) string {
	n := sx.CalleeName(c)
	if n == "dynamic" {
		if fn, _ := sx.ResolveFuncValue(c.Common().Value); fn != nil {
			n = sx.FuncName(fn)
		}
	}
	return strings.TrimSuffix(n, "$bound")
}

func checkSetSibling(p *core.Prog, r *core.Report, typeName string, set *ssa.Function) {
	recv := set.Params[0]
	sParam := set.Params[1]
	c := typeName + ".Set"
	// stores through the receiver
	stores := map[ssa.Instruction]bool{}
	var storeVals []ssa.Value
	sx.Instrs(set, func(in ssa.Instruction) {
		if st, ok := in.(*ssa.Store); ok && st.Addr == ssa.Value(recv) {
			stores[in] = true
			storeVals = append(storeVals, st.Val)
		}
	})
	okAssign := len(stores) > 0
	for _, ret := range sx.Returns(set) {
		if !sx.MustPass(set, nil, ret, sx.Cut{Instrs: stores}) {
			okAssign = false
		}
	}
	// parser calls
	var parsers []*ssa.Call
	sx.Instrs(set, func(in ssa.Instruction) {
		if cc, ok := in.(*ssa.Call); ok {
			if _, is := parserFns[parserName(cc)]; is {
				parsers = append(parsers, cc)
			}
		}
	})
	// non-empty edges
	nonEmpty := map[sx.Edge]bool{}
	sx.Instrs(set, func(in ssa.Instruction) {
		b, ok := in.(*ssa.BinOp)
		if !ok || (b.Op != token.EQL && b.Op != token.NEQ) || b.X != ssa.Value(sParam) {
			return
		}
		if s, isC := sx.ConstString(b.Y); !isC || s != "" {
			return
		}
		for _, u := range *b.Referrers() {
			if iff, ok := u.(*ssa.If); ok {
				idx := 1
				if b.Op == token.NEQ {
					idx = 0
				}
				nonEmpty[sx.Edge{From: iff.Block(), Idx: idx}] = true
			}
		}
	})
	okGuard, okZero, okErr := true, true, true
	why := ""
	for _, pc := range parsers {
		if len(nonEmpty) == 0 || !sx.MustPass(set, nil, pc, sx.Cut{Edges: nonEmpty}) {
			okGuard = false
			why = sx.CalleeName(pc) + " runs for empty text (the empty string must mean the zero value, not a parse error)"
		}
	}
	// value assigned: leaves are the parser's result #0 or a zero constant
	for _, v := range storeVals {
		for _, lf := range leaves(stripConvs(v)) {
			switch x := stripConvs(lf).(type) {
			case *ssa.Const:
				z := x.Value == nil || x.Value.ExactString() == "0" || x.Value.ExactString() == "false" || x.Value.ExactString() == `""`
				if !z {
					okZero, why = false, "the value assigned without parsing is "+x.String()+", not the zero value"
				}
			case *ssa.Extract:
				if cc, ok := x.Tuple.(*ssa.Call); !ok || parserFns[parserName(cc)] == "" || x.Index != 0 {
					okZero, why = false, "assigned value derives from "+sx.ValPath(x)
				}
			case *ssa.Parameter:
				if x != sParam {
					okZero = false
				}
			default:
				okZero, why = false, "assigned value "+sx.ValPath(lf)+" is neither a recognised parser's result, the text itself nor the zero value (old value kept on empty input? memory shared with other values?)"
			}
		}
	}
	for _, ret := range sx.Returns(set) {
		sawParserErr := len(parsers) == 0
		// a return that no parser call can reach (the early return of the empty-text path) has no parser error to carry
		afterParser := false
		for _, pc := range parsers {
			if sx.ReachInstr(set, pc, ret, sx.Cut{}) {
				afterParser = true
			}
		}
		if !afterParser {
			onlyNil := true
			for _, lf := range leaves(ret.Results[0]) {
				if !sx.IsNilConst(lf) {
					onlyNil = false
				}
			}
			if onlyNil {
				continue
			}
		}
		for _, lf := range leaves(ret.Results[0]) {
			switch x := lf.(type) {
			case *ssa.Const:
			case *ssa.Extract:
				if cc, ok := x.Tuple.(*ssa.Call); ok && parserFns[parserName(cc)] != "" && x.Index == 1 {
					sawParserErr = true
				}
			}
		}
		if !sawParserErr {
			okErr, why = false, "a return does not carry the parser's error"
		}
	}
	ok := okAssign && okGuard && okZero && okErr
	if !okAssign && why == "" {
		why = "*v is not assigned on every path to return (a silent empty source would keep the old value)"
	}
	r.Check(ok, "C09-R4", c, p.FuncPos(set), fmt.Sprintf("*v assigned on all paths; %d parser call(s) only for non-empty text; zero value otherwise; error returned", len(parsers)), why)
}

func stripConvs(v ssa.Value) ssa.Value {
	for {
		switch x := v.(type) {
		case *ssa.Convert:
			v = x.X
		case *ssa.ChangeType:
			v = x.X
		default:
			return v
		}
	}
}
