package props

import (
	"fmt"
	"go/token"
	"go/types"
	"sort"
	"strings"

	"golang.org/x/tools/go/ssa"

	"glbverif/checker/core"
	"glbverif/checker/sx"
)

// ---- log handlers, discovered by type ----

type handlerInfo struct {
	Named   *types.Named
	Name    string
	Out     *types.Var // field of type io.Writer
	Mu      *types.Var // field of type *sync.Mutex / sync.Mutex
	Pre     *types.Var // field of type []byte (pre-rendered attributes)
	Opts    *types.Var // embedded *Options
	Methods map[string]*ssa.Function
}

func typeIs(t types.Type, pkg, name string) bool {
	n, ok := t.(*types.Named)
	if !ok {
		return false
	}
	return n.Obj().Pkg() != nil && n.Obj().Pkg().Path() == pkg && n.Obj().Name() == name
}

func ptrTo(t types.Type) types.Type {
	if p, ok := t.(*types.Pointer); ok {
		return p.Elem()
	}
	return nil
}

// logHandlers returns every named struct type of the module whose pointer
// implements logger.Handler.
func logHandlers(p *core.Prog) []*handlerInfo {
	hn := p.Named("logger", "Handler")
	if hn == nil {
		return nil
	}
	iface, ok := hn.Underlying().(*types.Interface)
	if !ok {
		return nil
	}
	var out []*handlerInfo
	var rels []string
	for rel := range p.Pkgs {
		rels = append(rels, rel)
	}
	sort.Strings(rels)
	for _, rel := range rels {
		scope := p.Pkgs[rel].Types.Scope()
		for _, nm := range scope.Names() {
			tn, ok := scope.Lookup(nm).(*types.TypeName)
			if !ok {
				continue
			}
			named, ok := tn.Type().(*types.Named)
			if !ok {
				continue
			}
			st, ok := named.Underlying().(*types.Struct)
			if !ok {
				continue
			}
			if !types.Implements(types.NewPointer(named), iface) {
				continue
			}
			h := &handlerInfo{Named: named, Name: nm, Methods: map[string]*ssa.Function{}}
			for i := 0; i < st.NumFields(); i++ {
				f := st.Field(i)
				switch {
				case typeIs(f.Type(), "io", "Writer"):
					h.Out = f
				case typeIs(f.Type(), "sync", "Mutex") || (ptrTo(f.Type()) != nil && typeIs(ptrTo(f.Type()), "sync", "Mutex")):
					h.Mu = f
				case f.Type().String() == "[]byte":
					h.Pre = f
				case f.Embedded():
					h.Opts = f
				}
			}
			ms := p.SSA.MethodSets.MethodSet(types.NewPointer(named))
			for i := 0; i < ms.Len(); i++ {
				fn := p.SSA.MethodValue(ms.At(i))
				if fn != nil && fn.Synthetic == "" && fn.Blocks != nil {
					h.Methods[ms.At(i).Obj().Name()] = fn
				}
			}
			out = append(out, h)
		}
	}
	return out
}

// ---- static call structure of the module ----

type callSite struct {
	Caller *ssa.Function
	Instr  ssa.CallInstruction
}

type callMap struct {
	callers map[*ssa.Function][]callSite // static call sites (call, defer, go)
	callees map[*ssa.Function][]*ssa.Function
}

var callMaps = map[*core.Prog]*callMap{}

func staticCalls(p *core.Prog) *callMap {
	if cm, ok := callMaps[p]; ok {
		return cm
	}
	cm := &callMap{callers: map[*ssa.Function][]callSite{}, callees: map[*ssa.Function][]*ssa.Function{}}
	for _, fn := range p.ModuleFuncs() {
		sx.Instrs(fn, func(in ssa.Instruction) {
			switch x := in.(type) {
			case ssa.CallInstruction:
				if c := sx.StaticCallee(x); c != nil {
					cm.callers[c] = append(cm.callers[c], callSite{fn, x})
					cm.callees[fn] = append(cm.callees[fn], c)
				}
			case *ssa.MakeClosure:
				// a closure created in fn runs (if at all) on behalf of fn
				c := x.Fn.(*ssa.Function)
				cm.callees[fn] = append(cm.callees[fn], c)
			}
		})
	}
	callMaps[p] = cm
	return cm
}

// reachableFrom returns the module functions reachable from roots through
// static calls and closure creation.
func reachableFrom(p *core.Prog, roots ...*ssa.Function) map[*ssa.Function]bool {
	cm := staticCalls(p)
	seen := map[*ssa.Function]bool{}
	var walk func(f *ssa.Function)
	walk = func(f *ssa.Function) {
		f = sx.OrigFunc(f)
		if f == nil || seen[f] {
			return
		}
		seen[f] = true
		for _, c := range cm.callees[f] {
			if p.InModule(c) {
				walk(c)
			}
		}
	}
	for _, r := range roots {
		walk(r)
	}
	return seen
}

// onlyCalledFrom reports whether every static caller chain of f ends in one of
// allowed (closures count as called from their parent).
func onlyCalledFrom(p *core.Prog, f *ssa.Function, allowed map[*ssa.Function]bool) bool {
	cm := staticCalls(p)
	seen := map[*ssa.Function]bool{}
	norm := map[*ssa.Function]bool{}
	for k, v := range allowed {
		norm[sx.OrigFunc(k)] = v
	}
	allowed = norm
	var ok func(f *ssa.Function) bool
	ok = func(f *ssa.Function) bool {
		f = sx.OrigFunc(f)
		if allowed[f] {
			return true
		}
		if seen[f] {
			return true
		}
		seen[f] = true
		if f.Parent() != nil {
			return ok(f.Parent())
		}
		cs := cm.callers[f]
		if len(cs) == 0 {
			return false
		}
		for _, c := range cs {
			if !ok(c.Caller) {
				return false
			}
		}
		return true
	}
	return ok(f)
}

func fnName(f *ssa.Function) string { return short(sx.FuncName(f)) }

func short(s string) string { return strings.ReplaceAll(s, core.ModPath+"/", "") }

// rootFn returns the outermost named function enclosing f.
func rootFn(f *ssa.Function) *ssa.Function {
	for f.Parent() != nil {
		f = f.Parent()
	}
	return sx.OrigFunc(f)
}

// sameFn: a and b are the same source function (either may be an inlined view of it).
func sameFn(a, b *ssa.Function) bool {
	return a != nil && b != nil && sx.OrigFunc(a) == sx.OrigFunc(b)
}

// pkgViews returns a set of functions that together contain every instruction
// of package rel in its most-inlined context: the inlined view (core.Prog.Inl)
// of every entry point — exported functions and methods, functions without a
// static caller in the package, go/defer targets, functions used as values —
// and of every callee that some view still calls instead of expanding
// (recursion, conditional defers, a recover block, size). "Who may do X" rules
// run on these views: an operation moved into a helper is judged as part of
// each function that calls the helper. Closures are reached through
// sx.WithClosures(view).
type pkgView struct {
	Fn   *ssa.Function // the (inlined) view
	Root *ssa.Function // the source function it is a view of
}

var viewCache = map[*core.Prog]map[string][]pkgView{}

func pkgViews(p *core.Prog, rel string) []pkgView {
	if viewCache[p] == nil {
		viewCache[p] = map[string][]pkgView{}
	}
	if v, ok := viewCache[p][rel]; ok {
		return v
	}
	sp := p.SPkgs[rel]
	cm := staticCalls(p)
	inPkg := func(f *ssa.Function) bool {
		f = sx.OrigFunc(f)
		return f != nil && f.Parent() == nil && f.Blocks != nil && (f.Pkg == sp || f.Pkg == nil && f.Origin() != nil && f.Origin().Pkg == sp)
	}
	var out []pkgView
	have := map[*ssa.Function]bool{}
	var work []*ssa.Function
	add := func(f *ssa.Function) {
		f = sx.OrigFunc(f)
		if !inPkg(f) || have[f] {
			return
		}
		have[f] = true
		work = append(work, f)
	}
	for _, fn := range p.PkgFuncs(rel) {
		if fn.Parent() != nil {
			continue
		}
		exported := fn.Object() != nil && fn.Object().Exported()
		called := false
		for _, cs := range cm.callers[fn] {
			if _, isCall := cs.Instr.(*ssa.Call); isCall && inPkg(rootFn(cs.Caller)) && rootFn(cs.Caller) != fn {
				called = true
			}
		}
		if exported || !called || fn.Name() == "init" || fn.Name() == "main" {
			add(fn)
		}
	}
	for len(work) > 0 {
		f := work[0]
		work = work[1:]
		v := p.Inl(f)
		out = append(out, pkgView{Fn: v, Root: f})
		for _, g := range sx.WithClosures(v) {
			sx.Instrs(g, func(in ssa.Instruction) {
				if c, ok := in.(ssa.CallInstruction); ok {
					if callee := sx.StaticCallee(c); callee != nil {
						add(callee)
					}
				}
				var buf [8]*ssa.Value
				for _, op := range in.Operands(buf[:0]) {
					if fv, ok := (*op).(*ssa.Function); ok && fv.Parent() == nil {
						add(fv)
					}
				}
			})
		}
	}
	sort.Slice(out, func(i, j int) bool { return out[i].Root.String() < out[j].Root.String() })
	viewCache[p][rel] = out
	return out
}

// ---- escape / privacy analysis for pooled buffers ----

type escaper struct {
	p        *core.Prog
	problems []string
	seenV    map[ssa.Value]bool
	seenH    map[holderKey]bool
	// SyncHOF: callee names that call their function argument synchronously
	// and do not retain it.
	syncHOF map[string]bool
	// release: callee names allowed to take the pointer (pool release)
	release map[string]bool
	// sinks: interface-method callee names allowed to receive the slice by value
	sliceSinks map[string]bool
}

func newEscaper(p *core.Prog) *escaper {
	return &escaper{p: p, seenV: map[ssa.Value]bool{},
		syncHOF:    map[string]bool{"(log/slog.Record).Attrs": true},
		release:    map[string]bool{"(*sync.Pool).Put": true},
		sliceSinks: map[string]bool{"(io.Writer).Write": true},
	}
}

func (e *escaper) bad(format string, a ...any) {
	e.problems = append(e.problems, fmt.Sprintf(format, a...))
}

// ptr checks every use of a private pointer value (e.g. *[]byte from a pool).
func (e *escaper) ptr(v ssa.Value) {
	if e.seenV[v] {
		return
	}
	e.seenV[v] = true
	refs := v.Referrers()
	if refs == nil {
		return
	}
	for _, r := range *refs {
		switch x := r.(type) {
		case *ssa.UnOp:
			if x.Op == token.MUL {
				e.slice(x)
			}
		case *ssa.Store:
			if x.Addr == v {
				continue // writing through the pointer
			}
			// the pointer itself is stored: fine only into a local cell — or into a field of a local struct that is used
			// for nothing but a synchronous callback (`w := attrWriter{buf: buf, …}; r.Attrs(w.write)`)
			if a, ok := x.Addr.(*ssa.Alloc); ok {
				e.cell(a)
			} else if fa, ok := x.Addr.(*ssa.FieldAddr); ok && e.holderPtr(fa.X, fa.Field, 0) {
			} else {
				e.bad("pointer to the private buffer is stored to %s at %s", sx.AddrPath(x.Addr), e.p.Pos(x.Pos()))
			}
		case *ssa.MakeClosure:
			e.closure(x, v)
		case ssa.CallInstruction:
			e.callArg(x, v, true)
		case *ssa.Return:
			if !e.isGetter(x.Parent()) {
				e.bad("private buffer is returned from %s at %s", fnName(x.Parent()), e.p.Pos(x.Pos()))
			}
		case *ssa.Send:
			e.bad("private buffer is sent on a channel at %s", e.p.Pos(x.Pos()))
		case *ssa.MakeInterface:
			// only to hand it to the pool
			for _, rr := range *x.Referrers() {
				if c, ok := rr.(ssa.CallInstruction); ok && e.release[sx.CalleeName(c)] {
					continue
				}
				if _, ok := rr.(*ssa.DebugRef); ok {
					continue
				}
				e.bad("private buffer converted to interface and used by %s at %s", rr.String(), e.p.Pos(rr.Pos()))
			}
		case *ssa.Phi:
			e.ptr(x)
		case *ssa.DebugRef, *ssa.TypeAssert:
		case *ssa.BinOp: // nil comparison
		default:
			e.bad("unrecognised use of the private buffer pointer: %s at %s", r.String(), e.p.Pos(r.Pos()))
		}
	}
}

// holderPtr: h points to a local struct whose field `field` holds the private pointer. True when every use of h keeps
// the pointer as private as a local variable would: field accesses (loads of that field are tracked as the pointer),
// the whole struct loaded to be bound as the receiver of a method value that is handed to a synchronous higher-order
// function, or h itself bound / passed as the receiver of such a method.
func (e *escaper) holderPtr(h ssa.Value, field int, depth int) bool {
	if depth > 3 {
		return false
	}
	switch h.(type) {
	case *ssa.Alloc, *ssa.Parameter, *ssa.FreeVar:
	default:
		return false
	}
	key := holderKey{h, field}
	if e.seenH == nil {
		e.seenH = map[holderKey]bool{}
	}
	if e.seenH[key] {
		return true
	}
	e.seenH[key] = true
	refs := h.Referrers()
	if refs == nil {
		return true
	}
	ok := true
	for _, r := range *refs {
		switch x := r.(type) {
		case *ssa.FieldAddr:
			if x.Field != field {
				continue
			}
			for _, rr := range *x.Referrers() {
				switch y := rr.(type) {
				case *ssa.Store:
				case *ssa.UnOp:
					e.ptr(y)
				case *ssa.DebugRef:
				default:
					ok = false
				}
			}
		case *ssa.UnOp: // the whole struct, by value
			if x.Op != token.MUL || !e.holderVal(x, field, depth) {
				ok = false
			}
		case *ssa.Store:
			if x.Addr != h { // the holder's address stored somewhere
				ok = false
			}
		case *ssa.MakeClosure:
			if !e.holderClosure(x, h, field, depth) {
				ok = false
			}
		case ssa.CallInstruction:
			if !e.holderCall(x, h, field, depth, true) {
				ok = false
			}
		case *ssa.DebugRef:
		default:
			ok = false
		}
	}
	return ok
}

type holderKey struct {
	v     ssa.Value
	field int
}

// holderVal: v is the struct value itself.
func (e *escaper) holderVal(v ssa.Value, field int, depth int) bool {
	refs := v.Referrers()
	if refs == nil {
		return true
	}
	ok := true
	for _, r := range *refs {
		switch x := r.(type) {
		case *ssa.Field:
			if x.Field == field {
				e.ptr(x)
			}
		case *ssa.Store:
			if a, isA := x.Addr.(*ssa.Alloc); isA && x.Val == v {
				if !e.holderPtr(a, field, depth+1) {
					ok = false
				}
			} else {
				ok = false
			}
		case *ssa.MakeClosure:
			if !e.holderClosure(x, v, field, depth) {
				ok = false
			}
		case ssa.CallInstruction:
			if !e.holderCall(x, v, field, depth, false) {
				ok = false
			}
		case *ssa.DebugRef:
		default:
			ok = false
		}
	}
	return ok
}

// holderClosure: the holder is bound into a closure: only the bound-method wrapper of one of its own methods, handed to
// a synchronous higher-order function (or called directly).
func (e *escaper) holderClosure(mc *ssa.MakeClosure, bound ssa.Value, field int, depth int) bool {
	fn, _ := mc.Fn.(*ssa.Function)
	if fn == nil || !strings.HasSuffix(fn.Name(), "$bound") || len(mc.Bindings) != 1 || mc.Bindings[0] != bound {
		return false
	}
	for _, r := range *mc.Referrers() {
		switch x := r.(type) {
		case *ssa.Go:
			return false
		case ssa.CallInstruction:
			if x.Common().Value == ssa.Value(mc) {
				continue
			}
			if !e.syncHOF[sx.CalleeName(x)] {
				return false
			}
		case *ssa.DebugRef:
		default:
			return false
		}
	}
	// inside the wrapper the free variable is the receiver of the one call
	fv := fn.FreeVars[0]
	if _, isPtr := fv.Type().Underlying().(*types.Pointer); isPtr {
		return e.holderPtr(fv, field, depth+1)
	}
	return e.holderVal(fv, field, depth+1)
}

// holderCall: the holder is an argument of a call: only as the receiver (or a parameter) of a module function, where it
// is followed.
func (e *escaper) holderCall(c ssa.CallInstruction, v ssa.Value, field int, depth int, isPtr bool) bool {
	if _, isGo := c.(*ssa.Go); isGo {
		return false
	}
	callee := sx.StaticCallee(c)
	if callee == nil || !e.p.InModule(callee) || callee.Blocks == nil {
		return false
	}
	ok := true
	for i, a := range sx.Args(c) {
		if a != v || i >= len(callee.Params) {
			continue
		}
		if isPtr {
			if !e.holderPtr(callee.Params[i], field, depth+1) {
				ok = false
			}
		} else if !e.holderVal(callee.Params[i], field, depth+1) {
			ok = false
		}
	}
	return ok
}

var getterFns = map[*ssa.Function]bool{}

func (e *escaper) isGetter(f *ssa.Function) bool { return getterFns[f] }

// cell: a local variable holding the pointer (possibly captured by closures).
func (e *escaper) cell(a ssa.Value) {
	if e.seenV[a] {
		return
	}
	e.seenV[a] = true
	refs := a.Referrers()
	if refs == nil {
		return
	}
	for _, r := range *refs {
		switch x := r.(type) {
		case *ssa.Store:
		case *ssa.UnOp:
			if x.Op == token.MUL {
				e.ptr(x)
			}
		case *ssa.MakeClosure:
			e.closure(x, a)
		case *ssa.DebugRef:
		default:
			e.bad("variable holding the private buffer escapes: %s at %s", r.String(), e.p.Pos(r.Pos()))
		}
	}
}

func (e *escaper) closure(mc *ssa.MakeClosure, bound ssa.Value) {
	fn := mc.Fn.(*ssa.Function)
	// the closure value must only be called/deferred directly or passed to a synchronous higher-order function
	for _, r := range *mc.Referrers() {
		switch x := r.(type) {
		case *ssa.Go:
			e.bad("closure capturing the private buffer is started as a goroutine at %s", e.p.Pos(x.Pos()))
		case ssa.CallInstruction:
			if x.Common().Value == mc {
				continue // called or deferred directly
			}
			if !e.syncHOF[sx.CalleeName(x)] {
				e.bad("closure capturing the private buffer is passed to %s at %s", sx.CalleeName(x), e.p.Pos(x.Pos()))
			}
		case *ssa.DebugRef:
		default:
			e.bad("closure capturing the private buffer escapes: %s at %s", r.String(), e.p.Pos(r.Pos()))
		}
	}
	for i, b := range mc.Bindings {
		if b == bound {
			fv := fn.FreeVars[i]
			if _, isAlloc := bound.(*ssa.Alloc); isAlloc {
				e.cell(fv)
			} else if _, isFV := bound.(*ssa.FreeVar); isFV && isPtrToPtr(bound.Type()) {
				e.cell(fv)
			} else {
				e.ptr(fv)
			}
		}
	}
}

func isPtrToPtr(t types.Type) bool {
	p, ok := t.Underlying().(*types.Pointer)
	if !ok {
		return false
	}
	_, ok = p.Elem().Underlying().(*types.Pointer)
	return ok
}

func (e *escaper) callArg(c ssa.CallInstruction, v ssa.Value, isPtr bool) {
	name := sx.CalleeName(c)
	if _, isGo := c.(*ssa.Go); isGo {
		e.bad("private buffer passed to a goroutine (%s) at %s", name, e.p.Pos(c.Pos()))
		return
	}
	callee := sx.StaticCallee(c)
	if callee != nil && e.p.InModule(callee) && callee.Blocks != nil {
		args := sx.Args(c)
		for i, a := range args {
			if a == v && i < len(callee.Params) {
				if isPtr {
					e.ptr(callee.Params[i])
				} else {
					e.slice(callee.Params[i])
				}
			}
		}
		// a zero-copy conversion (unsafe.String / unsafe.Slice on the argument) returns an alias of the buffer
		if !isPtr && usesUnsafeAlias(callee) {
			if call, ok := c.(*ssa.Call); ok {
				e.slice(call)
			}
		}
		return
	}
	if isPtr {
		if e.release[name] {
			return
		}
		e.bad("private buffer pointer passed to %s at %s", name, e.p.Pos(c.Pos()))
		return
	}
	// slice by value to a non-module callee: append-style stdlib functions and the one Write
	if strings.HasPrefix(name, "builtin.") || e.sliceSinks[name] || appendStyle(name) {
		return
	}
	// a string view of the buffer cannot be modified; standard-library functions taking a string only read it
	if b, ok := v.Type().Underlying().(*types.Basic); ok && b.Info()&types.IsString != 0 && !e.p.InModule(callee) {
		return
	}
	e.bad("bytes of the private buffer passed to %s at %s", name, e.p.Pos(c.Pos()))
}

func appendStyle(name string) bool {
	switch {
	case strings.HasPrefix(name, "strconv.Append"), name == "fmt.Append", name == "fmt.Appendf", name == "fmt.Appendln",
		name == "(time.Time).AppendFormat", name == "unicode/utf8.AppendRune", name == "encoding/base64.(*Encoding).AppendEncode",
		name == "(*encoding/base64.Encoding).AppendEncode":
		return true
	}
	return false
}

// slice checks the uses of a slice value that aliases the private buffer.
func (e *escaper) slice(v ssa.Value) {
	if e.seenV[v] {
		return
	}
	e.seenV[v] = true
	refs := v.Referrers()
	if refs == nil {
		return
	}
	for _, r := range *refs {
		switch x := r.(type) {
		case *ssa.Store:
			if x.Val != v {
				continue
			}
			// storing the slice: only back through a private pointer or into a local cell
			switch a := x.Addr.(type) {
			case *ssa.Alloc:
				_ = a
			case *ssa.Parameter, *ssa.FreeVar, *ssa.Call, *ssa.UnOp, *ssa.Phi:
				// `*buf = append(*buf, …)`: the address is itself a tracked private pointer if we reached it via ptr()
				if !e.seenV[x.Addr] {
					e.bad("bytes of the private buffer stored through %s at %s", sx.ValPath(x.Addr), e.p.Pos(x.Pos()))
				}
			default:
				e.bad("bytes of the private buffer stored to %s at %s", sx.AddrPath(x.Addr), e.p.Pos(x.Pos()))
			}
		case *ssa.Slice:
			e.slice(x)
		case *ssa.Phi:
			e.slice(x)
		case *ssa.Call:
			e.callArg(x, v, false)
			// results of append-style calls alias the buffer too
			if n := sx.CalleeName(x); n == "builtin.append" || appendStyle(n) {
				if len(x.Call.Args) > 0 && x.Call.Args[0] == v {
					e.slice(x)
				}
			}
		case *ssa.Defer:
			e.callArg(x, v, false)
		case *ssa.Go:
			e.callArg(x, v, false)
		case *ssa.Return:
			e.bad("bytes of the private buffer are returned from %s at %s", fnName(x.Parent()), e.p.Pos(x.Pos()))
		case *ssa.Send:
			e.bad("bytes of the private buffer are sent on a channel at %s", e.p.Pos(x.Pos()))
		case *ssa.MakeInterface, *ssa.ChangeType, *ssa.Convert:
			// string(buf) copies; conversions to interface are suspicious
			if mi, ok := x.(*ssa.MakeInterface); ok {
				e.bad("bytes of the private buffer converted to interface at %s", e.p.Pos(mi.Pos()))
			}
		case *ssa.IndexAddr, *ssa.Index, *ssa.Lookup, *ssa.DebugRef, *ssa.BinOp, *ssa.Range:
		case *ssa.MakeClosure:
			e.bad("bytes of the private buffer captured by a closure at %s", e.p.Pos(x.Pos()))
		default:
		}
	}
}

// fieldsOfType lists the fields of struct type n.
func structFields(n *types.Named) []*types.Var {
	st, ok := n.Underlying().(*types.Struct)
	if !ok {
		return nil
	}
	var out []*types.Var
	for i := 0; i < st.NumFields(); i++ {
		out = append(out, st.Field(i))
	}
	return out
}

func fieldByName(n *types.Named, name string) *types.Var {
	for _, f := range structFields(n) {
		if f.Name() == name {
			return f
		}
	}
	return nil
}

func keys(m map[string]bool) string {
	var ks []string
	for k := range m {
		ks = append(ks, k)
	}
	sort.Strings(ks)
	return strings.Join(ks, ",")
}

func usesUnsafeAlias(fn *ssa.Function) bool {
	hit := false
	sx.Instrs(fn, func(in ssa.Instruction) {
		if c, ok := in.(*ssa.Call); ok {
			if b, ok := c.Call.Value.(*ssa.Builtin); ok {
				switch b.Name() {
				case "String", "Slice", "StringData", "SliceData":
					hit = true
				}
			}
		}
	})
	return hit
}

// viewFuncs: the functions whose code runs as part of an inlined view — the view and its closures, and the
// inlined views of the module callees it still calls (panic-barrier frames, recursion, size limit).
func viewFuncs(p *core.Prog, view *ssa.Function) []*ssa.Function {
	seen := map[*ssa.Function]bool{sx.OrigFunc(view): true}
	var out []*ssa.Function
	var add func(v *ssa.Function)
	add = func(v *ssa.Function) {
		for _, f := range sx.WithClosures(v) {
			out = append(out, f)
			sx.Instrs(f, func(in ssa.Instruction) {
				c, ok := in.(ssa.CallInstruction)
				if !ok {
					return
				}
				callee := sx.StaticCallee(c)
				if callee == nil || callee.Parent() != nil || !p.InModule(callee) || callee.Blocks == nil || seen[sx.OrigFunc(callee)] {
					return
				}
				seen[sx.OrigFunc(callee)] = true
				add(p.Inl(callee))
			})
		}
	}
	add(view)
	return out
}

// retCase is one way a return instruction can be reached with one particular result value: a result that is
// merged by phis at the return (single-return style) is split into the values of the incoming paths, each
// with the instruction that ends that path.
type retCase struct {
	Val ssa.Value
	At  ssa.Instruction // the return itself, or the terminator of the predecessor the value comes from
	To  *ssa.BasicBlock // the block the value flows into from At (nil when At is the return)
}

func retCases(ret *ssa.Return, i int) []retCase {
	v := returnValue(ret, i)
	var out []retCase
	var via *ssa.BasicBlock
	var expand func(v ssa.Value, blk *ssa.BasicBlock, at ssa.Instruction, depth int)
	expand = func(v ssa.Value, blk *ssa.BasicBlock, at ssa.Instruction, depth int) {
		ph, ok := v.(*ssa.Phi)
		if !ok || ph.Block() != blk || depth > 4 {
			rc := retCase{Val: v, At: at}
			if at != ssa.Instruction(ret) {
				rc.To = via
			}
			out = append(out, rc)
			return
		}
		// only when nothing but phis (and pure value computations) precede `at` in blk would the split be exact;
		// the split is still sound for "on every path to this value" rules: each case names a prefix of the path
		for k, e := range ph.Edges {
			pred := blk.Preds[k]
			saved := via
			via = blk
			expand(e, pred, pred.Instrs[len(pred.Instrs)-1], depth+1)
			via = saved
		}
	}
	expand(v, ret.Block(), ret, 0)
	return out
}

// edgeReturn follows a CFG edge through blocks that only merge or forward (phis, pure values, jumps, run-defers;
// no calls except those of expanded defers) to the return it leads to, and resolves result #idx (negative: counted
// from the end) along that path through the phis it crosses. ok is false when the path branches or does work.
func edgeReturn(e sx.Edge, idx int) (ret *ssa.Return, val ssa.Value, ok bool) {
	prev := e.From
	b := e.To()
	var path []*ssa.BasicBlock
	var from []*ssa.BasicBlock
	for steps := 0; steps < 12; steps++ {
		path = append(path, b)
		from = append(from, prev)
		for _, in := range b.Instrs {
			switch x := in.(type) {
			case *ssa.Call:
				if _, isB := x.Call.Value.(*ssa.Builtin); !isB {
					if info := sx.InlineInfo(b.Parent()); info == nil || !info.FromDefer[in] {
						return nil, nil, false
					}
				}
			case *ssa.Go, *ssa.Defer, *ssa.Send, *ssa.Select, *ssa.MapUpdate, *ssa.Panic:
				return nil, nil, false
			case *ssa.Return:
				ret = x
			}
		}
		if ret != nil {
			break
		}
		if len(b.Succs) != 1 {
			return nil, nil, false
		}
		prev, b = b, b.Succs[0]
	}
	if ret == nil {
		return nil, nil, false
	}
	i := idx
	if i < 0 {
		i = len(ret.Results) + idx
	}
	if i < 0 || i >= len(ret.Results) {
		return ret, nil, true
	}
	v := returnValue(ret, i)
	for k := len(path) - 1; k >= 0; k-- {
		ph, isPhi := v.(*ssa.Phi)
		if !isPhi {
			break
		}
		if ph.Block() != path[k] {
			continue
		}
		for j, pred := range path[k].Preds {
			if pred == from[k] {
				v = ph.Edges[j]
			}
		}
	}
	return ret, v, true
}

// boolEdges: the CFG edges taken when the boolean v is `want` — the matching edge of every `if v` and, through
// negations, of every `if !v`.
func boolEdges(v ssa.Value, want bool) map[sx.Edge]bool {
	out := map[sx.Edge]bool{}
	var walk func(v ssa.Value, want bool, depth int)
	walk = func(v ssa.Value, want bool, depth int) {
		if v.Referrers() == nil || depth > 3 {
			return
		}
		for _, u := range *v.Referrers() {
			switch u := u.(type) {
			case *ssa.If:
				idx := 1
				if want {
					idx = 0
				}
				out[sx.Edge{From: u.Block(), Idx: idx}] = true
			case *ssa.UnOp:
				if u.Op == token.NOT {
					walk(u, !want, depth+1)
				}
			}
		}
	}
	walk(v, want, 0)
	return out
}
