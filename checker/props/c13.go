package props

import (
	"fmt"
	"go/constant"
	"go/token"
	"go/types"
	"os"
	"strings"
	"unicode"
	"unicode/utf8"

	"golang.org/x/tools/go/ssa"

	"glbverif/checker/core"
	"glbverif/checker/sx"
)

func init() { register("C13", "logger", runC13) }

func handlerNamed(p *core.Prog, sub string) *handlerInfo {
	for _, h := range logHandlers(p) {
		if strings.Contains(strings.ToLower(h.Name), sub) {
			return h
		}
	}
	return nil
}

func textUnsafe(b byte) bool {
	return b < 0x20 || b == ' ' || b == '=' || b == '"' || unicode.IsSpace(rune(b))
}

func runC13(p *core.Prog, r *core.Report) {
	r.Rule("C13-R1", "line grammar: every item the text emitters append is ` key=value`, one '=' between key and value, one '\\n' at the end (emission typestate, see emit.go)", 0)
	r.Rule("C13-R2", "sanitizer: every non-constant datum reaches the line through the quoting function, a formatter whose alphabet has no whitespace, '=' or '\"', or the handler's own pre-rendered bytes; colour-only sinks are out of scope", 12)
	r.Rule("C13-R3", "the quoting predicate is sufficient: evaluated over all 128 ASCII bytes and every Unicode scalar value, a character that is left bare is never whitespace, '=', '\"', a control character or invalid UTF-8; the empty string is quoted", 3)
	r.Rule("C13-R4", "source location: a function that captures the caller with runtime.Callers(2+d, …) is reached through exactly d frames of the package — d-1 private levels nobody outside can enter, then entry points that are not themselves called from inside the logger package (fixed stack depth)", 1)
	r.Rule("C13-R5", "group path kept: an attribute emitter that receives the dotted group path in a scratch buffer quotes the key without that path only on paths where the path is empty", 0)
	r.NotDecided = append(r.NotDecided, "equality of unquoted tokens with the inputs (delegated to strconv.AppendQuote/Unquote)", "content of dotted group paths beyond: joined with '.' in the scratch buffer and quoted as one string")
	r.Trusted = append(r.Trusted, "strconv.AppendQuote output is one \"…\" token without raw whitespace/control bytes and round-trips through Unquote", "unicode.IsSpace / IsPrint tables of the Go release in use", "strconv.AppendInt/Uint/Bool/Float, Time.AppendFormat(RFC3339), Duration.String alphabets")

	h := handlerNamed(p, "text")
	if h == nil {
		r.Fail("ANCHOR", "text handler", "-", "no handler type with 'Text' in its name implements logger.Handler")
		return
	}
	// first pass to find the line-buffer functions, then the sanitizer among them
	_, bufs := classifySinks(p, h, nil)
	san := findSanitizer(p, bufs, true)
	if san == nil {
		r.Fail("C13-R3", "quoting function", "-", "no function (buf *[]byte, s string) with a character loop and strconv.AppendQuote among the text emitters")
		return
	}
	r.Anchor("sanitizer", fnName(san))
	sinks, _ := classifySinks(p, h, san)

	// ---- R5: the dotted group path is part of every leaf key. Where an emitter receives the path in a scratch buffer
	// (a *[]byte that is not the line), the key is quoted *without* the path only on paths where the path is empty
	for fn := range bufs {
		if fn.Blocks == nil || rootFn(fn) != fn {
			continue
		}
		var scratch []*ssa.Parameter
		var attr *ssa.Parameter
		for _, prm := range fn.Params {
			if pt, ok := prm.Type().Underlying().(*types.Pointer); ok {
				if sl, ok := pt.Elem().Underlying().(*types.Slice); ok && sl.Elem().String() == "byte" && !bufs[fn][prm] {
					scratch = append(scratch, prm)
				}
			}
			if strings.HasSuffix(prm.Type().String(), "log/slog.Attr") {
				attr = prm
			}
		}
		if os.Getenv("GLB_C13_DEBUG") != "" {
			fmt.Fprintf(os.Stderr, "C13-R5 %s scratch=%d attr=%v\n", fn, len(scratch), attr != nil)
		}
		if len(scratch) != 1 || attr == nil {
			continue
		}
		pathEmpty := map[sx.Edge]bool{}
		sx.Instrs(fn, func(in ssa.Instruction) {
			b, ok := in.(*ssa.BinOp)
			if !ok || b.Referrers() == nil {
				return
			}
			k, isC := sx.ConstInt(b.Y)
			lc, isL := b.X.(*ssa.Call)
			if !isC || k != 0 || !isL || !isBuiltin(lc, "len") || !sx.Origins(lc.Call.Args[0])["param:"+scratch[0].Name()] {
				return
			}
			idx := -1
			switch b.Op {
			case token.GTR, token.NEQ:
				idx = 1
			case token.EQL, token.LEQ:
				idx = 0
			}
			if idx < 0 {
				return
			}
			for _, u := range *b.Referrers() {
				if iff, ok := u.(*ssa.If); ok {
					pathEmpty[sx.Edge{From: iff.Block(), Idx: idx}] = true
				}
			}
		})
		sx.Instrs(fn, func(in ssa.Instruction) {
			c, ok := in.(*ssa.Call)
			if !ok || sx.StaticCallee(c) != san || len(c.Call.Args) < 2 {
				return
			}
			org := sx.Origins(c.Call.Args[len(c.Call.Args)-1])
			if os.Getenv("GLB_C13_DEBUG") != "" {
				fmt.Fprintf(os.Stderr, "C13-R5 san call org=%v path=%s\n", org, sx.ValPath(c.Call.Args[len(c.Call.Args)-1]))
			}
			// only the key, alone (the value side of the attribute goes through the value emitter, not through this call)
			if len(org) != 1 || !org["field:Attr.Key"] {
				return
			}
			ok2 := len(pathEmpty) > 0 && sx.MustPass(fn, nil, c, sx.Cut{Edges: pathEmpty})
			r.Check(ok2, "C13-R5", "bare key in "+fnName(fn)+" only where the group path is empty", p.Pos(c.Pos()), "behind the empty-path edge of `len(*"+scratch[0].Name()+") > 0`", "the attribute's key is written without the group path on a path where the path may be non-empty (the path test is combined with another condition?): the record loses the dotted path of that attribute")
		})
	}

	// ---- R2
	n := map[string]int{}
	for _, s := range sinks {
		key := describeSink(p, s)
		n[key]++
		c := fmt.Sprintf("%s #%d", key, n[key])
		switch {
		case s.Class == "const":
			// constants are checked by the grammar rule; here only: no raw line break or quote characters hidden in a constant item
			ok := true
			for i, b := range s.Bytes {
				if b == '\n' && !(i == len(s.Bytes)-1) {
					ok = false
				}
			}
			r.Check(ok, "C13-R2", c, p.Pos(s.In.Pos()), "constant bytes "+fmtBytes(s.Bytes), "constant "+fmtBytes(s.Bytes)+" contains a line break inside the line")
		case s.Class == "preformatted", s.Class == "quoted", s.Class == "sanitizer-internal":
			r.OK("C13-R2", c, p.Pos(s.In.Pos()), s.Class)
		case s.Class == "closed:number", s.Class == "closed:float", s.Class == "closed:duration":
			r.OK("C13-R2", c, p.Pos(s.In.Pos()), "formatter with a closed alphabet free of whitespace, '=' and '\"'")
		case s.Class == "closed:time":
			bad := strings.ContainsAny(s.Detail, " =\"\t\n")
			r.Check(!bad, "C13-R2", c, p.Pos(s.In.Pos()), "time layout "+s.Detail, "time layout "+fmt.Sprintf("%q", s.Detail)+" contains a separator character")
		case strings.HasPrefix(s.Class, "table:"):
			ok, d := checkLabelTable(p, strings.TrimPrefix(s.Class, "table:"), s, textUnsafe)
			r.Check(ok, "C13-R2", c, p.Pos(s.In.Pos()), d, d)
		case s.ColourOnly:
			r.OK("C13-R2", c+" (colour only)", p.Pos(s.In.Pos()), "reachable only with colour on: outside the property's scope")
		default:
			r.Fail("C13-R2", c, p.Pos(s.In.Pos()), s.Detail+" is appended to the line without passing "+fnName(san)+": spaces, '=', quotes or line breaks in it forge tokens or lines")
		}
	}

	// ---- R3
	sanView := p.Inl(san) // a scanning predicate in a helper is seen in place
	cl, why := findCharLoop(sanView)
	if cl == nil {
		r.Fail("C13-R3", "quoting predicate", p.FuncPos(san), why)
		return
	}
	safe, _ := boolTable(p, "logger", "safeSet")
	tables := map[string][]constant.Value{"safeSet": safe}
	derivedBoolTables(p, "logger", tables)
	var bad []string
	undec := 0
	nBare, nQuote := 0, 0
	for b := 0; b < 0x80; b++ {
		o := cl.evalByte(p, tables, byte(b))
		switch o.Kind {
		case "quote":
			nQuote++
		case "advance":
			nBare++
			if textUnsafe(byte(b)) {
				bad = append(bad, fmt.Sprintf("byte %#02x (%q) is left bare", b, rune(b)))
			}
			if o.Raw || len(o.Emitted) > 0 {
				bad = append(bad, fmt.Sprintf("byte %#02x: something is emitted while scanning", b))
			}
		default:
			undec++
			if len(bad) < 3 {
				bad = append(bad, fmt.Sprintf("byte %#02x: %s %s", b, o.Kind, o.Why))
			}
		}
	}
	r.Check(len(bad) == 0 && undec == 0, "C13-R3", "quoting decision over all 128 ASCII bytes", p.FuncPos(san), fmt.Sprintf("%d bytes left bare (none is whitespace, '=', '\"' or control), %d force quoting", nBare, nQuote), strings.Join(bad, "; "))
	// runes
	var badR []string
	nR, bareR := 0, 0
	for rr := rune(0x80); rr <= unicode.MaxRune; rr++ {
		if rr >= 0xD800 && rr <= 0xDFFF {
			continue
		}
		nR++
		var enc [4]byte
		sz := utf8.EncodeRune(enc[:], rr)
		o := cl.evalRune(p, tables, rr, sz, enc[0])
		switch o.Kind {
		case "quote":
		case "advance":
			bareR++
			if unicode.IsSpace(rr) || rr == utf8.RuneError && false {
				if len(badR) < 5 {
					badR = append(badR, fmt.Sprintf("U+%04X (whitespace) is left bare", rr))
				}
			}
		default:
			if len(badR) < 5 {
				badR = append(badR, fmt.Sprintf("U+%04X: %s %s", rr, o.Kind, o.Why))
			}
		}
	}
	// invalid UTF-8: DecodeRune yields (RuneError, 1)
	for _, fb := range []byte{0x80, 0xbf, 0xc0, 0xff} {
		o := cl.evalRune(p, tables, utf8.RuneError, 1, fb)
		if o.Kind != "quote" {
			badR = append(badR, fmt.Sprintf("invalid byte %#02x is not quoted (%s)", fb, o.Kind))
		}
	}
	r.Check(len(badR) == 0, "C13-R3", "quoting decision over every Unicode scalar value and invalid bytes", p.FuncPos(san), fmt.Sprintf("%d scalar values evaluated, %d left bare (none is Unicode whitespace); invalid UTF-8 forces quoting", nR, bareR), strings.Join(badR, "; "))
	// the empty string is quoted: the edge on which the string is known to be empty leads, without further branching, to
	// an explicit `""` or to strconv.AppendQuote of the string (which renders "" for it)
	okEmpty := false
	sx.Instrs(sanView, func(in ssa.Instruction) {
		b, ok := in.(*ssa.BinOp)
		if !ok || (b.Op != token.EQL && b.Op != token.NEQ) {
			return
		}
		isEmptyTest := false
		if c, ok := b.X.(*ssa.Call); ok && isBuiltin(c, "len") && c.Call.Args[0] == ssa.Value(cl.str) {
			if k, isC := sx.ConstInt(b.Y); isC && k == 0 {
				isEmptyTest = true
			}
		}
		if b.X == ssa.Value(cl.str) {
			if k, isC := sx.ConstString(b.Y); isC && k == "" {
				isEmptyTest = true
			}
		}
		if !isEmptyTest {
			return
		}
		for e := range boolEdges(b, b.Op == token.EQL) {
			blk := e.To()
			for steps := 0; steps < 8 && blk != nil; steps++ {
				for _, i2 := range blk.Instrs {
					c, ok := i2.(*ssa.Call)
					if !ok {
						continue
					}
					if isBuiltin(c, "append") {
						if bs, ok := constBytesOf(c.Call.Args[1]); ok && string(bs) == `""` {
							okEmpty = true
						}
					}
					if sx.CalleeName(c) == "strconv.AppendQuote" && c.Call.Args[1] == ssa.Value(cl.str) {
						okEmpty = true
					}
				}
				if len(blk.Succs) != 1 {
					break
				}
				blk = blk.Succs[0]
			}
		}
	})
	r.Check(okEmpty, "C13-R3", "the empty string is written as \"\"", p.FuncPos(san), "len(s) == 0 → `\"\"`", "the empty string is not rendered as an explicit \"\" token: `key=` followed by a space would be ambiguous")

	// ---- R4: source location (shared with C01-R5)
	checkCallerFrames(p, r, "C13-R4")

	// ---- R1 (emission typestate)
	runEmitText(p, r, h, san)
}

// checkLabelTable: a table of constant strings (level labels); entries used with colour off must be clean.
func checkLabelTable(p *core.Prog, name string, s sink, unsafe func(byte) bool) (bool, string) {
	g, ok := p.SPkgs["logger"].Members[name].(*ssa.Global)
	if !ok {
		return false, "table " + name + " not found"
	}
	// elements from the package initialiser
	var elems []string
	init := p.SPkgs["logger"].Func("init")
	var arr *ssa.Alloc
	sx.Instrs(init, func(in ssa.Instruction) {
		if st, ok := in.(*ssa.Store); ok && st.Addr == ssa.Value(g) {
			if sl, ok := st.Val.(*ssa.Slice); ok {
				arr, _ = sl.X.(*ssa.Alloc)
			}
		}
	})
	if arr == nil {
		return false, "cannot read the elements of " + name
	}
	m := map[int64]string{}
	var maxK int64 = -1
	for _, u := range *arr.Referrers() {
		if ia, ok := u.(*ssa.IndexAddr); ok {
			k, _ := sx.ConstInt(ia.Index)
			for _, uu := range *ia.Referrers() {
				if st, ok := uu.(*ssa.Store); ok && st.Addr == ia {
					if str, ok := sx.ConstString(st.Val); ok {
						m[k] = str
						if k > maxK {
							maxK = k
						}
					} else {
						return false, "non-constant entry in " + name
					}
				}
			}
		}
	}
	for i := int64(0); i <= maxK; i++ {
		elems = append(elems, m[i])
	}
	// entries containing ESC are the colour variants: they must sit at the indices only colour paths use.
	// The index expression is level+c; levels are multiples of 4, so parity of c selects the variant.
	parity := int64(-1)
	ce := colourEdges(s.Fn)
	colourPath := len(ce) > 0 && sx.MustPass(s.Fn, nil, s.In, sx.Cut{Edges: ce})
	if c, ok := s.In.(*ssa.Call); ok {
		src := c.Call.Args[1]
		if ld, ok := src.(*ssa.UnOp); ok {
			if ia, ok := ld.X.(*ssa.IndexAddr); ok {
				if b, ok := ia.Index.(*ssa.BinOp); ok {
					if k, isC := sx.ConstInt(b.Y); isC {
						parity = k % 2
					}
				} else {
					parity = 0
				}
			}
		}
	}
	if parity < 0 {
		return false, "cannot determine which entries of " + name + " this append uses"
	}
	if colourPath {
		return true, "colour variant of the level label (colour only)"
	}
	for i, e := range elems {
		if int64(i)%2 != parity {
			continue
		}
		for k := 0; k < len(e); k++ {
			if unsafe(e[k]) || e[k] == 0x1b || e[k] == '\\' {
				return false, fmt.Sprintf("%s[%d] = %q contains %q and is appended raw with colour off", name, i, e, e[k])
			}
		}
	}
	return true, fmt.Sprintf("entries of %s with index parity %d are plain labels", name, parity)
}
