package props

import (
	"fmt"
	"go/token"
	"strings"

	"golang.org/x/tools/go/ssa"

	"glbverif/checker/core"
	"glbverif/checker/sx"
)

func init() { register("C16", "util/strutil", runC16) }

// ---- POSIX sh word lexer (XCU 2.2 Quoting, 2.3 Token Recognition) ----

type shState int

const (
	shU shState = iota // unquoted
	shS                // inside '…'
	shD                // inside "…"
)

func (s shState) String() string { return [...]string{"Unquoted", "SingleQuoted", "DoubleQuoted"}[s] }

type shResult struct {
	End      shState
	Literal  string   // bytes contributed literally to the current word
	Problems []string // word breaks, expansion triggers, dangling escapes
}

// shLex runs the lexer over input starting in state st. atWordStart tells
// whether the first byte is the first byte of a word (for ~ and #).
func shLex(st shState, input string, atWordStart bool) shResult {
	res := shResult{}
	var lit strings.Builder
	bad := func(f string, a ...any) { res.Problems = append(res.Problems, fmt.Sprintf(f, a...)) }
	wordStart := atWordStart
	for i := 0; i < len(input); i++ {
		c := input[i]
		switch st {
		case shS:
			if c == '\'' {
				st = shU
			} else {
				lit.WriteByte(c) // every byte is literal inside single quotes
			}
			wordStart = false
		case shD:
			switch c {
			case '"':
				st = shU
			case '\\':
				if i+1 < len(input) && strings.IndexByte("$`\"\\\n", input[i+1]) >= 0 {
					i++
					if input[i] != '\n' {
						lit.WriteByte(input[i])
					}
				} else {
					lit.WriteByte(c)
				}
			case '$', '`':
				bad("expansion trigger %q inside double quotes at offset %d", c, i)
			default:
				lit.WriteByte(c)
			}
			wordStart = false
		case shU:
			switch {
			case c == '\'':
				st = shS
			case c == '"':
				st = shD
			case c == '\\':
				if i+1 < len(input) {
					i++
					if input[i] != '\n' {
						lit.WriteByte(input[i])
					}
				} else {
					bad("dangling backslash at end")
				}
			case c == ' ' || c == '\t' || c == '\n':
				bad("unquoted blank %q at offset %d ends the word", c, i)
			case strings.IndexByte(";&|<>()", c) >= 0:
				bad("unquoted operator %q at offset %d", c, i)
			case c == '$' || c == '`':
				bad("unquoted expansion trigger %q at offset %d", c, i)
			case c == '*' || c == '?' || c == '[':
				bad("unquoted glob character %q at offset %d", c, i)
			case c == '~' && wordStart:
				bad("tilde-prefix at word start")
				lit.WriteByte(c)
			case c == '#' && wordStart:
				bad("comment start at word start")
			case c == '!' || c == '{' || c == '}' || c == '=' || c == '%' || c == '^':
				// '!' (history in interactive bash), '{' '}' (brace expansion / reserved words), '=' (assignment at word start)
				if c == '!' || c == '{' || c == '}' {
					bad("unquoted %q at offset %d (reserved / history / brace expansion)", c, i)
				} else {
					lit.WriteByte(c)
				}
			default:
				lit.WriteByte(c)
			}
			wordStart = false
		}
	}
	res.End = st
	res.Literal = lit.String()
	return res
}

// concatParts flattens `a + b + c` into its operands.
func concatParts(v ssa.Value) []ssa.Value {
	if b, ok := v.(*ssa.BinOp); ok && b.Op == token.ADD {
		return append(concatParts(b.X), concatParts(b.Y)...)
	}
	return []ssa.Value{v}
}

type replPair struct{ old, new string }

// replacementOf recognises strings.Replace(s,old,new,-1), strings.ReplaceAll(s,old,new)
// and (*strings.Replacer).Replace(s) with a Replacer built from constants.
func replacementOf(p *core.Prog, c *ssa.Call) (subject ssa.Value, pairs []replPair, why string) {
	name := sx.CalleeName(c)
	a := c.Call.Args
	switch name {
	case "strings.Replace":
		o, ok1 := sx.ConstString(a[1])
		n, ok2 := sx.ConstString(a[2])
		k, ok3 := sx.ConstInt(a[3])
		if !ok1 || !ok2 || !ok3 {
			return nil, nil, "strings.Replace with non-constant arguments"
		}
		if k >= 0 {
			return nil, nil, fmt.Sprintf("strings.Replace replaces at most %d occurrence(s): later quotes stay unescaped", k)
		}
		return a[0], []replPair{{o, n}}, ""
	case "strings.ReplaceAll":
		o, ok1 := sx.ConstString(a[1])
		n, ok2 := sx.ConstString(a[2])
		if !ok1 || !ok2 {
			return nil, nil, "strings.ReplaceAll with non-constant arguments"
		}
		return a[0], []replPair{{o, n}}, ""
	case "(*strings.Replacer).Replace":
		// the replacer: a package-level variable initialised with strings.NewReplacer(consts…)
		var nr *ssa.Call
		recv := sx.Unspill(a[0])
		switch x := recv.(type) {
		case *ssa.Call:
			nr = x
		case *ssa.UnOp:
			if g, ok := x.X.(*ssa.Global); ok {
				for _, fn := range p.SSA.Package(g.Pkg.Pkg).Members {
					f, ok := fn.(*ssa.Function)
					if !ok || f.Name() != "init" {
						continue
					}
					sx.Instrs(f, func(in ssa.Instruction) {
						if st, ok := in.(*ssa.Store); ok && st.Addr == ssa.Value(g) {
							if cc, ok := st.Val.(*ssa.Call); ok {
								nr = cc
							}
						}
					})
				}
			}
		}
		if nr == nil || sx.CalleeName(nr) != "strings.NewReplacer" {
			return nil, nil, "cannot find the strings.NewReplacer call that builds the replacer"
		}
		el := variadicElems(nr.Call.Args[0])
		if len(el) == 0 || len(el)%2 != 0 {
			return nil, nil, "cannot enumerate the replacer's pairs"
		}
		for i := 0; i < len(el); i += 2 {
			o, ok1 := sx.ConstString(el[i])
			n, ok2 := sx.ConstString(el[i+1])
			if !ok1 || !ok2 {
				return nil, nil, "replacer built from non-constant strings"
			}
			pairs = append(pairs, replPair{o, n})
		}
		return a[1], pairs, ""
	}
	return nil, nil, "not a replace-all call"
}

// checkQuotedForm verifies parts = const · replaceAll(subject) · const against the lexer.
func checkQuotedForm(p *core.Prog, parts []ssa.Value, subjectOK func(ssa.Value) bool) (bool, string) {
	if len(parts) != 3 {
		return false, fmt.Sprintf("result is a concatenation of %d parts, expected opening constant · escaped input · closing constant", len(parts))
	}
	open, ok1 := sx.ConstString(parts[0])
	closeS, ok3 := sx.ConstString(parts[2])
	mid, ok2 := parts[1].(*ssa.Call)
	if !ok1 || !ok3 || !ok2 {
		return false, "result is not of the form constant + replaceAll(input) + constant"
	}
	subject, pairs, why := replacementOf(p, mid)
	if why != "" {
		return false, why
	}
	if !subjectOK(subject) {
		return false, "the string being escaped is " + sx.ValPath(subject) + ", not the input"
	}
	o := shLex(shU, open, true)
	if o.End != shS || o.Literal != "" || len(o.Problems) > 0 {
		return false, fmt.Sprintf("opening constant %q does not leave the shell inside single quotes with an empty word (state %v, literal %q, %v)", open, o.End, o.Literal, o.Problems)
	}
	// inside single quotes every byte except ' is literal (lexer definition): the only byte needing replacement is '
	hasQuote := false
	seen := map[byte]bool{}
	for _, pr := range pairs {
		if len(pr.old) != 1 {
			return false, fmt.Sprintf("replacement of the multi-byte string %q: overlap with the quote replacement cannot be excluded", pr.old)
		}
		if seen[pr.old[0]] {
			return false, fmt.Sprintf("byte %q replaced twice", pr.old)
		}
		seen[pr.old[0]] = true
		if pr.old == "'" {
			hasQuote = true
		}
		m := shLex(shS, pr.new, false)
		if m.End != shS || m.Literal != pr.old || len(m.Problems) > 0 {
			return false, fmt.Sprintf("replacement %q → %q: read from inside single quotes the shell ends in state %v with literal %q %v — it must return to single quotes having contributed exactly %q", pr.old, pr.new, m.End, m.Literal, m.Problems, pr.old)
		}
	}
	if !hasQuote {
		return false, "the single quote itself is not replaced: an embedded ' would end the quoting"
	}
	cl := shLex(shS, closeS, false)
	if cl.End != shU || cl.Literal != "" || len(cl.Problems) > 0 {
		return false, fmt.Sprintf("closing constant %q does not end the quoted word cleanly (state %v, literal %q, %v)", closeS, cl.End, cl.Literal, cl.Problems)
	}
	return true, fmt.Sprintf("%q · replaceAll(input, %v) · %q: lexer returns to Unquoted with the word equal to the input", open, pairs, closeS)
}

func runC16(p *core.Prog, r *core.Report) {
	r.Rule("C16-R1", "ShellEscape returns, on every path, constant · replace-all(input, constants) · constant", 1)
	r.Rule("C16-R2", "run through a POSIX sh lexer automaton: the opening constant enters single quotes with an empty word, every replacement returns to single quotes having contributed exactly the replaced byte, ' itself is replaced, the closing constant ends the word with nothing added", 1)
	r.Rule("C16-R3", "ShellEscapeExceptTilde leaves exactly the tested constant prefix \"~/\" outside the quotes, escapes the remainder from the prefix length on with ShellEscape, and falls back to ShellEscape(input) otherwise", 2)
	r.NotDecided = append(r.NotDecided, "agreement of real dash/bash with the POSIX lexer model (no shell is run)")
	r.Trusted = append(r.Trusted, "POSIX XCU 2.2: inside single quotes every character except ' is literal", "strings.Replace(n<0)/ReplaceAll/Replacer replace every occurrence")

	se := p.Func("util/strutil", "ShellEscape")
	st := p.Func("util/strutil", "ShellEscapeExceptTilde")
	if se == nil || st == nil {
		r.Fail("C16-R1", "anchors", "-", "ShellEscape / ShellEscapeExceptTilde not found")
		return
	}
	for i, ret := range sx.Returns(se) {
		c := fmt.Sprintf("ShellEscape return #%d", i)
		ok, d := checkQuotedForm(p, concatParts(ret.Results[0]), func(v ssa.Value) bool { return v == ssa.Value(se.Params[0]) })
		shape := ok || !strings.Contains(d, "expected opening") && !strings.Contains(d, "not of the form")
		r.Check(shape, "C16-R1", c+": shape", p.Pos(ret.Pos()), "constant · replaceAll(s) · constant", d)
		if shape {
			r.Check(ok, "C16-R2", c+": quoting automaton", p.Pos(ret.Pos()), d, d)
		}
	}
	// R3
	nPrefix, nPlain := 0, 0
	for i, ret := range sx.Returns(st) {
		c := fmt.Sprintf("ShellEscapeExceptTilde return #%d", i)
		parts := concatParts(ret.Results[0])
		isEsc := func(v ssa.Value) (*ssa.Call, bool) {
			call, ok := v.(*ssa.Call)
			return call, ok && sx.StaticCallee(call) == se
		}
		if len(parts) == 1 {
			call, ok := isEsc(parts[0])
			ok = ok && call.Call.Args[0] == ssa.Value(st.Params[0])
			nPlain++
			r.Check(ok, "C16-R3", c+": plain fallback", p.Pos(ret.Pos()), "ShellEscape(input)", "the fallback does not return ShellEscape(input) unchanged")
			continue
		}
		nPrefix++
		okP := len(parts) == 2
		var why string
		if okP {
			pre, isC := sx.ConstString(parts[0])
			call, isE := isEsc(parts[1])
			switch {
			case !isC || !isE:
				okP, why = false, "result is not constant-prefix + ShellEscape(remainder): "+sx.ValPath(ret.Results[0])
			default:
				sl, isS := call.Call.Args[0].(*ssa.Slice)
				lo := int64(-1)
				if isS {
					lo, _ = sx.ConstInt(sl.Low)
				}
				if !isS || sl.X != ssa.Value(st.Params[0]) || sl.High != nil || lo != int64(len(pre)) {
					okP, why = false, fmt.Sprintf("the remainder passed to ShellEscape is not input[%d:]", len(pre))
					break
				}
				// the return is reachable only through HasPrefix(input, pre) == true
				cut := sx.Cut{Edges: map[sx.Edge]bool{}}
				sx.Instrs(st, func(in ssa.Instruction) {
					hp, ok := in.(*ssa.Call)
					if !ok || sx.CalleeName(hp) != "strings.HasPrefix" || hp.Call.Args[0] != ssa.Value(st.Params[0]) {
						return
					}
					if s, ok := sx.ConstString(hp.Call.Args[1]); !ok || s != pre {
						return
					}
					for _, u := range *hp.Referrers() {
						if iff, ok := u.(*ssa.If); ok {
							cut.Edges[sx.Edge{From: iff.Block(), Idx: 0}] = true
						}
					}
				})
				if len(cut.Edges) == 0 || !sx.MustPass(st, nil, ret, cut) {
					okP, why = false, fmt.Sprintf("the prefix %q is left unquoted on a path where strings.HasPrefix(input, %q) is not established", pre, pre)
					break
				}
				if pre != "~/" {
					okP, why = false, fmt.Sprintf("the unquoted prefix is %q, the property allows only \"~/\"", pre)
					break
				}
				lx := shLex(shU, pre, true)
				if lx.End != shU || len(lx.Problems) != 1 || lx.Problems[0] != "tilde-prefix at word start" {
					okP, why = false, fmt.Sprintf("unquoted prefix %q: %v", pre, lx.Problems)
				}
			}
		} else {
			why = "result is not constant-prefix + ShellEscape(remainder): " + sx.ValPath(ret.Results[0])
		}
		r.Check(okP, "C16-R3", c+": tilde prefix", p.Pos(ret.Pos()), "\"~/\" + ShellEscape(input[2:]) under HasPrefix(input, \"~/\")", why)
	}
	if nPrefix == 0 || nPlain == 0 {
		r.Fail("C16-R3", "ShellEscapeExceptTilde has both the prefix and the plain path", p.FuncPos(st), fmt.Sprintf("%d prefix returns, %d plain returns", nPrefix, nPlain))
	}
}
