package props

import (
	"fmt"
	"go/token"
	"sort"
	"strings"

	"golang.org/x/tools/go/ssa"

	"glbverif/checker/core"
	"glbverif/checker/sx"
)

func init() { register("C16", "util/strutil", runC16) }

// ---- POSIX sh word lexer (XCU 2.2 Quoting, 2.3 Token Recognition) ----

type shState int

const (
	shU shState = iota // unquoted
	shS                // inside '…'
	shD                // inside "…"
)

func (s shState) String() string { return [...]string{"Unquoted", "SingleQuoted", "DoubleQuoted"}[s] }

type shResult struct {
	End      shState
	Literal  string   // bytes contributed literally to the current word
	Problems []string // word breaks, expansion triggers, dangling escapes
}

// shLex runs the lexer over input starting in state st. atWordStart tells
// whether the first byte is the first byte of a word (for ~ and #).
func shLex(st shState, input string, atWordStart bool) shResult {
	res := shResult{}
	var lit strings.Builder
	bad := func(f string, a ...any) { res.Problems = append(res.Problems, fmt.Sprintf(f, a...)) }
	wordStart := atWordStart
	for i := 0; i < len(input); i++ {
		c := input[i]
		switch st {
		case shS:
			if c == '\'' {
				st = shU
			} else {
				lit.WriteByte(c) // every byte is literal inside single quotes
			}
			wordStart = false
		case shD:
			switch c {
			case '"':
				st = shU
			case '\\':
				if i+1 < len(input) && strings.IndexByte("$`\"\\\n", input[i+1]) >= 0 {
					i++
					if input[i] != '\n' {
						lit.WriteByte(input[i])
					}
				} else {
					lit.WriteByte(c)
				}
			case '$', '`':
				bad("expansion trigger %q inside double quotes at offset %d", c, i)
			default:
				lit.WriteByte(c)
			}
			wordStart = false
		case shU:
			switch {
			case c == '\'':
				st = shS
			case c == '"':
				st = shD
			case c == '\\':
				if i+1 < len(input) {
					i++
					if input[i] != '\n' {
						lit.WriteByte(input[i])
					}
				} else {
					bad("dangling backslash at end")
				}
			case c == ' ' || c == '\t' || c == '\n':
				bad("unquoted blank %q at offset %d ends the word", c, i)
			case strings.IndexByte(";&|<>()", c) >= 0:
				bad("unquoted operator %q at offset %d", c, i)
			case c == '$' || c == '`':
				bad("unquoted expansion trigger %q at offset %d", c, i)
			case c == '*' || c == '?' || c == '[':
				bad("unquoted glob character %q at offset %d", c, i)
			case c == '~' && wordStart:
				bad("tilde-prefix at word start")
				lit.WriteByte(c)
			case c == '#' && wordStart:
				bad("comment start at word start")
			case c == '!' || c == '{' || c == '}' || c == '=' || c == '%' || c == '^':
				// '!' (history in interactive bash), '{' '}' (brace expansion / reserved words), '=' (assignment at word start)
				if c == '!' || c == '{' || c == '}' {
					bad("unquoted %q at offset %d (reserved / history / brace expansion)", c, i)
				} else {
					lit.WriteByte(c)
				}
			default:
				lit.WriteByte(c)
			}
			wordStart = false
		}
	}
	res.End = st
	res.Literal = lit.String()
	return res
}

// concatParts flattens `a + b + c` into its operands.
func concatParts(v ssa.Value) []ssa.Value {
	if b, ok := v.(*ssa.BinOp); ok && b.Op == token.ADD {
		return append(concatParts(b.X), concatParts(b.Y)...)
	}
	return []ssa.Value{v}
}

type replPair struct{ old, new string }

// replacementOf recognises strings.Replace(s,old,new,-1), strings.ReplaceAll(s,old,new)
// and (*strings.Replacer).Replace(s) with a Replacer built from constants.
// recursiveReplace: fn is `func f(s string) string { h, t, found := strings.Cut(s, Q); if !found { return s }; return h + R + f(t) }`
// (Q, R constants, Q non-empty): by induction on the number of occurrences f(s) = strings.ReplaceAll(s, Q, R).
func recursiveReplace(fn *ssa.Function) (q, r string, ok bool) {
	if fn == nil || fn.Blocks == nil || len(fn.Params) != 1 || !isStringT(fn.Params[0].Type()) || fn.Signature.Results().Len() != 1 {
		return "", "", false
	}
	in := fn.Params[0]
	var cut *ssa.Call
	nCalls := 0
	sx.Instrs(fn, func(i ssa.Instruction) {
		if c, isC := i.(*ssa.Call); isC {
			if _, isB := c.Call.Value.(*ssa.Builtin); isB {
				return
			}
			nCalls++
			if sx.CalleeName(c) == "strings.Cut" && len(c.Call.Args) == 2 && c.Call.Args[0] == ssa.Value(in) {
				cut = c
			}
		}
	})
	if cut == nil || nCalls != 2 { // the Cut and the one recursive call
		return "", "", false
	}
	q, isQ := sx.ConstString(cut.Call.Args[1])
	if !isQ || q == "" {
		return "", "", false
	}
	var head, tail, found ssa.Value
	for _, u := range *cut.Referrers() {
		if e, isE := u.(*ssa.Extract); isE {
			switch e.Index {
			case 0:
				head = e
			case 1:
				tail = e
			case 2:
				found = e
			}
		}
	}
	if head == nil || tail == nil || found == nil {
		return "", "", false
	}
	foundEdges, notFound := boolEdgesOf(found, true), boolEdgesOf(found, false)
	if len(foundEdges) == 0 {
		return "", "", false
	}
	nRet := 0
	for _, ret := range sx.Returns(fn) {
		nRet++
		v := ret.Results[0]
		if v == ssa.Value(in) {
			// the input itself: only where nothing was found
			if len(notFound) == 0 || !sx.MustPass(fn, nil, ret, sx.Cut{Edges: notFound}) {
				return "", "", false
			}
			continue
		}
		parts := concatParts(v)
		if len(parts) != 3 || parts[0] != head {
			return "", "", false
		}
		rr, isR := sx.ConstString(parts[1])
		rec, isCall := parts[2].(*ssa.Call)
		if !isR || !isCall || sx.StaticCallee(rec) != fn || len(rec.Call.Args) != 1 || rec.Call.Args[0] != tail {
			return "", "", false
		}
		if !sx.MustPass(fn, nil, ret, sx.Cut{Edges: foundEdges}) {
			return "", "", false
		}
		if r != "" && r != rr {
			return "", "", false
		}
		r = rr
	}
	if nRet < 2 || r == "" {
		return "", "", false
	}
	return q, r, true
}

// boolEdgesOf: the CFG edges taken when the boolean v has the given value (tested directly or negated).
func boolEdgesOf(v ssa.Value, want bool) map[sx.Edge]bool {
	out := map[sx.Edge]bool{}
	var walk func(x ssa.Value, w bool)
	walk = func(x ssa.Value, w bool) {
		if x.Referrers() == nil {
			return
		}
		for _, u := range *x.Referrers() {
			switch y := u.(type) {
			case *ssa.If:
				idx := 0
				if !w {
					idx = 1
				}
				out[sx.Edge{From: y.Block(), Idx: idx}] = true
			case *ssa.UnOp:
				if y.Op == token.NOT {
					walk(y, !w)
				}
			}
		}
	}
	walk(v, want)
	return out
}

func replacementOf(p *core.Prog, c *ssa.Call) (subject ssa.Value, pairs []replPair, why string) {
	name := sx.CalleeName(c)
	a := c.Call.Args
	if callee := sx.StaticCallee(c); callee != nil && p.InModule(callee) && len(a) == 1 {
		if q, r, ok := recursiveReplace(sx.OrigFunc(callee)); ok {
			return a[0], []replPair{{q, r}}, ""
		}
	}
	switch name {
	case "strings.Replace":
		o, ok1 := sx.ConstString(a[1])
		n, ok2 := sx.ConstString(a[2])
		k, ok3 := sx.ConstInt(a[3])
		if !ok1 || !ok2 || !ok3 {
			return nil, nil, "strings.Replace with non-constant arguments"
		}
		if k >= 0 {
			return nil, nil, fmt.Sprintf("strings.Replace replaces at most %d occurrence(s): later quotes stay unescaped", k)
		}
		return a[0], []replPair{{o, n}}, ""
	case "strings.ReplaceAll":
		o, ok1 := sx.ConstString(a[1])
		n, ok2 := sx.ConstString(a[2])
		if !ok1 || !ok2 {
			return nil, nil, "strings.ReplaceAll with non-constant arguments"
		}
		return a[0], []replPair{{o, n}}, ""
	case "(*strings.Replacer).Replace", "(*strings.Replacer).WriteString":
		// the replacer: a package-level variable initialised with strings.NewReplacer(consts…)
		var nr *ssa.Call
		recv := sx.Unspill(a[0])
		switch x := recv.(type) {
		case *ssa.Call:
			nr = x
		case *ssa.UnOp:
			if g, ok := x.X.(*ssa.Global); ok {
				for _, fn := range p.SSA.Package(g.Pkg.Pkg).Members {
					f, ok := fn.(*ssa.Function)
					if !ok || f.Name() != "init" {
						continue
					}
					sx.Instrs(f, func(in ssa.Instruction) {
						if st, ok := in.(*ssa.Store); ok && st.Addr == ssa.Value(g) {
							if cc, ok := st.Val.(*ssa.Call); ok {
								nr = cc
							}
						}
					})
				}
			}
		}
		if nr == nil || sx.CalleeName(nr) != "strings.NewReplacer" {
			return nil, nil, "cannot find the strings.NewReplacer call that builds the replacer"
		}
		el := variadicElems(nr.Call.Args[0])
		if len(el) == 0 || len(el)%2 != 0 {
			return nil, nil, "cannot enumerate the replacer's pairs"
		}
		for i := 0; i < len(el); i += 2 {
			o, ok1 := sx.ConstString(el[i])
			n, ok2 := sx.ConstString(el[i+1])
			if !ok1 || !ok2 {
				return nil, nil, "replacer built from non-constant strings"
			}
			pairs = append(pairs, replPair{o, n})
		}
		return a[len(a)-1], pairs, ""
	}
	return nil, nil, "not a replace-all call"
}

// ---- symbolic strings ----
//
// The value returned by the two functions is evaluated into a small algebra of string expressions over the
// input parameter: constants, the input, input[k:], input[:k], the "after" result of strings.CutPrefix,
// replace-all (Replace n<0, ReplaceAll, Replacer, Join(Split(x, old), new)), ShellEscape(x) and concatenation.
// Package helpers are expanded first (inlined view); a value merged by a phi at the return is split into the cases
// of its incoming edges, each with the path facts that hold on that edge.

type sstr struct {
	kind  string // const | input | suffix | prefix | cutafter | repl | esc | concat | unknown
	s     string // const text; cutafter: the prefix; unknown: description
	k     int64
	sub   *sstr
	pairs []replPair
	parts []*sstr
}

func (x *sstr) String() string {
	switch x.kind {
	case "const":
		return fmt.Sprintf("%q", x.s)
	case "input":
		return "s"
	case "suffix":
		return fmt.Sprintf("s[%d:]", x.k)
	case "prefix":
		return fmt.Sprintf("s[:%d]", x.k)
	case "cutafter":
		return fmt.Sprintf("CutPrefix(s,%q)", x.s)
	case "head":
		return fmt.Sprintf("s[:first %q]", x.s)
	case "tail":
		return fmt.Sprintf("s[first %q:]", x.s)
	case "repl":
		return fmt.Sprintf("replaceAll(%v,%v)", x.sub, x.pairs)
	case "esc":
		return fmt.Sprintf("ShellEscape(%v)", x.sub)
	case "concat":
		var ps []string
		for _, p := range x.parts {
			ps = append(ps, p.String())
		}
		return strings.Join(ps, " + ")
	}
	return "?(" + x.s + ")"
}

type sevalCtx struct {
	p      *core.Prog
	input  *ssa.Parameter
	esc    *ssa.Function     // ShellEscape (source function); nil while evaluating ShellEscape itself
	choice map[*ssa.Phi]int  // phi → chosen incoming edge
	path   []*ssa.BasicBlock // the path being evaluated (loop-free functions), nil otherwise
}

// intOf: an integer constant, directly or through the phis decided by the path.
func (c *sevalCtx) intOf(v ssa.Value, depth int) (int64, bool) {
	if k, ok := sx.ConstInt(v); ok {
		return k, true
	}
	if depth > 6 {
		return 0, false
	}
	if ph, ok := sx.Unspill(v).(*ssa.Phi); ok {
		if k, ok := c.choice[ph]; ok {
			return c.intOf(ph.Edges[k], depth+1)
		}
	}
	// len of a constant string (an entry of a single-valued table)
	if call, ok := sx.Unspill(v).(*ssa.Call); ok && isBuiltin(call, "len") {
		if s, isS := sx.ConstString(sx.Unspill(call.Call.Args[0])); isS {
			return int64(len(s)), true
		}
	}
	return 0, false
}

// builderKey identifies a strings.Builder by where it lives: a local, or a field of a local struct.
func builderKey(v ssa.Value) string {
	switch x := v.(type) {
	case *ssa.Alloc:
		return fmt.Sprintf("%p", x)
	case *ssa.FieldAddr:
		if a, ok := x.X.(*ssa.Alloc); ok {
			return fmt.Sprintf("%p.%d", a, x.Field)
		}
	}
	return ""
}

// builderOnPath: the contents of the builder at its String() call, as the concatenation of what the path wrote to it.
func (c *sevalCtx) builderOnPath(str *ssa.Call, depth int) *sstr {
	unk := func(f string, a ...any) *sstr { return &sstr{kind: "unknown", s: fmt.Sprintf(f, a...)} }
	key := builderKey(sx.Args(str)[0])
	if key == "" {
		return unk("the builder is neither a local variable nor a field of a local struct")
	}
	out := &sstr{kind: "concat"}
	for _, b := range c.path {
		for _, in := range b.Instrs {
			if in == ssa.Instruction(str) {
				return out
			}
			uses := false
			var buf [8]*ssa.Value
			for _, op := range in.Operands(buf[:0]) {
				if *op == nil {
					continue
				}
				if builderKey(*op) == key {
					uses = true
				}
				if mi, ok := (*op).(*ssa.MakeInterface); ok && builderKey(mi.X) == key {
					uses = true // the builder as an io.Writer
				}
			}
			if !uses {
				continue
			}
			switch x := in.(type) {
			case *ssa.FieldAddr, *ssa.DebugRef:
				continue
			case *ssa.MakeInterface:
				// handed to a Replacer below (checked at the use)
				continue
			case *ssa.Call:
				a := sx.Args(x)
				switch sx.CalleeName(x) {
				case "(*strings.Builder).Grow", "(*strings.Builder).Len", "(*strings.Builder).Cap", "(*strings.Builder).String":
					continue
				case "(*strings.Builder).WriteString":
					out.parts = append(out.parts, c.eval(a[1], depth+1))
					continue
				case "(*strings.Replacer).WriteString":
					// replacer.WriteString(&b, s): every occurrence replaced, written to the builder
					if subject, pairs, why := replacementOf(c.p, x); why == "" {
						out.parts = append(out.parts, &sstr{kind: "repl", sub: c.eval(subject, depth+1), pairs: pairs})
						continue
					} else {
						return unk("%s", why)
					}
				case "(*strings.Builder).WriteByte", "(*strings.Builder).WriteRune":
					if k, ok := c.intOf(a[1], 0); ok && k >= 0 && k < 0x80 {
						out.parts = append(out.parts, &sstr{kind: "const", s: string(rune(k))})
						continue
					}
					return unk("a non-constant byte is written to the builder")
				}
				return unk("builder method %s is not modelled", short(sx.CalleeName(x)))
			}
			return unk("the builder is used other than through its methods")
		}
	}
	return unk("the path does not reach the builder's String call")
}

func (c *sevalCtx) eval(v ssa.Value, depth int) *sstr {
	unk := func(f string, a ...any) *sstr { return &sstr{kind: "unknown", s: fmt.Sprintf(f, a...)} }
	if depth > 12 {
		return unk("too deep")
	}
	v = sx.Unspill(v)
	if _, isC := v.(*ssa.Const); !isC {
		// an entry of a single-valued package-level table of constants (sx.ConstString)
		if s, ok := sx.ConstString(v); ok {
			return &sstr{kind: "const", s: s}
		}
	}
	switch x := v.(type) {
	case *ssa.Const:
		if s, ok := sx.ConstString(x); ok {
			return &sstr{kind: "const", s: s}
		}
	case *ssa.Parameter:
		if x == c.input {
			return &sstr{kind: "input"}
		}
	case *ssa.Phi:
		if k, ok := c.choice[x]; ok {
			return c.eval(x.Edges[k], depth+1)
		}
		return unk("value merged from several paths: %s", sx.ValPath(x))
	case *ssa.BinOp:
		if x.Op == token.ADD {
			l, r := c.eval(x.X, depth+1), c.eval(x.Y, depth+1)
			return &sstr{kind: "concat", parts: []*sstr{l, r}}
		}
	case *ssa.Slice:
		if sx.Unspill(x.X) == ssa.Value(c.input) && x.Max == nil {
			lo, hi := int64(0), int64(-1)
			okLo, okHi := true, true
			if x.Low != nil {
				lo, okLo = c.intOf(x.Low, 0)
			}
			if x.High != nil {
				hi, okHi = c.intOf(x.High, 0)
			}
			// input[:i] / input[i:] with i = strings.IndexByte(input, q): the part before the first q (which contains no q)
			// and the part from it on
			firstOf := func(v ssa.Value) (string, bool) {
				call, ok := sx.Unspill(v).(*ssa.Call)
				if !ok || len(call.Call.Args) != 2 || sx.Unspill(call.Call.Args[0]) != ssa.Value(c.input) {
					return "", false
				}
				switch sx.CalleeName(call) {
				case "strings.IndexByte":
					if k, ok := sx.ConstInt(call.Call.Args[1]); ok && k > 0 && k < 0x80 {
						return string(rune(k)), true
					}
				case "strings.Index":
					if k, ok := sx.ConstString(call.Call.Args[1]); ok && len(k) == 1 {
						return k, true
					}
				}
				return "", false
			}
			if x.Low == nil && x.High != nil {
				if q, ok := firstOf(x.High); ok {
					return &sstr{kind: "head", s: q}
				}
			}
			if x.High == nil && x.Low != nil {
				if q, ok := firstOf(x.Low); ok {
					return &sstr{kind: "tail", s: q}
				}
			}
			switch {
			case okLo && x.High == nil:
				if lo == 0 {
					return &sstr{kind: "input"}
				}
				return &sstr{kind: "suffix", k: lo}
			case okLo && lo == 0 && okHi:
				if hi == 0 {
					return &sstr{kind: "const", s: ""}
				}
				return &sstr{kind: "prefix", k: hi}
			}
		}
	case *ssa.Extract:
		if call, ok := x.Tuple.(*ssa.Call); ok && sx.CalleeName(call) == "strings.CutPrefix" && x.Index == 0 {
			if pre, ok := sx.ConstString(call.Call.Args[1]); ok && sx.Unspill(call.Call.Args[0]) == ssa.Value(c.input) {
				return &sstr{kind: "cutafter", s: pre}
			}
		}
	case *ssa.Call:
		if callee := sx.StaticCallee(x); callee != nil && c.esc != nil && sameFn(callee, c.esc) {
			return &sstr{kind: "esc", sub: c.eval(x.Call.Args[0], depth+1)}
		}
		name := sx.CalleeName(x)
		if name == "(*strings.Builder).String" && c.path != nil {
			return c.builderOnPath(x, depth)
		}
		if name == "strings.Join" {
			// Join(Split(x, old), new) replaces every occurrence of a non-empty old by new
			if sp, ok := sx.Unspill(x.Call.Args[0]).(*ssa.Call); ok && sx.CalleeName(sp) == "strings.Split" {
				o, ok1 := sx.ConstString(sp.Call.Args[1])
				n, ok2 := sx.ConstString(x.Call.Args[1])
				if ok1 && ok2 && o != "" {
					return &sstr{kind: "repl", sub: c.eval(sp.Call.Args[0], depth+1), pairs: []replPair{{o, n}}}
				}
			}
			return unk("strings.Join of something other than strings.Split(x, constant)")
		}
		if subject, pairs, why := replacementOf(c.p, x); why == "" {
			return &sstr{kind: "repl", sub: c.eval(subject, depth+1), pairs: pairs}
		} else if name == "strings.Replace" || name == "strings.ReplaceAll" || name == "(*strings.Replacer).Replace" {
			return unk("%s", why)
		}
		return unk("result of %s", short(name))
	}
	return unk("%s", sx.ValPath(v))
}

// flat flattens concatenations, drops empty constants and merges adjacent constants.
func (x *sstr) flat() []*sstr {
	var out []*sstr
	var walk func(y *sstr)
	walk = func(y *sstr) {
		if y.kind == "concat" {
			for _, p := range y.parts {
				walk(p)
			}
			return
		}
		if y.kind == "const" {
			if y.s == "" {
				return
			}
			if n := len(out); n > 0 && out[n-1].kind == "const" {
				out[n-1] = &sstr{kind: "const", s: out[n-1].s + y.s}
				return
			}
		}
		out = append(out, y)
	}
	walk(x)
	// s[:first q] · replaceAll(s[first q:], {q→…}) is replaceAll(s, {q→…}): the part before the first q has no q to replace
	for i := 0; i+1 < len(out); i++ {
		h, r := out[i], out[i+1]
		if h.kind == "head" && r.kind == "repl" && r.sub != nil && r.sub.kind == "tail" && r.sub.s == h.s && len(r.pairs) == 1 && r.pairs[0].old == h.s {
			merged := &sstr{kind: "repl", sub: &sstr{kind: "input"}, pairs: r.pairs}
			out = append(append(append([]*sstr{}, out[:i]...), merged), out[i+2:]...)
		}
	}
	return out
}

// phiCases enumerates the choices of the phis (of the return's block) that the returned value depends on; each case
// names, per phi, the incoming edge. At most 8 cases.
func phiCases(ret *ssa.Return) []map[*ssa.Phi]int {
	var phis []*ssa.Phi
	seen := map[ssa.Value]bool{}
	var walk func(v ssa.Value, d int)
	walk = func(v ssa.Value, d int) {
		if v == nil || seen[v] || d > 10 {
			return
		}
		seen[v] = true
		switch x := sx.Unspill(v).(type) {
		case *ssa.Phi:
			if x.Block() == ret.Block() {
				phis = append(phis, x)
			}
		case *ssa.BinOp:
			walk(x.X, d+1)
			walk(x.Y, d+1)
		case *ssa.Call:
			for _, a := range x.Call.Args {
				walk(a, d+1)
			}
		case *ssa.Slice:
			walk(x.X, d+1)
		case *ssa.Extract:
			walk(x.Tuple, d+1)
		}
	}
	walk(ret.Results[0], 0)
	if len(phis) == 0 {
		return []map[*ssa.Phi]int{{}}
	}
	// phis of one block choose the same incoming edge
	var out []map[*ssa.Phi]int
	for k := range ret.Block().Preds {
		m := map[*ssa.Phi]int{}
		for _, ph := range phis {
			m[ph] = k
		}
		out = append(out, m)
	}
	return out
}

// resCase is one way a function's result comes about: in a loop-free function one path from the entry to a return
// (every phi decided by the path, the facts of exactly the edges taken); otherwise one incoming edge of the return's
// merged value (phiCases).
type resCase struct {
	ret    *ssa.Return
	choice map[*ssa.Phi]int
	path   []*ssa.BasicBlock
	edges  map[sx.Edge]bool
	label  string
}

func resultCases(fn *ssa.Function) []resCase {
	var out []resCase
	if len(sx.LoopHeaders(fn)) == 0 {
		var paths [][]*ssa.BasicBlock
		var walk func(b *ssa.BasicBlock, cur []*ssa.BasicBlock)
		tooMany := false
		walk = func(b *ssa.BasicBlock, cur []*ssa.BasicBlock) {
			if tooMany || b == fn.Recover {
				return
			}
			cur = append(cur, b)
			if len(b.Succs) == 0 {
				if _, isRet := b.Instrs[len(b.Instrs)-1].(*ssa.Return); isRet {
					paths = append(paths, append([]*ssa.BasicBlock(nil), cur...))
					if len(paths) > 48 {
						tooMany = true
					}
				}
				return
			}
			for _, s := range b.Succs {
				walk(s, cur)
			}
		}
		walk(fn.Blocks[0], nil)
		if !tooMany && len(paths) > 0 {
			perRet := map[*ssa.Return]int{}
			for _, pth := range paths {
				rc := resCase{ret: pth[len(pth)-1].Instrs[len(pth[len(pth)-1].Instrs)-1].(*ssa.Return), choice: map[*ssa.Phi]int{}, path: pth, edges: map[sx.Edge]bool{}}
				for i := 1; i < len(pth); i++ {
					prev, b := pth[i-1], pth[i]
					for si, sb := range prev.Succs {
						if sb == b {
							rc.edges[sx.Edge{From: prev, Idx: si}] = true
						}
					}
					for k, pb := range b.Preds {
						if pb != prev {
							continue
						}
						for _, in := range b.Instrs {
							ph, ok := in.(*ssa.Phi)
							if !ok {
								break
							}
							rc.choice[ph] = k
						}
					}
				}
				n := perRet[rc.ret]
				perRet[rc.ret]++
				if n > 0 {
					rc.label = fmt.Sprintf(" path %d", n)
				}
				out = append(out, rc)
			}
			return out
		}
		out = nil
	}
	for _, ret := range sx.Returns(fn) {
		for ci, choice := range phiCases(ret) {
			rc := resCase{ret: ret, choice: choice}
			if ci > 0 {
				rc.label = fmt.Sprintf(" case %d", ci)
			}
			out = append(out, rc)
		}
	}
	return out
}

// quotedFormOf recognises open · replaceAll(subject) · close in a flattened expression.
func quotedFormOf(parts []*sstr) (open string, mid *sstr, closeS string, why string) {
	if len(parts) != 3 {
		var ps []string
		for _, p := range parts {
			ps = append(ps, p.String())
		}
		return "", nil, "", fmt.Sprintf("result is a concatenation of %d parts (%s), expected opening constant · escaped input · closing constant", len(parts), strings.Join(ps, " + "))
	}
	if parts[0].kind != "const" || parts[2].kind != "const" || parts[1].kind != "repl" {
		return "", nil, "", "result is not of the form constant + replaceAll(input) + constant: " + parts[0].String() + " + " + parts[1].String() + " + " + parts[2].String()
	}
	return parts[0].s, parts[1], parts[2].s, ""
}

// checkQuoted runs open · replaceAll(·, pairs) · close through the lexer.
func checkQuoted(open string, pairs []replPair, closeS string) (bool, string) {
	o := shLex(shU, open, true)
	if o.End != shS || o.Literal != "" || len(o.Problems) > 0 {
		return false, fmt.Sprintf("opening constant %q does not leave the shell inside single quotes with an empty word (state %v, literal %q, %v)", open, o.End, o.Literal, o.Problems)
	}
	// inside single quotes every byte except ' is literal (lexer definition): the only byte needing replacement is '
	hasQuote := false
	seen := map[byte]bool{}
	for _, pr := range pairs {
		if len(pr.old) != 1 {
			return false, fmt.Sprintf("replacement of the multi-byte string %q: overlap with the quote replacement cannot be excluded", pr.old)
		}
		if seen[pr.old[0]] {
			return false, fmt.Sprintf("byte %q replaced twice", pr.old)
		}
		seen[pr.old[0]] = true
		if pr.old == "'" {
			hasQuote = true
		}
		m := shLex(shS, pr.new, false)
		if m.End != shS || m.Literal != pr.old || len(m.Problems) > 0 {
			return false, fmt.Sprintf("replacement %q → %q: read from inside single quotes the shell ends in state %v with literal %q %v — it must return to single quotes having contributed exactly %q", pr.old, pr.new, m.End, m.Literal, m.Problems, pr.old)
		}
	}
	if !hasQuote {
		return false, "the single quote itself is not replaced: an embedded ' would end the quoting"
	}
	cl := shLex(shS, closeS, false)
	if cl.End != shU || cl.Literal != "" || len(cl.Problems) > 0 {
		return false, fmt.Sprintf("closing constant %q does not end the quoted word cleanly (state %v, literal %q, %v)", closeS, cl.End, cl.Literal, cl.Problems)
	}
	return true, fmt.Sprintf("%q · replaceAll(input, %v) · %q: lexer returns to Unquoted with the word equal to the input", open, pairs, closeS)
}

// absentByteOnPath: the path (its edges) passes the "not found" edge of a test of strings.IndexByte(input, q) — `i < 0`,
// `i == -1` true edges, `i >= 0`, `i != -1` false edges; returns q.
func absentByteOnPath(fn *ssa.Function, input *ssa.Parameter, edges map[sx.Edge]bool) (string, bool) {
	found := ""
	sx.Instrs(fn, func(in ssa.Instruction) {
		b, ok := in.(*ssa.BinOp)
		if !ok || b.Referrers() == nil {
			return
		}
		call, ok := sx.Unspill(b.X).(*ssa.Call)
		if !ok || len(call.Call.Args) != 2 || sx.Unspill(call.Call.Args[0]) != ssa.Value(input) {
			return
		}
		q := ""
		switch sx.CalleeName(call) {
		case "strings.IndexByte":
			if k, ok := sx.ConstInt(call.Call.Args[1]); ok && k > 0 && k < 0x80 {
				q = string(rune(k))
			}
		case "strings.Index", "strings.IndexRune":
			if k, ok := sx.ConstString(call.Call.Args[1]); ok && len(k) == 1 {
				q = k
			}
		case "strings.Contains", "strings.ContainsRune":
		}
		if q == "" {
			return
		}
		k, isC := sx.ConstInt(b.Y)
		if !isC {
			return
		}
		absentIdx := -1
		switch {
		case b.Op == token.LSS && k == 0, b.Op == token.EQL && k == -1, b.Op == token.LEQ && k == -1:
			absentIdx = 0
		case b.Op == token.GEQ && k == 0, b.Op == token.NEQ && k == -1, b.Op == token.GTR && k == -1:
			absentIdx = 1
		}
		if absentIdx < 0 {
			return
		}
		for _, u := range *b.Referrers() {
			if iff, ok := u.(*ssa.If); ok && edges[sx.Edge{From: iff.Block(), Idx: absentIdx}] {
				found = q
			}
		}
	})
	return found, found != ""
}

// emptyInputEdges: the CFG edges of fn on which the input string is known to be empty (`s == ""`, `len(s) == 0`,
// `len(s) < 1` true edges and the false edges of their negations).
func emptyInputEdges(fn *ssa.Function, input *ssa.Parameter) map[sx.Edge]bool {
	out := map[sx.Edge]bool{}
	isLen := func(v ssa.Value) bool {
		c, ok := sx.Unspill(v).(*ssa.Call)
		return ok && isBuiltin(c, "len") && sx.Unspill(c.Call.Args[0]) == ssa.Value(input)
	}
	sx.Instrs(fn, func(in ssa.Instruction) {
		b, ok := in.(*ssa.BinOp)
		if !ok || b.Referrers() == nil {
			return
		}
		trueIsEmpty, falseIsEmpty := false, false
		if sx.Unspill(b.X) == ssa.Value(input) {
			if k, isC := sx.ConstString(b.Y); isC && k == "" {
				trueIsEmpty, falseIsEmpty = b.Op == token.EQL, b.Op == token.NEQ
			}
		}
		if isLen(b.X) {
			if k, isC := sx.ConstInt(b.Y); isC {
				switch {
				case k == 0 && (b.Op == token.EQL || b.Op == token.LEQ), k == 1 && b.Op == token.LSS:
					trueIsEmpty = true
				case k == 0 && (b.Op == token.NEQ || b.Op == token.GTR), k == 1 && b.Op == token.GEQ:
					falseIsEmpty = true
				}
			}
		}
		for _, u := range *b.Referrers() {
			if iff, ok := u.(*ssa.If); ok {
				if trueIsEmpty {
					out[sx.Edge{From: iff.Block(), Idx: 0}] = true
				}
				if falseIsEmpty {
					out[sx.Edge{From: iff.Block(), Idx: 1}] = true
				}
			}
		}
	})
	return out
}

// startsWithFacts: the CFG edges of fn on which the input is known to start with pre — strings.HasPrefix true edges,
// strings.CutPrefix found edges, and (for a two-byte prefix) the pair of byte tests s[0]==pre[0], s[1]==pre[1].
func startsWithFacts(fn *ssa.Function, input *ssa.Parameter, pre string) (whole map[sx.Edge]bool, perByte []map[sx.Edge]bool) {
	whole = map[sx.Edge]bool{}
	perByte = make([]map[sx.Edge]bool, len(pre))
	for i := range perByte {
		perByte[i] = map[sx.Edge]bool{}
	}
	ifEdges := func(v ssa.Value, whenTrue bool, into map[sx.Edge]bool) {
		if v.Referrers() == nil {
			return
		}
		for _, u := range *v.Referrers() {
			switch u := u.(type) {
			case *ssa.If:
				idx := 1
				if whenTrue {
					idx = 0
				}
				into[sx.Edge{From: u.Block(), Idx: idx}] = true
			case *ssa.UnOp:
				if u.Op == token.NOT {
					for _, uu := range *u.Referrers() {
						if iff, ok := uu.(*ssa.If); ok {
							idx := 0
							if whenTrue {
								idx = 1
							}
							into[sx.Edge{From: iff.Block(), Idx: idx}] = true
						}
					}
				}
			}
		}
	}
	sx.Instrs(fn, func(in ssa.Instruction) {
		switch x := in.(type) {
		case *ssa.Call:
			switch sx.CalleeName(x) {
			case "strings.HasPrefix":
				if s, ok := sx.ConstString(x.Call.Args[1]); ok && s == pre && sx.Unspill(x.Call.Args[0]) == ssa.Value(input) {
					ifEdges(x, true, whole)
				}
			case "strings.CutPrefix":
				if s, ok := sx.ConstString(x.Call.Args[1]); ok && s == pre && sx.Unspill(x.Call.Args[0]) == ssa.Value(input) {
					for _, u := range *x.Referrers() {
						if e, ok := u.(*ssa.Extract); ok && e.Index == 1 {
							ifEdges(e, true, whole)
						}
					}
				}
			}
		case *ssa.BinOp:
			if x.Op != token.EQL && x.Op != token.NEQ {
				return
			}
			k, isC := sx.ConstInt(x.Y)
			var idxV ssa.Value
			var base ssa.Value
			switch lk := x.X.(type) {
			case *ssa.Lookup:
				base, idxV = lk.X, lk.Index
			case *ssa.Index:
				base, idxV = lk.X, lk.Index
			}
			if !isC || base == nil || sx.Unspill(base) != ssa.Value(input) {
				return
			}
			pos, isP := sx.ConstInt(idxV)
			if !isP || pos < 0 || int(pos) >= len(pre) || byte(k) != pre[pos] {
				return
			}
			ifEdges(x, x.Op == token.EQL, perByte[pos])
		}
	})
	return
}

// builderForm recognises a result assembled in a strings.Builder around one loop over the input:
//
//	T1 (split loop)   rest := s; for { pos := strings.IndexByte(rest, c); if pos < 0 { break };
//	                  b.WriteString(rest[:pos]); b.WriteString(NEW); rest = rest[pos+1:] }; b.WriteString(rest)
//	T2 (byte loop)    for i := 0; i < len(s); i++ { switch s[i] { case c: b.WriteString(NEW); default: b.WriteByte(s[i]) } }
//
// with constant writes before and after. Both are replace-all: T1 by its loop invariant (output = open ·
// replaceAll(s minus rest), rest a suffix of s), T2 byte by byte (the body is evaluated for each of the 256 byte
// values). Returns open, the replacement pairs, close.
func builderForm(p *core.Prog, fn *ssa.Function, input *ssa.Parameter, ret *ssa.Return) (open string, pairs []replPair, closeS string, why string) {
	strCall, ok := sx.Unspill(ret.Results[0]).(*ssa.Call)
	if !ok || sx.CalleeName(strCall) != "(*strings.Builder).String" {
		return "", nil, "", "not a strings.Builder result"
	}
	sb, ok := sx.Args(strCall)[0].(*ssa.Alloc)
	if !ok {
		return "", nil, "", "the builder is not a local variable"
	}
	type write struct {
		in    ssa.Instruction
		konst string
		isK   bool
		val   ssa.Value // non-constant argument
		byteW bool
	}
	var writes []write
	for _, u := range *sb.Referrers() {
		c, isCall := u.(*ssa.Call)
		if !isCall {
			if _, isDbg := u.(*ssa.DebugRef); isDbg {
				continue
			}
			return "", nil, "", "the builder is used other than through its methods"
		}
		switch sx.CalleeName(c) {
		case "(*strings.Builder).String", "(*strings.Builder).Grow", "(*strings.Builder).Len", "(*strings.Builder).Cap":
		case "(*strings.Builder).WriteByte":
			a := sx.Args(c)[1]
			if k, ok := sx.ConstInt(a); ok {
				writes = append(writes, write{in: c, konst: string([]byte{byte(k)}), isK: true, byteW: true})
			} else {
				writes = append(writes, write{in: c, val: a, byteW: true})
			}
		case "(*strings.Builder).WriteString":
			a := sx.Args(c)[1]
			if k, ok := sx.ConstString(a); ok {
				writes = append(writes, write{in: c, konst: k, isK: true})
			} else {
				writes = append(writes, write{in: c, val: a})
			}
		default:
			return "", nil, "", "builder method " + short(sx.CalleeName(c)) + " is not modelled"
		}
	}
	hs := sx.LoopHeaders(fn)
	if len(hs) != 1 {
		return "", nil, "", fmt.Sprintf("%d loops around the builder, expected one", len(hs))
	}
	h := hs[0]
	body := sx.LoopBody(h)
	// order writes by position: before the loop (dominating the header), inside, after
	var pre, in, post []write
	for _, w := range writes {
		b := w.in.Block()
		switch {
		case body[b]:
			in = append(in, w)
		case b.Dominates(h):
			pre = append(pre, w)
		default:
			post = append(post, w)
		}
	}
	byPos := func(ws []write) {
		sort.SliceStable(ws, func(i, j int) bool {
			bi, bj := ws[i].in.Block(), ws[j].in.Block()
			if bi == bj {
				return indexIn(ws[i].in) < indexIn(ws[j].in)
			}
			return bi.Dominates(bj)
		})
	}
	byPos(pre)
	byPos(post)
	byPos(in)
	for _, w := range pre {
		if !w.isK {
			return "", nil, "", "a non-constant write precedes the loop"
		}
		open += w.konst
	}
	// T1
	if len(in) == 2 && !in[0].isK && in[1].isK && !in[0].byteW && len(post) >= 1 && !post[0].isK {
		rest, isPhi := sx.Unspill(post[0].val).(*ssa.Phi)
		seg, isSl := in[0].val.(*ssa.Slice)
		if isPhi && rest.Block() == h && isSl && seg.X == ssa.Value(rest) && seg.Low == nil && seg.High != nil {
			pos, isCall := seg.High.(*ssa.Call)
			old := ""
			if isCall {
				switch sx.CalleeName(pos) {
				case "strings.IndexByte":
					if k, ok := sx.ConstInt(pos.Call.Args[1]); ok && pos.Call.Args[0] == ssa.Value(rest) {
						old = string([]byte{byte(k)})
					}
				case "strings.Index":
					if k, ok := sx.ConstString(pos.Call.Args[1]); ok && pos.Call.Args[0] == ssa.Value(rest) {
						old = k
					}
				}
			}
			okPhi := old != "" && len(rest.Edges) == 2
			if okPhi {
				initOK, stepOK := false, false
				for _, e := range rest.Edges {
					if sx.Unspill(e) == ssa.Value(input) {
						initOK = true
					}
					if sl, ok := e.(*ssa.Slice); ok && sl.X == ssa.Value(rest) && sl.High == nil {
						if b, ok := sl.Low.(*ssa.BinOp); ok && b.Op == token.ADD && b.X == ssa.Value(pos) {
							if k, ok := sx.ConstInt(b.Y); ok && int(k) == len(old) {
								stepOK = true
							}
						}
					}
				}
				okPhi = initOK && stepOK
			}
			// the loop is left exactly when the delimiter is not found
			exitOK := false
			if iff, ok := pos.Block().Instrs[len(pos.Block().Instrs)-1].(*ssa.If); ok && isCall {
				if b, ok := iff.Cond.(*ssa.BinOp); ok && b.X == ssa.Value(pos) {
					if k, ok := sx.ConstInt(b.Y); ok && k == 0 && (b.Op == token.LSS || b.Op == token.GEQ) {
						exitOK = true
					}
					if k, ok := sx.ConstInt(b.Y); ok && k == -1 && (b.Op == token.EQL || b.Op == token.NEQ) {
						exitOK = true
					}
				}
			}
			if okPhi && exitOK {
				for _, w := range post[1:] {
					if !w.isK {
						return "", nil, "", "a non-constant write follows the remainder"
					}
					closeS += w.konst
				}
				return open, []replPair{{old, in[1].konst}}, closeS, ""
			}
		}
		return "", nil, "", "the loop around the builder is not the recognised split-at-delimiter loop"
	}
	// T2
	bound, okTrip := sx.LoopTrip(h)
	if okTrip {
		lc, isLen := sx.Unspill(bound).(*ssa.Call)
		if !isLen || !isBuiltin(lc, "len") || sx.Unspill(lc.Call.Args[0]) != ssa.Value(input) {
			okTrip = false
		}
	}
	if !okTrip {
		return "", nil, "", "the loop around the builder is neither the split-at-delimiter loop nor a loop over every byte of the input"
	}
	for _, w := range post {
		if !w.isK {
			return "", nil, "", "a non-constant write follows the loop"
		}
		closeS += w.konst
	}
	isCur := func(v ssa.Value) bool { // s[i] with i the loop counter
		var base, idx ssa.Value
		switch x := v.(type) {
		case *ssa.Lookup:
			base, idx = x.X, x.Index
		case *ssa.Index:
			base, idx = x.X, x.Index
		default:
			return false
		}
		if sx.Unspill(base) != ssa.Value(input) {
			return false
		}
		// the counter tested by the header (phi, or phi+1 in the rotated range form)
		iff := h.Instrs[len(h.Instrs)-1].(*ssa.If)
		return idx == iff.Cond.(*ssa.BinOp).X
	}
	inW := map[ssa.Instruction]write{}
	for _, w := range in {
		inW[w.in] = w
	}
	for b := 0; b < 256; b++ {
		var out []byte
		blk := h.Succs[0]
		steps := 0
		for blk != h && steps < 64 {
			steps++
			for _, ins := range blk.Instrs {
				if w, ok := inW[ins]; ok {
					switch {
					case w.isK:
						out = append(out, w.konst...)
					case w.byteW && isCur(w.val):
						out = append(out, byte(b))
					default:
						return "", nil, "", "the loop writes something other than constants and the current byte"
					}
				}
			}
			switch t := blk.Instrs[len(blk.Instrs)-1].(type) {
			case *ssa.Jump:
				blk = blk.Succs[0]
			case *ssa.If:
				cmp, ok := t.Cond.(*ssa.BinOp)
				if !ok || !isCur(cmp.X) {
					return "", nil, "", "a branch in the loop does not test the current byte against a constant"
				}
				k, isC := sx.ConstInt(cmp.Y)
				if !isC {
					return "", nil, "", "a branch in the loop does not test the current byte against a constant"
				}
				var res bool
				switch cmp.Op {
				case token.EQL:
					res = int64(b) == k
				case token.NEQ:
					res = int64(b) != k
				case token.LSS:
					res = int64(b) < k
				case token.LEQ:
					res = int64(b) <= k
				case token.GTR:
					res = int64(b) > k
				case token.GEQ:
					res = int64(b) >= k
				default:
					return "", nil, "", "unmodelled comparison in the loop"
				}
				if res {
					blk = blk.Succs[0]
				} else {
					blk = blk.Succs[1]
				}
			default:
				return "", nil, "", "the loop body leaves the loop"
			}
			if !body[blk] && blk != h {
				return "", nil, "", "the loop body leaves the loop"
			}
		}
		if blk != h {
			return "", nil, "", "the loop body does not return to the loop head"
		}
		if string(out) != string([]byte{byte(b)}) {
			pairs = append(pairs, replPair{string([]byte{byte(b)}), string(out)})
		}
	}
	return open, pairs, closeS, ""
}

func indexIn(in ssa.Instruction) int {
	for i, x := range in.Block().Instrs {
		if x == in {
			return i
		}
	}
	return -1
}

// checkQuotedForm (kept for callers outside this file) verifies parts = const · replaceAll(subject) · const against the lexer.
func checkQuotedForm(p *core.Prog, parts []ssa.Value, subjectOK func(ssa.Value) bool) (bool, string) {
	if len(parts) != 3 {
		return false, fmt.Sprintf("result is a concatenation of %d parts, expected opening constant · escaped input · closing constant", len(parts))
	}
	open, ok1 := sx.ConstString(parts[0])
	closeS, ok3 := sx.ConstString(parts[2])
	mid, ok2 := parts[1].(*ssa.Call)
	if !ok1 || !ok3 || !ok2 {
		return false, "result is not of the form constant + replaceAll(input) + constant"
	}
	subject, pairs, why := replacementOf(p, mid)
	if why != "" {
		return false, why
	}
	if !subjectOK(subject) {
		return false, "the string being escaped is " + sx.ValPath(subject) + ", not the input"
	}
	o := shLex(shU, open, true)
	if o.End != shS || o.Literal != "" || len(o.Problems) > 0 {
		return false, fmt.Sprintf("opening constant %q does not leave the shell inside single quotes with an empty word (state %v, literal %q, %v)", open, o.End, o.Literal, o.Problems)
	}
	// inside single quotes every byte except ' is literal (lexer definition): the only byte needing replacement is '
	hasQuote := false
	seen := map[byte]bool{}
	for _, pr := range pairs {
		if len(pr.old) != 1 {
			return false, fmt.Sprintf("replacement of the multi-byte string %q: overlap with the quote replacement cannot be excluded", pr.old)
		}
		if seen[pr.old[0]] {
			return false, fmt.Sprintf("byte %q replaced twice", pr.old)
		}
		seen[pr.old[0]] = true
		if pr.old == "'" {
			hasQuote = true
		}
		m := shLex(shS, pr.new, false)
		if m.End != shS || m.Literal != pr.old || len(m.Problems) > 0 {
			return false, fmt.Sprintf("replacement %q → %q: read from inside single quotes the shell ends in state %v with literal %q %v — it must return to single quotes having contributed exactly %q", pr.old, pr.new, m.End, m.Literal, m.Problems, pr.old)
		}
	}
	if !hasQuote {
		return false, "the single quote itself is not replaced: an embedded ' would end the quoting"
	}
	cl := shLex(shS, closeS, false)
	if cl.End != shU || cl.Literal != "" || len(cl.Problems) > 0 {
		return false, fmt.Sprintf("closing constant %q does not end the quoted word cleanly (state %v, literal %q, %v)", closeS, cl.End, cl.Literal, cl.Problems)
	}
	return true, fmt.Sprintf("%q · replaceAll(input, %v) · %q: lexer returns to Unquoted with the word equal to the input", open, pairs, closeS)
}

func runC16(p *core.Prog, r *core.Report) {
	r.Rule("C16-R1", "ShellEscape returns, on every path and in every case of a merged result, constant · replace-all(input, constants) · constant — as an expression (Replace n<0, ReplaceAll, Replacer, Join(Split)), through package helpers, or assembled in a strings.Builder by a split-at-delimiter or per-byte loop", 1)
	r.Rule("C16-R2", "run through a POSIX sh lexer automaton: the opening constant enters single quotes with an empty word, every replacement returns to single quotes having contributed exactly the replaced byte, ' itself is replaced, the closing constant ends the word with nothing added", 1)
	r.Rule("C16-R3", "ShellEscapeExceptTilde leaves exactly the prefix \"~/\" outside the quotes and only on paths where the input is known to start with it (HasPrefix, CutPrefix, or both byte tests), escapes exactly the remainder after it with ShellEscape (or ShellEscape's own verified form written out), and falls back to ShellEscape(input) otherwise", 2)
	r.NotDecided = append(r.NotDecided, "agreement of real dash/bash with the POSIX lexer model (no shell is run)")
	r.Trusted = append(r.Trusted, "POSIX XCU 2.2: inside single quotes every character except ' is literal", "strings.Replace(n<0)/ReplaceAll/Replacer replace every occurrence")

	seSrc := p.Func("util/strutil", "ShellEscape")
	stSrc := p.Func("util/strutil", "ShellEscapeExceptTilde")
	if seSrc == nil || stSrc == nil {
		r.Fail("C16-R1", "anchors", "-", "ShellEscape / ShellEscapeExceptTilde not found")
		return
	}
	// helpers of the package are expanded; inside ShellEscapeExceptTilde a call of ShellEscape stays a call (its result
	// is what C16-R1/R2 establish)
	// private helpers are expanded in place, except a self-recursive one (judged as a whole by recursiveReplace)
	var recHelpers []*ssa.Function
	for _, f := range p.PkgFuncs("util/strutil") {
		if _, _, ok := recursiveReplace(f); ok {
			recHelpers = append(recHelpers, f)
		}
	}
	se := p.Inl(seSrc, recHelpers...)
	st := p.Inl(stSrc, append([]*ssa.Function{seSrc}, recHelpers...)...)
	var refOpen, refClose string
	var refPairs []replPair
	refOK := false
	nRet := 0
	type emptyCase struct {
		c   string
		k   string
		ret *ssa.Return
	}
	var emptyCases []emptyCase
	type noQuoteCase struct {
		c, open, closeS, q string
		ret                *ssa.Return
	}
	var noQuoteCases []noQuoteCase
	retIdx := func(fn *ssa.Function, ret *ssa.Return) int {
		for i, r2 := range sx.Returns(fn) {
			if r2 == ret {
				return i
			}
		}
		return -1
	}
	for _, rc := range resultCases(se) {
		{
			ret, choice := rc.ret, rc.choice
			c := fmt.Sprintf("ShellEscape return #%d", retIdx(se, ret)) + rc.label
			nRet++
			ctx := &sevalCtx{p: p, input: se.Params[0], choice: choice, path: rc.path}
			expr := ctx.eval(ret.Results[0], 0)
			// a constant returned where the input is known to be empty (`if s == "" { return "''" }`): judged after the
			// general form, whose value for the empty input it must spell
			if fl := expr.flat(); rc.path != nil && (len(fl) == 0 || (len(fl) == 1 && fl[0].kind == "const")) {
				k := ""
				if len(fl) == 1 {
					k = fl[0].s
				}
				isEmpty := false
				for e := range emptyInputEdges(se, se.Params[0]) {
					if rc.edges[e] {
						isEmpty = true
					}
				}
				if isEmpty {
					emptyCases = append(emptyCases, emptyCase{c, k, ret})
					continue
				}
			}
			// constant · input · constant on a path where the input is known to contain no quote (`strings.IndexByte(s, q) <
			// 0`): replacing q would change nothing — judged after the general form, which names the byte to replace
			if fl := expr.flat(); rc.path != nil && len(fl) == 3 && fl[0].kind == "const" && fl[1].kind == "input" && fl[2].kind == "const" {
				if q, ok := absentByteOnPath(se, se.Params[0], rc.edges); ok {
					noQuoteCases = append(noQuoteCases, noQuoteCase{c, fl[0].s, fl[2].s, q, ret})
					continue
				}
			}
			open, mid, closeS, why := quotedFormOf(expr.flat())
			if why == "" && mid.sub.kind != "input" {
				why = "the string being escaped is " + mid.sub.String() + ", not the input"
			}
			if why != "" {
				// a result assembled in a strings.Builder around a loop over the input
				if o, prs, cl, w2 := builderForm(p, se, se.Params[0], ret); w2 == "" {
					open, mid, closeS, why = o, &sstr{kind: "repl", sub: &sstr{kind: "input"}, pairs: prs}, cl, ""
				} else if w2 != "not a strings.Builder result" {
					why = w2
				}
			}
			r.Check(why == "", "C16-R1", c+": shape", p.Pos(ret.Pos()), "constant · replaceAll(s) · constant", why)
			if why == "" {
				ok, d := checkQuoted(open, mid.pairs, closeS)
				r.Check(ok, "C16-R2", c+": quoting automaton", p.Pos(ret.Pos()), d, d)
				if ok {
					refOpen, refPairs, refClose, refOK = open, mid.pairs, closeS, true
				}
			}
		}
	}
	for _, nc := range noQuoteCases {
		ok := refOK && nc.open == refOpen && nc.closeS == refClose && len(refPairs) == 1 && refPairs[0].old == nc.q
		r.Check(ok, "C16-R1", nc.c+": input without the quote is wrapped as it is", p.Pos(nc.ret.Pos()), fmt.Sprintf("%q · s · %q on the path where s contains no %q: what the general form yields for such s", nc.open, nc.closeS, nc.q), fmt.Sprintf("on the path where the input contains no %q it is returned as %q · s · %q, which is not what the general form (%q · replaceAll · %q replacing %v) yields, or the general form was not verified", nc.q, nc.open, nc.closeS, refOpen, refClose, refPairs))
	}
	for _, ec := range emptyCases {
		ok := refOK && ec.k == refOpen+refClose
		r.Check(ok, "C16-R1", ec.c+": constant for the empty input", p.Pos(ec.ret.Pos()), fmt.Sprintf("%q is what the general form yields for the empty string", ec.k), fmt.Sprintf("on the path where the input is empty the constant %q is returned, the general form yields %q (or the general form was not verified)", ec.k, refOpen+refClose))
	}
	if nRet == 0 || nRet == len(emptyCases)+len(noQuoteCases) {
		r.Fail("C16-R1", "ShellEscape returns", p.FuncPos(se), "no return with the general form found")
	}
	// R3
	input := st.Params[0]
	const pre = "~/"
	whole, perByte := startsWithFacts(st, input, pre)
	nPrefix, nPlain := 0, 0
	samePairs := func(a, b []replPair) bool {
		if len(a) != len(b) {
			return false
		}
		for i := range a {
			if a[i] != b[i] {
				return false
			}
		}
		return true
	}
	for _, rc := range resultCases(st) {
		{
			ret, choice := rc.ret, rc.choice
			c := fmt.Sprintf("ShellEscapeExceptTilde return #%d", retIdx(st, ret)) + rc.label
			// the point up to which path facts are collected: the return, or the end of the chosen incoming path
			var at ssa.Instruction = ret
			var via *sx.Edge
			for ph, k := range choice {
				pred := ph.Block().Preds[k]
				at = pred.Instrs[len(pred.Instrs)-1]
				for si, sb := range pred.Succs {
					if sb == ph.Block() {
						via = &sx.Edge{From: pred, Idx: si}
					}
				}
				break
			}
			holds := func(e map[sx.Edge]bool) bool {
				if len(e) == 0 {
					return false
				}
				if rc.path != nil {
					// exactly the edges this path takes
					for k := range e {
						if rc.edges[k] {
							return true
						}
					}
					return false
				}
				if via != nil && e[*via] {
					return true
				}
				return sx.MustPass(st, nil, at, sx.Cut{Edges: e})
			}
			startsWith := holds(whole)
			if !startsWith && len(perByte) == len(pre) {
				startsWith = true
				for _, e := range perByte {
					if !holds(e) {
						startsWith = false
					}
				}
			}
			ctx := &sevalCtx{p: p, input: input, esc: seSrc, choice: choice, path: rc.path}
			parts := ctx.eval(ret.Results[0], 0).flat()
			// normal form: optional unquoted prefix, then the escaped subject
			var prefix *sstr
			var subject *sstr
			why := ""
			switch {
			case len(parts) == 1 && parts[0].kind == "esc":
				subject = parts[0].sub
			case len(parts) == 2 && parts[1].kind == "esc" && (parts[0].kind == "const" || parts[0].kind == "prefix"):
				prefix, subject = parts[0], parts[1].sub
			case len(parts) == 3 && parts[0].kind == "const" && parts[1].kind == "repl" && parts[2].kind == "const":
				// the quoting written out (a helper shared with ShellEscape): it must be ShellEscape's own verified form
				switch {
				case !refOK:
					why = "the quoting is written out but ShellEscape's own form was not verified"
				case !strings.HasSuffix(parts[0].s, refOpen) || parts[2].s != refClose || !samePairs(parts[1].pairs, refPairs):
					why = "the quoting written out here (" + parts[0].String() + " … " + parts[2].String() + ") differs from ShellEscape's"
				default:
					subject = parts[1].sub
					if pf := strings.TrimSuffix(parts[0].s, refOpen); pf != "" {
						prefix = &sstr{kind: "const", s: pf}
					}
				}
			case len(parts) == 4 && parts[0].kind == "prefix" && parts[1].kind == "const" && parts[2].kind == "repl" && parts[3].kind == "const":
				// input[:k] left outside, then the quoting written out
				switch {
				case !refOK:
					why = "the quoting is written out but ShellEscape's own form was not verified"
				case parts[1].s != refOpen || parts[3].s != refClose || !samePairs(parts[2].pairs, refPairs):
					why = "the quoting written out here (" + parts[1].String() + " … " + parts[3].String() + ") differs from ShellEscape's"
				default:
					prefix, subject = parts[0], parts[2].sub
				}
			default:
				var ps []string
				for _, pt := range parts {
					ps = append(ps, pt.String())
				}
				why = "result is neither ShellEscape(input) nor prefix + ShellEscape(remainder): " + strings.Join(ps, " + ")
			}
			if why != "" {
				nPrefix++ // counted as a (failed) prefix return so that the summary below does not add a second report
				r.Fail("C16-R3", c+": shape", p.Pos(ret.Pos()), why)
				continue
			}
			// what the subject is on this path
			subjIsInput := subject.kind == "input" || (subject.kind == "cutafter" && subject.s == pre && !startsWith && func() bool {
				// CutPrefix returns its argument unchanged when the prefix is absent: that is this path iff "found" is false here
				notFound := map[sx.Edge]bool{}
				for e := range whole {
					notFound[sx.Edge{From: e.From, Idx: 1 - e.Idx}] = true
				}
				return holds(notFound)
			}())
			subjIsRest := (subject.kind == "suffix" && subject.k == int64(len(pre))) || (subject.kind == "cutafter" && subject.s == pre && startsWith)
			if prefix == nil {
				nPlain++
				r.Check(subjIsInput, "C16-R3", c+": plain fallback", p.Pos(ret.Pos()), "ShellEscape(input)", "the fallback does not return ShellEscape(input) unchanged: it escapes "+subject.String())
				// …and is not taken where the input is known to start with the prefix: "~/" followed by nothing is still a
				// tilde path (the shell must see ~/ unquoted)
				if subjIsInput && rc.path != nil {
					r.Check(!startsWith, "C16-R3", c+": plain fallback only without the tilde prefix", p.Pos(ret.Pos()), "not reached on a path where the input starts with \"~/\"", "the whole input is quoted on a path where it is known to start with \"~/\" (an extra condition on the remainder?): the shell sees the literal characters ~/ instead of the home directory")
				}
				continue
			}
			nPrefix++
			okP, whyP := true, ""
			switch {
			case prefix.kind == "const" && prefix.s != pre:
				okP, whyP = false, fmt.Sprintf("the unquoted prefix is %q, the property allows only %q", prefix.s, pre)
			case prefix.kind == "prefix" && prefix.k != int64(len(pre)):
				okP, whyP = false, fmt.Sprintf("the unquoted prefix is input[:%d], the property allows only %q", prefix.k, pre)
			case !startsWith:
				okP, whyP = false, fmt.Sprintf("the prefix %q is left unquoted on a path where the input is not known to start with %q", pre, pre)
			case !subjIsRest:
				okP, whyP = false, fmt.Sprintf("the remainder passed to ShellEscape is %s, not input[%d:]", subject.String(), len(pre))
			}
			if okP {
				lx := shLex(shU, pre, true)
				if lx.End != shU || len(lx.Problems) != 1 || lx.Problems[0] != "tilde-prefix at word start" {
					okP, whyP = false, fmt.Sprintf("unquoted prefix %q: %v", pre, lx.Problems)
				}
			}
			r.Check(okP, "C16-R3", c+": tilde prefix", p.Pos(ret.Pos()), "\"~/\" + ShellEscape(input[2:]) on a path where the input starts with \"~/\"", whyP)
		}
	}
	if nPrefix == 0 || nPlain == 0 {
		r.Fail("C16-R3", "ShellEscapeExceptTilde has both the prefix and the plain path", p.FuncPos(st), fmt.Sprintf("%d prefix returns, %d plain returns", nPrefix, nPlain))
	}
}
