package props

import (
	"golang.org/x/tools/go/ssa"

	"glbverif/checker/core"
)

// runEmitJSON / runEmitText: emission-typestate rules (C01-R1 / C13-R1). See emit.go.
func runEmitJSON(p *core.Prog, r *core.Report, h *handlerInfo, san *ssa.Function) {
	emitJSON(p, r, h, san)
}

func runEmitText(p *core.Prog, r *core.Report, h *handlerInfo, san *ssa.Function) {
	emitText(p, r, h, san)
}
