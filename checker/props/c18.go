package props

import (
	"fmt"
	"go/token"
	"strings"

	"golang.org/x/tools/go/ssa"

	"glbverif/checker/core"
	"glbverif/checker/sx"
)

func init() { register("C18", "util/osutil", runC18) }

func fromParam(v ssa.Value, fn *ssa.Function, idx int) bool {
	if idx >= len(fn.Params) {
		return false
	}
	org := sx.Origins(v)
	return len(org) == 1 && org["param:"+fn.Params[idx].Name()]
}

// fromParamVia: v is parameter idx, possibly kept in a field of a local struct in between (`c.destPath = destPath; …
// os.Create(c.destPath)`): every store to that field of that local object in fn stores the parameter.
func fromParamVia(v ssa.Value, fn *ssa.Function, idx int) bool {
	if fromParam(v, fn, idx) {
		return true
	}
	ld, ok := v.(*ssa.UnOp)
	if !ok || ld.Op != token.MUL {
		return false
	}
	fa, ok := ld.X.(*ssa.FieldAddr)
	if !ok {
		return false
	}
	base, ok := fa.X.(*ssa.Alloc)
	if !ok {
		return false
	}
	n, okAll := 0, true
	sx.Instrs(fn, func(in ssa.Instruction) {
		st, ok := in.(*ssa.Store)
		if !ok {
			return
		}
		if fa2, ok := st.Addr.(*ssa.FieldAddr); ok && fa2.X == ssa.Value(base) && fa2.Field == fa.Field {
			n++
			if !fromParam(st.Val, fn, idx) {
				okAll = false
			}
		}
		// the whole struct overwritten: unknown contents
		if st.Addr == ssa.Value(base) {
			okAll = false
		}
	})
	return n > 0 && okAll
}

// truncatingOpen reports whether call c opens/creates its path argument with truncation.
func truncatingOpen(c ssa.CallInstruction) (path ssa.Value, ok bool) {
	args := c.Common().Args
	switch sx.CalleeName(c) {
	case "os.Create", "os.WriteFile":
		return args[0], true
	case "os.OpenFile":
		if fl, isC := sx.ConstInt(args[1]); isC {
			const oTRUNC = 0x200 // syscall.O_TRUNC on linux/darwin/freebsd; windows uses 0x200 too in package syscall
			if fl&oTRUNC != 0 {
				return args[0], true
			}
			return nil, false
		}
		return args[0], true // non-constant flags: assume the worst
	}
	return nil, false
}

func runC18(p *core.Prog, r *core.Report) {
	r.Rule("C18-R1", "MoveFile removes the source only on the edge where the copy returned nil, removes exactly the path it copied from, and performs no fallible step after the removal", 3)
	r.Rule("C18-R2", "CopyFile: every truncating open of the destination is reachable only after os.SameFile(stat(source), os.Stat(destination)) returned false or the destination did not exist; the destination is inspected with os.Stat (follows links, like the open does)", 1)
	r.Rule("C18-R4", "the file the copy writes into starts empty: os.Create / OpenFile with O_TRUNC / a fresh temporary file", 1)
	r.Rule("C18-R5", "nothing removes or truncates the destination path where the same-file guard has not yet excluded that it is the source (including deferred clean-up)", 1)
	r.Rule("C18-R3", "CopyFile returns the result of the copy step; an open error returns before any write", 2)
	r.NotDecided = append(r.NotDecided, "byte equality after the call; EXDEV behaviour of rename; short writes inside io.Copy; the dropped Close error of the destination (informational)")
	r.Trusted = append(r.Trusted, "os.SameFile compares device and inode", "os.Stat and os.Create both follow symbolic links", "io.Copy returns the first error", "os.Stat / (*os.File).Stat return a nil FileInfo exactly when they return an error", "go/ssa")

	cp := p.Func("util/osutil", "CopyFile")
	mv := p.Func("util/osutil", "MoveFile")
	if cp == nil || mv == nil {
		r.Fail("C18-R1", "anchors CopyFile/MoveFile", "-", "exported functions not found")
		return
	}
	// inlined views: private helpers (an alias guard, an open helper) are seen in place; MoveFile keeps its call of CopyFile
	cpSrc := cp
	cp = p.Inl(cpSrc)
	mv = p.Inl(mv, cpSrc)

	// ---- R1
	var copies, removes []*ssa.Call
	var others []ssa.CallInstruction
	sx.Instrs(mv, func(in ssa.Instruction) {
		c, ok := in.(*ssa.Call)
		if !ok {
			return
		}
		switch {
		case sameFn(sx.StaticCallee(c), cp):
			copies = append(copies, c)
		case sx.CalleeName(c) == "os.Remove" || sx.CalleeName(c) == "os.RemoveAll":
			if fromParam(c.Call.Args[0], mv, 0) {
				removes = append(removes, c)
			} else {
				others = append(others, c)
			}
		default:
			others = append(others, c)
		}
	})
	if len(removes) == 0 {
		r.Fail("C18-R1", "MoveFile removes the source", p.FuncPos(mv), "no os.Remove of the source path found")
	}
	// MoveFile itself never destroys what the destination path names: it may be the source under another spelling
	// (same path, ./-spelling, link); replacing the destination is rename's and CopyFile's business, behind their guards
	{
		var bad []string
		for _, o := range others {
			n := sx.CalleeName(o)
			switch n {
			case "os.Remove", "os.RemoveAll", "os.Truncate", "os.Create", "os.WriteFile", "os.OpenFile":
				if args := o.Common().Args; len(args) > 0 && fromParam(args[0], mv, 1) {
					if n == "os.OpenFile" {
						if _, isT := truncatingOpen(o); !isT {
							continue
						}
					}
					bad = append(bad, n+"(destination) at "+p.Pos(o.Pos()))
				}
			}
		}
		r.Check(len(bad) == 0, "C18-R1", "MoveFile does not remove or truncate the destination path itself", p.FuncPos(mv), "only os.Rename and CopyFile touch the destination", strings.Join(bad, ", ")+": when the destination names the source (MoveFile(p, p), p/./x, a link) the only copy of the content is destroyed before it was moved")
	}
	for i, rm := range removes {
		c := fmt.Sprintf("MoveFile: source removal #%d", i)
		// (a) only after a copy from the same source returned nil
		cut := sx.Cut{Edges: map[sx.Edge]bool{}}
		srcOK := false
		for _, cc := range copies {
			if fromParam(cc.Call.Args[0], mv, 0) {
				srcOK = true
			}
			for _, u := range *cc.Referrers() {
				if e, ok := u.(*ssa.Extract); ok && e.Index == 1 {
					nilE, _ := sx.NilEdges(e)
					for k := range nilE {
						cut.Edges[k] = true
					}
				}
			}
		}
		okA := len(cut.Edges) > 0 && sx.MustPass(mv, nil, rm, cut)
		r.Check(okA && srcOK, "C18-R1", c+" only after a successful copy", p.Pos(rm.Pos()), "reachable only through the err == nil edge of CopyFile(source, …)", "os.Remove(source) is reachable without passing the `copy error == nil` edge: a failed copy would lose the file")
		// (b) nothing fallible afterwards
		var after []string
		sx.WalkFrom(mv, rm, sx.Cut{}, func(in ssa.Instruction) bool {
			if cc, ok := in.(ssa.CallInstruction); ok {
				n := sx.CalleeName(cc)
				if strings.HasPrefix(n, "os.") || sameFn(sx.StaticCallee(cc), cp) || strings.HasPrefix(n, "io.") {
					after = append(after, n+" at "+p.Pos(in.Pos()))
				}
			}
			return true
		})
		r.Check(len(after) == 0, "C18-R1", c+" is the last fallible step", p.Pos(rm.Pos()), "no file-system operation follows the removal", "after the source was removed the move can still fail: "+strings.Join(after, ", ")+" — the content would be gone from both names")
		// (c) the destination of the copy is the destination of the move
		okDest := false
		for _, cc := range copies {
			if fromParam(cc.Call.Args[1], mv, 1) {
				okDest = true
			}
		}
		if !okDest {
			// staged copy: accepted when the staged file was renamed onto the destination successfully before the removal
			sx.Instrs(mv, func(in ssa.Instruction) {
				rn, ok := in.(*ssa.Call)
				if !ok || sx.CalleeName(rn) != "os.Rename" || !fromParam(rn.Call.Args[1], mv, 1) || fromParam(rn.Call.Args[0], mv, 0) {
					return
				}
				nilE, _ := sx.NilEdges(rn)
				if len(nilE) > 0 && sx.MustPass(mv, nil, rm, sx.Cut{Edges: nilE}) {
					okDest = true
				}
			})
		}
		r.Check(okDest, "C18-R1", c+": copy target is the move target", p.Pos(rm.Pos()), "CopyFile(source, destination) with MoveFile's own parameters", "the copy preceding the removal does not write MoveFile's destination path (staged copy): the destination is not complete when the source is removed")
	}

	// ---- R2
	var opens []ssa.CallInstruction
	sx.Instrs(cp, func(in ssa.Instruction) {
		if c, ok := in.(ssa.CallInstruction); ok {
			if path, isT := truncatingOpen(c); isT && sx.Origins(path)["param:"+cp.Params[1].Name()] {
				opens = append(opens, c)
			}
		}
	})
	if len(opens) == 0 {
		r.OK("C18-R2", "CopyFile: no truncating open of the destination", p.FuncPos(cp), "destination is never opened with truncation (written under another name or not at all)")
		r.OK("C18-R2", "CopyFile: alias guard", p.FuncPos(cp), "not needed: nothing truncates the destination path")
	}
	for i, op := range opens {
		c := fmt.Sprintf("CopyFile: truncating open #%d of the destination", i)
		// find SameFile tests
		cut := sx.Cut{Edges: map[sx.Edge]bool{}}
		var why []string
		guardFound := false
		sx.Instrs(cp, func(in ssa.Instruction) {
			sf, ok := in.(*ssa.Call)
			if !ok || sx.CalleeName(sf) != "os.SameFile" {
				return
			}
			var haveSrc, haveDest bool
			var destStat *ssa.Call
			var srcStats []*ssa.Call
			for _, a := range sf.Call.Args {
				for _, lf := range leaves(a) {
					e, ok := lf.(*ssa.Extract)
					if !ok {
						continue
					}
					st, ok := e.Tuple.(*ssa.Call)
					if !ok {
						continue
					}
					switch sx.CalleeName(st) {
					case "(*os.File).Stat":
						if org := sx.Origins(st.Call.Args[0]); org["call:os.Open"] || org["call:os.OpenFile"] {
							// the handle the source is read through
							for _, lf2 := range leaves(st.Call.Args[0]) {
								if e2, ok := lf2.(*ssa.Extract); ok {
									if oc, ok := e2.Tuple.(*ssa.Call); ok && fromParam(oc.Call.Args[0], cp, 0) {
										haveSrc = true
										srcStats = append(srcStats, st)
									}
								}
							}
						}
					case "os.Stat":
						if fromParam(st.Call.Args[0], cp, 0) {
							haveSrc = true
							srcStats = append(srcStats, st)
						}
						if fromParam(st.Call.Args[0], cp, 1) {
							haveDest = true
							destStat = st
						}
					case "os.Lstat":
						if fromParam(st.Call.Args[0], cp, 1) {
							why = append(why, "the destination is inspected with os.Lstat at "+p.Pos(st.Pos())+": a symbolic link to the source is not recognised although os.Create follows it")
						}
						if fromParam(st.Call.Args[0], cp, 0) {
							why = append(why, "the source is inspected with os.Lstat at "+p.Pos(st.Pos()))
						}
					}
				}
			}
			if !haveSrc || !haveDest {
				return
			}
			guardFound = true
			// false edge of the SameFile test (written as `if SameFile` or `if !SameFile`)
			for e := range boolEdges(sf, false) {
				{
					iff := e.From.Instrs[len(e.From.Instrs)-1].(*ssa.If)
					cut.Edges[e] = true
					// the open must not be reachable from the true edge
					tb := iff.Block().Succs[1-e.Idx]
					if len(tb.Instrs) > 0 && (tb.Instrs[0] == op.(ssa.Instruction) || sx.ReachInstr(cp, nil, op.(ssa.Instruction), sx.Cut{}) && reachFromBlock(cp, tb, op.(ssa.Instruction))) {
						why = append(why, "the truncating open is reachable from the edge where os.SameFile returned true")
					}
				}
			}
			// destination does not exist: err != nil edge of os.Stat(dest) — or, the same fact, its FileInfo is nil (a stat
			// returns a FileInfo or an error, never both nil)
			for _, u := range *destStat.Referrers() {
				if e, ok := u.(*ssa.Extract); ok && e.Index == 1 {
					_, nonNil := sx.NilEdges(e)
					for k := range nonNil {
						cut.Edges[k] = true
					}
				}
				if e, ok := u.(*ssa.Extract); ok && e.Index == 0 {
					isNil, _ := sx.NilEdges(e)
					for k := range isNil {
						cut.Edges[k] = true
					}
				}
			}
			// a nil test of the source's FileInfo behind that stat's `err == nil` edge: its nil edge is never taken
			for _, st := range srcStats {
				errNil := map[sx.Edge]bool{}
				var info *ssa.Extract
				for _, u := range *st.Referrers() {
					if e, ok := u.(*ssa.Extract); ok && e.Index == 1 {
						isNil, _ := sx.NilEdges(e)
						for k := range isNil {
							errNil[k] = true
						}
					} else if ok && e.Index == 0 {
						info = e
					}
				}
				if info == nil || len(errNil) == 0 {
					continue
				}
				isNil, _ := sx.NilEdges(info)
				for k := range isNil {
					if sx.MustPass(cp, nil, k.From.Instrs[len(k.From.Instrs)-1], sx.Cut{Edges: errNil}) {
						cut.Edges[k] = true
					}
				}
			}
		})
		ok := guardFound && len(why) == 0 && sx.MustPass(cp, nil, op.(ssa.Instruction), cut)
		detail := "a path reaches " + sx.CalleeName(op) + "(destination) without os.SameFile(stat(source), os.Stat(destination)) having returned false: an aliasing destination (same path, symlink, hard link) is truncated before the source is read"
		if len(why) > 0 {
			detail = strings.Join(why, "; ")
		} else if !guardFound {
			detail = "no os.SameFile test on stat(source) and os.Stat(destination) guards " + sx.CalleeName(op) + "(destination): " + detail
		}
		r.Check(ok, "C18-R2", c+" is guarded against aliasing", p.Pos(op.Pos()), "reachable only when SameFile is false or the destination does not exist", detail)
	}

	// ---- R4: the file the copy writes into is empty (truncated or new)
	{
		n := 0
		sx.Instrs(cp, func(in ssa.Instruction) {
			c, ok := in.(*ssa.Call)
			if !ok {
				return
			}
			name := sx.CalleeName(c)
			if name != "os.OpenFile" && name != "os.Create" && name != "os.CreateTemp" {
				return
			}
			if (name == "os.OpenFile" || name == "os.Create") && !sx.Origins(c.Call.Args[0])["param:"+cp.Params[1].Name()] && !fromParamVia(c.Call.Args[0], cp, 1) {
				return
			}
			n++
			okT := true
			why := name + " yields an empty file"
			if name == "os.OpenFile" {
				fl, isC := sx.ConstInt(c.Call.Args[1])
				const oTRUNC, oWR, oRDWR, oAPPEND = 0x200, 0x1, 0x2, 0x400
				if !isC {
					okT, why = false, "open flags are not constant"
				} else if fl&(oWR|oRDWR) != 0 && fl&oTRUNC == 0 {
					okT, why = false, "the destination is opened for writing without O_TRUNC: when it already exists and is longer than the source, the old tail survives and the destination does not hold exactly the source's bytes"
				} else if fl&oAPPEND != 0 {
					okT, why = false, "the destination is opened with O_APPEND"
				}
			}
			r.Check(okT, "C18-R4", fmt.Sprintf("CopyFile: destination open #%d starts from an empty file", n), p.Pos(in.Pos()), why, why)
		})
	}
	// ---- R5: nothing destroys the destination path on the refusal path (it may be the source)
	{
		guardCut := sx.Cut{Edges: map[sx.Edge]bool{}}
		sx.Instrs(cp, func(in ssa.Instruction) {
			sf, ok := in.(*ssa.Call)
			if !ok || sx.CalleeName(sf) != "os.SameFile" {
				return
			}
			for _, u := range *sf.Referrers() {
				if iff, ok := u.(*ssa.If); ok {
					guardCut.Edges[sx.Edge{From: iff.Block(), Idx: 1}] = true
				}
			}
			for _, a := range sf.Call.Args {
				for _, lf := range leaves(a) {
					if e, ok := lf.(*ssa.Extract); ok {
						if st, ok := e.Tuple.(*ssa.Call); ok && sx.CalleeName(st) == "os.Stat" && fromParam(st.Call.Args[0], cp, 1) {
							for _, u := range *st.Referrers() {
								if ee, ok := u.(*ssa.Extract); ok && ee.Index == 1 {
									_, nonNil := sx.NilEdges(ee)
									for k := range nonNil {
										guardCut.Edges[k] = true
									}
								}
							}
						}
					}
				}
			}
		})
		n := 0
		removesDest := func(fn *ssa.Function) []ssa.Instruction {
			var out []ssa.Instruction
			sx.Instrs(fn, func(in ssa.Instruction) {
				c, ok := in.(ssa.CallInstruction)
				if !ok {
					return
				}
				switch sx.CalleeName(c) {
				case "os.Remove", "os.RemoveAll", "os.Truncate":
					org := sx.Origins(c.Common().Args[0])
					if org["param:"+cp.Params[1].Name()] || org["freevar:"+cp.Params[1].Name()] {
						out = append(out, in)
					}
				}
			})
			return out
		}
		for _, in := range removesDest(cp) {
			n++
			ok := len(guardCut.Edges) > 0 && sx.MustPass(cp, nil, in, guardCut)
			r.Check(ok, "C18-R5", fmt.Sprintf("CopyFile: removal of the destination path #%d only after the alias guard", n), p.Pos(in.Pos()), "behind the guard", "the destination path is removed on a path where it may be the source itself")
		}
		sx.Instrs(cp, func(in ssa.Instruction) {
			d, ok := in.(*ssa.Defer)
			if !ok {
				return
			}
			callee := sx.StaticCallee(d)
			if callee == nil || len(removesDest(callee)) == 0 {
				return
			}
			n++
			ok2 := len(guardCut.Edges) > 0 && sx.MustPass(cp, nil, in, guardCut)
			r.Check(ok2, "C18-R5", fmt.Sprintf("CopyFile: deferred clean-up #%d of the destination path is registered after the alias guard", n), p.Pos(in.Pos()), "registered behind the guard", "a deferred clean-up that removes the destination path is registered before the same-file guard: when the guard refuses (destination is the source under another spelling) the clean-up deletes the source")
		})
		if n == 0 {
			r.OK("C18-R5", "CopyFile never removes or truncates the destination path outside the open", p.FuncPos(cp), "no os.Remove/RemoveAll/Truncate of the destination")
		}
	}

	// ---- R3
	var copyCalls []*ssa.Call
	sx.Instrs(cp, func(in ssa.Instruction) {
		if c, ok := in.(*ssa.Call); ok {
			switch sx.CalleeName(c) {
			case "io.Copy", "io.CopyBuffer", "io.CopyN", "(*os.File).ReadFrom", "(*os.File).Write", "os.WriteFile":
				copyCalls = append(copyCalls, c)
			}
		}
	})
	if len(copyCalls) == 0 {
		// a hand-written read/write loop in place of io.Copy: judged by the obligations io.Copy's contract stands for
		if why, found := checkCopyLoop(p, cp); found {
			r.Check(why == "", "C18-R3", "CopyFile: hand-written copy loop", p.FuncPos(cp), "every chunk read is written in full, a write error or short write ends the copy with an error, success is reported only at io.EOF", why)
		} else {
			r.Fail("C18-R3", "CopyFile: copy step", p.FuncPos(cp), "no copy step (io.Copy …, or a read/write loop) found")
		}
	}
	for i, cc := range copyCalls {
		// every return reachable after the copy returns its error (or a value derived from the call)
		ok := true
		sx.WalkFrom(cp, cc, sx.Cut{}, func(in ssa.Instruction) bool {
			ret, isR := in.(*ssa.Return)
			if !isR {
				return true
			}
			errRes := returnValue(ret, len(ret.Results)-1)
			derived := false
			for _, lf := range leaves(errRes) {
				switch x := lf.(type) {
				case *ssa.Extract:
					if x.Tuple == ssa.Value(cc) {
						derived = true
					}
				case *ssa.Call:
					if x == cc {
						derived = true
					}
				}
			}
			if !derived {
				ok = false
			}
			return true
		})
		r.Check(ok, "C18-R3", fmt.Sprintf("CopyFile: error of copy step #%d is returned", i), p.Pos(cc.Pos()), "every return after the copy carries the copy's error result", "a return after "+sx.CalleeName(cc)+" does not carry its error: a failed copy would be reported as success")
	}
	// success means copied: every return that can carry a nil error lies behind the copy step (no "already up to date"
	// shortcut: equal size and time stamp do not make equal bytes, and MoveFile deletes the source on nil)
	if len(copyCalls) > 0 {
		cutC := sx.Cut{Instrs: map[ssa.Instruction]bool{}}
		for _, cc := range copyCalls {
			cutC.Instrs[cc] = true
		}
		var early []string
		for _, ret := range sx.Returns(cp) {
			for _, rc := range retCases(ret, len(ret.Results)-1) {
				if sx.IsNilConst(rc.Val) && !sx.MustPass(cp, nil, rc.At, cutC) {
					early = append(early, p.Pos(ret.Pos()))
				}
			}
		}
		r.Check(len(early) == 0, "C18-R3", "CopyFile: a nil error is returned only after the copy step", p.FuncPos(cp), "every nil-error return is behind the copy", "CopyFile can return a nil error without having copied (return at "+strings.Join(uniq(early), ", ")+"): the destination keeps whatever it held, and MoveFile's fallback goes on to delete the source")
	}
	// a refused alias is an error: MoveFile removes the source when CopyFile returns nil
	{
		okRefuse, nSF := true, 0
		sx.Instrs(cp, func(in ssa.Instruction) {
			sf, ok := in.(*ssa.Call)
			if !ok || sx.CalleeName(sf) != "os.SameFile" || sf.Referrers() == nil {
				return
			}
			for _, u := range *sf.Referrers() {
				idx := 0
				var iff *ssa.If
				switch x := u.(type) {
				case *ssa.If:
					iff = x
				case *ssa.UnOp:
					if x.Op == token.NOT && x.Referrers() != nil {
						for _, uu := range *x.Referrers() {
							if i2, ok := uu.(*ssa.If); ok {
								iff, idx = i2, 1
							}
						}
					}
				}
				if iff == nil {
					continue
				}
				nSF++
				same := sx.Edge{From: iff.Block(), Idx: idx}
				for _, ret := range sx.Returns(cp) {
					for _, rc := range retCases(ret, len(ret.Results)-1) {
						if sx.IsNilConst(rc.Val) && (reachFromBlock(cp, same.To(), rc.At) || (len(same.To().Instrs) > 0 && same.To().Instrs[len(same.To().Instrs)-1] == rc.At)) {
							okRefuse = false
						}
					}
				}
			}
		})
		if nSF > 0 {
			r.Check(okRefuse, "C18-R3", "CopyFile: same file is reported as an error", p.FuncPos(cp), "no nil-error return is reachable from the edge where os.SameFile returned true", "on the edge where source and destination are the same file CopyFile can return a nil error without having copied anything: MoveFile's fallback then removes the source — the content is gone when the destination is a link to it on another file system")
		}
	}
	// a deferred function must not overwrite the error result (`defer func() { err = dest.Close() }()` turns a failed
	// copy into success); it may fill it in only where it is still nil
	{
		var bad []string
		errCells := map[*ssa.Alloc]bool{}
		for _, ret := range sx.Returns(cp) {
			if len(ret.Results) == 0 {
				continue
			}
			if ld, ok := ret.Results[len(ret.Results)-1].(*ssa.UnOp); ok && ld.Op == token.MUL {
				if a, ok := ld.X.(*ssa.Alloc); ok {
					errCells[a] = true
				}
			}
		}
		sx.Instrs(cp, func(in ssa.Instruction) {
			d, ok := in.(*ssa.Defer)
			if !ok {
				return
			}
			mc, ok := d.Call.Value.(*ssa.MakeClosure)
			if !ok {
				return
			}
			cl := mc.Fn.(*ssa.Function)
			for i, b := range mc.Bindings {
				a, isA := b.(*ssa.Alloc)
				if !isA || !errCells[a] {
					continue
				}
				fv := cl.FreeVars[i]
				// stores through the captured result
				nilEdges := map[sx.Edge]bool{}
				sx.Instrs(cl, func(i2 ssa.Instruction) {
					if ld, ok := i2.(*ssa.UnOp); ok && ld.Op == token.MUL && ld.X == ssa.Value(fv) {
						ne, _ := sx.NilEdges(ld)
						for e := range ne {
							nilEdges[e] = true
						}
					}
				})
				sx.Instrs(cl, func(i2 ssa.Instruction) {
					st, ok := i2.(*ssa.Store)
					if !ok || st.Addr != ssa.Value(fv) {
						return
					}
					if len(nilEdges) == 0 || !sx.MustPass(cl, nil, st, sx.Cut{Edges: nilEdges}) {
						bad = append(bad, "deferred function at "+p.Pos(d.Pos())+" assigns the error result at "+p.Pos(st.Pos())+" without testing that it is still nil")
					}
				})
			}
		})
		r.Check(len(bad) == 0, "C18-R3", "CopyFile: no deferred function overwrites the error result", p.FuncPos(cp), "deferred clean-up leaves a non-nil error alone", strings.Join(bad, "; ")+": the error of the copy step is replaced (by Close's nil): a failed copy is reported as success and MoveFile removes the source")
	}
	// open errors return before any write
	sx.Instrs(cp, func(in ssa.Instruction) {
		c, ok := in.(*ssa.Call)
		if !ok || (sx.CalleeName(c) != "os.Open" && sx.CalleeName(c) != "os.Create" && sx.CalleeName(c) != "os.OpenFile") {
			return
		}
		for _, u := range *c.Referrers() {
			e, ok := u.(*ssa.Extract)
			if !ok || e.Index != 1 {
				continue
			}
			_, nonNil := sx.NilEdges(e)
			okRet := len(nonNil) > 0
			for edge := range nonNil {
				// from the error edge, no copy call is reachable
				for _, cc := range copyCalls {
					if reachFromBlock(cp, edge.To(), cc) {
						okRet = false
					}
				}
			}
			r.Check(okRet, "C18-R3", "CopyFile: "+sx.CalleeName(c)+" error returns before the copy", p.Pos(c.Pos()), "error edge leaves without copying", "the error of "+sx.CalleeName(c)+" is not checked before the copy step")
		}
	})
}

// checkCopyLoop recognises `for { n, rerr := src.Read(buf); if n > 0 { m, werr := dst.Write(buf[:n]); … }; if rerr == io.EOF
// { return …, nil }; if rerr != nil { return …, rerr } }` in fn and checks what makes it a complete copy. found is false
// when fn has no Read/Write pair in a loop.
func checkCopyLoop(p *core.Prog, fn *ssa.Function) (why string, found bool) {
	var rd, wr *ssa.Call
	sx.Instrs(fn, func(in ssa.Instruction) {
		c, ok := in.(*ssa.Call)
		if !ok || sx.InnermostLoop(fn, in.Block()) == nil {
			return
		}
		switch n := sx.CalleeName(c); {
		case n == "(io.Reader).Read" || n == "(*os.File).Read":
			rd = c
		case n == "(io.Writer).Write" || n == "(*os.File).Write":
			wr = c
		}
	})
	if rd == nil || wr == nil {
		return "", false
	}
	h := sx.InnermostLoop(fn, rd.Block())
	if h == nil || sx.InnermostLoop(fn, wr.Block()) != h {
		return "the read and the write are not in the same loop", true
	}
	hdr := map[*ssa.BasicBlock]bool{h: true}
	ext := func(c *ssa.Call, i int) ssa.Value {
		for _, u := range *c.Referrers() {
			if e, ok := u.(*ssa.Extract); ok && e.Index == i {
				return e
			}
		}
		return nil
	}
	nr, rerr, nw, werr := ext(rd, 0), ext(rd, 1), ext(wr, 0), ext(wr, 1)
	if nr == nil || rerr == nil || werr == nil {
		return "the byte count or the error of Read, or the error of Write, is dropped", true
	}
	rargs, wargs := sx.Args(rd), sx.Args(wr)
	// what is written is exactly what was read: buf[:n] of the buffer handed to Read
	sl, ok := wargs[len(wargs)-1].(*ssa.Slice)
	if !ok || sl.Low != nil || sl.High != ssa.Value(nr) || sx.Unspill(sl.X) != sx.Unspill(rargs[len(rargs)-1]) {
		return "Write is not given buf[:n] with buf and n of the preceding Read (" + short(sx.ValPath(wargs[len(wargs)-1])) + ")", true
	}
	if !sx.MustPass(fn, nil, wr, sx.Cut{Instrs: map[ssa.Instruction]bool{rd: true}}) {
		return "Write is reachable without a Read before it", true
	}
	// every chunk is written: from the Read, the next iteration or a return is reached only through the Write or over
	// the `n > 0` false edge
	skip := map[sx.Edge]bool{}
	sx.Instrs(fn, func(in ssa.Instruction) {
		b, ok := in.(*ssa.BinOp)
		if !ok || b.X != ssa.Value(nr) || b.Referrers() == nil {
			return
		}
		k, isC := sx.ConstInt(b.Y)
		if !isC {
			return
		}
		for _, u := range *b.Referrers() {
			if iff, ok := u.(*ssa.If); ok {
				switch {
				case b.Op == token.GTR && k == 0, b.Op == token.GEQ && k == 1, b.Op == token.NEQ && k == 0:
					skip[sx.Edge{From: iff.Block(), Idx: 1}] = true
				case b.Op == token.LEQ && k == 0, b.Op == token.LSS && k == 1, b.Op == token.EQL && k == 0:
					skip[sx.Edge{From: iff.Block(), Idx: 0}] = true
				}
			}
		}
	})
	cutW := sx.Cut{Instrs: map[ssa.Instruction]bool{wr: true}, Edges: skip}
	if len(h.Instrs) > 0 {
		for e := range sx.BackEdgesTo(h) {
			if sx.ReachInstr(fn, rd, e.From.Instrs[len(e.From.Instrs)-1], cutW) {
				return "a chunk that was read (n > 0) can be dropped: the loop continues without writing it", true
			}
		}
	}
	// success only at EOF; a write error or a short write never leads to success nor to the next iteration
	eof := map[sx.Edge]bool{}
	sx.Instrs(fn, func(in ssa.Instruction) {
		b, ok := in.(*ssa.BinOp)
		if !ok || (b.Op != token.EQL && b.Op != token.NEQ) || b.Referrers() == nil {
			return
		}
		for _, pr := range [][2]ssa.Value{{b.X, b.Y}, {b.Y, b.X}} {
			if pr[0] != rerr {
				continue
			}
			if ld, ok := pr[1].(*ssa.UnOp); ok && ld.Op == token.MUL {
				if g, ok := ld.X.(*ssa.Global); ok && g.Name() == "EOF" && g.Pkg.Pkg.Path() == "io" {
					for _, u := range *b.Referrers() {
						if iff, ok := u.(*ssa.If); ok {
							idx := 0
							if b.Op == token.NEQ {
								idx = 1
							}
							eof[sx.Edge{From: iff.Block(), Idx: idx}] = true
						}
					}
				}
			}
		}
	})
	if len(eof) == 0 {
		return "the loop never tests the read error against io.EOF", true
	}
	_, wBad := sx.NilEdges(werr)
	short := map[sx.Edge]bool{}
	if nw != nil {
		sx.Instrs(fn, func(in ssa.Instruction) {
			b, ok := in.(*ssa.BinOp)
			if !ok || b.Referrers() == nil {
				return
			}
			if !((b.X == nw && b.Y == nr) || (b.X == nr && b.Y == nw)) {
				return
			}
			for _, u := range *b.Referrers() {
				if iff, ok := u.(*ssa.If); ok {
					switch b.Op {
					case token.NEQ, token.LSS, token.GTR:
						short[sx.Edge{From: iff.Block(), Idx: 0}] = true
					case token.EQL, token.GEQ, token.LEQ:
						short[sx.Edge{From: iff.Block(), Idx: 1}] = true
					}
				}
			}
		})
	}
	if len(wBad) == 0 {
		return "the error of Write is never tested", true
	}
	for _, ret := range sx.Returns(fn) {
		if !sx.ReachInstr(fn, rd, ret, sx.Cut{}) {
			continue
		}
		for _, rc := range retCases(ret, len(ret.Results)-1) {
			if !sx.IsNilConst(rc.Val) {
				continue
			}
			if !sx.ReachInstr(fn, rd, rc.At, sx.Cut{}) {
				continue
			}
			// within one iteration: from the Read to this success, the io.EOF edge is passed and neither failure edge
			if sx.ReachInstr(fn, rd, rc.At, sx.Cut{Edges: eof, Blocks: hdr}) {
				return "success is reported at " + p.Pos(ret.Pos()) + " on a path that did not see io.EOF from Read: the copy may be incomplete", true
			}
			for e := range wBad {
				if reachFromBlockCut(fn, e.To(), rc.At, hdr) {
					return "after a failed Write the copy can still report success at " + p.Pos(ret.Pos()), true
				}
			}
			for e := range short {
				if reachFromBlockCut(fn, e.To(), rc.At, hdr) {
					return "after a short Write the copy can still report success at " + p.Pos(ret.Pos()), true
				}
			}
		}
	}
	for e := range wBad {
		if len(h.Instrs) > 0 && reachFromBlockCut(fn, e.To(), h.Instrs[0], nil) {
			return "after a failed Write the loop goes on reading", true
		}
	}
	if nw != nil && len(short) == 0 {
		return "a short Write (fewer bytes written than read, no error) is not detected", true
	}
	return "", true
}

// reachFromBlockCut: target is reachable from the first instruction of b without entering a block of stop.
func reachFromBlockCut(fn *ssa.Function, b *ssa.BasicBlock, target ssa.Instruction, stop map[*ssa.BasicBlock]bool) bool {
	if len(b.Instrs) == 0 || stop[b] {
		return false
	}
	if b.Instrs[0] == target {
		return true
	}
	return sx.ReachInstr(fn, b.Instrs[0], target, sx.Cut{Blocks: stop})
}

func reachFromBlock(fn *ssa.Function, b *ssa.BasicBlock, target ssa.Instruction) bool {
	if len(b.Instrs) == 0 {
		return false
	}
	if b.Instrs[0] == target {
		return true
	}
	return sx.ReachInstr(fn, b.Instrs[0], target, sx.Cut{})
}
