package props

import (
	"fmt"
	"go/token"
	"go/types"
	"strings"

	"golang.org/x/tools/go/ssa"

	"glbverif/checker/core"
	"glbverif/checker/sx"
)

func init() { register("C14", "tasklane", runC14) }

func isBuiltin(c ssa.CallInstruction, name string) bool {
	b, ok := c.Common().Value.(*ssa.Builtin)
	return ok && b.Name() == name
}

func runC14(p *core.Prog, r *core.Report) {
	r.Rule("C14-R1", "recover frame: the function that calls Task.Start defers (before the call) a closure that calls recover() directly; that closure cannot panic itself; the frame is invoked synchronously inside the worker loop, which continues afterwards", 3)
	r.Rule("C14-R2", "Status race-freedom: every TaskLane field read by Status() or written from a goroutine body is immutable after construction, or atomic and used only through its methods, or a channel used only with len(); the last-panic slot stores the recovered value itself and accepts values of any dynamic type", 6)
	r.Rule("C14-R3", "pending counter: it is modified only by one +1 and one -1 per iteration of the queue goroutine (the +1 after the receive, the -1 after the hand-over, never a -1 without the +1 of the same iteration) and read only by Status, which adds the length of every buffered queue", 4)
	r.NotDecided = append(r.NotDecided, "that PendingTask equals the number of accepted-but-not-started tasks exactly at rest (needs a quiescence argument over schedules)")
	r.Trusted = append(r.Trusted, "recover() stops a panic only when called directly by a deferred function", "sync/atomic semantics", "go/ssa")

	t := resolveTaskLane(p)
	if !t.anchors(r) {
		return
	}

	// ---- R1
	nStart := 0
	for _, f := range viewFuncs(p, t.Worker) {
		f := f
		sx.Instrs(f, func(in ssa.Instruction) {
			c, ok := in.(ssa.CallInstruction)
			if !ok || !t.isStart(c) {
				return
			}
			nStart++
			// a Defer in f, dominating the call, whose closure calls recover() directly
			var rec *ssa.Function
			var def *ssa.Defer
			sx.Instrs(f, func(i2 ssa.Instruction) {
				d, ok := i2.(*ssa.Defer)
				if !ok {
					return
				}
				callee := sx.StaticCallee(d)
				if callee == nil {
					return
				}
				direct := false
				sx.Instrs(callee, func(i3 ssa.Instruction) {
					if cc, ok := i3.(ssa.CallInstruction); ok && isBuiltin(cc, "recover") {
						direct = true
					}
				})
				if direct && sx.MustPass(f, nil, in, sx.Cut{Instrs: map[ssa.Instruction]bool{d: true}}) {
					rec, def = callee, d
				}
			})
			r.Check(rec != nil, "C14-R1", "Start call in "+fnName(f)+" is covered by a deferred recover()", p.Pos(in.Pos()), "deferred closure calling recover() directly is registered on every path to Start", "no deferred function that calls recover() directly covers the Start call (recover in a helper called by the deferred function does not stop the panic): a panicking task kills the worker")
			if rec == nil {
				return
			}
			_ = def
			// the recovering closure cannot panic itself
			var risky []string
			for g := range reachableFrom(p, rec) {
				sx.Instrs(g, func(i3 ssa.Instruction) {
					switch x := i3.(type) {
					case *ssa.Panic:
						risky = append(risky, "panic at "+p.Pos(x.Pos()))
					case *ssa.TypeAssert:
						if !x.CommaOk {
							risky = append(risky, "type assertion without comma-ok at "+p.Pos(x.Pos()))
						}
					case *ssa.BinOp:
						if (x.Op == token.EQL || x.Op == token.NEQ) && types.IsInterface(x.X.Type()) && !sx.IsNilConst(x.X) && !sx.IsNilConst(x.Y) {
							risky = append(risky, "comparison of two interface values at "+p.Pos(x.Pos())+" panics when their dynamic type is not comparable (slice, map, …)")
						}
					case ssa.CallInstruction:
						n := sx.CalleeName(x)
						if n == "(*sync/atomic.Value).Store" || n == "(*sync/atomic.Value).CompareAndSwap" || n == "(*sync/atomic.Value).Swap" {
							risky = append(risky, "atomic.Value.Store at "+p.Pos(x.Pos())+" panics when successive panic values have different dynamic types")
						}
					}
				})
			}
			r.Check(len(risky) == 0, "C14-R1", "recovering closure of "+fnName(f)+" cannot panic", p.FuncPos(rec), "no panic, unchecked assertion or type-sensitive store in the deferred recover path", strings.Join(risky, "; ")+": a second panic inside the deferred function is not recovered and kills the process")
		})
	}
	if nStart == 0 {
		r.Fail("C14-R1", "Start call", p.FuncPos(t.Worker), "no Task.Start invocation reachable from the worker")
	}
	// the frame is called synchronously in the loop and the loop continues
	{
		hdr := outerLoop(t.Worker)
		sites := t.startSites(t.Worker)
		ok := hdr != nil && len(sites) > 0
		for _, s := range sites {
			if _, isGo := s.(*ssa.Go); isGo {
				ok = false
			}
			if _, isDefer := s.(*ssa.Defer); isDefer {
				ok = false
			}
			if hdr != nil && (!hdr.Dominates(s.Block()) || !sx.ReachInstr(t.Worker, s.(ssa.Instruction), hdr.Instrs[0], sx.Cut{})) {
				ok = false
			}
		}
		r.Check(ok, "C14-R1", "worker loop continues after a task (panicking or not)", p.FuncPos(t.Worker), "the Start frame is a synchronous call inside the loop; the next iteration is reachable from it", "the call that runs the task is not a synchronous call inside the worker loop from which the loop continues")
	}

	// ---- R2 (writes are judged on the package's inlined views: a constructor helper that fills a list in place writes
	// the object while it is still unpublished)
	var c14Fns []*ssa.Function
	for _, fn := range p.ModuleFuncs() {
		if rootFn(fn).Pkg != p.SPkgs["tasklane"] {
			c14Fns = append(c14Fns, fn)
		}
	}
	for _, v := range t.Views {
		c14Fns = append(c14Fns, sx.WithClosures(v.Fn)...)
	}
	statusReads := map[*types.Var]bool{}
	for _, f := range structFields(t.Named) {
		for _, ref := range sx.FieldRefs([]*ssa.Function{t.Status}, f) {
			_ = ref
			statusReads[f] = true
		}
	}
	goroutineFns := reachableFrom(p, t.Queue, t.Worker)
	var gfList []*ssa.Function
	for f := range goroutineFns {
		gfList = append(gfList, f)
	}
	for _, f := range structFields(t.Named) {
		writtenByGoroutine := false
		for _, ref := range sx.FieldRefs(gfList, f) {
			if fa, ok := ref.Instr.(*ssa.FieldAddr); ok {
				for _, a := range sx.Accesses(fa) {
					if a.Kind == "write" || a.Kind == "elem-write" || a.Kind == "map-write" || strings.HasPrefix(a.Kind, "call:") || a.Kind == "addr-escape" {
						writtenByGoroutine = true
					}
				}
			}
		}
		if !statusReads[f] && !writtenByGoroutine {
			continue
		}
		c := "field " + f.Name()
		// classify over the whole module
		var writesAfterCtor, nonAtomic, nonLen []string
		isAtomic := isAtomicType(f.Type())
		_, isChan := f.Type().Underlying().(*types.Chan)
		isChanList := false
		if sl, ok := f.Type().Underlying().(*types.Slice); ok {
			_, isChanList = sl.Elem().Underlying().(*types.Chan)
		}
		for _, ref := range sx.FieldRefs(c14Fns, f) {
			fa, ok := ref.Instr.(*ssa.FieldAddr)
			if !ok {
				continue
			}
			fresh := sx.IsFreshObject(ref.Base)
			for _, a := range sx.Accesses(fa) {
				switch {
				case a.Kind == "write" || a.Kind == "elem-write" || a.Kind == "map-write" || a.Kind == "addr-escape":
					if !fresh {
						writesAfterCtor = append(writesAfterCtor, a.Kind+" in "+fnName(ref.Fn)+" at "+p.Pos(a.Instr.Pos()))
					}
				case strings.HasPrefix(a.Kind, "call:"):
					if !strings.Contains(a.Kind, "sync/atomic.") {
						nonAtomic = append(nonAtomic, a.Kind+" at "+p.Pos(a.Instr.Pos()))
					}
				case a.Kind == "read" && isAtomic:
					// pointer-to-atomic field: the loaded pointer must only be used for atomic method calls
					if a.Val.Referrers() != nil {
						for _, u := range *a.Val.Referrers() {
							if cc, ok := u.(ssa.CallInstruction); ok && strings.Contains(sx.CalleeName(cc), "sync/atomic.") {
								continue
							}
							if _, ok := u.(*ssa.DebugRef); ok {
								continue
							}
							nonAtomic = append(nonAtomic, u.String()+" at "+p.Pos(u.Pos()))
						}
					}
				}
			}
		}
		switch {
		case isAtomic:
			ok := len(nonAtomic) == 0 && len(writesAfterCtor) == 0
			r.Check(ok, "C14-R2", c+" (atomic)", "-", "atomic type, used only through sync/atomic methods", "atomic field used non-atomically: "+strings.Join(append(nonAtomic, writesAfterCtor...), "; "))
		case len(writesAfterCtor) == 0 && (isChan || isChanList):
			_ = nonLen
			r.OK("C14-R2", c+" (channel, immutable field)", "-", "field assigned only in the constructor; Status uses len() only (channel operations are synchronised by the runtime)")
		case len(writesAfterCtor) == 0:
			r.OK("C14-R2", c+" (immutable)", "-", "written only while the lane is unpublished")
		default:
			r.Fail("C14-R2", c, "-", "plain field written after construction ("+strings.Join(writesAfterCtor, "; ")+") and read by Status()/goroutines without synchronisation: data race")
		}
	}
	// the slot holds the recovered value
	{
		found := false
		other := ""
		for f := range goroutineFns {
			sx.Instrs(f, func(in ssa.Instruction) {
				c, ok := in.(ssa.CallInstruction)
				if !ok || !strings.HasPrefix(sx.CalleeName(c), "(*sync/atomic.") || !strings.HasSuffix(sx.CalleeName(c), ".Store") {
					return
				}
				args := sx.Args(c)
				if len(args) < 2 {
					return
				}
				// value: address of a cell holding recover()'s result, or the result itself
				v := args[1]
				isRec := false
				var check func(x ssa.Value)
				check = func(x ssa.Value) {
					if cc, ok := x.(*ssa.Call); ok && isBuiltin(cc, "recover") {
						isRec = true
					}
					// a private "record the panic" helper: its parameter is the recovered value when every caller passes one
					if prm, ok := x.(*ssa.Parameter); ok && prm.Parent() != nil {
						idx := -1
						for i, q := range prm.Parent().Params {
							if q == prm {
								idx = i
							}
						}
						cs := staticCalls(p).callers[rootFn(prm.Parent())]
						all := len(cs) > 0 && idx >= 0
						for _, site := range cs {
							args := sx.Args(site.Instr)
							if idx >= len(args) {
								all = false
								continue
							}
							saved := isRec
							isRec = false
							a := sx.Unspill(args[idx])
							if mi, ok := a.(*ssa.MakeInterface); ok {
								a = sx.Unspill(mi.X)
							}
							check(a)
							if !isRec {
								all = false
							}
							isRec = saved
						}
						if all {
							isRec = true
						}
					}
				}
				check(sx.Unspill(v))
				if a, ok := v.(*ssa.Alloc); ok {
					st, _ := sx.CellStores(a)
					all := len(st) > 0
					for _, s := range st {
						saved := isRec
						isRec = false
						check(s)
						if !isRec {
							// the cell is also assigned something else (a wrapped / formatted version of the value)
							all = false
							other = "the variable published is also assigned " + short(sx.ValPath(s)) + " at " + p.Pos(s.Pos())
						}
						isRec = saved
					}
					if all {
						isRec = true
					}
				}
				if mi, ok := v.(*ssa.MakeInterface); ok {
					check(sx.Unspill(mi.X))
				}
				// a fresh record struct holding the value (`&panicRecord{value: r}`): every field stored is the recovered value
				if a, ok := v.(*ssa.Alloc); ok && !isRec && a.Referrers() != nil {
					if _, isStruct := ptrTo(a.Type()).Underlying().(*types.Struct); isStruct {
						nF, all := 0, true
						for _, u := range *a.Referrers() {
							fa, isFA := u.(*ssa.FieldAddr)
							if !isFA || fa.Referrers() == nil {
								continue
							}
							for _, uu := range *fa.Referrers() {
								st, isSt := uu.(*ssa.Store)
								if !isSt || st.Addr != ssa.Value(fa) {
									continue
								}
								nF++
								saved := isRec
								isRec = false
								sv := sx.Unspill(st.Val)
								if mi, isMI := sv.(*ssa.MakeInterface); isMI {
									sv = sx.Unspill(mi.X)
								}
								check(sv)
								if !isRec {
									all = false
									other = "a field of the record published is assigned " + short(sx.ValPath(st.Val)) + " at " + p.Pos(st.Pos())
								}
								isRec = saved
							}
						}
						if nF > 0 && all {
							isRec = true
						}
					}
				}
				if isRec {
					found = true
					// the pointer published must be to a cell that is fresh for this panic
					if a, ok := sx.Unspill(v).(*ssa.Alloc); ok || v != nil {
						al, isAl := v.(*ssa.Alloc)
						_ = a
						fresh := isAl && al.Parent() == f
						if !isAl {
							if _, isMI := v.(*ssa.MakeInterface); isMI {
								fresh = true
							}
						}
						r.Check(fresh, "C14-R2", "last-panic slot publishes a cell that is fresh for each panic", p.Pos(in.Pos()), "the address stored is a variable of the recovering closure's own invocation", "the address published is a variable that outlives the panic (declared outside the deferred closure): the next panic on the same worker overwrites it in place while Status() reads it — a data race and possibly a torn value")
					}
					// every recovered value is published: between `recover() != nil` and the store there is no further condition
					// (only while the context is live, only for error values, …) under which a contained panic leaves no trace
					{
						var recCall *ssa.Call
						sx.Instrs(f, func(i2 ssa.Instruction) {
							if cc, ok := i2.(*ssa.Call); ok && isBuiltin(cc, "recover") {
								recCall = cc
							}
						})
						if recCall != nil {
							_, nonNil := sx.NilEdges(recCall)
							skipped := ""
							for e := range nonNil {
								tb := e.To()
								if len(tb.Instrs) == 0 || tb.Instrs[0] == in {
									continue
								}
								for _, ret := range sx.Returns(f) {
									if tb.Instrs[0] == ssa.Instruction(ret) || sx.ReachInstr(f, tb.Instrs[0], ret, sx.Cut{Instrs: map[ssa.Instruction]bool{in: true}}) {
										skipped = p.Pos(ret.Pos())
									}
								}
							}
							if len(nonNil) > 0 {
								r.Check(skipped == "", "C14-R2", "every recovered value reaches the last-panic slot", p.Pos(in.Pos()), "the store follows `recover() != nil` unconditionally", "a path from `recover() != nil` leaves the recovering closure without storing the value: some contained panics (after cancellation, of certain types, …) are not reported by Status().LastPanic")
							}
						}
					}
					r.Check(!strings.Contains(sx.CalleeName(c), "atomic.Value"), "C14-R2", "last-panic slot accepts any dynamic type", p.Pos(in.Pos()), sx.CalleeName(c)+" of a pointer to the recovered value", "atomic.Value.Store panics on the second panic value of a different dynamic type")
				}
			})
		}
		whyRec := "no atomic store of the recovered value found in the worker"
		if other != "" {
			whyRec = other + ": LastPanic would not be one of the values the tasks panicked with"
		}
		r.Check(found && other == "", "C14-R2", "last-panic slot stores the recovered value", p.FuncPos(t.Worker), "the value published is recover()'s result", whyRec)
	}

	// ---- R3
	{
		var cnt *types.Var
		for _, f := range structFields(t.Named) {
			if isAtomicType(f.Type()) && strings.Contains(f.Type().String(), "Uint") || isAtomicType(f.Type()) && strings.Contains(f.Type().String(), "Int") {
				cnt = f
			}
		}
		if cnt == nil {
			r.Fail("C14-R3", "pending counter", "-", "no atomic integer field found in TaskLane")
			return
		}
		isCnt := func(c ssa.CallInstruction) (delta int, ok bool) {
			n := sx.CalleeName(c)
			if !strings.HasPrefix(n, "(*sync/atomic.") {
				return 0, false
			}
			args := sx.Args(c)
			if len(args) == 0 {
				return 0, false
			}
			if fa, isFA := args[0].(*ssa.FieldAddr); isFA {
				if sx.FieldOf(fa) != cnt { // a value field: its address is the receiver
					return 0, false
				}
			} else if !sx.Origins(args[0])[t.fieldKey(cnt)] {
				return 0, false
			}
			if strings.HasSuffix(n, ".Add") && len(args) == 2 {
				k, isC := sx.ConstInt(args[1])
				if !isC {
					return 0, true
				}
				switch uint64(k) {
				case 1:
					return 1, true
				case 0xFFFFFFFF, 0xFFFFFFFFFFFFFFFF:
					return -1, true
				}
				if k == -1 {
					return -1, true
				}
				return 0, true
			}
			if strings.HasSuffix(n, ".Load") {
				return 100, true
			}
			return 0, true
		}
		incs, decs := map[ssa.Instruction]bool{}, map[ssa.Instruction]bool{}
		seenCnt := map[ssa.Instruction]bool{}
		for _, v := range t.Views {
			for _, fn := range sx.WithClosures(v.Fn) {
				fn := fn
				sx.Instrs(fn, func(in ssa.Instruction) {
					c, ok := in.(ssa.CallInstruction)
					if !ok {
						return
					}
					d, is := isCnt(c)
					if !is {
						return
					}
					_, isCall := c.(*ssa.Call)
					actor := t.actor(fn, v.Root)
					where := fnName(v.Root) + " at " + p.Pos(in.Pos())
					switch {
					case d == 100:
						r.Check(sameFn(v.Root, t.Status), "C14-R3", "counter read in "+fnName(v.Root), p.Pos(in.Pos()), "Status reads the counter", "counter read outside Status")
					case (d == 1 || d == -1) && isCall && actor == "queue" && fn == t.Queue:
						if d == 1 {
							incs[in] = true
						} else {
							decs[in] = true
						}
						seenCnt[sx.OrigInstr(in)] = true
					case (d == 1 || d == -1) && actor == "queue" && seenCnt[sx.OrigInstr(in)]:
						// the same source statement seen in another view of the queue goroutine (its wrapper closure)
					default:
						r.Fail("C14-R3", "counter modified in "+fnName(v.Root), p.Pos(in.Pos()), "the pending counter is modified outside the paired +1/-1 of the queue goroutine ("+where+", delta "+fmt.Sprint(d)+"): the count can leave [0, laneSize] (e.g. wrap below zero)")
					}
				})
			}
		}
		// rounds: from one receive of a task to the next (however the loop is written) the counter goes +1 then -1
		R := t.recvArms(t.Queue, "buffered")
		if len(R) == 0 {
			r.Fail("C14-R3", "queue loop", p.FuncPos(t.Queue), "no receive from the buffered queue found in the queue goroutine")
			return
		}
		w := func(set map[ssa.Instruction]bool) sx.Weights {
			return sx.Weights{Instr: func(in ssa.Instruction) sx.Range {
				if set[in] {
					return sx.Range{Min: 1, Max: 1}
				}
				return sx.Range{}
			}}
		}
		why := roundDiscipline(p, t.Queue, R, w(incs), "the counter is incremented")
		if why == "" {
			why = roundDiscipline(p, t.Queue, R, w(decs), "the counter is decremented")
		}
		r.Check(why == "" && len(incs) > 0 && len(decs) > 0, "C14-R3", "one +1 and one -1 per completed iteration", p.FuncPos(t.Queue), "between two consecutive receives the counter is incremented once and decremented once; nothing before the first receive", why)
		// ordering inside a round: the -1 only after the +1 and after a hand-over arm; never more -1 than +1 on a path that leaves
		sendArms, _ := t.armEdges(t.Queue, func(sel *ssa.Select, a sx.Arm) bool {
			return a.State != nil && a.State.Dir == types.SendOnly
		})
		okOrd, whyOrd := true, ""
		_, incRounds := roundCounts(t.Queue, R, w(incs))
		_, decRounds := roundCounts(t.Queue, R, w(decs))
		for e := range R {
			first := e.To().Instrs[0]
			cutS := sx.Cut{Edges: map[sx.Edge]bool{}}
			for k := range sendArms {
				cutS.Edges[k] = true
			}
			for k := range R {
				cutS.Edges[k] = true
			}
			for in := range decs {
				if rg, ok := incRounds[e].Before(in); ok && !rg.Is(1) {
					okOrd, whyOrd = false, "the -1 at "+p.Pos(in.Pos())+" can run in a round that incremented "+rangeStr(rg)+" times (underflow wraps the unsigned counter)"
				}
				if first == in || sx.ReachInstr(t.Queue, first, in, cutS) {
					okOrd, whyOrd = false, "the -1 at "+p.Pos(in.Pos())+" can run before the held task was handed over"
				}
			}
			for _, ret := range sx.Returns(t.Queue) {
				i, ok1 := incRounds[e].Before(ret)
				d, ok2 := decRounds[e].Before(ret)
				if ok1 && ok2 && d.Max > i.Min {
					okOrd, whyOrd = false, "an exit path may decrement more often than it incremented"
				}
				// a goroutine that leaves while holding a task has counted it: the task it took from the buffer on
				// shutdown is accepted and will never start, so it belongs to PendingTask when the lane is at rest
				if ok1 && i.Min < 1 {
					okOrd, whyOrd = false, "the return at "+p.Pos(ret.Pos())+" can be reached after a task was received from the buffer but before the +1: the held task is dropped uncounted, PendingTask at rest is short of the accepted-but-not-started tasks"
				}
			}
		}
		r.Check(okOrd && len(incs) > 0 && len(decs) > 0, "C14-R3", "+1 after the receive, -1 after +1 and after the hand-over", p.FuncPos(t.Queue), "0 <= counter <= number of queue goroutines", whyOrd)
		// Status sums len(buffered[i]) for all lanes + counter
		okSum := false
		sx.Instrs(t.Status, func(in ssa.Instruction) {
			if c, ok := in.(*ssa.Call); ok && isBuiltin(c, "len") && t.chanRole(c.Call.Args[0]) == "buffered" {
				// inside a loop over the lanes
				for _, h := range sx.LoopHeaders(t.Status) {
					if h.Dominates(in.Block()) {
						okSum = true
					}
				}
			}
		})
		r.Check(okSum, "C14-R3", "Status adds the length of every buffered queue", p.FuncPos(t.Status), "len(buffered[i]) summed in a loop over the lanes, plus the counter", "Status does not sum len() of the buffered queues over all lanes")
		// …and on every path: the value reported as pending is a sum that includes both the summed lengths and the counter
		// (a shortcut such as "all buffers empty → 0" forgets the tasks held by the queue goroutines)
		{
			var pendingVals []ssa.Value
			var pendingStores []*ssa.Store
			ls := p.Named("tasklane", "LaneStatus")
			sx.Instrs(t.Status, func(in ssa.Instruction) {
				st, ok := in.(*ssa.Store)
				if !ok {
					return
				}
				fa, ok := st.Addr.(*ssa.FieldAddr)
				if !ok || ls == nil || !types.Identical(ptrTo(fa.X.Type()), ls) {
					return
				}
				if f := sx.FieldOf(fa); f != nil && strings.Contains(strings.ToLower(f.Name()), "pending") {
					pendingStores = append(pendingStores, st)
				}
			})
			// the value that counts is the one a return can see: a store after which no other store of the field must follow
			for _, st := range pendingStores {
				others := sx.Cut{Instrs: map[ssa.Instruction]bool{}}
				for _, o := range pendingStores {
					if o != st {
						others.Instrs[o] = true
					}
				}
				final := false
				for _, ret := range sx.Returns(t.Status) {
					if sx.ReachInstr(t.Status, st, ret, others) {
						final = true
					}
				}
				if final {
					pendingVals = append(pendingVals, st.Val)
				}
			}
			var has func(v ssa.Value, pred func(ssa.Value) bool, seen map[ssa.Value]bool, all bool) bool
			has = func(v ssa.Value, pred func(ssa.Value) bool, seen map[ssa.Value]bool, all bool) bool {
				if v == nil {
					return false
				}
				if seen[v] {
					return all // a loop-carried accumulator: neutral
				}
				seen[v] = true
				if pred(v) {
					return true
				}
				switch x := sx.Unspill(v).(type) {
				case *ssa.Phi:
					// every incoming path must bring it (loop back edges are neutral)
					n := 0
					for _, e := range x.Edges {
						if !has(e, pred, seen, true) {
							return false
						}
						n++
					}
					return n > 0
				case *ssa.BinOp:
					if x.Op == token.ADD {
						return has(x.X, pred, seen, all) || has(x.Y, pred, seen, all)
					}
				case *ssa.Convert:
					return has(x.X, pred, seen, all)
				case *ssa.ChangeType:
					return has(x.X, pred, seen, all)
				}
				return false
			}
			isCounterLoad := func(v ssa.Value) bool {
				c, ok := v.(*ssa.Call)
				if !ok {
					return false
				}
				d, is := isCnt(c)
				return is && d == 100
			}
			okAll := len(pendingVals) > 0
			whyP := "no store to the pending-task field of the status found"
			for _, v := range pendingVals {
				if !has(v, isCounterLoad, map[ssa.Value]bool{}, false) {
					okAll, whyP = false, "on some path the value reported as pending ("+sx.ValPath(v)+") does not include the counter of tasks held by the queue goroutines"
				}
			}
			r.Check(okAll, "C14-R3", "Status reports buffered lengths plus the held-task counter on every path", p.FuncPos(t.Status), "the pending value is, on every path, a sum that includes the counter load", whyP)
			// Status only observes: it loads and takes lengths, it never swaps, stores or adds — a second snapshot must
			// see what the first one saw when nothing happened in between
			{
				var wr []string
				sv := p.Inl(t.Status)
				for _, f := range sx.WithClosures(sv) {
					sx.Instrs(f, func(in ssa.Instruction) {
						switch x := in.(type) {
						case ssa.CallInstruction:
							n := sx.CalleeName(x)
							if strings.HasPrefix(n, "(*sync/atomic.") && !strings.HasSuffix(n, ".Load") {
								wr = append(wr, short(n)+" at "+p.Pos(in.Pos()))
							}
							if strings.HasPrefix(n, "sync/atomic.") && !strings.HasPrefix(n, "sync/atomic.Load") {
								wr = append(wr, short(n)+" at "+p.Pos(in.Pos()))
							}
						case *ssa.Store:
							if fa, ok := x.Addr.(*ssa.FieldAddr); ok && !sx.IsFreshObject(fa.X) && sx.OwnerName(fa.X.Type()) == t.Named.Obj().Name() {
								wr = append(wr, "store to "+sx.AddrPath(x.Addr)+" at "+p.Pos(in.Pos()))
							}
						case *ssa.Send:
							wr = append(wr, "channel send at "+p.Pos(in.Pos()))
						case *ssa.UnOp:
							if x.Op == token.ARROW {
								wr = append(wr, "channel receive at "+p.Pos(in.Pos()))
							}
						}
					})
				}
				r.Check(len(wr) == 0, "C14-R3", "Status is a pure observer", p.FuncPos(t.Status), "atomic loads and len() only", "Status changes what it reports on: "+strings.Join(wr, "; ")+" — the next snapshot differs although no task ran, panicked or was pushed in between (e.g. LastPanic read with Swap(nil) is lost for every later Status)")
			}
			// the bound laneSize×(queueSize+1) speaks of the queueSize the caller passed: the buffers have exactly that capacity
			{
				var bad []string
				n := 0
				for _, mc := range t.ElemChans {
					if t.elemField[mc] != t.Buffered {
						continue
					}
					n++
					if _, isParam := t.canonCount(mc.Size).(*ssa.Parameter); !isParam {
						bad = append(bad, "the lane buffers are made with capacity "+short(sx.ValPath(mc.Size))+" at "+p.Pos(mc.Pos())+", not with the constructor's queue-size parameter")
					}
				}
				r.Check(len(bad) == 0 && n > 0, "C14-R3", "lane buffers have exactly the capacity the constructor was given", p.FuncPos(t.Ctor), "make(chan Task, queueSize) with the parameter itself", strings.Join(bad, "; ")+": accepted-but-not-started tasks can exceed laneSize×(queueSize+1) and QueueSize no longer describes the lanes")
			}
		}
	}
}
