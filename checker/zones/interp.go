package zones

import (
	"fmt"
	"go/constant"
	"go/token"
	"go/types"
	"sort"
	"strings"

	"golang.org/x/tools/go/ssa"

	"glbverif/checker/sx"
)

// Obligation is one bounds requirement of an index or slice expression.
type Obligation struct {
	Instr   ssa.Instruction
	What    string // "index", "slice"
	Proved  bool
	Witness string // abstract state in which the requirement is not implied
	Nodes   int    // number of (block, partition) nodes in which it was evaluated
}

// Assumption adds `len(a) <= len(b)` style facts at function entry (justified by another rule).
type Assumption struct {
	A, B ssa.Value // len(A) <= len(B)
	// or: every tracked location of field LocField has len >= LocMin at function entry
	LocField *types.Var
	LocMin   int64
	// or: len(location of field LEField) <= len(location of field GEField) (same base object) at function entry
	LEField, GEField *types.Var
	AnyBase          bool // the two fields belong to different objects (a relation that holds for every pair of them)
	Why              string
}

type loc struct {
	base  ssa.Value
	field *types.Var
}

type term struct {
	v   int
	off int64
	ok  bool
}

type node struct {
	b   *ssa.BasicBlock
	tok uint64
}

// Analysis of one function.
type Analysis struct {
	Fn        *ssa.Function
	MayStore  func(call ssa.CallInstruction) (fields map[*types.Var]bool, all bool)
	Assume    []Assumption
	vars      map[ssa.Value]int // integer registers
	lens      map[ssa.Value]int // len() of string/slice registers
	locs      map[loc]int       // len() of tracked memory locations
	phiTmp    map[*ssa.Phi]int
	phiLenTmp map[*ssa.Phi]int
	n         int
	headers   map[*ssa.BasicBlock]int
	backEdge  map[sx.Edge]bool
	in        map[node]*DBM
	visits    map[node]int
	Stats     struct{ Nodes, Iterations, Vars int }
}

func isTrackedInt(t types.Type) bool {
	b, ok := t.Underlying().(*types.Basic)
	return ok && (b.Kind() == types.Int || b.Kind() == types.Int64 || b.Kind() == types.UntypedInt)
}

func isSeq(t types.Type) bool {
	switch u := t.Underlying().(type) {
	case *types.Slice:
		return true
	case *types.Basic:
		return u.Info()&types.IsString != 0
	}
	return false
}

func New(fn *ssa.Function) *Analysis {
	a := &Analysis{Fn: fn, vars: map[ssa.Value]int{}, lens: map[ssa.Value]int{}, locs: map[loc]int{}, phiTmp: map[*ssa.Phi]int{}, phiLenTmp: map[*ssa.Phi]int{},
		headers: map[*ssa.BasicBlock]int{}, backEdge: map[sx.Edge]bool{}, in: map[node]*DBM{}, visits: map[node]int{}}
	a.n = 1
	add := func(v ssa.Value) {
		if v == nil {
			return
		}
		if _, isC := v.(*ssa.Const); isC {
			return
		}
		if isTrackedInt(v.Type()) {
			if _, ok := a.vars[v]; !ok {
				a.vars[v] = a.n
				a.n++
			}
		}
		if isSeq(v.Type()) {
			if _, ok := a.lens[v]; !ok {
				a.lens[v] = a.n
				a.n++
			}
		}
	}
	for _, p := range fn.Params {
		add(p)
	}
	for _, fv := range fn.FreeVars {
		add(fv)
	}
	for _, b := range fn.Blocks {
		for _, in := range b.Instrs {
			if v, ok := in.(ssa.Value); ok {
				add(v)
				if ph, ok := in.(*ssa.Phi); ok {
					if isTrackedInt(ph.Type()) {
						a.phiTmp[ph] = a.n
						a.n++
					}
					if isSeq(ph.Type()) {
						a.phiLenTmp[ph] = a.n
						a.n++
					}
				}
			}
			// tracked locations: fields of string/slice type reached through a FieldAddr
			if fa, ok := in.(*ssa.FieldAddr); ok {
				f := sx.FieldOf(fa)
				if f != nil && isSeq(f.Type()) {
					l := loc{sx.Unspill(fa.X), f}
					if _, ok := a.locs[l]; !ok {
						a.locs[l] = a.n
						a.n++
					}
				}
			}
		}
	}
	for i, h := range sx.LoopHeaders(fn) {
		if i < 60 {
			a.headers[h] = i
		}
		for e := range sx.BackEdgesTo(h) {
			a.backEdge[e] = true
		}
	}
	a.Stats.Vars = a.n
	return a
}

func (a *Analysis) termOf(v ssa.Value) term {
	if c, ok := v.(*ssa.Const); ok {
		if c.Value != nil && c.Value.Kind() == constant.Int {
			if k, exact := constant.Int64Val(c.Value); exact {
				return term{0, k, true}
			}
		}
		return term{}
	}
	if i, ok := a.vars[v]; ok {
		return term{i, 0, true}
	}
	return term{}
}

func (a *Analysis) lenTerm(v ssa.Value) term {
	if c, ok := v.(*ssa.Const); ok {
		if c.Value != nil && c.Value.Kind() == constant.String {
			return term{0, int64(len(constant.StringVal(c.Value))), true}
		}
		if c.Value == nil { // nil slice
			return term{0, 0, true}
		}
		return term{}
	}
	if i, ok := a.lens[v]; ok {
		return term{i, 0, true}
	}
	return term{}
}

// le adds x <= y.
func le(m *DBM, x, y term) {
	if x.ok && y.ok {
		m.AddLE(x.v, y.v, y.off-x.off)
	}
}

func implies(m *DBM, x, y term) bool {
	if !x.ok || !y.ok {
		return false
	}
	return m.Implies(x.v, y.v, y.off-x.off)
}

func (a *Analysis) forgetLen(m *DBM, i int) {
	m.Forget(i)
	m.AddLE(0, i, 0) // len >= 0
}

func (a *Analysis) setLen(m *DBM, v ssa.Value, t term) {
	i, ok := a.lens[v]
	if !ok {
		return
	}
	if !t.ok {
		a.forgetLen(m, i)
		return
	}
	m.Assign(i, t.v, t.off)
}

func (a *Analysis) setInt(m *DBM, v ssa.Value, t term) {
	i, ok := a.vars[v]
	if !ok {
		return
	}
	if !t.ok {
		m.Forget(i)
		return
	}
	m.Assign(i, t.v, t.off)
}

func (a *Analysis) locOf(addr ssa.Value) (int, bool) {
	fa, ok := addr.(*ssa.FieldAddr)
	if !ok {
		return 0, false
	}
	f := sx.FieldOf(fa)
	i, ok := a.locs[loc{sx.Unspill(fa.X), f}]
	return i, ok
}

// transfer applies one instruction.
func (a *Analysis) transfer(m *DBM, in ssa.Instruction) {
	if m.Bottom {
		return
	}
	switch x := in.(type) {
	case *ssa.BinOp:
		if _, ok := a.vars[x]; !ok {
			return
		}
		tx, ty := a.termOf(x.X), a.termOf(x.Y)
		switch x.Op {
		case token.ADD:
			switch {
			case tx.ok && ty.ok && ty.v == 0:
				a.setInt(m, x, term{tx.v, tx.off + ty.off, true})
			case tx.ok && ty.ok && tx.v == 0:
				a.setInt(m, x, term{ty.v, ty.off + tx.off, true})
			default:
				a.setInt(m, x, term{})
			}
		case token.SUB:
			if tx.ok && ty.ok && ty.v == 0 {
				a.setInt(m, x, term{tx.v, tx.off - ty.off, true})
			} else if tx.ok && ty.ok {
				// d = x - y: keep what the matrix knows about the difference
				i := a.vars[x]
				hi, lo := m.at(tx.v, ty.v), m.at(ty.v, tx.v)
				m.Forget(i)
				if hi < inf {
					m.AddLE(i, 0, hi+tx.off-ty.off)
				}
				if lo < inf {
					m.AddLE(0, i, lo-tx.off+ty.off)
				}
			} else {
				a.setInt(m, x, term{})
			}
		default:
			a.setInt(m, x, term{})
		}
	case *ssa.Call:
		a.call(m, x)
	case *ssa.Slice:
		lx := a.lenTerm(x.X)
		if p, ok := x.X.Type().Underlying().(*types.Pointer); ok {
			if arr, ok := p.Elem().Underlying().(*types.Array); ok {
				lx = term{0, arr.Len(), true}
			}
		}
		lo := term{0, 0, true}
		if x.Low != nil {
			lo = a.termOf(x.Low)
		}
		hi := lx
		if x.High != nil {
			hi = a.termOf(x.High)
		}
		switch {
		case lo.ok && hi.ok && lo.v == 0:
			a.setLen(m, x, term{hi.v, hi.off - lo.off, true})
		case lo.ok && hi.ok && hi.v == 0 && lo.v != 0:
			// len = c - lo: only bounds
			i := a.lens[x]
			a.forgetLen(m, i)
			if lb := m.at(0, lo.v); lb < inf { // lo >= -lb
				m.AddLE(i, 0, hi.off-lo.off+lb)
			}
		default:
			if i, ok := a.lens[x]; ok {
				a.forgetLen(m, i)
				if hi.ok && lo.ok {
					// len(t) <= hi when lo >= 0
					if m.Implies(0, lo.v, lo.off) {
						m.AddLE(i, hi.v, hi.off)
					}
				}
			}
		}
	case *ssa.UnOp:
		if x.Op == token.MUL {
			if li, ok := a.locOf(x.X); ok {
				a.setLen(m, x, term{li, 0, true})
				return
			}
		}
		if i, ok := a.lens[x]; ok {
			a.forgetLen(m, i)
		}
		if i, ok := a.vars[x]; ok {
			m.Forget(i)
		}
	case *ssa.Store:
		if li, ok := a.locOf(x.Addr); ok {
			t := a.lenTerm(x.Val)
			if t.ok {
				m.Assign(li, t.v, t.off)
			} else {
				a.forgetLen(m, li)
			}
			return
		}
		// a store to the same field through another base may alias
		if fa, ok := x.Addr.(*ssa.FieldAddr); ok {
			f := sx.FieldOf(fa)
			for l, i := range a.locs {
				if l.field == f {
					a.forgetLen(m, i)
				}
			}
		}
	case *ssa.Convert:
		if _, ok := a.vars[x]; ok {
			a.setInt(m, x, a.termOf(x.X))
		}
		if _, ok := a.lens[x]; ok {
			// string(bytes) / []byte(string): same length
			a.setLen(m, x, a.lenTerm(x.X))
		}
	case *ssa.ChangeType:
		if _, ok := a.lens[x]; ok {
			a.setLen(m, x, a.lenTerm(x.X))
		}
		if _, ok := a.vars[x]; ok {
			a.setInt(m, x, a.termOf(x.X))
		}
	case *ssa.Phi:
		// handled on edges
	case *ssa.MakeSlice:
		a.setLen(m, x, a.termOf(x.Len))
	case ssa.Value:
		if i, ok := a.lens[x]; ok {
			a.forgetLen(m, i)
		}
		if i, ok := a.vars[x]; ok {
			m.Forget(i)
		}
	}
}

func (a *Analysis) call(m *DBM, c *ssa.Call) {
	name := sx.CalleeName(c)
	args := c.Call.Args
	havoc := func() {
		if a.MayStore == nil {
			for _, i := range a.locs {
				a.forgetLen(m, i)
			}
			return
		}
		fields, all := a.MayStore(c)
		for l, i := range a.locs {
			if all || fields[l.field] {
				a.forgetLen(m, i)
			}
		}
	}
	switch name {
	case "builtin.len":
		a.setInt(m, c, a.lenTerm(args[0]))
		if p, ok := args[0].Type().Underlying().(*types.Pointer); ok {
			if arr, ok := p.Elem().Underlying().(*types.Array); ok {
				a.setInt(m, c, term{0, arr.Len(), true})
			}
		}
		if arr, ok := args[0].Type().Underlying().(*types.Array); ok {
			a.setInt(m, c, term{0, arr.Len(), true})
		}
		if _, isMap := args[0].Type().Underlying().(*types.Map); isMap {
			a.setInt(m, c, term{})
			m.AddLE(0, a.vars[c], 0)
		}
		if _, isChan := args[0].Type().Underlying().(*types.Chan); isChan {
			a.setInt(m, c, term{})
			m.AddLE(0, a.vars[c], 0)
		}
		return
	case "builtin.cap":
		if i, ok := a.vars[c]; ok {
			m.Forget(i)
			if t := a.lenTerm(args[0]); t.ok {
				m.AddLE(t.v, i, -t.off) // len <= cap
			}
		}
		return
	case "builtin.append":
		if i, ok := a.lens[c]; ok {
			a.forgetLen(m, i)
			if t := a.lenTerm(args[0]); t.ok {
				m.AddLE(t.v, i, -t.off) // len(result) >= len(arg0)
			}
		}
		return
	case "builtin.min", "builtin.max", "builtin.copy", "builtin.delete", "builtin.close", "builtin.print", "builtin.println", "builtin.recover":
		if i, ok := a.vars[c]; ok {
			m.Forget(i)
		}
		return
	case "strings.IndexByte", "strings.Index", "strings.LastIndexByte", "strings.LastIndex", "strings.IndexRune", "bytes.IndexByte":
		if i, ok := a.vars[c]; ok {
			m.Forget(i)
			m.AddLE(0, i, 1) // >= -1
			if t := a.lenTerm(args[0]); t.ok {
				m.AddLE(i, t.v, t.off-1) // < len
			}
		}
		return
	}
	if strings.HasPrefix(name, "slices.Index[") || strings.HasPrefix(name, "slices.IndexFunc[") || name == "slices.Index" || name == "slices.IndexFunc" {
		// pure search of the standard library: -1 <= result < len(arg0)
		if i, ok := a.vars[c]; ok {
			m.Forget(i)
			m.AddLE(0, i, 1)
			if t := a.lenTerm(args[0]); t.ok {
				m.AddLE(i, t.v, t.off-1)
			}
		}
		return
	}
	// generic call: unknown results; tracked memory may be modified by module callees
	if i, ok := a.vars[c]; ok {
		m.Forget(i)
	}
	if i, ok := a.lens[c]; ok {
		var keep term
		if appendStyleName(name) && len(args) > 0 {
			keep = a.lenTerm(args[0])
			if name == "(time.Time).AppendFormat" && len(args) > 1 {
				keep = a.lenTerm(args[1])
			}
		}
		a.forgetLen(m, i)
		if keep.ok {
			m.AddLE(keep.v, i, -keep.off) // the result extends its first argument
		}
	}
	havoc()
}

// refine adds the facts implied by taking the given branch of an If.
func (a *Analysis) refine(m *DBM, cond ssa.Value, taken bool) {
	if m.Bottom {
		return
	}
	switch x := cond.(type) {
	case *ssa.UnOp:
		if x.Op == token.NOT {
			a.refine(m, x.X, !taken)
		}
	case *ssa.Call:
		name := sx.CalleeName(x)
		if (name == "strings.HasPrefix" || name == "strings.HasSuffix" || name == "bytes.HasPrefix") && taken {
			s, p := a.lenTerm(x.Call.Args[0]), a.lenTerm(x.Call.Args[1])
			le(m, p, s)
		}
	case *ssa.BinOp:
		op := x.Op
		if !taken {
			switch op {
			case token.LSS:
				op = token.GEQ
			case token.LEQ:
				op = token.GTR
			case token.GTR:
				op = token.LEQ
			case token.GEQ:
				op = token.LSS
			case token.EQL:
				op = token.NEQ
			case token.NEQ:
				op = token.EQL
			default:
				return
			}
		}
		var tx, ty term
		if isSeq(x.X.Type()) {
			// string comparison: only (in)equality gives length facts, and only equality with a constant is exact
			_, xc := x.X.(*ssa.Const)
			_, yc := x.Y.(*ssa.Const)
			if !xc && !yc {
				if op == token.EQL {
					tx, ty = a.lenTerm(x.X), a.lenTerm(x.Y)
					le(m, tx, ty)
					le(m, ty, tx)
				}
				return
			}
			tx, ty = a.lenTerm(x.X), a.lenTerm(x.Y)
			cst := x.Y
			if xc {
				cst = x.X
			}
			s, _ := sx.ConstString(cst)
			switch op {
			case token.EQL:
				le(m, tx, ty)
				le(m, ty, tx)
			case token.NEQ:
				if s == "" { // len != 0 with len >= 0
					if xc {
						le(m, term{0, 1, true}, ty)
					} else {
						le(m, term{0, 1, true}, tx)
					}
				}
			}
			return
		}
		tx, ty = a.diffTerm(m, x.X), a.diffTerm(m, x.Y)
		if !tx.ok || !ty.ok {
			// x-y compared with constant where x-y is a SUB of two tracked registers
			if sub, ok := x.X.(*ssa.BinOp); ok && sub.Op == token.SUB {
				p, q := a.termOf(sub.X), a.termOf(sub.Y)
				c := a.termOf(x.Y)
				if p.ok && q.ok && c.ok && c.v == 0 {
					// (p - q) op c
					switch op {
					case token.LSS:
						m.AddLE(p.v, q.v, c.off-1-p.off+q.off)
					case token.LEQ:
						m.AddLE(p.v, q.v, c.off-p.off+q.off)
					case token.GTR:
						m.AddLE(q.v, p.v, -c.off-1+p.off-q.off)
					case token.GEQ:
						m.AddLE(q.v, p.v, -c.off+p.off-q.off)
					case token.EQL:
						m.AddLE(p.v, q.v, c.off-p.off+q.off)
						m.AddLE(q.v, p.v, -c.off+p.off-q.off)
					}
				}
			}
			return
		}
		switch op {
		case token.LSS:
			le(m, term{tx.v, tx.off + 1, true}, ty)
		case token.LEQ:
			le(m, tx, ty)
		case token.GTR:
			le(m, term{ty.v, ty.off + 1, true}, tx)
		case token.GEQ:
			le(m, ty, tx)
		case token.EQL:
			le(m, tx, ty)
			le(m, ty, tx)
		case token.NEQ:
			// x != y with x <= y known  =>  x < y (and symmetric)
			if implies(m, tx, ty) {
				le(m, term{tx.v, tx.off + 1, true}, ty)
			} else if implies(m, ty, tx) {
				le(m, term{ty.v, ty.off + 1, true}, tx)
			}
		}
		// also refine the operands of a SUB that is itself a tracked register
		if sub, ok := x.X.(*ssa.BinOp); ok && sub.Op == token.SUB {
			p, q := a.termOf(sub.X), a.termOf(sub.Y)
			c := a.termOf(x.Y)
			if p.ok && q.ok && c.ok && c.v == 0 {
				switch op {
				case token.LSS:
					m.AddLE(p.v, q.v, c.off-1-p.off+q.off)
				case token.LEQ:
					m.AddLE(p.v, q.v, c.off-p.off+q.off)
				case token.GTR:
					m.AddLE(q.v, p.v, -c.off-1+p.off-q.off)
				case token.GEQ:
					m.AddLE(q.v, p.v, -c.off+p.off-q.off)
				case token.EQL:
					m.AddLE(p.v, q.v, c.off-p.off+q.off)
					m.AddLE(q.v, p.v, -c.off+p.off-q.off)
				}
			}
		}
	}
}

func (a *Analysis) diffTerm(m *DBM, v ssa.Value) term { return a.termOf(v) }

// edgeState computes the state flowing along edge e (refinement + phi assignment).
func (a *Analysis) edgeState(out *DBM, e sx.Edge) *DBM {
	m := out.Clone()
	b := e.From
	if iff, ok := b.Instrs[len(b.Instrs)-1].(*ssa.If); ok && b.Succs[0] != b.Succs[1] {
		a.refine(m, iff.Cond, e.Idx == 0)
	}
	if m.Bottom {
		return m
	}
	succ := e.To()
	// which predecessor index?
	pi := -1
	cnt := 0
	for i, p := range succ.Preds {
		if p == b {
			// several edges from b to succ: pick by occurrence order
			if cnt == occurrence(b, e.Idx, succ) {
				pi = i
			}
			cnt++
		}
	}
	if pi < 0 {
		return m
	}
	// parallel phi assignment through temporaries
	var phis []*ssa.Phi
	for _, in := range succ.Instrs {
		ph, ok := in.(*ssa.Phi)
		if !ok {
			break
		}
		phis = append(phis, ph)
	}
	for _, ph := range phis {
		if t, ok := a.phiTmp[ph]; ok {
			src := a.termOf(ph.Edges[pi])
			if src.ok {
				m.Assign(t, src.v, src.off)
			} else {
				m.Forget(t)
			}
		}
		if t, ok := a.phiLenTmp[ph]; ok {
			src := a.lenTerm(ph.Edges[pi])
			if src.ok {
				m.Assign(t, src.v, src.off)
			} else {
				a.forgetLen(m, t)
			}
		}
	}
	for _, ph := range phis {
		if t, ok := a.phiTmp[ph]; ok {
			m.Assign(a.vars[ph], t, 0)
			m.Forget(t)
		}
		if t, ok := a.phiLenTmp[ph]; ok {
			m.Assign(a.lens[ph], t, 0)
			m.Forget(t)
		}
	}
	return m
}

func occurrence(b *ssa.BasicBlock, idx int, succ *ssa.BasicBlock) int {
	n := 0
	for i := 0; i < idx; i++ {
		if b.Succs[i] == succ {
			n++
		}
	}
	return n
}

func (a *Analysis) nextTok(tok uint64, e sx.Edge) uint64 {
	to := e.To()
	if hi, ok := a.headers[to]; ok {
		if a.backEdge[e] {
			return tok | 1<<uint(hi)
		}
		return tok &^ (1 << uint(hi))
	}
	return tok
}

// Run computes the fixpoint and evaluates every index/slice obligation.
func (a *Analysis) Run() []Obligation {
	fn := a.Fn
	entry := NewDBM(a.n)
	for _, i := range a.lens {
		entry.AddLE(0, i, 0)
	}
	for _, i := range a.locs {
		entry.AddLE(0, i, 0)
	}
	for _, i := range a.phiLenTmp {
		entry.AddLE(0, i, 0)
	}
	for _, as := range a.Assume {
		if as.LocField != nil {
			for l, i := range a.locs {
				if l.field == as.LocField {
					entry.AddLE(0, i, -as.LocMin)
				}
			}
			continue
		}
		if as.LEField != nil {
			for l1, i1 := range a.locs {
				for l2, i2 := range a.locs {
					if l1.field == as.LEField && l2.field == as.GEField && (as.AnyBase || l1.base == l2.base) {
						entry.AddLE(i1, i2, 0)
					}
				}
			}
			continue
		}
		le(entry, a.lenTerm(as.A), a.lenTerm(as.B))
	}
	start := node{fn.Blocks[0], 0}
	a.in[start] = entry
	work := []node{start}
	queued := map[node]bool{start: true}
	for len(work) > 0 && a.Stats.Iterations < 20000 {
		nd := work[0]
		work = work[1:]
		queued[nd] = false
		a.Stats.Iterations++
		m := a.in[nd].Clone()
		for _, in := range nd.b.Instrs {
			a.transfer(m, in)
		}
		if m.Bottom {
			continue
		}
		for si := range nd.b.Succs {
			e := sx.Edge{From: nd.b, Idx: si}
			if sx.IsUnreachablePanic(e.To()) {
				continue
			}
			es := a.edgeState(m, e)
			if es.Bottom {
				continue
			}
			tn := node{e.To(), a.nextTok(nd.tok, e)}
			old, ok := a.in[tn]
			var nw *DBM
			if !ok {
				nw = es
			} else {
				if es.Leq(old) {
					continue
				}
				a.visits[tn]++
				if _, isHdr := a.headers[tn.b]; isHdr && a.visits[tn] > 3 {
					nw = old.Widen(old.Join(es))
				} else {
					nw = old.Join(es)
				}
			}
			a.in[tn] = nw
			if !queued[tn] {
				queued[tn] = true
				work = append(work, tn)
			}
		}
	}
	a.Stats.Nodes = len(a.in)
	return a.evaluate()
}

func (a *Analysis) evaluate() []Obligation {
	var out []Obligation
	idx := map[ssa.Instruction]int{}
	var nodes []node
	for nd := range a.in {
		nodes = append(nodes, nd)
	}
	sort.Slice(nodes, func(i, j int) bool {
		if nodes[i].b.Index != nodes[j].b.Index {
			return nodes[i].b.Index < nodes[j].b.Index
		}
		return nodes[i].tok < nodes[j].tok
	})
	for _, nd := range nodes {
		m := a.in[nd].Clone()
		for _, in := range nd.b.Instrs {
			if !m.Bottom {
				if what, reqs := a.requirements(in); len(reqs) > 0 {
					k, seen := idx[in]
					if !seen {
						k = len(out)
						idx[in] = k
						out = append(out, Obligation{Instr: in, What: what, Proved: true})
					}
					out[k].Nodes++
					for _, rq := range reqs {
						if !implies(m, rq.lo, rq.hi) {
							out[k].Proved = false
							if out[k].Witness == "" {
								out[k].Witness = fmt.Sprintf("%s is not implied in block %d (partition %s): %s", rq.text, nd.b.Index, a.tokString(nd.tok), a.describe(m, rq))
							}
						}
					}
				}
			}
			a.transfer(m, in)
		}
	}
	sort.Slice(out, func(i, j int) bool { return out[i].Instr.Pos() < out[j].Instr.Pos() })
	return out
}

func (a *Analysis) tokString(tok uint64) string {
	if tok == 0 {
		return "first pass"
	}
	var hs []string
	for h, i := range a.headers {
		if tok&(1<<uint(i)) != 0 {
			hs = append(hs, fmt.Sprintf("loop@%d repeated", h.Index))
		}
	}
	sort.Strings(hs)
	return strings.Join(hs, ",")
}

type req struct {
	lo, hi term // lo <= hi must hold
	text   string
	vals   []ssa.Value
}

// requirements lists the bounds an instruction needs.
func (a *Analysis) requirements(in ssa.Instruction) (string, []req) {
	seqLen := func(x ssa.Value) term {
		t := x.Type().Underlying()
		if p, ok := t.(*types.Pointer); ok {
			t = p.Elem().Underlying()
		}
		if arr, ok := t.(*types.Array); ok {
			return term{0, arr.Len(), true}
		}
		return a.lenTerm(x)
	}
	idxReq := func(x, i ssa.Value) []req {
		ti, tl := a.termOf(i), seqLen(x)
		// unsigned / narrow index types are not tracked: they are >= 0 by type
		var rs []req
		if b, ok := i.Type().Underlying().(*types.Basic); ok && b.Info()&types.IsUnsigned != 0 {
			// cannot be negative; upper bound unknown unless constant
		} else {
			rs = append(rs, req{term{0, 0, true}, ti, "0 <= " + sx.ValPath(i), []ssa.Value{i}})
		}
		rs = append(rs, req{term{ti.v, ti.off + 1, ti.ok}, tl, sx.ValPath(i) + " < len(" + sx.ValPath(x) + ")", []ssa.Value{i, x}})
		return rs
	}
	switch x := in.(type) {
	case *ssa.Index:
		if _, isMap := x.X.Type().Underlying().(*types.Map); isMap {
			return "", nil
		}
		return "index", idxReq(x.X, x.Index)
	case *ssa.IndexAddr:
		return "index", idxReq(x.X, x.Index)
	case *ssa.Lookup:
		if isSeq(x.X.Type()) {
			return "index", idxReq(x.X, x.Index)
		}
	case *ssa.Slice:
		ln := seqLen(x.X)
		lo := term{0, 0, true}
		if x.Low != nil {
			lo = a.termOf(x.Low)
		}
		hi := ln
		if x.High != nil {
			hi = a.termOf(x.High)
		}
		var rs []req
		lowS, highS := "0", "len("+sx.ValPath(x.X)+")"
		if x.Low != nil {
			lowS = sx.ValPath(x.Low)
			rs = append(rs, req{term{0, 0, true}, lo, "0 <= " + lowS, []ssa.Value{x.Low}})
		}
		if x.High != nil {
			highS = sx.ValPath(x.High)
			// for slices the upper limit is cap; proving <= len is sufficient except for the [:0]/[:c] idiom on pooled buffers
			if _, isSlice := x.X.Type().Underlying().(*types.Slice); isSlice {
				if hi.ok && hi.v == 0 && hi.off == 0 {
					// s[:0] is always legal
				} else {
					rs = append(rs, req{hi, ln, highS + " <= len(" + sx.ValPath(x.X) + ") (sufficient for <= cap)", []ssa.Value{x.High, x.X}})
				}
			} else {
				rs = append(rs, req{hi, ln, highS + " <= len(" + sx.ValPath(x.X) + ")", []ssa.Value{x.High, x.X}})
			}
		}
		if x.Low != nil || x.High != nil {
			rs = append(rs, req{lo, hi, lowS + " <= " + highS, []ssa.Value{x.Low, x.High}})
		}
		return "slice", rs
	}
	return "", nil
}

func (a *Analysis) describe(m *DBM, rq req) string {
	var parts []string
	show := func(t term, name string) {
		if t.ok && t.v != 0 {
			parts = append(parts, name+" in "+m.Bounds(t.v))
		}
	}
	show(rq.lo, "lhs")
	show(rq.hi, "rhs")
	if rq.lo.ok && rq.hi.ok && rq.lo.v != 0 && rq.hi.v != 0 {
		parts = append(parts, "lhs-rhs "+m.Diff(rq.lo.v, rq.hi.v))
	}
	if !rq.lo.ok || !rq.hi.ok {
		parts = append(parts, "an operand is not a tracked integer")
	}
	return strings.Join(parts, ", ")
}

func appendStyleName(name string) bool {
	return strings.HasPrefix(name, "strconv.Append") || name == "fmt.Append" || name == "fmt.Appendf" || name == "fmt.Appendln" ||
		name == "(time.Time).AppendFormat" || name == "unicode/utf8.AppendRune"
}
