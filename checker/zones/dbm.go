// Package zones is a small difference-bound (zone) abstract interpreter over
// go/ssa used to prove index and slice expressions in bounds for every input.
// Variables are integer SSA registers, len() of string/slice registers and
// len() of tracked memory locations; index 0 is the constant zero.
package zones

import "fmt"

const inf = int64(1) << 50

// DBM: d[i*n+j] is an upper bound of v_i - v_j.
type DBM struct {
	n      int
	d      []int64
	Bottom bool
}

func NewDBM(n int) *DBM {
	m := &DBM{n: n, d: make([]int64, n*n)}
	for i := range m.d {
		m.d[i] = inf
	}
	for i := 0; i < n; i++ {
		m.d[i*n+i] = 0
	}
	return m
}

func (m *DBM) Clone() *DBM {
	c := &DBM{n: m.n, d: make([]int64, len(m.d)), Bottom: m.Bottom}
	copy(c.d, m.d)
	return c
}

func (m *DBM) at(i, j int) int64 { return m.d[i*m.n+j] }

// AddLE adds v_i - v_j <= c and restores closure incrementally.
func (m *DBM) AddLE(i, j int, c int64) {
	if m.Bottom {
		return
	}
	if i == j {
		if c < 0 {
			m.Bottom = true
		}
		return
	}
	if c >= m.at(i, j) {
		return
	}
	// negative cycle?
	if m.at(j, i) < inf && m.at(j, i)+c < 0 {
		m.Bottom = true
		return
	}
	n := m.n
	m.d[i*n+j] = c
	for a := 0; a < n; a++ {
		dai := m.d[a*n+i]
		if dai >= inf {
			continue
		}
		for b := 0; b < n; b++ {
			djb := m.d[j*n+b]
			if djb >= inf {
				continue
			}
			if v := dai + c + djb; v < m.d[a*n+b] {
				m.d[a*n+b] = v
				if a == b && v < 0 {
					m.Bottom = true
					return
				}
			}
		}
	}
}

// Forget removes all knowledge about v_i.
func (m *DBM) Forget(i int) {
	if m.Bottom || i == 0 {
		return
	}
	n := m.n
	for k := 0; k < n; k++ {
		if k != i {
			m.d[i*n+k] = inf
			m.d[k*n+i] = inf
		}
	}
}

// Assign v_i := v_j + c (j may be 0 for a constant, j may equal i).
func (m *DBM) Assign(i, j int, c int64) {
	if m.Bottom || i == 0 {
		return
	}
	if i == j {
		// v_i := v_i + c: shift
		n := m.n
		for k := 0; k < n; k++ {
			if k == i {
				continue
			}
			if m.d[i*n+k] < inf {
				m.d[i*n+k] += c
			}
			if m.d[k*n+i] < inf {
				m.d[k*n+i] -= c
			}
		}
		return
	}
	m.Forget(i)
	m.AddLE(i, j, c)
	m.AddLE(j, i, -c)
}

// Implies reports whether v_i - v_j <= c holds in every concrete state.
func (m *DBM) Implies(i, j int, c int64) bool {
	if m.Bottom {
		return true
	}
	if i == j {
		return c >= 0
	}
	return m.at(i, j) <= c
}

// Join: least upper bound (pointwise max of closed matrices).
func (m *DBM) Join(o *DBM) *DBM {
	if m.Bottom {
		return o.Clone()
	}
	if o.Bottom {
		return m.Clone()
	}
	r := m.Clone()
	for k := range r.d {
		if o.d[k] > r.d[k] {
			r.d[k] = o.d[k]
		}
	}
	return r
}

// Widen: keep the bounds of m that o does not exceed.
func (m *DBM) Widen(o *DBM) *DBM {
	if m.Bottom {
		return o.Clone()
	}
	if o.Bottom {
		return m.Clone()
	}
	r := m.Clone()
	for k := range r.d {
		if o.d[k] > r.d[k] {
			r.d[k] = inf
		}
	}
	for i := 0; i < r.n; i++ {
		r.d[i*r.n+i] = 0
	}
	return r
}

// Leq: m is included in o.
func (m *DBM) Leq(o *DBM) bool {
	if m.Bottom {
		return true
	}
	if o.Bottom {
		return false
	}
	for k := range m.d {
		if m.d[k] > o.d[k] {
			return false
		}
	}
	return true
}

// Bounds renders what is known about v_i relative to zero and to v_j.
func (m *DBM) Bounds(i int) string {
	if m.Bottom {
		return "unreachable"
	}
	lo, hi := "-inf", "+inf"
	if m.at(0, i) < inf {
		lo = fmt.Sprint(-m.at(0, i))
	}
	if m.at(i, 0) < inf {
		hi = fmt.Sprint(m.at(i, 0))
	}
	return "[" + lo + "," + hi + "]"
}

func (m *DBM) Diff(i, j int) string {
	if m.Bottom {
		return "unreachable"
	}
	if m.at(i, j) >= inf {
		return "unbounded"
	}
	return fmt.Sprintf("<= %d", m.at(i, j))
}
