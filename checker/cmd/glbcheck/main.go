// glbcheck decides one property of whoisnian/glb by static analysis of the
// repository's current working tree. Usage:
//
//	glbcheck -prop C06 -tier quick|thorough [-repo /repo] [-verif /verif]
//	glbcheck -prop C06 -replay <file>
package main

import (
	"flag"
	"fmt"
	"os"
	"runtime/debug"
	"strings"
	"time"

	"glbverif/checker/core"
	"glbverif/checker/props"
	"glbverif/checker/sx"
)

func main() {
	prop := flag.String("prop", "", "property id (C01..C20)")
	tier := flag.String("tier", "quick", "quick | thorough")
	repo := flag.String("repo", "/repo", "repository working tree to analyse")
	verif := flag.String("verif", "/verif", "verification directory (evidence, known findings, seeded changes)")
	replay := flag.String("replay", "", "replay file: re-run the property and show only the obligations listed there")
	noEvidence := flag.Bool("scratch", false, "scratch run (self-validation child): print obligations, write nothing")
	inlTest := flag.String("inline-all", "", "debug: build and verify the inlined copy of every module function; 'dump:<name>' prints one")
	flag.Parse()
	if *inlTest != "" {
		p, err := core.Load(*repo, "", "")
		if err != nil {
			fmt.Println(err)
			os.Exit(2)
		}
		n, exp := 0, 0
		for _, fn := range p.ModuleFuncs() {
			if fn.Parent() != nil {
				continue
			}
			c := p.Inl(fn)
			n++
			if info := sx.InlineInfo(c); info != nil {
				exp += len(info.Expanded)
				if strings.HasPrefix(*inlTest, "dump:") && strings.Contains(fn.String(), strings.TrimPrefix(*inlTest, "dump:")) {
					c.WriteTo(os.Stdout)
				}
			}
		}
		fmt.Printf("inlined %d functions, %d expansions, all verified\n", n, exp)
		return
	}
	if os.Getenv("VERIF_TIER") != "" && *tier == "" {
		*tier = os.Getenv("VERIF_TIER")
	}
	run, ok := props.Registry[*prop]
	if !ok {
		fmt.Fprintf(os.Stderr, "unknown property %q\n", *prop)
		os.Exit(2)
	}
	started := time.Now()
	rep := core.NewReport(*prop, *tier)

	configs := [][2]string{{"", ""}}
	if *tier == "thorough" && !*noEvidence {
		configs = append(configs, [2]string{"linux", "386"}, [2]string{"darwin", "arm64"}, [2]string{"freebsd", "amd64"}, [2]string{"windows", "amd64"})
	}
	stats := map[string]any{}
	var cfgNames []string
	for _, c := range configs {
		p, err := core.Load(*repo, c[0], c[1])
		if err != nil {
			rep.SetConfig(c[0] + "/" + c[1])
			rep.Fail("LOAD", "load "+c[0]+"/"+c[1], "-", err.Error())
			continue
		}
		rep.SetConfig(p.Config)
		cfgNames = append(cfgNames, p.Config)
		if !props.Applicable(*prop, p) {
			rep.Note("config %s: the anchored package does not build for this configuration; skipped", p.Config)
			continue
		}
		func() {
			defer func() {
				if r := recover(); r != nil {
					rep.Fail("CHECKER-PANIC", fmt.Sprint(r), "-", strings.ReplaceAll(string(debug.Stack()), "\n", " | "))
				}
			}()
			run(p, rep)
			rep.Finalize()
		}()
		if c[0] == "" {
			pk, fn, bl, in := p.Stats()
			stats["packages"], stats["functions"], stats["blocks"], stats["instructions"] = pk, fn, bl, in
		}
	}
	stats["configurations"] = cfgNames

	if *noEvidence {
		for _, o := range rep.Obls {
			if o.Status != core.Discharged {
				fmt.Printf("SCRATCH %s\t%s\t%s\t%s\t%s\n", o.Status, o.Rule, o.Construct, o.Pos, o.Detail)
			}
		}
		fmt.Printf("SCRATCH-DONE obligations=%d\n", len(rep.Obls))
		return
	}
	if *tier == "thorough" {
		props.SelfValidate(*prop, *repo, *verif, rep)
	}
	findings, err := core.LoadFindings(*verif + "/known_findings.json")
	if err != nil {
		fmt.Fprintln(os.Stderr, "known_findings.json:", err)
		os.Exit(2)
	}
	if *replay != "" {
		fmt.Printf("replay of %s: re-running %s on %s\n", *replay, *prop, *repo)
	}
	os.Exit(rep.Emit(*verif, findings, started, stats))
}
