package sx

import (
	"go/token"
	"go/types"

	"golang.org/x/tools/go/ssa"
)

// FieldRef is one FieldAddr/Field instruction selecting a given struct field.
type FieldRef struct {
	Fn    *ssa.Function
	Instr ssa.Instruction // *ssa.FieldAddr or *ssa.Field
	Val   ssa.Value
	Base  ssa.Value // the struct (pointer) operand
}

// FieldRefs lists every selection of field fld (by object identity) in fns.
func FieldRefs(fns []*ssa.Function, fld *types.Var) []FieldRef {
	var out []FieldRef
	for _, fn := range fns {
		Instrs(fn, func(in ssa.Instruction) {
			switch x := in.(type) {
			case *ssa.FieldAddr:
				if FieldOf(x) == fld {
					out = append(out, FieldRef{fn, x, x, x.X})
				}
			case *ssa.Field:
				if FieldOf(x) == fld {
					out = append(out, FieldRef{fn, x, x, x.X})
				}
			}
		})
	}
	return out
}

// Access classifies how an address value is used.
type Access struct {
	Instr ssa.Instruction
	Kind  string // "read", "write", "call:<callee>", "addr-escape", "elem-write", "elem-read", "map-write", "len", "range"
	Val   ssa.Value
}

// Accesses classifies all uses of a field address (FieldAddr) — following
// element addresses (IndexAddr on arrays / on the loaded slice), loads and
// map operations on the loaded value.
func Accesses(addr ssa.Value) []Access {
	var out []Access
	seen := map[ssa.Value]bool{}
	var addrUse func(a ssa.Value, elem bool)
	var valUse func(v ssa.Value)
	addrUse = func(a ssa.Value, elem bool) {
		if seen[a] {
			return
		}
		seen[a] = true
		refs := a.Referrers()
		if refs == nil {
			return
		}
		for _, r := range *refs {
			switch x := r.(type) {
			case *ssa.Store:
				if x.Addr == a {
					k := "write"
					if elem {
						k = "elem-write"
					}
					out = append(out, Access{x, k, x.Val})
				} else {
					out = append(out, Access{x, "addr-escape", nil})
				}
			case *ssa.UnOp:
				if x.Op == token.MUL {
					k := "read"
					if elem {
						k = "elem-read"
					}
					out = append(out, Access{x, k, x})
					valUse(x)
				}
			case *ssa.IndexAddr:
				if x.X == a {
					addrUse(x, true)
				}
			case *ssa.FieldAddr:
				if x.X == a {
					addrUse(x, true)
				}
			case *ssa.Call:
				out = append(out, Access{x, "call:" + CalleeName(x), nil})
			case *ssa.Defer:
				out = append(out, Access{x, "call:" + CalleeName(x), nil})
			case *ssa.Go:
				out = append(out, Access{x, "call:" + CalleeName(x), nil})
			case *ssa.DebugRef:
			case *ssa.Slice:
				// slicing an array through its address yields a slice aliasing it
				out = append(out, Access{x, "read", x})
				valUse(x)
			default:
				out = append(out, Access{r, "addr-escape", nil})
			}
		}
	}
	valUse = func(v ssa.Value) {
		if seen[v] {
			return
		}
		seen[v] = true
		refs := v.Referrers()
		if refs == nil {
			return
		}
		switch v.Type().Underlying().(type) {
		case *types.Slice, *types.Map, *types.Array:
		default:
			return
		}
		for _, r := range *refs {
			switch x := r.(type) {
			case *ssa.IndexAddr:
				if x.X == v {
					addrUse(x, true)
				}
			case *ssa.MapUpdate:
				if x.Map == v {
					out = append(out, Access{x, "map-write", nil})
				}
			case *ssa.Call:
				if b, ok := x.Call.Value.(*ssa.Builtin); ok && b.Name() == "delete" && len(x.Call.Args) > 0 && x.Call.Args[0] == v {
					out = append(out, Access{x, "map-write", nil})
				}
			case *ssa.Lookup:
				if x.X == v {
					out = append(out, Access{x, "elem-read", x})
					valUse(x)
				}
			case *ssa.Index:
				if x.X == v {
					out = append(out, Access{x, "elem-read", x})
					valUse(x)
				}
			}
		}
	}
	addrUse(addr, false)
	return out
}

// IsFreshObject reports whether v (a pointer) is an object allocated in the
// current function (composite literal / new), i.e. not yet published.
func IsFreshObject(v ssa.Value) bool {
	v = Unspill(v)
	switch x := v.(type) {
	case *ssa.Alloc:
		return true
	case *ssa.FieldAddr:
		// a struct embedded by value in a fresh object is part of that object (`&T{inner: inner{…}}`)
		if _, isPtr := x.Type().Underlying().(*types.Pointer); isPtr {
			if _, isStruct := x.Type().Underlying().(*types.Pointer).Elem().Underlying().(*types.Struct); isStruct {
				return IsFreshObject(x.X)
			}
		}
	case *ssa.Call:
		if f := StaticCallee(x); f != nil {
			return ReturnsFresh(f)
		}
	}
	return false
}

var freshCache = map[*ssa.Function]int{}

// ReturnsFresh reports whether every value fn returns (single pointer result)
// is an object allocated inside fn or returned fresh by a static callee.
func ReturnsFresh(fn *ssa.Function) bool {
	switch freshCache[fn] {
	case 1:
		return true
	case 2:
		return false
	case 3:
		return true // recursion: optimistic
	}
	freshCache[fn] = 3
	ok := fn.Blocks != nil
	n := 0
	for _, r := range Returns(fn) {
		if len(r.Results) != 1 {
			ok = false
			break
		}
		n++
		if !IsFreshObject(r.Results[0]) {
			ok = false
		}
	}
	if n == 0 {
		ok = false
	}
	if ok {
		freshCache[fn] = 1
	} else {
		freshCache[fn] = 2
	}
	return ok
}

// Origins walks backwards from v through phis, cells, loads, conversions and
// slicing and returns terminal descriptors:
//
//	"field:<Type>.<name>"  load of a struct field
//	"call:<callee>"        result of a call
//	"const:<v>"            constant
//	"param:<name>"         parameter
//	"alloc"                fresh allocation
//	"global:<name>"
type OriginOpts struct {
	ThroughFields bool // keep walking through stores to the same field of fresh objects (not implemented: fields are terminals)
}

func Origins(v ssa.Value) map[string]bool {
	out := map[string]bool{}
	seen := map[ssa.Value]bool{}
	var walk func(v ssa.Value)
	walk = func(v ssa.Value) {
		if v == nil || seen[v] {
			return
		}
		seen[v] = true
		switch x := v.(type) {
		case *ssa.Const:
			if x.Value == nil {
				out["const:nil"] = true
			} else {
				out["const:"+x.Value.ExactString()] = true
			}
		case *ssa.Parameter:
			out["param:"+x.Name()] = true
		case *ssa.Global:
			out["global:"+x.Name()] = true
		case *ssa.Phi:
			for _, e := range x.Edges {
				walk(e)
			}
		case *ssa.UnOp:
			if x.Op != token.MUL {
				walk(x.X)
				return
			}
			switch a := x.X.(type) {
			case *ssa.Alloc:
				st, _ := CellStores(a)
				if len(st) == 0 {
					out["zero"] = true
				}
				for _, s := range st {
					walk(s)
				}
			case *ssa.FreeVar:
				if b := FreeVarBinding(a); b != nil {
					if al, ok := b.(*ssa.Alloc); ok {
						st, _ := CellStores(al)
						for _, s := range st {
							walk(s)
						}
						return
					}
				}
				out["freevar:"+a.Name()] = true
			case *ssa.FieldAddr:
				f := FieldOf(a)
				out["field:"+ownerName(a.X.Type())+"."+f.Name()] = true
			case *ssa.IndexAddr:
				walk(a.X)
			case *ssa.Global:
				out["global:"+a.Name()] = true
			default:
				// load through a pointer value: the data belongs to whatever the pointer came from
				walk(a)
			}
		case *ssa.TypeAssert:
			walk(x.X)
		case *ssa.Field:
			f := FieldOf(x)
			out["field:"+ownerName(x.X.Type())+"."+f.Name()] = true
		case *ssa.Call:
			out["call:"+CalleeName(x)] = true
		case *ssa.Extract:
			walk(x.Tuple)
		case *ssa.Alloc:
			out["alloc"] = true
		case *ssa.MakeSlice, *ssa.MakeMap, *ssa.MakeChan:
			out["alloc"] = true
		case *ssa.Convert:
			walk(x.X)
		case *ssa.ChangeType:
			walk(x.X)
		case *ssa.ChangeInterface:
			walk(x.X)
		case *ssa.MakeInterface:
			walk(x.X)
		case *ssa.Slice:
			walk(x.X)
		case *ssa.BinOp:
			out["binop"] = true
		case *ssa.FreeVar:
			if b := FreeVarBinding(x); b != nil {
				walk(b)
			} else {
				out["freevar:"+x.Name()] = true
			}
		default:
			out["other:"+v.Name()] = true
		}
	}
	walk(v)
	return out
}

func ownerName(t types.Type) string {
	if p, ok := t.Underlying().(*types.Pointer); ok {
		t = p.Elem()
	}
	if n, ok := t.(*types.Named); ok {
		return n.Obj().Name()
	}
	return t.String()
}

// OwnerName is exported.
func OwnerName(t types.Type) string { return ownerName(t) }
