package sx

// SSA-level inliner.
//
// Path rules (must-pass-through, per-iteration counting, lock sets, typestate)
// are decided on one function's control-flow graph. A behaviour-preserving
// "extract helper" refactoring moves part of that graph into another function
// of the same package; the property still holds, the per-function rule no
// longer sees it. Inline builds a deep copy of a function in which calls to
// chosen callees are replaced by a copy of the callee's blocks:
//
//   - every instruction, parameter, free variable and anonymous function is a
//     fresh object (go/ssa values are tied to their function by Referrers,
//     Block and Parent, so sharing them would let an analysis wander into the
//     original), registered in origOf for diagnostics and call-graph look-ups;
//   - a callee's parameters are replaced by the caller's argument values, its
//     returns by jumps to the continuation, its results by a phi there (or the
//     value itself when there is one return);
//   - a callee whose defers are all in its entry block has them run, as plain
//     calls in reverse order, where the callee's RunDefers was (FromDefer marks
//     them); callees with conditional defers or a recover block stay calls;
//   - constant results are threaded: when a continuation only tests a result
//     that each return fixes to a constant, every return jumps straight to the
//     branch it selects, so `if !helper() { return }` costs no precision.
//
// The copy is a well-formed go/ssa function (Blocks, Preds/Succs, phi edge
// order, Referrers, dominator tree, Index), so every analysis of this package
// runs on it unchanged. A handful of unexported go/ssa fields (an instruction's
// block, a block's parent and dominator info, a register's number and type)
// have no setter outside the package; they are written through reflect+unsafe.
// That is confined to this file and is checked by Verify on every copy.

import (
	"fmt"
	"go/constant"
	"go/token"
	"go/types"
	"os"
	"reflect"
	"sort"
	"unsafe"

	"golang.org/x/tools/go/ssa"
)

// InlinePolicy decides whether the static call caller→callee is expanded.
type InlinePolicy func(caller, callee *ssa.Function, depth int) bool

// Inlined is the result of Inline.
type Inlined struct {
	Fn        *ssa.Function
	Of        *ssa.Function
	Expanded  []*ssa.Function                   // callees whose bodies were copied in (with repetitions)
	FromDefer map[ssa.Instruction]bool          // calls that stand for a defer of an expanded callee
	From      map[ssa.Instruction]*ssa.Function // copy → the source function its original belongs to
}

var (
	origOf     = map[ssa.Instruction]ssa.Instruction{}
	origFn     = map[*ssa.Function]*ssa.Function{}
	inlinedRes = map[*ssa.Function]*Inlined{}
)

// OrigInstr maps an instruction of an inlined copy to the source instruction it copies (identity otherwise).
func OrigInstr(in ssa.Instruction) ssa.Instruction {
	for {
		o, ok := origOf[in]
		if !ok {
			return in
		}
		in = o
	}
}

// OrigFunc maps an inlined copy (or a copied closure) to the source function.
func OrigFunc(fn *ssa.Function) *ssa.Function {
	for {
		o, ok := origFn[fn]
		if !ok {
			return fn
		}
		fn = o
	}
}

// InlineInfo returns the record of an inlined copy, or nil.
func InlineInfo(fn *ssa.Function) *Inlined { return inlinedRes[fn] }

// SourceFunc is the source function whose code an instruction is (for copies: the expanded callee).
func SourceFunc(in ssa.Instruction) *ssa.Function {
	o := OrigInstr(in)
	if o.Block() != nil && o.Block().Parent() != nil {
		return OrigFunc(o.Block().Parent())
	}
	return OrigFunc(in.Parent())
}

// ---- unexported-field access ----

func setUnexported(ptr any, name string, val any) {
	v := reflect.ValueOf(ptr).Elem()
	f := v.FieldByName(name)
	if !f.IsValid() {
		panic(fmt.Sprintf("sx/inline: %T has no field %s (go/ssa layout changed)", ptr, name))
	}
	w := reflect.NewAt(f.Type(), unsafe.Pointer(f.UnsafeAddr())).Elem()
	if val == nil {
		w.Set(reflect.Zero(f.Type()))
		return
	}
	w.Set(reflect.ValueOf(val).Convert(f.Type()))
}

func shallowCopy[T any](p *T) *T {
	c := new(T)
	reflect.ValueOf(c).Elem().Set(reflect.ValueOf(p).Elem())
	return c
}

func cloneInstr(in ssa.Instruction) ssa.Instruction {
	rv := reflect.ValueOf(in)
	nv := reflect.New(rv.Elem().Type())
	nv.Elem().Set(rv.Elem())
	out := nv.Interface().(ssa.Instruction)
	switch x := out.(type) {
	case *ssa.Call:
		x.Call.Args = append([]ssa.Value(nil), x.Call.Args...)
	case *ssa.Go:
		x.Call.Args = append([]ssa.Value(nil), x.Call.Args...)
	case *ssa.Defer:
		x.Call.Args = append([]ssa.Value(nil), x.Call.Args...)
	case *ssa.Phi:
		x.Edges = append([]ssa.Value(nil), x.Edges...)
	case *ssa.Return:
		x.Results = append([]ssa.Value(nil), x.Results...)
	case *ssa.MakeClosure:
		x.Bindings = append([]ssa.Value(nil), x.Bindings...)
	case *ssa.Select:
		st := make([]*ssa.SelectState, len(x.States))
		for i, s := range x.States {
			c := *s
			st[i] = &c
		}
		x.States = st
	}
	if v, ok := out.(ssa.Value); ok {
		if r := v.Referrers(); r != nil {
			*r = nil
		}
	}
	return out
}

// ---- builder ----

type lazyRef struct { // a value of another frame, resolved once all frames are built
	fr *frame
	v  ssa.Value
}

type callRef struct { // result #idx of an expanded call
	exp *expansion
	idx int
}

type retSite struct {
	block   *ssa.BasicBlock
	results []ssa.Value
}

type expansion struct {
	callee *frame
	rets   []retSite
	cont   *ssa.BasicBlock
	phis   []*ssa.Phi // one per result when len(rets) != 1
}

type frame struct {
	fn     *ssa.Function
	env    map[ssa.Value]any // orig value → ssa.Value | lazyRef | callRef
	head   map[*ssa.BasicBlock]*ssa.BasicBlock
	tail   map[*ssa.BasicBlock]*ssa.BasicBlock
	depth  int
	stack  []*ssa.Function
	inl    bool
	defers []*ssa.Defer
	exp    *expansion // the expansion this frame is the callee of
	expand map[*ssa.Call]bool
}

type pending struct {
	in ssa.Instruction
	fr *frame
}

type builder struct {
	nf     *ssa.Function
	policy InlinePolicy
	res    *Inlined
	blocks []*ssa.BasicBlock
	todo   []pending
	phis   []*expansion
}

// Inline returns a deep copy of fn with the calls chosen by policy expanded.
func Inline(fn *ssa.Function, policy InlinePolicy) *Inlined {
	return inlineFunc(fn, nil, policy)
}

var underConstruction []*ssa.Function

func inlineFunc(fn *ssa.Function, parent *ssa.Function, policy InlinePolicy) *Inlined {
	underConstruction = append(underConstruction, fn)
	defer func() { underConstruction = underConstruction[:len(underConstruction)-1] }()
	nf := shallowCopy(fn)
	res := &Inlined{Fn: nf, Of: fn, FromDefer: map[ssa.Instruction]bool{}, From: map[ssa.Instruction]*ssa.Function{}}
	b := &builder{nf: nf, policy: policy, res: res}
	nf.Blocks, nf.Locals, nf.AnonFuncs, nf.Recover = nil, nil, nil, nil
	setUnexported(nf, "referrers", nil)
	if parent != nil {
		setUnexported(nf, "parent", parent)
	}
	origFn[nf] = fn
	inlinedRes[nf] = res
	root := &frame{fn: fn, env: map[ssa.Value]any{}, stack: []*ssa.Function{fn}}
	nf.Params = make([]*ssa.Parameter, len(fn.Params))
	for i, p := range fn.Params {
		c := shallowCopy(p)
		setUnexported(c, "parent", nf)
		setUnexported(c, "referrers", nil)
		nf.Params[i] = c
		root.env[p] = ssa.Value(c)
	}
	nf.FreeVars = make([]*ssa.FreeVar, len(fn.FreeVars))
	for i, p := range fn.FreeVars {
		c := shallowCopy(p)
		setUnexported(c, "parent", nf)
		setUnexported(c, "referrers", nil)
		nf.FreeVars[i] = c
		root.env[p] = ssa.Value(c)
	}
	b.frame(root)
	if fn.Recover != nil {
		nf.Recover = root.head[fn.Recover]
	}
	// pass 2: operands
	for _, e := range b.phis {
		for i, ph := range e.phis {
			ph.Edges = make([]ssa.Value, len(e.rets))
			for j, r := range e.rets {
				ph.Edges[j] = b.resolve(e.callee, r.results[i])
			}
		}
	}
	for _, pd := range b.todo {
		var buf [8]*ssa.Value
		for _, op := range pd.in.Operands(buf[:0]) {
			if *op != nil {
				*op = b.resolve(pd.fr, *op)
			}
		}
	}
	nf.Blocks = b.blocks
	prune(nf)
	for i := 0; i < 8; i++ {
		dropDeadClosures(nf)
		forwardStores(nf)
		t := thread(nf)
		prune(nf)
		simplifyPhis(nf, nil)
		m := mergeConts(nf)
		f := flattenForwarders(nf)
		if !m && !t && !f {
			break
		}
	}
	finish(nf)
	return res
}

func (b *builder) newBlock(comment string) *ssa.BasicBlock {
	nb := &ssa.BasicBlock{Comment: comment}
	setUnexported(nb, "parent", b.nf)
	b.blocks = append(b.blocks, nb)
	return nb
}

func (b *builder) emit(blk *ssa.BasicBlock, in ssa.Instruction, fr *frame, orig ssa.Instruction) {
	setUnexported(in, "block", blk)
	blk.Instrs = append(blk.Instrs, in)
	if orig != nil {
		origOf[in] = orig
		b.res.From[in] = OrigFunc(fr.fn)
	}
	if fr != nil {
		b.todo = append(b.todo, pending{in, fr})
	}
}

func link(from, to *ssa.BasicBlock) {
	from.Succs = append(from.Succs, to)
	to.Preds = append(to.Preds, from)
}

func (b *builder) canExpand(fr *frame, c *ssa.Call) *ssa.Function {
	if b.policy == nil {
		return nil
	}
	callee := StaticCallee(c)
	if callee == nil || callee.Blocks == nil {
		return nil
	}
	if _, isMC := c.Call.Value.(*ssa.MakeClosure); !isMC && len(callee.FreeVars) > 0 {
		return nil
	}
	for _, s := range fr.stack {
		if s == callee {
			return nil
		}
	}
	for _, s := range underConstruction {
		if s == callee {
			return nil
		}
	}
	// defers: only unconditional ones (entry block), and none that may recover a panic — such a callee is a
	// panic barrier, a frame of its own, and stays a call
	for i, blk := range callee.Blocks {
		for _, in := range blk.Instrs {
			d, isD := in.(*ssa.Defer)
			if !isD {
				continue
			}
			if i != 0 && !deferPlaceable(callee, d) {
				return nil
			}
			if _, isBuiltin := d.Call.Value.(*ssa.Builtin); isBuiltin {
				continue
			}
			target := StaticCallee(d)
			if target == nil {
				if d.Call.IsInvoke() {
					continue // an interface method cannot call recover() for this frame
				}
				return nil
			}
			if mayRecover(target) {
				return nil
			}
		}
	}
	if !b.policy(fr.stack[0], callee, fr.depth+1) {
		return nil
	}
	return callee
}

// deferPlaceable: a defer outside the entry block can be run as a plain call at the function's exits when it is
// registered at most once (not in a loop) and every exit it can reach is dominated by it — then "was it registered?"
// has the same answer on every path to that exit.
func deferPlaceable(fn *ssa.Function, d *ssa.Defer) bool {
	db := d.Block()
	// reachable blocks from the defer's block (through successors)
	reach := map[*ssa.BasicBlock]bool{}
	var walk func(b *ssa.BasicBlock)
	walk = func(b *ssa.BasicBlock) {
		for _, s := range b.Succs {
			if !reach[s] {
				reach[s] = true
				walk(s)
			}
		}
	}
	walk(db)
	if reach[db] {
		return false
	}
	for _, blk := range fn.Blocks {
		for _, in := range blk.Instrs {
			if _, ok := in.(*ssa.RunDefers); ok && blk != db && reach[blk] && !db.Dominates(blk) {
				return false
			}
		}
	}
	return true
}

// defersAt: the defers of fn registered on every path to the exit rd, in registration order.
func defersAt(fn *ssa.Function, rd *ssa.RunDefers) []*ssa.Defer {
	var out []*ssa.Defer
	rb := rd.Block()
	for _, blk := range fn.Blocks {
		if blk != rb && !blk.Dominates(rb) {
			continue
		}
		for _, in := range blk.Instrs {
			if in == ssa.Instruction(rd) {
				break
			}
			if d, ok := in.(*ssa.Defer); ok {
				out = append(out, d)
			}
		}
	}
	sort.SliceStable(out, func(i, j int) bool {
		bi, bj := out[i].Block(), out[j].Block()
		if bi == bj {
			return false // instruction order within a block is kept by the stable sort
		}
		return bi.Dominates(bj)
	})
	return out
}

// mayRecover: fn calls the builtin recover directly (only a directly deferred function can stop a panic).
func mayRecover(fn *ssa.Function) bool {
	for _, blk := range fn.Blocks {
		for _, in := range blk.Instrs {
			if c, ok := in.(ssa.CallInstruction); ok {
				if b, ok := c.Common().Value.(*ssa.Builtin); ok && b.Name() == "recover" {
					return true
				}
			}
		}
	}
	return false
}

func (b *builder) frame(fr *frame) {
	fr.head = map[*ssa.BasicBlock]*ssa.BasicBlock{}
	fr.tail = map[*ssa.BasicBlock]*ssa.BasicBlock{}
	fr.expand = map[*ssa.Call]bool{}
	for _, ob := range fr.fn.Blocks {
		nb := b.newBlock(ob.Comment)
		fr.head[ob] = nb
	}
	for _, ob := range fr.fn.Blocks {
		for _, in := range ob.Instrs {
			if c, ok := in.(*ssa.Call); ok && b.canExpand(fr, c) != nil {
				fr.expand[c] = true
			}
		}
	}
	// anonymous functions created in this frame's function (closures, and capture-less literals used as plain values)
	cloneAnon := func(af *ssa.Function) {
		if _, done := fr.env[af]; done {
			return
		}
		sub := inlineFunc(af, b.nf, b.policy)
		setUnexported(sub.Fn, "anonIdx", int32(len(b.nf.AnonFuncs)))
		b.nf.AnonFuncs = append(b.nf.AnonFuncs, sub.Fn)
		fr.env[af] = ssa.Value(sub.Fn)
		for k, v := range sub.FromDefer {
			b.res.FromDefer[k] = v
		}
		for k, v := range sub.From {
			b.res.From[k] = v
		}
		b.res.Expanded = append(b.res.Expanded, sub.Expanded...)
	}
	for _, ob := range fr.fn.Blocks {
		for _, in := range ob.Instrs {
			var buf [8]*ssa.Value
			for _, op := range in.Operands(buf[:0]) {
				if af, ok := (*op).(*ssa.Function); ok && af.Parent() == fr.fn && af.Blocks != nil {
					cloneAnon(af)
				}
			}
		}
	}
	for _, ob := range fr.fn.Blocks {
		cur := fr.head[ob]
		for _, in := range ob.Instrs {
			switch x := in.(type) {
			case *ssa.Call:
				if !fr.expand[x] {
					break
				}
				callee := StaticCallee(x)
				cf := &frame{fn: callee, env: map[ssa.Value]any{}, depth: fr.depth + 1, stack: append(append([]*ssa.Function(nil), fr.stack...), callee), inl: true}
				for i, p := range callee.Params {
					cf.env[p] = lazyRef{fr, x.Call.Args[i]}
				}
				if mc, ok := x.Call.Value.(*ssa.MakeClosure); ok {
					for i, fv := range callee.FreeVars {
						cf.env[fv] = lazyRef{fr, mc.Bindings[i]}
					}
				}
				exp := &expansion{callee: cf}
				cf.exp = exp
				exp.cont = b.newBlock("inline.cont:" + callee.Name())
				b.res.Expanded = append(b.res.Expanded, callee)
				b.frame(cf)
				j := &ssa.Jump{}
				b.emit(cur, j, nil, nil)
				origOf[j] = x
				link(cur, cf.head[callee.Blocks[0]])
				nres := callee.Signature.Results().Len()
				if len(exp.rets) != 1 {
					for i := 0; i < nres; i++ {
						ph := &ssa.Phi{Comment: callee.Name() + "#" + fmt.Sprint(i)}
						setUnexported(ph, "typ", callee.Signature.Results().At(i).Type())
						setUnexported(ph, "pos", x.Pos())
						b.emit(exp.cont, ph, nil, nil)
						origOf[ph] = x
						exp.phis = append(exp.phis, ph)
					}
					b.phis = append(b.phis, exp)
				}
				if nres == 1 {
					fr.env[x] = callRef{exp, 0}
				} else {
					fr.env[x] = callRef{exp, -1}
				}
				cur = exp.cont
				continue
			case *ssa.Extract:
				if c, ok := x.Tuple.(*ssa.Call); ok && fr.expand[c] {
					fr.env[x] = lazyTuple{fr, c, x.Index}
					continue
				}
			case *ssa.Defer:
				if fr.inl {
					fr.defers = append(fr.defers, x)
					continue
				}
			case *ssa.RunDefers:
				if fr.inl {
					ds := defersAt(fr.fn, x)
					for i := len(ds) - 1; i >= 0; i-- {
						d := ds[i]
						c := &ssa.Call{Call: d.Call}
						c.Call.Args = append([]ssa.Value(nil), d.Call.Args...)
						setUnexported(c, "typ", resultType(d.Call.Signature()))
						setUnexported(c, "pos", d.Pos())
						b.emit(cur, c, fr, d)
						b.res.FromDefer[c] = true
					}
					continue
				}
			case *ssa.Return:
				if fr.inl {
					j := &ssa.Jump{}
					b.emit(cur, j, nil, nil)
					origOf[j] = x
					b.res.From[j] = OrigFunc(fr.fn)
					link(cur, fr.exp.cont)
					fr.exp.rets = append(fr.exp.rets, retSite{cur, x.Results})
					continue
				}
			}
			c := cloneInstr(in)
			b.emit(cur, c, fr, in)
			if v, ok := in.(ssa.Value); ok {
				fr.env[v] = c.(ssa.Value)
			}
			if a, ok := c.(*ssa.Alloc); ok && !a.Heap {
				b.nf.Locals = append(b.nf.Locals, a)
			}
		}
		fr.tail[ob] = cur
	}
	for _, ob := range fr.fn.Blocks {
		t := fr.tail[ob]
		if n := len(t.Instrs); n > 0 {
			if _, isJ := t.Instrs[n-1].(*ssa.Jump); isJ && len(t.Succs) > 0 {
				continue // a return turned into a jump to the continuation
			}
		}
		for _, s := range ob.Succs {
			t.Succs = append(t.Succs, fr.head[s])
		}
	}
	// preds in the original order (phi edges are positional)
	for _, ob := range fr.fn.Blocks {
		h := fr.head[ob]
		for _, p := range ob.Preds {
			h.Preds = append(h.Preds, fr.tail[p])
		}
	}
}

type lazyTuple struct {
	fr   *frame
	call *ssa.Call
	idx  int
}

func resultType(sig *types.Signature) types.Type {
	switch sig.Results().Len() {
	case 0:
		return types.NewTuple()
	case 1:
		return sig.Results().At(0).Type()
	}
	return sig.Results()
}

func (b *builder) resolve(fr *frame, v ssa.Value) ssa.Value {
	for i := 0; i < 64; i++ {
		m, ok := fr.env[v]
		if !ok {
			return v // constants, globals, functions, builtins
		}
		switch x := m.(type) {
		case ssa.Value:
			return x
		case lazyRef:
			fr, v = x.fr, x.v
		case lazyTuple:
			cr := x.fr.env[x.call].(callRef)
			if len(cr.exp.rets) == 1 {
				fr, v = cr.exp.callee, cr.exp.rets[0].results[x.idx]
			} else {
				return cr.exp.phis[x.idx]
			}
		case callRef:
			if x.idx < 0 {
				panic("sx/inline: tuple result of an expanded call used other than through Extract in " + fr.fn.String())
			}
			if len(x.exp.rets) == 1 {
				fr, v = x.exp.callee, x.exp.rets[0].results[0]
			} else {
				return x.exp.phis[0]
			}
		}
	}
	panic("sx/inline: value resolution does not terminate")
}

// ---- clean-up passes on the copy ----

func replaceSucc(from, old, to *ssa.BasicBlock) {
	for i, s := range from.Succs {
		if s == old {
			from.Succs[i] = to
		}
	}
}

// prune removes blocks unreachable from the entry (and recover) block, with their phi edges.
func prune(fn *ssa.Function) {
	if len(fn.Blocks) == 0 {
		return
	}
	foldConstIfs(fn)
	reach := map[*ssa.BasicBlock]bool{}
	var walk func(b *ssa.BasicBlock)
	walk = func(b *ssa.BasicBlock) {
		if reach[b] {
			return
		}
		reach[b] = true
		for _, s := range b.Succs {
			walk(s)
		}
	}
	walk(fn.Blocks[0])
	if fn.Recover != nil {
		walk(fn.Recover)
	}
	var keep []*ssa.BasicBlock
	for _, b := range fn.Blocks {
		if !reach[b] {
			continue
		}
		keep = append(keep, b)
		// drop edges from unreachable preds
		var preds []*ssa.BasicBlock
		var idx []int
		for i, p := range b.Preds {
			if reach[p] {
				preds = append(preds, p)
				idx = append(idx, i)
			}
		}
		if len(preds) != len(b.Preds) {
			for _, in := range b.Instrs {
				ph, ok := in.(*ssa.Phi)
				if !ok {
					break
				}
				var e []ssa.Value
				for _, i := range idx {
					e = append(e, ph.Edges[i])
				}
				ph.Edges = e
			}
			b.Preds = preds
		}
	}
	fn.Blocks = keep
}

// constCond: a condition whose value does not depend on anything — a boolean constant, `nil == nil` (a helper that only
// ever returns nil, tested by its caller), a negation of such.
func constCond(v ssa.Value, depth int) (val bool, known bool) {
	if depth > 4 {
		return false, false
	}
	switch x := v.(type) {
	case *ssa.Const:
		if x.Value != nil && x.Value.Kind() == constant.Bool {
			return constant.BoolVal(x.Value), true
		}
	case *ssa.UnOp:
		if x.Op == token.NOT {
			if b, ok := constCond(x.X, depth+1); ok {
				return !b, true
			}
		}
	case *ssa.BinOp:
		if x.Op == token.EQL || x.Op == token.NEQ {
			cx, okx := x.X.(*ssa.Const)
			cy, oky := x.Y.(*ssa.Const)
			if okx && oky && cx.Value == nil && cy.Value == nil && !isBasic(cx.Type()) && !isBasic(cy.Type()) {
				return x.Op == token.EQL, true
			}
		}
	}
	return false, false
}

func isBasic(t types.Type) bool {
	_, ok := t.Underlying().(*types.Basic)
	return ok
}

// foldConstIfs turns `if true/false` (a boolean parameter that became a constant where the callee was expanded) into a
// jump; the edge not taken disappears together with the phi operands that came along it.
func foldConstIfs(fn *ssa.Function) {
	for _, b := range fn.Blocks {
		if len(b.Instrs) == 0 || len(b.Succs) != 2 {
			continue
		}
		iff, ok := b.Instrs[len(b.Instrs)-1].(*ssa.If)
		if !ok {
			continue
		}
		val, known := constCond(iff.Cond, 0)
		if !known {
			continue
		}
		taken, other := b.Succs[0], b.Succs[1]
		if !val {
			taken, other = other, taken
		}
		if taken == other {
			continue
		}
		// remove the edge b → other
		for i, p := range other.Preds {
			if p != b {
				continue
			}
			other.Preds = append(other.Preds[:i:i], other.Preds[i+1:]...)
			for _, in := range other.Instrs {
				ph, ok := in.(*ssa.Phi)
				if !ok {
					break
				}
				ph.Edges = append(ph.Edges[:i:i], ph.Edges[i+1:]...)
			}
			break
		}
		j := &ssa.Jump{}
		setUnexported(j, "block", b)
		origOf[j] = iff
		b.Instrs[len(b.Instrs)-1] = j
		b.Succs = []*ssa.BasicBlock{taken}
	}
}

// constVal evaluates v to a boolean/nil-ness constant under an assignment of the block's phis.
// edgeFacts: what the branches on the way into pred established — walking back from pred through blocks with a
// single predecessor, every `if c` passed on its true (false) edge makes c true (false). Used to decide a test that
// repeats an earlier one on the same values (a helper's `if err != nil { return err }` followed by the caller's).
func edgeFacts(pred *ssa.BasicBlock) map[ssa.Value]bool {
	facts := map[ssa.Value]bool{}
	b := pred
	for steps := 0; steps < 16 && len(b.Preds) == 1; steps++ {
		p := b.Preds[0]
		if iff, ok := p.Instrs[len(p.Instrs)-1].(*ssa.If); ok && len(p.Succs) == 2 && p.Succs[0] != p.Succs[1] {
			facts[iff.Cond] = p.Succs[0] == b
		}
		b = p
	}
	return facts
}

// sameTest: two comparison instructions test the same thing (same operator and operands; constants by value).
func sameTest(a, b ssa.Value) bool {
	same, neg := sameTestNeg(a, b)
	return same && !neg
}

// sameTestNeg: the two comparisons test the same operands; neg reports that one is `==` and the other `!=`.
func sameTestNeg(a, b ssa.Value) (same bool, neg bool) {
	x, ok1 := a.(*ssa.BinOp)
	y, ok2 := b.(*ssa.BinOp)
	if !ok1 || !ok2 {
		return false, false
	}
	switch {
	case x.Op == y.Op:
	case (x.Op == token.EQL && y.Op == token.NEQ) || (x.Op == token.NEQ && y.Op == token.EQL):
		neg = true
	default:
		return false, false
	}
	return sameOperands(x, y), neg
}

func sameOperands(x, y *ssa.BinOp) bool {
	same := func(u, v ssa.Value) bool {
		if u == v {
			return true
		}
		if sameFieldLoad(u, v) || sameFieldLoad(v, u) {
			return true
		}
		cu, ok1 := u.(*ssa.Const)
		cv, ok2 := v.(*ssa.Const)
		if ok1 && ok2 {
			if cu.Value == nil || cv.Value == nil {
				return cu.Value == nil && cv.Value == nil
			}
			return constant.Compare(cu.Value, token.EQL, cv.Value)
		}
		return false
	}
	return same(x.X, y.X) && same(x.Y, y.Y)
}

// sameFieldLoad: a and b load the same field of the same object, b right after the test on a — in the block the
// branch on a leads to, with no store or call before it (`if p.x != nil { return p.x }`).
func sameFieldLoad(a, b ssa.Value) bool {
	la, ok1 := a.(*ssa.UnOp)
	lb, ok2 := b.(*ssa.UnOp)
	if !ok1 || !ok2 || la.Op != token.MUL || lb.Op != token.MUL {
		return false
	}
	fa, ok1 := la.X.(*ssa.FieldAddr)
	fb, ok2 := lb.X.(*ssa.FieldAddr)
	if !ok1 || !ok2 || fa.X != fb.X || fa.Field != fb.Field {
		return false
	}
	ba, bb := la.Block(), lb.Block()
	if ba == nil || bb == nil {
		return false
	}
	okSucc := ba == bb
	for _, s := range ba.Succs {
		if s == bb && len(bb.Preds) == 1 {
			okSucc = true
		}
	}
	if !okSucc {
		return false
	}
	// nothing between the two loads may write memory
	scan := func(blk *ssa.BasicBlock, from, to ssa.Instruction) bool {
		on := from == nil
		for _, in := range blk.Instrs {
			if in == to {
				return true
			}
			if on {
				switch in.(type) {
				case *ssa.Store, *ssa.Call, *ssa.MapUpdate, *ssa.Send, *ssa.Go, *ssa.Defer, *ssa.Select:
					return false
				}
			}
			if in == from {
				on = true
			}
		}
		return true
	}
	if ba == bb {
		return scan(ba, la, lb)
	}
	return scan(ba, la, nil) && scan(bb, nil, lb)
}

var curFacts map[ssa.Value]bool

func evalCond(v ssa.Value, blk *ssa.BasicBlock, edge int, depth int) (val bool, known bool) {
	if depth > 6 {
		return false, false
	}
	if bo, ok := v.(*ssa.BinOp); ok && curFacts != nil {
		// substitute the block's phis by the values of this edge, then look the test up among the established facts
		probe := *bo
		if ph, ok := probe.X.(*ssa.Phi); ok && blk != nil && ph.Block() == blk {
			probe.X = ph.Edges[edge]
		}
		if ph, ok := probe.Y.(*ssa.Phi); ok && blk != nil && ph.Block() == blk {
			probe.Y = ph.Edges[edge]
		}
		for c, truth := range curFacts {
			if same, neg := sameTestNeg(&probe, c); same {
				return truth != neg, true
			}
		}
	}
	switch x := v.(type) {
	case *ssa.Const:
		if x.Value != nil && x.Value.Kind() == constant.Bool {
			return constant.BoolVal(x.Value), true
		}
	case *ssa.Phi:
		if x.Block() == blk {
			return evalCond(x.Edges[edge], nil, 0, depth+1)
		}
	case *ssa.UnOp:
		if x.Op == token.NOT && (blk == nil || x.Block() == blk) {
			b, ok := evalCond(x.X, blk, edge, depth+1)
			return !b, ok
		}
	case *ssa.BinOp:
		if blk != nil && x.Block() == blk {
			// comparison of two integer constants
			cv := func(v ssa.Value) (constant.Value, bool) {
				if ph, ok := v.(*ssa.Phi); ok && ph.Block() == blk {
					v = ph.Edges[edge]
				}
				if c, ok := v.(*ssa.Const); ok && c.Value != nil && c.Value.Kind() == constant.Int {
					return c.Value, true
				}
				return nil, false
			}
			if a, ok := cv(x.X); ok {
				if c, ok := cv(x.Y); ok {
					switch x.Op {
					case token.EQL, token.NEQ, token.LSS, token.LEQ, token.GTR, token.GEQ:
						return constant.Compare(a, x.Op, c), true
					}
				}
			}
		}
		if (x.Op == token.EQL || x.Op == token.NEQ) && (blk == nil || x.Block() == blk) {
			isNil := func(v ssa.Value) (bool, bool) { // (is nil, known)
				if ph, ok := v.(*ssa.Phi); ok && blk != nil && ph.Block() == blk {
					v = ph.Edges[edge]
				}
				if c, ok := v.(*ssa.Const); ok && c.Value == nil {
					return true, true
				}
				switch x := v.(type) {
				case *ssa.MakeInterface, *ssa.Alloc, *ssa.MakeChan, *ssa.MakeMap, *ssa.MakeSlice, *ssa.MakeClosure, *ssa.Function:
					return false, true
				case *ssa.Call:
					switch CalleeName(x) {
					case "errors.New", "fmt.Errorf":
						return false, true // documented to return a non-nil error
					}
				case *ssa.UnOp:
					// a package-level error variable that is assigned once, in its package's initialiser, from a constructor call
					if g, ok := x.X.(*ssa.Global); ok && x.Op == token.MUL && NonNilGlobal(g) {
						return false, true
					}
				}
				return false, false
			}
			xn, xk := isNil(x.X)
			yn, yk := isNil(x.Y)
			if xk && yk && (xn || yn) {
				eq := xn == yn
				if x.Op == token.NEQ {
					eq = !eq
				}
				return eq, true
			}
			// comparison of two boolean constants
			if blk != nil {
				a, ak := evalCond(x.X, blk, edge, depth+1)
				c, ck := evalCond(x.Y, blk, edge, depth+1)
				if ak && ck {
					if x.Op == token.EQL {
						return a == c, true
					}
					return a != c, true
				}
			}
		}
	}
	return false, false
}

// thread redirects the predecessors of a continuation block that only
// tests a phi which that predecessor fixes to a constant.
// mergeConts splices a block into the continuation (or threaded copy) that jumps to it when that is its only
// predecessor, so that a test of an expanded call's result that the source has in the next block can be threaded.
func mergeConts(fn *ssa.Function) bool {
	any := false
	for again := true; again; {
		again = false
		for _, k := range fn.Blocks {
			if len(k.Instrs) == 0 || len(k.Succs) != 1 || len(k.Preds) < 2 {
				continue
			}
			// either side is a block this file made: a continuation after its callee's last block (a named result
			// merged there is tested by the caller in the continuation), or the caller's next block after a continuation
			if !strings_hasPrefix(k.Comment, "inline.cont:") && !strings_hasPrefix(k.Succs[0].Comment, "inline.cont:") {
				continue
			}
			j := k.Succs[0]
			if j == k || len(j.Preds) != 1 || j == fn.Blocks[0] || j == fn.Recover {
				continue
			}
			if _, isJ := k.Instrs[len(k.Instrs)-1].(*ssa.Jump); !isJ {
				continue
			}
			if _, isPhi := j.Instrs[0].(*ssa.Phi); isPhi {
				continue
			}
			k.Instrs = append(k.Instrs[:len(k.Instrs)-1:len(k.Instrs)-1], j.Instrs...)
			for _, in := range j.Instrs {
				setUnexported(in, "block", k)
			}
			k.Succs = j.Succs
			for _, s := range j.Succs {
				for i, p := range s.Preds {
					if p == j {
						s.Preds[i] = k
					}
				}
			}
			j.Instrs, j.Succs, j.Preds = nil, nil, nil
			for i, b := range fn.Blocks {
				if b == j {
					fn.Blocks = append(fn.Blocks[:i:i], fn.Blocks[i+1:]...)
					break
				}
			}
			again, any = true, true
			break
		}
	}
	return any
}

// backEdgeTargets: blocks entered by a DFS back edge (loop headers of a reducible graph).
func backEdgeTargets(fn *ssa.Function) map[*ssa.BasicBlock]bool {
	out := map[*ssa.BasicBlock]bool{}
	state := map[*ssa.BasicBlock]int{}
	var dfs func(b *ssa.BasicBlock)
	dfs = func(b *ssa.BasicBlock) {
		state[b] = 1
		for _, s := range b.Succs {
			switch state[s] {
			case 0:
				dfs(s)
			case 1:
				out[s] = true
			}
		}
		state[b] = 2
	}
	if len(fn.Blocks) > 0 {
		dfs(fn.Blocks[0])
	}
	return out
}

// madeHere: the phi was introduced by this file (a result of an expanded call, a threading repair, or a copy of
// one), as opposed to a copy of a phi of the source program.
func madeHere(ph *ssa.Phi) bool {
	var cur ssa.Instruction = ph
	for i := 0; i < 16; i++ {
		o, ok := origOf[cur]
		if !ok {
			return false
		}
		if _, isPhi := o.(*ssa.Phi); !isPhi {
			return true
		}
		cur = o
	}
	return false
}

// flattenForwarders removes a continuation block that only merges results and jumps on (phis and a jump; its phis
// used only by the phis of its successor): its predecessors branch to the successor directly, whose phis take the
// forwarded values. `for x, ok := next(); ok; x, ok = next()` then has the returns of next() as direct predecessors of
// the loop test, where the constant `ok` of each can be threaded.
func flattenForwarders(fn *ssa.Function) bool {
	any := false
	for again := true; again; {
		again = false
		for _, p := range fn.Blocks {
			if !strings_hasPrefix(p.Comment, "inline.cont:") || len(p.Succs) != 1 || len(p.Preds) < 2 || len(p.Instrs) == 0 {
				continue
			}
			k := p.Succs[0]
			if k == p || k == fn.Blocks[0] {
				continue
			}
			if _, isJ := p.Instrs[len(p.Instrs)-1].(*ssa.Jump); !isJ {
				continue
			}
			pi := -1
			for i, q := range k.Preds {
				if q == p {
					if pi >= 0 {
						pi = -2
					}
					if pi == -1 {
						pi = i
					}
				}
			}
			if pi < 0 {
				continue
			}
			// p: madeHere phis, dead pure instructions, jump
			var phis []*ssa.Phi
			okShape := true
			defs := map[ssa.Value]bool{}
			for _, in := range p.Instrs[:len(p.Instrs)-1] {
				switch x := in.(type) {
				case *ssa.Phi:
					if !madeHere(x) {
						okShape = false
					}
					phis = append(phis, x)
					defs[x] = true
				case *ssa.BinOp, *ssa.UnOp:
					defs[in.(ssa.Value)] = true
				default:
					okShape = false
				}
			}
			if !okShape || len(phis) == 0 {
				continue
			}
			// uses of p's values: only k's phis on the edge from p (pure instructions of p itself may use its phis but must be dead)
			usedElsewhere := false
			for _, b := range fn.Blocks {
				for _, in := range b.Instrs {
					if b == p {
						continue
					}
					_, isPhi := in.(*ssa.Phi)
					var buf [8]*ssa.Value
					for oi, op := range in.Operands(buf[:0]) {
						if *op == nil || !defs[*op] {
							continue
						}
						if _, isP := (*op).(*ssa.Phi); !isP {
							usedElsewhere = true // a computed value of p is live
							continue
						}
						if !(isPhi && b == k && oi == pi) {
							usedElsewhere = true
						}
					}
				}
			}
			for _, in := range p.Instrs[:len(p.Instrs)-1] {
				if _, isPhi := in.(*ssa.Phi); isPhi {
					continue
				}
				var buf [4]*ssa.Value
				_ = buf
			}
			if usedElsewhere {
				continue
			}
			// rewire
			newPreds := append([]*ssa.BasicBlock{}, k.Preds[:pi]...)
			newPreds = append(newPreds, p.Preds...)
			newPreds = append(newPreds, k.Preds[pi+1:]...)
			for _, in := range k.Instrs {
				ph, ok := in.(*ssa.Phi)
				if !ok {
					break
				}
				old := ph.Edges[pi]
				var mid []ssa.Value
				for j := range p.Preds {
					v := old
					if op, isP := old.(*ssa.Phi); isP && op.Block() == p {
						v = op.Edges[j]
					}
					mid = append(mid, v)
				}
				ne := append([]ssa.Value{}, ph.Edges[:pi]...)
				ne = append(ne, mid...)
				ne = append(ne, ph.Edges[pi+1:]...)
				ph.Edges = ne
			}
			for _, q := range p.Preds {
				replaceSucc(q, p, k)
			}
			k.Preds = newPreds
			p.Preds, p.Succs, p.Instrs = nil, nil, nil
			for i, b := range fn.Blocks {
				if b == p {
					fn.Blocks = append(fn.Blocks[:i:i], fn.Blocks[i+1:]...)
					break
				}
			}
			again, any = true, true
			break
		}
	}
	return any
}

// flagPhi: every incoming value is a boolean constant or a phi made by this file: a returned flag, not a loop counter.
func flagPhi(ph *ssa.Phi) bool {
	for _, e := range ph.Edges {
		switch x := e.(type) {
		case *ssa.Const:
			if x.Value == nil || x.Value.Kind() != constant.Bool {
				return false
			}
		case *ssa.Phi:
			if !madeHere(x) {
				return false
			}
		default:
			return false
		}
	}
	return true
}

func thread(fn *ssa.Function) bool {
	any := false
	for changed, rounds := true, 0; changed && rounds < 8; rounds++ {
		changed = false
		headers := backEdgeTargets(fn)
		for _, k := range fn.Blocks {
			if len(k.Preds) < 2 || len(k.Instrs) == 0 {
				continue
			}
			iff, ok := k.Instrs[len(k.Instrs)-1].(*ssa.If)
			if !ok {
				continue
			}
			// the block holds phis, pure operations on them, and the If; nothing defined here is used elsewhere
			simple := true
			nphi := 0
			// the phis the condition depends on
			condPhis := map[*ssa.Phi]bool{}
			{
				var walk func(v ssa.Value, d int)
				walk = func(v ssa.Value, d int) {
					if d > 6 {
						return
					}
					switch x := v.(type) {
					case *ssa.Phi:
						if x.Block() == k {
							condPhis[x] = true
						}
					case *ssa.UnOp:
						if x.Block() == k {
							walk(x.X, d+1)
						}
					case *ssa.BinOp:
						if x.Block() == k {
							walk(x.X, d+1)
							walk(x.Y, d+1)
						}
					}
				}
				walk(iff.Cond, 0)
			}
			for _, in := range k.Instrs[:len(k.Instrs)-1] {
				switch x := in.(type) {
				case *ssa.Phi:
					nphi++
					// only phis this file made (results of an expanded call, threading repairs): a source phi
					// is a loop or branch of the program itself, and peeling it would change the shapes rules match
					// a phi at a loop header is the loop itself: threading its entry edge would peel the loop and
					// change the shapes the rules match; any other phi (a flag set on some branches) is fair game
					if condPhis[x] && !madeHere(x) && headers[k] && !flagPhi(x) {
						simple = false
					}
				case *ssa.UnOp:
					if x.Op != token.NOT {
						simple = false
					}
				case *ssa.BinOp:
					switch x.Op {
					case token.EQL, token.NEQ, token.LSS, token.LEQ, token.GTR, token.GEQ:
					default:
						simple = false
					}
				case *ssa.Store:
					// a result kept in a local cell (`*err = r`): defines nothing, each threaded copy performs it once
					if _, isCell := x.Addr.(*ssa.Alloc); !isCell {
						simple = false
					}
				default:
					simple = false
				}
			}
			if os.Getenv("GLB_THREAD_DEBUG") != "" {
				fmt.Fprintf(os.Stderr, "thread? %s block %q preds=%d simple=%v nphi=%d\n", fn.Name(), k.Comment, len(k.Preds), simple, nphi)
			}
			if !simple || nphi == 0 {
				continue
			}
			// self-loop guard
			selfLoop := false
			for _, s := range k.Succs {
				if s == k {
					selfLoop = true
				}
			}
			if selfLoop {
				continue
			}
			type decided struct {
				pred int
				val  bool
			}
			var dec []decided
			for i := range k.Preds {
				curFacts = edgeFacts(k.Preds[i])
				if v, known := evalCond(iff.Cond, k, i, 0); known {
					dec = append(dec, decided{i, v})
				}
				curFacts = nil
			}
			if os.Getenv("GLB_THREAD_DEBUG") != "" {
				fmt.Fprintf(os.Stderr, "   decided %v cond=%s\n", dec, iff.Cond)
			}
			if len(dec) == 0 {
				continue
			}
			// values defined in k and used outside k need repair after threading: collect them
			var defs []ssa.Value
			for _, in := range k.Instrs[:len(k.Instrs)-1] {
				if v, ok := in.(ssa.Value); ok {
					defs = append(defs, v)
				}
			}
			// new blocks: one per decided outcome
			var fresh [2]*ssa.BasicBlock
			var freshPreds [2][]int
			for _, d := range dec {
				o := 0
				if !d.val {
					o = 1
				}
				freshPreds[o] = append(freshPreds[o], d.pred)
			}
			perDef := map[ssa.Value][2]ssa.Value{}
			for o := 0; o < 2; o++ {
				if len(freshPreds[o]) == 0 {
					continue
				}
				nb := &ssa.BasicBlock{Comment: k.Comment + ".threaded"}
				setUnexported(nb, "parent", fn)
				fresh[o] = nb
				local := map[ssa.Value]ssa.Value{}
				for _, in := range k.Instrs[:len(k.Instrs)-1] {
					c := cloneInstr(in)
					setUnexported(c, "block", nb)
					origOf[c] = in
					if ph, ok := c.(*ssa.Phi); ok {
						var e []ssa.Value
						for _, pi := range freshPreds[o] {
							e = append(e, in.(*ssa.Phi).Edges[pi])
						}
						ph.Edges = e
					} else {
						var buf [4]*ssa.Value
						for _, op := range c.Operands(buf[:0]) {
							if r, ok := local[*op]; ok {
								*op = r
							}
						}
					}
					nb.Instrs = append(nb.Instrs, c)
					if _, isV := in.(ssa.Value); !isV {
						continue
					}
					local[in.(ssa.Value)] = c.(ssa.Value)
					pd := perDef[in.(ssa.Value)]
					pd[o] = c.(ssa.Value)
					perDef[in.(ssa.Value)] = pd
				}
				j := &ssa.Jump{}
				setUnexported(j, "block", nb)
				origOf[j] = iff
				nb.Instrs = append(nb.Instrs, j)
				target := k.Succs[o]
				nb.Succs = []*ssa.BasicBlock{target}
				// the target gains a predecessor: its phis take, on the new edge, what they took from k
				ki := -1
				for i, p := range target.Preds {
					if p == k {
						ki = i
					}
				}
				target.Preds = append(target.Preds, nb)
				for _, in := range target.Instrs {
					ph, ok := in.(*ssa.Phi)
					if !ok {
						break
					}
					v := ph.Edges[ki]
					if r, ok := local[v]; ok {
						v = r
					}
					ph.Edges = append(ph.Edges, v)
				}
				for _, pi := range freshPreds[o] {
					p := k.Preds[pi]
					replaceSucc(p, k, nb)
					nb.Preds = append(nb.Preds, p)
				}
				fn.Blocks = append(fn.Blocks, nb)
			}
			// remove the threaded predecessors from k
			gone := map[int]bool{}
			for _, d := range dec {
				gone[d.pred] = true
			}
			var preds []*ssa.BasicBlock
			var idx []int
			for i, p := range k.Preds {
				if !gone[i] {
					preds = append(preds, p)
					idx = append(idx, i)
				}
			}
			for _, in := range k.Instrs {
				ph, ok := in.(*ssa.Phi)
				if !ok {
					break
				}
				var e []ssa.Value
				for _, i := range idx {
					e = append(e, ph.Edges[i])
				}
				ph.Edges = e
			}
			k.Preds = preds
			if len(k.Preds) == 0 {
				// k is dead: detach it
				for _, s := range k.Succs {
					for i, p := range s.Preds {
						if p == k {
							s.Preds = append(s.Preds[:i:i], s.Preds[i+1:]...)
							for _, in := range s.Instrs {
								ph, ok := in.(*ssa.Phi)
								if !ok {
									break
								}
								ph.Edges = append(ph.Edges[:i:i], ph.Edges[i+1:]...)
							}
							break
						}
					}
				}
				k.Succs = nil
			}
			repairUses(fn, k, fresh, defs, perDef)
			changed, any = true, true
			break // block list changed: restart
		}
	}
	return any
}

// repairUses rewrites the uses, outside k and its threaded copies, of values
// defined in k: each use reads the definition that reaches it (Braun et al.,
// "Simple and Efficient Construction of SSA Form": read-variable with phi
// insertion at joins, trivial phis removed afterwards).
func repairUses(fn *ssa.Function, k *ssa.BasicBlock, fresh [2]*ssa.BasicBlock, defs []ssa.Value, perDef map[ssa.Value][2]ssa.Value) {
	inK := map[*ssa.BasicBlock]bool{k: true}
	for _, f := range fresh {
		if f != nil {
			inK[f] = true
		}
	}
	kAlive := len(k.Preds) > 0
	var created []*ssa.Phi
	for _, d := range defs {
		createdFor := map[*ssa.Phi]bool{} // the phis this repair of d inserts (their edges are already what read() yields)
		d := d
		atEnd := map[*ssa.BasicBlock]ssa.Value{}
		if kAlive {
			atEnd[k] = d
		}
		for o, f := range fresh {
			if f != nil {
				atEnd[f] = perDef[d][o]
			}
		}
		var read func(b *ssa.BasicBlock) ssa.Value
		read = func(b *ssa.BasicBlock) ssa.Value {
			if v, ok := atEnd[b]; ok {
				return v
			}
			switch len(b.Preds) {
			case 0:
				// no definition reaches here (a path that does not pass the split block: the value is never used on it):
				// a typed zero stands for "undefined", so that nothing refers to the split block once it is gone
				z := zeroOf(d.Type())
				atEnd[b] = z
				return z
			case 1:
				// no memo while the chain is being followed: a cycle always contains a join, whose phi is memoised first
				v := read(b.Preds[0])
				atEnd[b] = v
				return v
			}
			ph := &ssa.Phi{Comment: "threaded:" + d.Name()}
			setUnexported(ph, "typ", d.Type())
			setUnexported(ph, "block", b)
			if in, ok := d.(ssa.Instruction); ok {
				origOf[ph] = in
			}
			atEnd[b] = ph
			ph.Edges = make([]ssa.Value, len(b.Preds))
			for i, p := range b.Preds {
				ph.Edges[i] = read(p)
			}
			b.Instrs = append([]ssa.Instruction{ph}, b.Instrs...)
			created = append(created, ph)
			createdFor[ph] = true
			return ph
		}
		for _, b := range fn.Blocks {
			if inK[b] {
				continue
			}
			for _, in := range b.Instrs {
				if ph, ok := in.(*ssa.Phi); ok {
					if createdFor[ph] {
						continue
					}
					for i, e := range ph.Edges {
						if e == d && i < len(b.Preds) {
							ph.Edges[i] = read(b.Preds[i])
						}
					}
					continue
				}
				var buf [8]*ssa.Value
				for _, op := range in.Operands(buf[:0]) {
					if *op == d {
						*op = read(b) // nothing in b (outside k) defines d: the value at b's end is the value at the use
					}
				}
			}
		}
	}
	// remove trivial phis
	for again := true; again; {
		again = false
		for ci, ph := range created {
			if ph == nil {
				continue
			}
			var same ssa.Value
			trivial := true
			for _, e := range ph.Edges {
				if e == ssa.Value(ph) || e == same {
					continue
				}
				if same != nil {
					trivial = false
					break
				}
				same = e
			}
			if !trivial || same == nil {
				continue
			}
			for _, b := range fn.Blocks {
				for _, in := range b.Instrs {
					var buf [8]*ssa.Value
					for _, op := range in.Operands(buf[:0]) {
						if *op == ssa.Value(ph) {
							*op = same
						}
					}
				}
			}
			blk := ph.Block()
			for i, in := range blk.Instrs {
				if in == ssa.Instruction(ph) {
					blk.Instrs = append(blk.Instrs[:i:i], blk.Instrs[i+1:]...)
					break
				}
			}
			created[ci] = nil
			again = true
		}
	}
}

func zeroOf(t types.Type) ssa.Value {
	if b, ok := t.Underlying().(*types.Basic); ok {
		switch {
		case b.Info()&types.IsBoolean != 0:
			return ssa.NewConst(constant.MakeBool(false), t)
		case b.Info()&types.IsString != 0:
			return ssa.NewConst(constant.MakeString(""), t)
		case b.Info()&types.IsNumeric != 0:
			return ssa.NewConst(constant.MakeInt64(0), t)
		}
	}
	return ssa.NewConst(nil, t)
}

func strings_hasPrefix(s, p string) bool { return len(s) >= len(p) && s[:len(p)] == p }

func origBlocks(fn *ssa.Function) map[ssa.Instruction]bool {
	m := map[ssa.Instruction]bool{}
	for _, b := range fn.Blocks {
		for _, in := range b.Instrs {
			if ph, ok := in.(*ssa.Phi); ok {
				m[ph] = true
			}
		}
	}
	return m
}

// simplifyPhis removes the phis this file introduced (continuation and
// threading phis) that have a single distinct operand: uses read the operand
// directly, so value patterns (x & mask[n], a field load) are matched as in
// the callee's own body. Phis copied from source functions are left alone.
func simplifyPhis(fn *ssa.Function, keep map[ssa.Instruction]bool) {
	for again := true; again; {
		again = false
		for _, b := range fn.Blocks {
			for i := 0; i < len(b.Instrs); i++ {
				ph, ok := b.Instrs[i].(*ssa.Phi)
				if !ok {
					break
				}
				if !madeHere(ph) && len(ph.Edges) > 1 {
					continue // a source phi that still merges
				}
				var same ssa.Value
				trivial := true
				for _, e := range ph.Edges {
					if e == ssa.Value(ph) || e == same {
						continue
					}
					if same != nil {
						trivial = false
						break
					}
					same = e
				}
				if !trivial || same == nil {
					continue
				}
				for _, bb := range fn.Blocks {
					for _, in := range bb.Instrs {
						var buf [8]*ssa.Value
						for _, op := range in.Operands(buf[:0]) {
							if *op == ssa.Value(ph) {
								*op = same
							}
						}
					}
				}
				b.Instrs = append(b.Instrs[:i:i], b.Instrs[i+1:]...)
				i--
				again = true
			}
		}
	}
	_ = keep
}

// dropDeadClosures removes MakeClosure instructions nothing refers to any more (the closure was handed to a helper that
// was expanded in place together with the closure's body): the variables it captured become private cells again.
func dropDeadClosures(fn *ssa.Function) {
	used := map[ssa.Value]bool{}
	for _, b := range fn.Blocks {
		for _, in := range b.Instrs {
			if _, isDbg := in.(*ssa.DebugRef); isDbg {
				continue
			}
			var buf [8]*ssa.Value
			for _, op := range in.Operands(buf[:0]) {
				if *op != nil {
					used[*op] = true
				}
			}
		}
	}
	for _, b := range fn.Blocks {
		var keep []ssa.Instruction
		for _, in := range b.Instrs {
			if mc, ok := in.(*ssa.MakeClosure); ok && !used[mc] {
				continue
			}
			if dr, ok := in.(*ssa.DebugRef); ok {
				if mc, isMC := dr.X.(*ssa.MakeClosure); isMC && !used[mc] {
					continue
				}
			}
			keep = append(keep, in)
		}
		b.Instrs = keep
	}
}

// forwardStores replaces a load of a private local cell by the value stored to it earlier in the same block
// (`*err = r; t = *err; if t != nil` — a named result spilled because of a defer): the test of an expanded call's
// result can then be threaded like a direct one. A cell is private when it is only stored to and loaded from.
func forwardStores(fn *ssa.Function) bool {
	private := map[*ssa.Alloc]bool{}
	for _, b := range fn.Blocks {
		for _, in := range b.Instrs {
			if a, ok := in.(*ssa.Alloc); ok {
				private[a] = true
			}
		}
	}
	for _, b := range fn.Blocks {
		for _, in := range b.Instrs {
			var buf [8]*ssa.Value
			for _, op := range in.Operands(buf[:0]) {
				a, ok := (*op).(*ssa.Alloc)
				if !ok {
					continue
				}
				switch x := in.(type) {
				case *ssa.Store:
					if x.Addr == ssa.Value(a) && x.Val != ssa.Value(a) {
						continue
					}
				case *ssa.UnOp:
					if x.Op == token.MUL {
						continue
					}
				case *ssa.DebugRef:
					continue
				}
				delete(private, a)
			}
		}
	}
	// closures of fn that capture the cell were excluded above (MakeClosure operand)
	any := false
	repl := map[ssa.Value]ssa.Value{}
	for _, b := range fn.Blocks {
		last := map[*ssa.Alloc]ssa.Value{}
		var keep []ssa.Instruction
		for _, in := range b.Instrs {
			switch x := in.(type) {
			case *ssa.Store:
				if a, ok := x.Addr.(*ssa.Alloc); ok && private[a] {
					v := x.Val
					if r, ok := repl[v]; ok {
						v = r
					}
					last[a] = v
				}
			case *ssa.UnOp:
				if a, ok := x.X.(*ssa.Alloc); ok && x.Op == token.MUL && private[a] {
					if v, ok := last[a]; ok {
						repl[x] = v
						any = true
						continue
					}
				}
			}
			keep = append(keep, in)
		}
		b.Instrs = keep
	}
	// a private cell written exactly once, in the entry block before anything can read it (a captured parameter or local
	// spilled for a closure that has since been expanded): every load of it, in whatever block, is the stored value
	{
		stores := map[*ssa.Alloc][]*ssa.Store{}
		for _, b := range fn.Blocks {
			for _, in := range b.Instrs {
				if st, ok := in.(*ssa.Store); ok {
					if a, ok := st.Addr.(*ssa.Alloc); ok && private[a] {
						stores[a] = append(stores[a], st)
					}
				}
			}
		}
		for a, sts := range stores {
			if len(sts) != 1 || len(fn.Blocks) == 0 || sts[0].Block() != fn.Blocks[0] || a.Block() != fn.Blocks[0] {
				continue
			}
			// no load of the cell precedes the store in the entry block
			early := false
			for _, in := range fn.Blocks[0].Instrs {
				if in == ssa.Instruction(sts[0]) {
					break
				}
				if ld, ok := in.(*ssa.UnOp); ok && ld.Op == token.MUL && ld.X == ssa.Value(a) {
					early = true
				}
			}
			if early {
				continue
			}
			v := sts[0].Val
			if r, ok := repl[v]; ok {
				v = r
			}
			for _, b := range fn.Blocks {
				var keep []ssa.Instruction
				for _, in := range b.Instrs {
					if ld, ok := in.(*ssa.UnOp); ok && ld.Op == token.MUL && ld.X == ssa.Value(a) {
						repl[ld] = v
						any = true
						continue
					}
					keep = append(keep, in)
				}
				b.Instrs = keep
			}
		}
	}
	if !any {
		return false
	}
	for _, b := range fn.Blocks {
		for _, in := range b.Instrs {
			var buf [8]*ssa.Value
			for _, op := range in.Operands(buf[:0]) {
				if r, ok := repl[*op]; ok {
					for {
						r2, more := repl[r]
						if !more {
							break
						}
						r = r2
					}
					*op = r
				}
			}
		}
	}
	return true
}

// finish numbers blocks and registers, rebuilds referrers and the dominator tree.
func finish(fn *ssa.Function) {
	for i, b := range fn.Blocks {
		b.Index = i
	}
	// referrers
	clear := func(v ssa.Value) {
		if r := v.Referrers(); r != nil {
			*r = nil
		}
	}
	for _, p := range fn.Params {
		clear(p)
	}
	for _, p := range fn.FreeVars {
		clear(p)
	}
	for _, b := range fn.Blocks {
		for _, in := range b.Instrs {
			if v, ok := in.(ssa.Value); ok {
				clear(v)
			}
		}
	}
	for _, af := range fn.AnonFuncs {
		clear(af)
	}
	num := 0
	for _, b := range fn.Blocks {
		for _, in := range b.Instrs {
			if b != in.Block() {
				setUnexported(in, "block", b)
			}
			if _, ok := in.(ssa.Value); ok {
				setUnexported(in, "num", num)
				num++
			}
			var buf [8]*ssa.Value
			for _, op := range in.Operands(buf[:0]) {
				if *op == nil {
					continue
				}
				if r := (*op).Referrers(); r != nil {
					*r = append(*r, in)
				}
			}
		}
	}
	buildDom(fn)
}

func buildDom(fn *ssa.Function) {
	if len(fn.Blocks) == 0 {
		return
	}
	// reverse post-order from the entry (and the recover block as a second root)
	var order []*ssa.BasicBlock
	seen := map[*ssa.BasicBlock]bool{}
	var dfs func(b *ssa.BasicBlock)
	dfs = func(b *ssa.BasicBlock) {
		seen[b] = true
		for _, s := range b.Succs {
			if !seen[s] {
				dfs(s)
			}
		}
		order = append(order, b)
	}
	roots := []*ssa.BasicBlock{fn.Blocks[0]}
	dfs(fn.Blocks[0])
	if fn.Recover != nil && !seen[fn.Recover] {
		roots = append(roots, fn.Recover)
		dfs(fn.Recover)
	}
	rpo := map[*ssa.BasicBlock]int{}
	for i := range order {
		rpo[order[len(order)-1-i]] = i
	}
	idom := map[*ssa.BasicBlock]*ssa.BasicBlock{}
	isRoot := map[*ssa.BasicBlock]bool{}
	for _, r := range roots {
		idom[r] = r
		isRoot[r] = true
	}
	intersect := func(a, b *ssa.BasicBlock) *ssa.BasicBlock {
		for a != b {
			for rpo[a] > rpo[b] {
				if idom[a] == a {
					return nil
				}
				a = idom[a]
			}
			for rpo[b] > rpo[a] {
				if idom[b] == b {
					return nil
				}
				b = idom[b]
			}
		}
		return a
	}
	for changed := true; changed; {
		changed = false
		for i := len(order) - 1; i >= 0; i-- {
			b := order[i]
			if isRoot[b] {
				continue
			}
			var nw *ssa.BasicBlock
			for _, p := range b.Preds {
				if idom[p] == nil {
					continue
				}
				if nw == nil {
					nw = p
				} else if x := intersect(p, nw); x != nil {
					nw = x
				}
			}
			if nw != nil && idom[b] != nw {
				idom[b] = nw
				changed = true
			}
		}
	}
	children := map[*ssa.BasicBlock][]*ssa.BasicBlock{}
	for _, b := range fn.Blocks {
		if d := idom[b]; d != nil && d != b {
			children[d] = append(children[d], b)
		}
	}
	var pre, post int32
	var number func(b *ssa.BasicBlock)
	setDom := func(b *ssa.BasicBlock, name string, val any) {
		dv := reflect.ValueOf(b).Elem().FieldByName("dom")
		f := dv.FieldByName(name)
		w := reflect.NewAt(f.Type(), unsafe.Pointer(f.UnsafeAddr())).Elem()
		if val == nil {
			w.Set(reflect.Zero(f.Type()))
		} else {
			w.Set(reflect.ValueOf(val))
		}
	}
	number = func(b *ssa.BasicBlock) {
		setDom(b, "pre", pre)
		pre++
		setDom(b, "children", children[b])
		for _, c := range children[b] {
			number(c)
		}
		setDom(b, "post", post)
		post++
	}
	for _, r := range roots {
		setDom(r, "idom", nil)
		number(r)
	}
	for _, b := range fn.Blocks {
		if d := idom[b]; d != nil && d != b {
			setDom(b, "idom", d)
		}
	}
}

// Verify checks the structural invariants the analyses of this package rely
// on; it returns a description of the first problem found, or "".
func Verify(fn *ssa.Function) string {
	present := map[ssa.Instruction]bool{}
	for _, b := range fn.Blocks {
		for _, in := range b.Instrs {
			present[in] = true
		}
	}
	for i, b := range fn.Blocks {
		if b.Index != i {
			return fmt.Sprintf("block %d has Index %d", i, b.Index)
		}
		if b.Parent() != fn {
			return fmt.Sprintf("block %d has a foreign parent", i)
		}
		if len(b.Instrs) == 0 {
			return fmt.Sprintf("block %d is empty", i)
		}
		for _, s := range b.Succs {
			found := false
			for _, p := range s.Preds {
				if p == b {
					found = true
				}
			}
			if !found {
				return fmt.Sprintf("block %d → %d: not among the successor's preds", i, s.Index)
			}
		}
		for _, p := range b.Preds {
			found := false
			for _, s := range p.Succs {
				if s == b {
					found = true
				}
			}
			if !found {
				return fmt.Sprintf("block %d has pred %d which does not branch to it", i, p.Index)
			}
		}
		switch t := b.Instrs[len(b.Instrs)-1].(type) {
		case *ssa.If:
			if len(b.Succs) != 2 {
				return fmt.Sprintf("block %d: If with %d successors", i, len(b.Succs))
			}
		case *ssa.Jump:
			if len(b.Succs) != 1 {
				return fmt.Sprintf("block %d: Jump with %d successors", i, len(b.Succs))
			}
		case *ssa.Return, *ssa.Panic:
			if len(b.Succs) != 0 {
				return fmt.Sprintf("block %d: exit with successors", i)
			}
		default:
			return fmt.Sprintf("block %d ends in %T", i, t)
		}
		for _, in := range b.Instrs {
			if in.Block() != b {
				return fmt.Sprintf("block %d: instruction %s belongs to another block", i, in)
			}
			if ph, ok := in.(*ssa.Phi); ok && len(ph.Edges) != len(b.Preds) {
				return fmt.Sprintf("block %d: phi %s has %d edges for %d preds", i, ph.Name(), len(ph.Edges), len(b.Preds))
			}
			var buf [8]*ssa.Value
			for _, op := range in.Operands(buf[:0]) {
				if *op == nil {
					continue
				}
				switch d := (*op).(type) {
				case ssa.Instruction:
					if !present[d] {
						return fmt.Sprintf("block %d: %s uses %s = %s (block %q), which is not an instruction of the function (removed or never inserted)", i, in, (*op).Name(), d.String(), d.Block().Comment)
					}
					if d.Block() == nil || d.Block().Parent() != fn {
						return fmt.Sprintf("block %d: %s uses %s of another function", i, in, (*op).Name())
					}
					inRecover := fn.Recover != nil && (fn.Recover == b || fn.Recover.Dominates(b))
					if _, isPhi := in.(*ssa.Phi); !isPhi && !inRecover && d.Block() != b && !d.Block().Dominates(b) {
						return fmt.Sprintf("block %d: %s uses %s whose definition (block %d) does not dominate it", i, in, (*op).Name(), d.Block().Index)
					}
				case *ssa.Parameter:
					if d.Parent() != fn {
						return fmt.Sprintf("block %d: %s uses a parameter of another function", i, in)
					}
				case *ssa.FreeVar:
					if d.Parent() != fn {
						return fmt.Sprintf("block %d: %s uses a free variable of another function", i, in)
					}
				}
			}
		}
	}
	return ""
}

var globalStores map[*ssa.Program]map[*ssa.Global][]*ssa.Store

// NonNilGlobal: g is written exactly once in the whole program, by its own
// package's initialiser, with the result of errors.New / fmt.Errorf or a
// fresh allocation: a load of g after initialisation is never nil.
func NonNilGlobal(g *ssa.Global) bool {
	if g == nil || g.Pkg == nil {
		return false
	}
	prog := g.Pkg.Prog
	if globalStores == nil {
		globalStores = map[*ssa.Program]map[*ssa.Global][]*ssa.Store{}
	}
	m, ok := globalStores[prog]
	if !ok {
		m = map[*ssa.Global][]*ssa.Store{}
		var scan func(fn *ssa.Function)
		scan = func(fn *ssa.Function) {
			for _, b := range fn.Blocks {
				for _, in := range b.Instrs {
					if st, ok := in.(*ssa.Store); ok {
						if gg, ok := st.Addr.(*ssa.Global); ok {
							m[gg] = append(m[gg], st)
						}
					}
				}
			}
			for _, a := range fn.AnonFuncs {
				scan(a)
			}
		}
		for _, pkg := range prog.AllPackages() {
			for _, mem := range pkg.Members {
				switch x := mem.(type) {
				case *ssa.Function:
					scan(x)
				case *ssa.Type:
					for _, t := range []types.Type{x.Type(), types.NewPointer(x.Type())} {
						ms := prog.MethodSets.MethodSet(t)
						for i := 0; i < ms.Len(); i++ {
							if f := prog.MethodValue(ms.At(i)); f != nil && f.Pkg == pkg {
								scan(f)
							}
						}
					}
				}
			}
		}
		globalStores[prog] = m
	}
	sts := m[g]
	if len(sts) != 1 {
		return false
	}
	st := sts[0]
	if OrigFunc(st.Parent()).Name() != "init" || OrigFunc(st.Parent()).Pkg != g.Pkg {
		return false
	}
	v := st.Val
	if mi, ok := v.(*ssa.MakeInterface); ok {
		_ = mi
		return true
	}
	if c, ok := v.(*ssa.Call); ok {
		switch CalleeName(c) {
		case "errors.New", "fmt.Errorf":
			return true
		}
	}
	return false
}
