// Package sx holds small helpers over go/ssa used by every rule:
// resolved callee names, canonical access paths, select arms, edge-cut
// reachability and path counting.
package sx

import (
	"fmt"
	"go/constant"
	"go/token"
	"go/types"
	"regexp"
	"strings"

	"golang.org/x/tools/go/ssa"
)

var instRe = regexp.MustCompile(`\[[^\[\]]*\]`)

// CalleeName returns a stable, type-resolved name of what a call invokes:
//
//	static function/method: "strconv.AppendInt", "(*sync.Mutex).Lock"
//	interface method:       "(io.Writer).Write"
//	builtin:                "builtin.append"
//	dynamic func value:     "dynamic"
//
// Generic instantiation brackets are stripped ("(*sync/atomic.Pointer).Store").
func CalleeName(c ssa.CallInstruction) string {
	cc := c.Common()
	if cc.IsInvoke() {
		recv := cc.Value.Type()
		return "(" + types.TypeString(recv, nil) + ")." + cc.Method.Name()
	}
	switch f := cc.Value.(type) {
	case *ssa.Builtin:
		return "builtin." + f.Name()
	case *ssa.Function:
		return FuncName(f)
	case *ssa.MakeClosure:
		return FuncName(f.Fn.(*ssa.Function))
	case *ssa.UnOp:
		if fn := constFuncGlobal(f); fn != nil {
			return FuncName(fn)
		}
	}
	return "dynamic"
}

// FuncName is fn.String() with generic instantiations stripped.
func FuncName(f *ssa.Function) string {
	if f == nil {
		return "nil"
	}
	if o := f.Origin(); o != nil {
		f = o
	}
	s := f.String()
	for {
		t := instRe.ReplaceAllString(s, "")
		if t == s {
			break
		}
		s = t
	}
	return s
}

// StaticCallee returns the statically known callee (function, method or
// immediately-called closure), else nil.
func StaticCallee(c ssa.CallInstruction) *ssa.Function {
	cc := c.Common()
	if cc.IsInvoke() {
		return nil
	}
	switch f := cc.Value.(type) {
	case *ssa.Function:
		return f
	case *ssa.MakeClosure:
		return f.Fn.(*ssa.Function)
	case *ssa.UnOp:
		if fn := constFuncGlobal(f); fn != nil {
			return fn
		}
	}
	return nil
}

var constFuncCache = map[*ssa.Global]*ssa.Function{}

// constFuncGlobal: v loads a package-level variable of function type that is assigned exactly once in the program — in
// its package's initialiser, a named function (`var osOpen = os.Open`) — and whose address is never taken otherwise:
// a call through it is a call of that function.
func constFuncGlobal(v *ssa.UnOp) *ssa.Function {
	if v.Op != token.MUL {
		return nil
	}
	g, ok := v.X.(*ssa.Global)
	if !ok || g.Pkg == nil {
		return nil
	}
	if fn, done := constFuncCache[g]; done {
		return fn
	}
	constFuncCache[g] = nil
	if _, isSig := ptrElem(g.Type()).Underlying().(*types.Signature); !isSig {
		return nil
	}
	var val *ssa.Function
	n := 0
	okUses := true
	for _, m := range g.Pkg.Members {
		fn, ok := m.(*ssa.Function)
		if !ok {
			continue
		}
		var fns []*ssa.Function
		fns = append(fns, fn)
		fns = append(fns, fn.AnonFuncs...)
		for _, f := range fns {
			for _, b := range f.Blocks {
				for _, in := range b.Instrs {
					switch x := in.(type) {
					case *ssa.Store:
						if x.Addr == ssa.Value(g) {
							n++
							if f.Name() != "init" {
								okUses = false
							}
							if fv, ok := x.Val.(*ssa.Function); ok {
								val = fv
							} else {
								okUses = false
							}
						}
					case *ssa.UnOp:
					default:
						var buf [8]*ssa.Value
						for _, op := range in.Operands(buf[:0]) {
							if *op == ssa.Value(g) {
								okUses = false // address taken some other way
							}
						}
					}
				}
			}
		}
	}
	// methods of the package's types
	if n == 1 && okUses && val != nil {
		constFuncCache[g] = val
		return val
	}
	return nil
}

func ptrElem(t types.Type) types.Type {
	if p, ok := t.Underlying().(*types.Pointer); ok {
		return p.Elem()
	}
	return t
}

// ResolveFuncValue resolves a function value that is a constant of the program — a function, a closure, or a
// method value (`x.m`, go/ssa's bound-method wrapper) — possibly passed through a captured variable. For a method
// value it returns the method and the bound receiver as extra leading argument.
func ResolveFuncValue(v ssa.Value) (*ssa.Function, []ssa.Value) {
	v = Unspill(v)
	if ct, ok := v.(*ssa.ChangeType); ok {
		v = Unspill(ct.X)
	}
	switch x := v.(type) {
	case *ssa.Function:
		return x, nil
	case *ssa.MakeClosure:
		fn := x.Fn.(*ssa.Function)
		if OrigFunc(fn).Synthetic != "" && len(x.Bindings) == 1 {
			// bound method wrapper: its body is one call of the method on the bound receiver
			var target *ssa.Function
			for _, b := range OrigFunc(fn).Blocks {
				for _, in := range b.Instrs {
					if c, ok := in.(*ssa.Call); ok && target == nil {
						target = c.Call.StaticCallee()
					}
				}
			}
			if target != nil {
				return target, []ssa.Value{x.Bindings[0]}
			}
		}
		return fn, nil
	}
	return nil, nil
}

// Args returns the actual arguments including the receiver for method calls
// (for invoke-mode calls the receiver is cc.Value and comes first).
func Args(c ssa.CallInstruction) []ssa.Value {
	cc := c.Common()
	if cc.IsInvoke() {
		return append([]ssa.Value{cc.Value}, cc.Args...)
	}
	return cc.Args
}

// ---- cells (spilled variables) ----

// CellStores returns every value stored into the local variable cell a,
// in its function and in closures that capture it. ok is false when the
// cell's address escapes in a way we do not follow.
func CellStores(a *ssa.Alloc) (vals []ssa.Value, ok bool) {
	ok = true
	var visit func(addr ssa.Value)
	seen := map[ssa.Value]bool{}
	visit = func(addr ssa.Value) {
		if seen[addr] {
			return
		}
		seen[addr] = true
		refs := addr.Referrers()
		if refs == nil {
			return
		}
		for _, r := range *refs {
			switch r := r.(type) {
			case *ssa.Store:
				if r.Addr == addr {
					vals = append(vals, r.Val)
				} else {
					ok = false // the address itself is stored somewhere
				}
			case *ssa.UnOp: // load
			case *ssa.MakeClosure:
				fn := r.Fn.(*ssa.Function)
				for i, b := range r.Bindings {
					if b == addr {
						visit(fn.FreeVars[i])
					}
				}
			case *ssa.DebugRef:
			case *ssa.FieldAddr, *ssa.IndexAddr:
				// partial writes through the cell: treat as unknown extra store
				ok = false
			default:
				// passed to a call etc.
				ok = false
			}
		}
	}
	visit(a)
	return vals, ok
}

// Unspill resolves a load from a single-assignment cell to the value stored,
// and a free variable to the value bound by its (unique) MakeClosure.
func Unspill(v ssa.Value) ssa.Value {
	for i := 0; i < 16; i++ {
		switch x := v.(type) {
		case *ssa.UnOp:
			if x.Op != token.MUL {
				return v
			}
			switch a := x.X.(type) {
			case *ssa.Alloc:
				st, ok := CellStores(a)
				if ok && len(st) == 1 {
					v = st[0]
					continue
				}
			case *ssa.FreeVar:
				if b := FreeVarBinding(a); b != nil {
					if al, ok := b.(*ssa.Alloc); ok {
						st, ok := CellStores(al)
						if ok && len(st) == 1 {
							v = st[0]
							continue
						}
					}
				}
			}
			return v
		case *ssa.FreeVar:
			if b := FreeVarBinding(x); b != nil {
				v = b
				continue
			}
			return v
		case *ssa.ChangeType:
			v = x.X
			continue
		}
		return v
	}
	return v
}

// FreeVarBinding returns the value bound to fv where its closure is created
// (nil if the closure is created at more than one site).
func FreeVarBinding(fv *ssa.FreeVar) ssa.Value {
	fn := fv.Parent()
	parent := fn.Parent()
	if parent == nil {
		return nil
	}
	idx := -1
	for i, f := range fn.FreeVars {
		if f == fv {
			idx = i
		}
	}
	var found ssa.Value
	n := 0
	for _, b := range parent.Blocks {
		for _, in := range b.Instrs {
			if mc, ok := in.(*ssa.MakeClosure); ok && mc.Fn == fn {
				found = mc.Bindings[idx]
				n++
			}
		}
	}
	if n == 1 {
		return found
	}
	return nil
}

// ---- canonical access paths ----

// ValPath renders the source-level expression whose value v is, as far as it
// can be determined: "tl.ctx", "f.ipList[i][1]", "h.outMu", "42", "call strconv.Itoa#t3".
func ValPath(v ssa.Value) string { return valPath(v, 0) }

func valPath(v ssa.Value, d int) string {
	if v == nil {
		return ""
	}
	if d > 12 {
		return "…"
	}
	v = Unspill(v)
	switch x := v.(type) {
	case *ssa.Parameter:
		return x.Name()
	case *ssa.FreeVar:
		return x.Name()
	case *ssa.Global:
		return x.Pkg.Pkg.Name() + "." + x.Name()
	case *ssa.Const:
		if x.Value == nil {
			return "nil"
		}
		return x.Value.ExactString()
	case *ssa.UnOp:
		if x.Op == token.MUL {
			return addrPath(x.X, d+1)
		}
		return x.Op.String() + valPath(x.X, d+1)
	case *ssa.Field:
		return valPath(x.X, d+1) + "." + fieldName(x.X.Type(), x.Field)
	case *ssa.FieldAddr, *ssa.IndexAddr:
		return "&" + addrPath(v, d+1)
	case *ssa.Index:
		return valPath(x.X, d+1) + "[" + valPath(x.Index, d+1) + "]"
	case *ssa.Lookup:
		return valPath(x.X, d+1) + "[" + valPath(x.Index, d+1) + "]"
	case *ssa.Alloc:
		return "&" + allocName(x)
	case *ssa.Convert:
		return valPath(x.X, d+1)
	case *ssa.ChangeInterface:
		return valPath(x.X, d+1)
	case *ssa.MakeInterface:
		return valPath(x.X, d+1)
	case *ssa.BinOp:
		return "(" + valPath(x.X, d+1) + x.Op.String() + valPath(x.Y, d+1) + ")"
	case *ssa.Call:
		return "call " + CalleeName(x) + "#" + x.Name()
	case *ssa.Extract:
		return valPath(x.Tuple, d+1) + "#" + fmt.Sprint(x.Index)
	case *ssa.Function:
		return FuncName(x)
	}
	return v.Name()
}

// AddrPath renders the location an address value points to.
func AddrPath(a ssa.Value) string { return addrPath(a, 0) }

func addrPath(a ssa.Value, d int) string {
	if d > 12 {
		return "…"
	}
	switch x := a.(type) {
	case *ssa.FieldAddr:
		return valPath(x.X, d+1) + "." + fieldName(x.X.Type(), x.Field)
	case *ssa.IndexAddr:
		base := ""
		if _, isPtr := x.X.Type().Underlying().(*types.Pointer); isPtr {
			// pointer to array: the array lives at that address
			base = addrPath(x.X, d+1)
		} else {
			base = valPath(x.X, d+1)
		}
		return base + "[" + valPath(x.Index, d+1) + "]"
	case *ssa.Alloc:
		return allocName(x)
	case *ssa.Global:
		return x.Pkg.Pkg.Name() + "." + x.Name()
	case *ssa.FreeVar:
		if b := FreeVarBinding(x); b != nil {
			return addrPath(b, d+1)
		}
		return "*" + x.Name()
	}
	return "*" + valPath(a, d+1)
}

func allocName(a *ssa.Alloc) string {
	if a.Comment != "" {
		return a.Comment + "@" + a.Name()
	}
	return a.Name()
}

func fieldName(t types.Type, i int) string {
	if p, ok := t.Underlying().(*types.Pointer); ok {
		t = p.Elem()
	}
	if s, ok := t.Underlying().(*types.Struct); ok && i < s.NumFields() {
		return s.Field(i).Name()
	}
	return fmt.Sprintf("#%d", i)
}

// FieldOf returns the struct field object a FieldAddr/Field instruction selects.
func FieldOf(v ssa.Value) *types.Var {
	var t types.Type
	var i int
	switch x := v.(type) {
	case *ssa.FieldAddr:
		t, i = x.X.Type(), x.Field
	case *ssa.Field:
		t, i = x.X.Type(), x.Field
	default:
		return nil
	}
	if p, ok := t.Underlying().(*types.Pointer); ok {
		t = p.Elem()
	}
	if s, ok := t.Underlying().(*types.Struct); ok && i < s.NumFields() {
		return s.Field(i)
	}
	return nil
}

// ConstInt returns the integer value of a constant SSA value.
func ConstInt(v ssa.Value) (int64, bool) {
	// an integer conversion of a constant (left behind where a helper taking the number as a parameter was expanded)
	if cv, ok := v.(*ssa.Convert); ok {
		k, isC := ConstInt(cv.X)
		b, isB := cv.Type().Underlying().(*types.Basic)
		if !isC || !isB || b.Info()&types.IsInteger == 0 {
			return 0, false
		}
		switch b.Kind() {
		case types.Uint8:
			return int64(uint8(k)), true
		case types.Uint16:
			return int64(uint16(k)), true
		case types.Uint32:
			return int64(uint32(k)), true
		case types.Int8:
			return int64(int8(k)), true
		case types.Int16:
			return int64(int16(k)), true
		case types.Int32:
			return int64(int32(k)), true
		}
		return k, true
	}
	// a byte of a constant string at a constant index (`mark[0]` with mark a string constant)
	var sv, iv ssa.Value
	switch x := v.(type) {
	case *ssa.Index:
		sv, iv = x.X, x.Index
	case *ssa.Lookup:
		sv, iv = x.X, x.Index
	}
	if sv != nil {
		if str, ok := ConstString(sv); ok {
			if k, ok := ConstInt(iv); ok && k >= 0 && k < int64(len(str)) {
				return int64(str[k]), true
			}
		}
		return 0, false
	}
	c, ok := v.(*ssa.Const)
	if !ok || c.Value == nil || c.Value.Kind() != constant.Int {
		return 0, false
	}
	return c.Int64(), true
}

// ConstString returns the string value of a constant SSA value.
func ConstString(v ssa.Value) (string, bool) {
	c, ok := v.(*ssa.Const)
	if !ok || c.Value == nil || c.Value.Kind() != constant.String {
		// an element of a package-level table of constant strings that is written nowhere but in its initialiser and
		// whose entries are all the same string (a one-entry table): that string, whatever the index
		var tab *ssa.Global
		if ix, isIx := v.(*ssa.Index); isIx { // `for _, x := range table`: go/ssa indexes a copy of the array
			if ld, isLd := ix.X.(*ssa.UnOp); isLd && ld.Op == token.MUL {
				tab, _ = ld.X.(*ssa.Global)
			}
		}
		if tab != nil {
			if vals := constStringTable(tab); len(vals) > 0 {
				same := true
				for _, x := range vals {
					if x != vals[0] {
						same = false
					}
				}
				if same {
					return vals[0], true
				}
			}
		}
		if ld, isLd := v.(*ssa.UnOp); isLd && ld.Op == token.MUL {
			if ia, isIA := ld.X.(*ssa.IndexAddr); isIA {
				if g, isG := ia.X.(*ssa.Global); isG {
					if vals := constStringTable(g); len(vals) > 0 {
						same := true
						for _, x := range vals {
							if x != vals[0] {
								same = false
							}
						}
						if same {
							return vals[0], true
						}
					}
				}
			}
		}
		return "", false
	}
	return constant.StringVal(c.Value), true
}

var constTableCache = map[*ssa.Global][]string{}

// constStringTable: the entries of a package-level array of strings initialised with constants and never written
// afterwards (nor handed out by address); nil otherwise.
func constStringTable(g *ssa.Global) []string {
	if vals, done := constTableCache[g]; done {
		return vals
	}
	constTableCache[g] = nil
	arr, ok := ptrElem(g.Type()).Underlying().(*types.Array)
	if !ok || g.Pkg == nil {
		return nil
	}
	if b, isB := arr.Elem().Underlying().(*types.Basic); !isB || b.Kind() != types.String {
		return nil
	}
	vals := make([]string, arr.Len())
	got := make([]bool, arr.Len())
	okAll := true
	for _, m := range g.Pkg.Members {
		fn, ok := m.(*ssa.Function)
		if !ok {
			continue
		}
		for _, f := range WithClosures(fn) {
			for _, b := range f.Blocks {
				for _, in := range b.Instrs {
					ia, isIA := in.(*ssa.IndexAddr)
					if !isIA || ia.X != ssa.Value(g) || ia.Referrers() == nil {
						if _, isLd := in.(*ssa.UnOp); !isLd {
							var buf [8]*ssa.Value
							for _, op := range in.Operands(buf[:0]) {
								if op != nil && *op == ssa.Value(g) && !isIA {
									if st, isSt := in.(*ssa.Store); isSt && st.Addr == ssa.Value(g) {
										continue // judged below
									}
									okAll = false // the table's address is used in some other way
								}
							}
						}
						continue
					}
					for _, u := range *ia.Referrers() {
						switch x := u.(type) {
						case *ssa.Store:
							k, isK := ConstInt(ia.Index)
							c, isC := x.Val.(*ssa.Const)
							if f.Name() != "init" || !isK || !isC || c.Value == nil || c.Value.Kind() != constant.String || x.Addr != ssa.Value(ia) || k < 0 || k >= arr.Len() {
								okAll = false
								continue
							}
							vals[k], got[k] = constant.StringVal(c.Value), true
						case *ssa.UnOp, *ssa.DebugRef:
						default:
							okAll = false
						}
					}
				}
			}
		}
	}
	// initialised as a whole from a local literal: `t := local [n]string; t[k] = c…; *g = *t` in init
	for _, m := range g.Pkg.Members {
		fn, ok := m.(*ssa.Function)
		if !ok {
			continue
		}
		for _, f := range WithClosures(fn) {
			for _, b := range f.Blocks {
				for _, in := range b.Instrs {
					st, isSt := in.(*ssa.Store)
					if !isSt || st.Addr != ssa.Value(g) {
						continue
					}
					ld, isLd := st.Val.(*ssa.UnOp)
					if f.Name() != "init" || !isLd {
						okAll = false
						continue
					}
					lit, isLit := ld.X.(*ssa.Alloc)
					if !isLit || lit.Referrers() == nil {
						okAll = false
						continue
					}
					for _, u := range *lit.Referrers() {
						ia, isIA := u.(*ssa.IndexAddr)
						if !isIA || ia.Referrers() == nil {
							continue
						}
						k, isK := ConstInt(ia.Index)
						for _, uu := range *ia.Referrers() {
							if s2, ok := uu.(*ssa.Store); ok && s2.Addr == ssa.Value(ia) {
								c, isC := s2.Val.(*ssa.Const)
								if !isK || !isC || c.Value == nil || c.Value.Kind() != constant.String || k < 0 || k >= arr.Len() {
									okAll = false
									continue
								}
								vals[k], got[k] = constant.StringVal(c.Value), true
							}
						}
					}
				}
			}
		}
	}
	for _, gk := range got {
		if !gk {
			okAll = false
		}
	}
	if !okAll {
		return nil
	}
	constTableCache[g] = vals
	return vals
}

// IsNilConst reports whether v is the nil constant.
func IsNilConst(v ssa.Value) bool {
	c, ok := v.(*ssa.Const)
	return ok && c.Value == nil
}

// Instrs iterates over all instructions of fn.
func Instrs(fn *ssa.Function, f func(ssa.Instruction)) {
	for _, b := range fn.Blocks {
		for _, in := range b.Instrs {
			f(in)
		}
	}
}

// WithClosures returns fn and every anonymous function nested in it.
func WithClosures(fn *ssa.Function) []*ssa.Function {
	out := []*ssa.Function{fn}
	for _, a := range fn.AnonFuncs {
		out = append(out, WithClosures(a)...)
	}
	return out
}

// IsUnreachablePanic reports whether b is the synthetic block go/ssa emits
// after a blocking select ("blocking select matched no case").
func IsUnreachablePanic(b *ssa.BasicBlock) bool {
	if len(b.Instrs) == 0 {
		return false
	}
	p, ok := b.Instrs[len(b.Instrs)-1].(*ssa.Panic)
	if !ok {
		return false
	}
	if mi, ok := p.X.(*ssa.MakeInterface); ok {
		if s, ok := ConstString(mi.X); ok && strings.HasPrefix(s, "blocking select matched no case") {
			return true
		}
	}
	return false
}
